/-
  C07 — property theorems (model: ShelxModel/C07.lean).

  Quantified over ALL files (lists of physical lines with arbitrary flags/classes), ALL printers that satisfy
  the stated facts, ALL include-file systems, ALL numbers of read/write cycles.
-/
import ShelxModel.C07
import Mathlib.Tactic.Ring
import Mathlib.Tactic.Linarith
import Mathlib.Tactic.FieldSimp

namespace Shelx.C07

variable {α : Type}

/-! ### the written file as a fold over the physical lines -/

/-- what `write` prints for the lines of `f`, parsed from state `s`, when the tables hold `tv` -/
def outAux (P : Printer α) (tv : Tab → List α) (s : St) : List (PLine α) → List (PLine α)
  | [] => []
  | l :: rest => emit P tv (step s l).1 ++ outAux P tv (step s l).2 rest

theorem flatMap_parseAux (P : Printer α) (tv : Tab → List α) (s : St) (f : List (PLine α)) :
    (parseAux s f).flatMap (emit P tv) = outAux P tv s f := by
  induction f generalizing s with
  | nil => rfl
  | cons l rest ih => simp [parseAux, outAux, ih]

theorem cycle_eq (P : Printer α) (f : List (PLine α)) :
    cycle P f = outAux P (fun t => tableVals t (parse f)) {} f := by
  simp [cycle, write, parse, flatMap_parseAux]

theorem outAux_append (P : Printer α) (tv : Tab → List α) (s : St) (a b : List (PLine α)) :
    outAux P tv s (a ++ b) = outAux P tv s a ++ outAux P tv ((a.foldl (fun s l => (step s l).2) s)) b := by
  induction a generalizing s with
  | nil => rfl
  | cons l rest ih => simp [outAux, ih, List.append_assoc]

/-! ### facts about the printers that the theorems use -/

/-- all but the last line of a printed logical line end in `=` -/
def contChain : List (PLine α) → Bool
  | [] => false
  | [l] => !l.cont
  | l :: l' :: r => l.cont && contChain (l' :: r)

/-- `h :: cs` is one printed logical line: it starts in column one, is continued exactly over `cs`, and is
    an ordinary line of the written file -/
def Group (h : PLine α) (cs : List (PLine α)) : Prop :=
  h.skip = false ∧ contChain (h :: cs) = true ∧ ∀ l ∈ h :: cs, l.spliced = false

def groupVals : List (PLine α) → List α
  | [] => []
  | h :: _ => h.vals

/-- the printers keep the line's class and key (keyword, first token), and print well-formed logical lines.
    These are facts about `cards.py`/`Atom.__str__`/`wrap_line`; the harness checks them on every written file. -/
structure PrinterOk (P : Printer α) (kw : Tab → α) : Prop where
  card : ∀ l : PLine α, l.cls = .obj ∨ l.cls = .atom →
    ∃ h cs, P.card l = h :: cs ∧ Group h cs ∧ h.cls = l.cls ∧ h.key = l.key
  table_ne : ∀ t vs, P.table t vs ≠ []
  table : ∀ t vs, ∀ g ∈ P.table t vs, ∃ h cs, g = h :: cs ∧ Group h cs ∧ h.cls = .tab t ∧ h.key.1 = kw t

/-- per-class idempotence: printing what was read back from a printed line prints the same line -/
structure Stable (P : Printer α) (kw : Tab → α) : Prop extends PrinterOk P kw where
  card_idem : ∀ l h cs, (l.cls = .obj ∨ l.cls = .atom) → P.card l = h :: cs → P.card h = h :: cs
  table_vals : ∀ t vs, (P.table t vs).flatMap groupVals = vs

/-- keyword and class of a head agree: the SFAC (FVAR) keyword is used by exactly the lines that feed the table.
    Excludes a bare `SFAC`/`FVAR` line without values (no table entry, stays text: the code keeps it in place,
    so it would not be coalesced although the specification's lexer sees the keyword). -/
def KeyOk [DecidableEq α] (kw : Tab → α) (l : PLine α) : Prop := ∀ t, l.cls = .tab t ↔ l.key.1 = kw t

/-! ### logical lines of printed groups -/

theorem logicalHeads_chain (h : PLine α) (cs rest : List (PLine α)) (hc : contChain (h :: cs) = true) :
    logicalHeads h.cont (cs ++ rest) = logicalHeads false rest := by
  induction cs generalizing h with
  | nil =>
    simp [contChain] at hc
    simp [hc]
  | cons c cs ih =>
    simp [contChain] at hc
    simp [hc.1, logicalHeads]
    exact ih c hc.2

theorem logicalHeads_group (h : PLine α) (cs rest : List (PLine α)) (hg : Group h cs) :
    logicalHeads false (h :: cs ++ rest) = h :: logicalHeads false rest := by
  obtain ⟨h1, h2, _⟩ := hg
  simp [logicalHeads, h1, logicalHeads_chain h cs rest h2]

/-! ### coalescing depends on the lines before only through the two table keywords -/

theorem coalesceFrom_congr [DecidableEq α] (kw : Tab → α) (b b' : List α) (ks : List (α × Option α))
    (h : ∀ t, kw t ∈ b ↔ kw t ∈ b') : coalesceFrom kw b ks = coalesceFrom kw b' ks := by
  induction ks generalizing b b' with
  | nil => rfl
  | cons k ks ih =>
    have hcons : ∀ t, kw t ∈ k.1 :: b ↔ kw t ∈ k.1 :: b' := by
      intro t; simp only [List.mem_cons]; rw [h t]
    have hk : ((k.1 = kw .sfac ∨ k.1 = kw .fvar) ∧ k.1 ∈ b) ↔ ((k.1 = kw .sfac ∨ k.1 = kw .fvar) ∧ k.1 ∈ b') := by
      constructor
      · rintro ⟨h1 | h1, h2⟩
        · exact ⟨Or.inl h1, by rw [h1] at h2 ⊢; exact (h _).1 h2⟩
        · exact ⟨Or.inr h1, by rw [h1] at h2 ⊢; exact (h _).1 h2⟩
      · rintro ⟨h1 | h1, h2⟩
        · exact ⟨Or.inl h1, by rw [h1] at h2 ⊢; exact (h _).2 h2⟩
        · exact ⟨Or.inr h1, by rw [h1] at h2 ⊢; exact (h _).2 h2⟩
    simp only [coalesceFrom]
    by_cases hc : (k.1 = kw .sfac ∨ k.1 = kw .fvar) ∧ k.1 ∈ b
    · rw [if_pos hc, if_pos (hk.1 hc)]; exact ih _ _ hcons
    · rw [if_neg hc, if_neg (fun h' => hc (hk.2 h'))]; rw [ih _ _ hcons]

/-! ### order_preserved -/

theorem coalesce_groups [DecidableEq α] (kw : Tab → α) (t : Tab) (gs : List (List (PLine α))) (X : List (PLine α))
    (b : List α) (hb : kw t ∈ b)
    (hg : ∀ g ∈ gs, ∃ h cs, g = h :: cs ∧ Group h cs ∧ h.cls = .tab t ∧ h.key.1 = kw t) :
    coalesceFrom kw b ((logicalHeads false (gs.flatten ++ X)).map (keyOf kw))
      = coalesceFrom kw b ((logicalHeads false X).map (keyOf kw)) := by
  induction gs generalizing b with
  | nil => simp
  | cons g gs ih =>
    obtain ⟨h, cs, rfl, hgr, _, hk⟩ := hg g (List.mem_cons_self ..)
    have hg' : ∀ g ∈ gs, ∃ h cs, g = h :: cs ∧ Group h cs ∧ h.cls = .tab t ∧ h.key.1 = kw t :=
      fun g hm => hg g (List.mem_cons_of_mem _ hm)
    have e' : List.flatten ((h :: cs) :: gs) ++ X = h :: cs ++ (gs.flatten ++ X) := by simp
    rw [e', logicalHeads_group h cs _ hgr]
    have hkey : (keyOf kw h).1 = kw t := by
      unfold keyOf; split <;> exact hk
    have htab : (keyOf kw h).1 = kw .sfac ∨ (keyOf kw h).1 = kw .fvar := by
      rw [hkey]; cases t <;> simp
    simp only [List.map_cons, coalesceFrom]
    rw [if_pos ⟨htab, by rw [hkey]; exact hb⟩]
    rw [coalesceFrom_congr kw ((keyOf kw h).1 :: b) b _ (by intro t'; rw [hkey]; simp [List.mem_cons]; intro h'; rw [h']; exact hb)]
    exact ih b hb hg'

/-- generalised to a parse that is under way: state `s`, lines seen so far `bi` (input) / `bo` (output) -/
theorem order_aux [DecidableEq α] (P : Printer α) (kw : Tab → α) (hkw : kw .sfac ≠ kw .fvar) (hP : PrinterOk P kw)
    (tv : Tab → List α) :
    ∀ (f : List (PLine α)) (s : St) (bi bo : List α),
      (∀ t, s.seen t = true ↔ kw t ∈ bi) → (∀ t, kw t ∈ bi ↔ kw t ∈ bo) →
      (∀ l ∈ f, l.spliced = false) →
      (∀ l ∈ logicalHeads (decide (s.mode ≠ .top)) f, KeyOk kw l) →
      coalesceFrom kw bo ((logicalHeads (decide (s.mode = .rawCont)) (outAux P tv s f)).map (keyOf kw))
        = coalesceFrom kw bi ((logicalHeads (decide (s.mode ≠ .top)) f).map (keyOf kw)) := by
  intro f
  induction f with
  | nil => intro s bi bo _ _ _ _; cases hm : s.mode <;> simp [outAux, logicalHeads, coalesceFrom]
  | cons l rest ih =>
    intro s bi bo hs hb hsp hk
    have hl : l.spliced = false := hsp l (List.mem_cons_self ..)
    have hsp' : ∀ l ∈ rest, l.spliced = false := fun x hx => hsp x (List.mem_cons_of_mem _ hx)
    obtain ⟨sS, sF, m⟩ := s
    cases m with
    | objCont =>
      simp only [outAux, step, emit, List.nil_append]
      have := ih ⟨sS, sF, contMode l .objCont⟩ bi bo (by simpa [St.seen] using hs) hb hsp'
      by_cases hc : l.cont = true
      · simp [contMode, hc, logicalHeads] at this hk ⊢
        exact this hk
      · simp [contMode, hc, logicalHeads] at this hk ⊢
        exact this hk
    | rawCont =>
      simp only [outAux, step, emit, hl, Bool.false_eq_true, if_false, List.singleton_append]
      have := ih ⟨sS, sF, contMode l .rawCont⟩ bi bo (by simpa [St.seen] using hs) hb hsp'
      by_cases hc : l.cont = true
      · simp [contMode, hc, logicalHeads] at this hk ⊢
        exact this hk
      · simp [contMode, hc, logicalHeads] at this hk ⊢
        exact this hk
    | top =>
      by_cases hskip : l.skip = true
      · -- a line the loop skips: text, written unless empty; never a head
        have := ih ⟨sS, sF, .top⟩ bi bo hs hb hsp'
        simp [logicalHeads, hskip] at this hk
        have e : logicalHeads false (emit P tv (Item.str l) ++ outAux P tv ⟨sS, sF, .top⟩ rest)
            = logicalHeads false (outAux P tv ⟨sS, sF, .top⟩ rest) := by
          simp only [emit, hl, Bool.false_or]
          by_cases he : l.empty = true
          · simp [he]
          · simp [he, logicalHeads, hskip]
        simp [outAux, step, hskip, logicalHeads, e]
        exact this hk
      · have hskip' : l.skip = false := by simpa using hskip
        have hkl : KeyOk kw l := hk l (by simp [logicalHeads, hskip'])
        have hk' : ∀ x ∈ logicalHeads l.cont rest, KeyOk kw x := by
          intro x hx; exact hk x (by simp [logicalHeads, hskip', hx])
        -- the three kinds of heads
        have objCase : (l.cls = .obj ∨ l.cls = .atom) →
            coalesceFrom kw bo ((logicalHeads false (P.card l ++ outAux P tv ⟨sS, sF, contMode l .objCont⟩ rest)).map (keyOf kw))
              = coalesceFrom kw bi ((l :: logicalHeads l.cont rest).map (keyOf kw)) := by
          intro hcls
          obtain ⟨h, cs, e, hg, hc, hkey⟩ := hP.card l hcls
          rw [e, logicalHeads_group h cs _ hg]
          have hko : keyOf kw h = keyOf kw l := by simp [keyOf, hkey]
          have hnt : ¬ (((keyOf kw l).1 = kw .sfac ∨ (keyOf kw l).1 = kw .fvar)) := by
            have h1 : (keyOf kw l).1 = l.key.1 := by unfold keyOf; split <;> rfl
            rw [h1]
            rintro (h' | h')
            · have := (hkl .sfac).2 h'; rcases hcls with h'' | h'' <;> simp [h''] at this
            · have := (hkl .fvar).2 h'; rcases hcls with h'' | h'' <;> simp [h''] at this
          simp only [List.map_cons, coalesceFrom, hko]
          rw [if_neg (fun h' => hnt h'.1), if_neg (fun h' => hnt h'.1)]
          congr 1
          have hmem : ∀ (b : List α) t, kw t ∈ (keyOf kw l).1 :: b ↔ kw t ∈ b := by
            intro b t; simp only [List.mem_cons]
            constructor
            · rintro (h' | h')
              · exact absurd (by cases t <;> simp [← h']) hnt
              · exact h'
            · exact Or.inr
          have := ih ⟨sS, sF, contMode l .objCont⟩ ((keyOf kw l).1 :: bi) ((keyOf kw l).1 :: bo)
            (by intro t; rw [hmem]; simpa [St.seen] using hs t) (by intro t; rw [hmem, hmem]; exact hb t) hsp'
          by_cases hc' : l.cont = true
          · simp [contMode, hc'] at this hk' ⊢; exact this hk'
          · simp [contMode, hc'] at this hk' ⊢; exact this hk'
        cases hcls : l.cls with
        | raw =>
          simp only [outAux, step, hskip', Bool.false_eq_true, if_false, hcls, emit, hl, Bool.false_or]
          have hemp : l.empty = false := by
            have := hskip'; simp [PLine.skip] at this; exact this.2
          simp only [hemp, Bool.false_eq_true, if_false, List.singleton_append]
          simp only [logicalHeads, hskip', Bool.false_eq_true, if_false, decide_false,
            ne_eq, not_true_eq_false, reduceCtorEq]
          have hnt : ¬ (((keyOf kw l).1 = kw .sfac ∨ (keyOf kw l).1 = kw .fvar)) := by
            have h1 : (keyOf kw l).1 = l.key.1 := by unfold keyOf; split <;> rfl
            rw [h1]
            rintro (h' | h')
            · have := (hkl .sfac).2 h'; simp [hcls] at this
            · have := (hkl .fvar).2 h'; simp [hcls] at this
          simp only [List.map_cons, coalesceFrom]
          rw [if_neg (fun h' => hnt h'.1), if_neg (fun h' => hnt h'.1)]
          congr 1
          have hmem : ∀ (b : List α) t, kw t ∈ (keyOf kw l).1 :: b ↔ kw t ∈ b := by
            intro b t; simp only [List.mem_cons]
            constructor
            · rintro (h' | h')
              · exact absurd (by cases t <;> simp [← h']) hnt
              · exact h'
            · exact Or.inr
          have := ih ⟨sS, sF, contMode l .rawCont⟩ ((keyOf kw l).1 :: bi) ((keyOf kw l).1 :: bo)
            (by intro t; rw [hmem]; simpa [St.seen] using hs t) (by intro t; rw [hmem, hmem]; exact hb t) hsp'
          by_cases hc' : l.cont = true
          · simp [contMode, hc'] at this hk' ⊢; exact this hk'
          · simp [contMode, hc'] at this hk' ⊢; exact this hk'
        | obj =>
          have := objCase (Or.inl hcls)
          simpa [outAux, step, hskip', hcls, emit, hl, logicalHeads] using this
        | atom =>
          have := objCase (Or.inr hcls)
          simpa [outAux, step, hskip', hcls, emit, hl, logicalHeads] using this
        | tab t =>
          have hkey1 : l.key.1 = kw t := (hkl t).1 hcls
          have hkey : (keyOf kw l).1 = kw t := by unfold keyOf; split <;> exact hkey1
          have htab : (keyOf kw l).1 = kw .sfac ∨ (keyOf kw l).1 = kw .fvar := by
            rw [hkey]; cases t <;> simp
          have hother : ∀ t', t' ≠ t → kw t' ≠ kw t := by
            intro t' hne; cases t <;> cases t' <;> simp at hne ⊢ <;> first | exact hkw | exact hkw.symm
          have hmemi : ∀ t', kw t' ∈ kw t :: bi ↔ (t' = t ∨ kw t' ∈ bi) := by
            intro t'; simp only [List.mem_cons]
            by_cases h' : t' = t
            · simp [h']
            · simp [h', hother t' h']
          have hseen' : ∀ t', (St.mark ⟨sS, sF, .top⟩ t).seen t' = true ↔ (t' = t ∨ kw t' ∈ bi) := by
            intro t'
            rw [← hs t']
            cases t <;> cases t' <;> simp [St.mark, St.seen]
          simp only [outAux, step, hskip', Bool.false_eq_true, if_false, hcls]
          simp only [logicalHeads, hskip', Bool.false_eq_true, if_false, decide_false,
            ne_eq, not_true_eq_false, reduceCtorEq, List.map_cons, coalesceFrom]
          by_cases hseen : St.seen ⟨sS, sF, .top⟩ t = true
          · -- later SFAC/FVAR line: absorbed, prints nothing; the specification drops it as well
            have hin : kw t ∈ bi := (hs t).1 hseen
            rw [if_pos hseen, if_pos ⟨htab, by rw [hkey]; exact hin⟩]
            simp only [emit, List.nil_append]
            have := ih ⟨(St.mark ⟨sS, sF, .top⟩ t).seenS, (St.mark ⟨sS, sF, .top⟩ t).seenF, contMode l .objCont⟩
              ((keyOf kw l).1 :: bi) bo
              (by intro t'; rw [hkey, hmemi]; simpa [St.seen] using hseen' t')
              (by intro t'; rw [hkey, hmemi, ← hb t']
                  constructor
                  · rintro (h' | h'); exact h' ▸ hin; exact h'
                  · exact Or.inr) hsp'
            have est : ({ (St.mark ⟨sS, sF, .top⟩ t) with mode := contMode l .objCont } : St)
                = ⟨(St.mark ⟨sS, sF, .top⟩ t).seenS, (St.mark ⟨sS, sF, .top⟩ t).seenF, contMode l .objCont⟩ := rfl
            rw [est]
            by_cases hc' : l.cont = true
            · simp [contMode, hc'] at this hk' ⊢; exact this hk'
            · simp [contMode, hc'] at this hk' ⊢; exact this hk'
          · -- first SFAC/FVAR line: the table is printed here
            have hnin : kw t ∉ bi := fun h' => hseen ((hs t).2 h')
            have hnout : kw t ∉ bo := fun h' => hnin ((hb t).2 h')
            rw [if_neg hseen, if_neg (fun h' => hnin (by rw [← hkey]; exact h'.2))]
            simp only [emit, hl, Bool.false_eq_true, if_false]
            have hne := hP.table_ne t (tv t)
            have hgs := hP.table t (tv t)
            cases egs : P.table t (tv t) with
            | nil => exact absurd egs hne
            | cons g gs =>
              rw [egs] at hgs
              obtain ⟨h, cs, rfl, hgr, _, hk1⟩ := hgs g (List.mem_cons_self ..)
              have e' : List.flatten ((h :: cs) :: gs) ++ outAux P tv
                  { (St.mark ⟨sS, sF, .top⟩ t) with mode := contMode l .objCont } rest
                  = h :: cs ++ (gs.flatten ++ outAux P tv { (St.mark ⟨sS, sF, .top⟩ t) with mode := contMode l .objCont } rest) := by simp
              rw [e', logicalHeads_group h cs _ hgr]
              have hkeyh : (keyOf kw h).1 = kw t := by unfold keyOf; split <;> exact hk1
              have hko : keyOf kw h = keyOf kw l := by
                have a : keyOf kw h = (kw t, none) := by
                  unfold keyOf; rw [hk1]; cases t <;> simp
                have b : keyOf kw l = (kw t, none) := by
                  unfold keyOf; rw [hkey1]; cases t <;> simp
                rw [a, b]
              simp only [List.map_cons, coalesceFrom]
              rw [if_neg (fun h' => hnout (by rw [← hkeyh]; exact h'.2)), hko]
              congr 1
              rw [coalesce_groups kw t gs _ _ (by rw [hkey]; exact List.mem_cons_self ..)
                (fun g hm => hgs g (List.mem_cons_of_mem _ hm))]
              have := ih ⟨(St.mark ⟨sS, sF, .top⟩ t).seenS, (St.mark ⟨sS, sF, .top⟩ t).seenF, contMode l .objCont⟩
                ((keyOf kw l).1 :: bi) ((keyOf kw l).1 :: bo)
                (by intro t'; rw [hkey, hmemi]; simpa [St.seen] using hseen' t')
                (by intro t'; rw [hkey]; simp only [List.mem_cons]; rw [hb t']) hsp'
              have est : ({ (St.mark ⟨sS, sF, .top⟩ t) with mode := contMode l .objCont } : St)
                  = ⟨(St.mark ⟨sS, sF, .top⟩ t).seenS, (St.mark ⟨sS, sF, .top⟩ t).seenF, contMode l .objCont⟩ := rfl
              rw [est]
              by_cases hc' : l.cont = true
              · simp [contMode, hc'] at this hk' ⊢; exact this hk'
              · simp [contMode, hc'] at this hk' ⊢; exact this hk'

/-- **order_preserved**: the instructions and atoms of the written file are those of the input, in the order of
    the input, after coalescing the SFAC lines and the FVAR lines at the position of the first. -/
theorem order_preserved [DecidableEq α] (P : Printer α) (kw : Tab → α) (hkw : kw .sfac ≠ kw .fvar)
    (hP : PrinterOk P kw) (f : List (PLine α)) (hsp : ∀ l ∈ f, l.spliced = false)
    (hk : ∀ l ∈ logicalHeads false f, KeyOk kw l) :
    coalesce kw (keySeq kw (cycle P f)) = coalesce kw (keySeq kw f) := by
  rw [cycle_eq]
  have := order_aux P kw hkw hP (fun t => tableVals t (parse f)) f {} [] []
    (by intro t; cases t <;> simp [St.seen]) (by intro t; rfl) hsp (by simpa using hk)
  simpa [coalesce, keySeq] using this

/-! ### raw_verbatim -/

/-- parse state after the lines `pre` -/
def endSt (s : St) (pre : List (PLine α)) : St := pre.foldl (fun s l => (step s l).2) s

/-- the line `l` that follows the lines `pre` is not interpreted by the parser: it continues a line that no
    branch of the keyword chain turns into an object, or (outside a continuation) it is a non-empty line the loop
    skips (indented comment) or the start of a line that no branch turns into an object -/
def RawAt (pre : List (PLine α)) (l : PLine α) : Prop :=
  l.spliced = false ∧
  match (endSt {} pre).mode with
  | .rawCont => True
  | .top => (l.skip = true ∧ l.empty = false) ∨ (l.skip = false ∧ l.cls = .raw)
  | .objCont => False

/-- **raw_verbatim**: a line the parser does not interpret is written unchanged (the same record: text and all),
    after exactly what is written for the lines before it (`a`, whose instruction sequence is that of `pre`)
    and before what is written for the lines after it. -/
theorem raw_verbatim [DecidableEq α] (P : Printer α) (kw : Tab → α) (hkw : kw .sfac ≠ kw .fvar)
    (hP : PrinterOk P kw) (pre post : List (PLine α)) (l : PLine α)
    (hsp : ∀ x ∈ pre, x.spliced = false) (hk : ∀ x ∈ logicalHeads false pre, KeyOk kw x)
    (hl : RawAt pre l) :
    ∃ a b, cycle P (pre ++ l :: post) = a ++ l :: b ∧ coalesce kw (keySeq kw a) = coalesce kw (keySeq kw pre) := by
  refine ⟨outAux P (fun t => tableVals t (parse (pre ++ l :: post))) {} pre,
          outAux P (fun t => tableVals t (parse (pre ++ l :: post))) (step (endSt {} pre) l).2 post, ?_, ?_⟩
  · rw [cycle_eq, outAux_append]
    obtain ⟨hl1, hl2⟩ := hl
    congr 1
    show outAux _ _ (endSt {} pre) (l :: post) = _
    simp only [outAux]
    show _ = [l] ++ _
    congr 1
    generalize endSt {} pre = s at hl2 ⊢
    obtain ⟨sS, sF, m⟩ := s
    cases m with
    | objCont => simp at hl2
    | rawCont => simp [step, emit, hl1]
    | top =>
      rcases hl2 with ⟨h1, h2⟩ | ⟨h1, h2⟩
      · simp [step, emit, h1, h2, hl1]
      · have : l.empty = false := by simp [PLine.skip] at h1; exact h1.2
        simp [step, emit, h1, h2, hl1, this]
  · have := order_aux P kw hkw hP (fun t => tableVals t (parse (pre ++ l :: post))) pre {} [] []
      (by intro t; cases t <;> simp [St.seen]) (by intro t; rfl) hsp (by simpa using hk)
    simpa [coalesce, keySeq] using this

/-! ### write_fixpoint -/

/-- state in which the written text is read when the input was read in state `s` -/
def outState (s : St) : St := { s with mode := if s.mode = .rawCont then .rawCont else .top }

theorem outAux_chain (P : Printer α) (tv : Tab → List α) (sS sF : Bool) (h : PLine α) (cs X : List (PLine α))
    (hc : contChain (h :: cs) = true) :
    outAux P tv ⟨sS, sF, contMode h .objCont⟩ (cs ++ X) = outAux P tv ⟨sS, sF, .top⟩ X := by
  induction cs generalizing h with
  | nil =>
    simp [contChain] at hc
    simp [contMode, hc]
  | cons c cs ih =>
    simp [contChain] at hc
    simp [contMode, hc.1, outAux, step, emit]
    exact ih c hc.2

/-- reading a printed instruction/atom line -/
theorem outAux_card_group (P : Printer α) (tv : Tab → List α) (sS sF : Bool) (h : PLine α) (cs X : List (PLine α))
    (hg : Group h cs) (hcls : h.cls = .obj ∨ h.cls = .atom) :
    outAux P tv ⟨sS, sF, .top⟩ (h :: cs ++ X) = P.card h ++ outAux P tv ⟨sS, sF, .top⟩ X := by
  obtain ⟨h1, h2, h3⟩ := hg
  have hs : h.spliced = false := h3 h (List.mem_cons_self ..)
  have := outAux_chain P tv sS sF h cs X h2
  rcases hcls with hc | hc <;> simp [outAux, step, h1, hc, emit, hs, this]

/-- reading a printed table line when the table has been seen: absorbed -/
theorem outAux_tab_groups_seen (P : Printer α) (tv : Tab → List α) (t : Tab) (s : St) (hm : s.mode = .top)
    (hseen : s.seen t = true) (gs : List (List (PLine α))) (X : List (PLine α))
    (hg : ∀ g ∈ gs, ∃ h cs, g = h :: cs ∧ Group h cs ∧ h.cls = .tab t) :
    outAux P tv s (gs.flatten ++ X) = outAux P tv s X := by
  induction gs with
  | nil => simp
  | cons g gs ih =>
    obtain ⟨h, cs, rfl, ⟨h1, h2, h3⟩, hc⟩ := hg g (List.mem_cons_self ..)
    obtain ⟨sS, sF, m⟩ := s
    simp at hm; subst hm
    have e : List.flatten ((h :: cs) :: gs) ++ X = h :: (cs ++ (gs.flatten ++ X)) := by simp
    have hmark : St.mark ⟨sS, sF, .top⟩ t = ⟨sS, sF, .top⟩ := by
      cases t <;> simp [St.mark, St.seen] at hseen ⊢ <;> exact hseen
    rw [e]
    simp only [outAux, step, h1, Bool.false_eq_true, if_false, hc, hseen, if_true, emit, List.nil_append, hmark]
    rw [outAux_chain P tv sS sF h cs _ h2]
    exact ih (fun g hm => hg g (List.mem_cons_of_mem _ hm))

theorem mark_seen (s : St) (t : Tab) : (s.mark t).seen t = true := by cases t <;> rfl

theorem mark_mode (s : St) (t : Tab) : (s.mark t).mode = s.mode := by cases t <;> rfl

theorem fix_aux (P : Printer α) (kw : Tab → α) (hP : Stable P kw) (tv : Tab → List α) :
    ∀ (f : List (PLine α)) (s : St), (∀ l ∈ f, l.spliced = false) →
      outAux P tv (outState s) (outAux P tv s f) = outAux P tv s f := by
  intro f
  induction f with
  | nil => intros; rfl
  | cons l rest ih =>
    intro s hsp
    have hl : l.spliced = false := hsp l (List.mem_cons_self ..)
    have hsp' : ∀ l ∈ rest, l.spliced = false := fun x hx => hsp x (List.mem_cons_of_mem _ hx)
    obtain ⟨sS, sF, m⟩ := s
    cases m with
    | objCont =>
      have := ih ⟨sS, sF, contMode l .objCont⟩ hsp'
      by_cases hc : l.cont = true <;> simpa [outAux, step, emit, outState, contMode, hc] using this
    | rawCont =>
      have := ih ⟨sS, sF, contMode l .rawCont⟩ hsp'
      by_cases hc : l.cont = true <;> simp [outAux, step, emit, outState, contMode, hc, hl] at this ⊢ <;> exact this
    | top =>
      by_cases hskip : l.skip = true
      · have := ih ⟨sS, sF, .top⟩ hsp'
        by_cases he : l.empty = true
        · simpa [outAux, step, emit, outState, hskip, hl, he] using this
        · simp [outAux, step, emit, outState, hskip, hl, he] at this ⊢; exact this
      · have hskip' : l.skip = false := by simpa using hskip
        have hemp : l.empty = false := by
          have := hskip'; simp [PLine.skip] at this; exact this.2
        have objCase : (l.cls = .obj ∨ l.cls = .atom) →
            outAux P tv ⟨sS, sF, .top⟩ (P.card l ++ outAux P tv ⟨sS, sF, contMode l .objCont⟩ rest)
              = P.card l ++ outAux P tv ⟨sS, sF, contMode l .objCont⟩ rest := by
          intro hcls
          obtain ⟨h, cs, e, hg, hc, _⟩ := hP.card l hcls
          have hidem := hP.card_idem l h cs hcls e
          rw [e, outAux_card_group P tv sS sF h cs _ hg (by rw [hc]; exact hcls), hidem]
          congr 1
          have := ih ⟨sS, sF, contMode l .objCont⟩ hsp'
          by_cases hc' : l.cont = true <;> simpa [outState, contMode, hc'] using this
        cases hcls : l.cls with
        | raw =>
          have := ih ⟨sS, sF, contMode l .rawCont⟩ hsp'
          by_cases hc : l.cont = true <;>
            simp [outAux, step, emit, outState, hskip', hcls, hl, hemp, contMode, hc] at this ⊢ <;> exact this
        | obj =>
          have := objCase (Or.inl hcls)
          simpa [outAux, step, hskip', hcls, emit, hl, outState] using this
        | atom =>
          have := objCase (Or.inr hcls)
          simpa [outAux, step, hskip', hcls, emit, hl, outState] using this
        | tab t =>
          have ih' := ih { (St.mark ⟨sS, sF, .top⟩ t) with mode := contMode l .objCont } hsp'
          have eos : outState { (St.mark ⟨sS, sF, .top⟩ t) with mode := contMode l .objCont }
              = St.mark ⟨sS, sF, .top⟩ t := by
            cases t <;> by_cases hc : l.cont = true <;> simp [outState, St.mark, contMode, hc]
          rw [eos] at ih'
          by_cases hseen : St.seen ⟨sS, sF, .top⟩ t = true
          · have hmark : St.mark ⟨sS, sF, .top⟩ t = ⟨sS, sF, .top⟩ := by
              cases t <;> simp [St.mark, St.seen] at hseen ⊢ <;> exact hseen
            have hS : (St.mark ⟨sS, sF, .top⟩ t).seenS = sS := by rw [hmark]
            have hF : (St.mark ⟨sS, sF, .top⟩ t).seenF = sF := by rw [hmark]
            rw [hmark] at ih'
            simpa [outAux, step, hskip', hcls, hseen, emit, outState, hS, hF] using ih'
          · simp only [outAux, step, hskip', Bool.false_eq_true, if_false, hcls, hseen, emit, hl, outState,
              reduceCtorEq]
            have hne := hP.table_ne t (tv t)
            have hgs := hP.table t (tv t)
            cases egs : P.table t (tv t) with
            | nil => exact absurd egs hne
            | cons g gs =>
              rw [egs] at hgs
              obtain ⟨h, cs, rfl, ⟨h1, h2, h3⟩, hc, _⟩ := hgs g (List.mem_cons_self ..)
              have hs : h.spliced = false := h3 h (List.mem_cons_self ..)
              have e' : ∀ X, List.flatten ((h :: cs) :: gs) ++ X = h :: (cs ++ (gs.flatten ++ X)) := by simp
              rw [e']
              simp only [outAux, step, h1, Bool.false_eq_true, if_false, hc, hseen, emit, hs, egs]
              have em : ({ (St.mark ⟨sS, sF, .top⟩ t) with mode := contMode h .objCont } : St)
                  = ⟨(St.mark ⟨sS, sF, .top⟩ t).seenS, (St.mark ⟨sS, sF, .top⟩ t).seenF, contMode h .objCont⟩ := rfl
              rw [em, outAux_chain P tv _ _ h cs _ h2]
              have em2 : (⟨(St.mark ⟨sS, sF, .top⟩ t).seenS, (St.mark ⟨sS, sF, .top⟩ t).seenF, .top⟩ : St)
                  = St.mark ⟨sS, sF, .top⟩ t := by cases t <;> rfl
              rw [em2, outAux_tab_groups_seen P tv t _ (by rw [mark_mode]) (mark_seen _ t) gs _
                (fun g hm => by
                  obtain ⟨h, cs, e, hg, hc, _⟩ := hgs g (List.mem_cons_of_mem _ hm)
                  exact ⟨h, cs, e, hg, hc⟩), ih']
              simp

/-- **write_fixpoint**: reading a written file and writing it again reproduces it, line for line.
    `hP` are the per-class idempotence facts about the printers; `htv` says that the SFAC/FVAR lines of the
    written file read back to the table contents they were printed from (for FVAR this is `chunks_flatten`
    below; the harness checks both on every written file). -/
theorem write_fixpoint_of_tables (P : Printer α) (kw : Tab → α) (hP : Stable P kw) (f : List (PLine α))
    (hsp : ∀ l ∈ f, l.spliced = false)
    (htv : ∀ t, tableVals t (parse (cycle P f)) = tableVals t (parse f)) :
    cycle P (cycle P f) = cycle P f := by
  have e : (fun t => tableVals t (parse (cycle P f))) = (fun t => tableVals t (parse f)) := funext htv
  rw [cycle_eq P (cycle P f), e, cycle_eq P f]
  exact fix_aux P kw hP _ f {} hsp

/-! ### include files -/

/-- any per-item output, folded over the parse -/
def foldOut {β : Type} (φ : Item α → List β) (s : St) : List (PLine α) → List β
  | [] => []
  | l :: rest => φ (step s l).1 ++ foldOut φ (step s l).2 rest

theorem foldOut_eq {β : Type} (φ : Item α → List β) (s : St) (f : List (PLine α)) :
    (parseAux s f).flatMap φ = foldOut φ s f := by
  induction f generalizing s with
  | nil => rfl
  | cons l rest ih => simp [parseAux, foldOut, ih]

/-- lines that print nothing and leave the parse state as it was can be removed -/
theorem foldOut_skip {β : Type} (φ : Item α → List β) (inc X : List (PLine α))
    (hφ : ∀ s, ∀ x ∈ inc, φ (step s x).1 = []) (s : St) (hst : endSt s inc = s) :
    foldOut φ s (inc ++ X) = foldOut φ s X := by
  have gen : ∀ (inc : List (PLine α)) (s : St), (∀ s, ∀ x ∈ inc, φ (step s x).1 = []) →
      foldOut φ s (inc ++ X) = foldOut φ (endSt s inc) X := by
    intro inc
    induction inc with
    | nil => intros; rfl
    | cons x inc ih =>
      intro s h
      simp only [List.cons_append, foldOut, h s x (List.mem_cons_self ..), List.nil_append]
      exact ih _ (fun s y hy => h s y (List.mem_cons_of_mem _ hy))
  rw [gen inc s hφ, hst]

/-- the spliced content `inc` of an include file (nested files included) is self-contained: read from the top
    level it ends at the top level (its last line does not end in `=`) and it feeds no table (no SFAC/FVAR line) -/
def Closed (inc : List (PLine α)) : Prop :=
  (∀ s : St, s.mode = .top → endSt s inc = s) ∧ ∀ x ∈ inc, ∀ t, x.cls ≠ .tab t

/-- every `+name` line of `f` is a complete line and names a self-contained (or unreadable) file -/
def InclOk (fs : FS α) (k : Nat) (f : List (PLine α)) : Prop :=
  ∀ l ∈ f, ∀ n, l.incl = some n → l.cont = false ∧ Closed (expand fs k ((fs n).getD []))

/-- every line that comes out of an include file, at any nesting depth, is recorded as included -/
theorem expand_spliced (fs : FS α) : ∀ (k : Nat) (g : List (PLine α)), ∀ x ∈ expand fs k g, x.spliced = true := by
  intro k
  induction k with
  | zero =>
    intro g x hx
    simp only [expand, List.mem_map] at hx
    obtain ⟨y, _, rfl⟩ := hx
    rfl
  | succ k ih =>
    intro g x hx
    simp only [expand, List.mem_flatMap] at hx
    obtain ⟨l, _, hx⟩ := hx
    cases hi : l.incl with
    | none => simp [hi] at hx; rw [hx]; rfl
    | some n =>
      simp [hi] at hx
      rcases hx with rfl | hx
      · rfl
      · exact ih _ x hx

theorem step_mode_top_of_not_cont (s : St) (l : PLine α) (h : l.cont = false) : (step s l).2.mode = .top := by
  obtain ⟨sS, sF, m⟩ := s
  cases m with
  | objCont => simp [step, contMode, h]
  | rawCont => simp [step, contMode, h]
  | top =>
    by_cases hs : l.skip = true
    · simp [step, hs]
    · cases hc : l.cls <;> simp [step, hs, hc, contMode, h]

theorem foldOut_splice {β : Type} (φ : Item α → List β) (fs : FS α) (k : Nat)
    (hφ : ∀ s (y : PLine α), y.spliced = true → (∀ t, y.cls ≠ .tab t) → φ (step s y).1 = []) :
    ∀ (f : List (PLine α)) (s : St), InclOk fs k f → foldOut φ s (spliceNew fs k f) = foldOut φ s f := by
  intro f
  induction f with
  | nil => intros; rfl
  | cons l rest ih =>
    intro s hok
    have hok' : InclOk fs k rest := fun x hx => hok x (List.mem_cons_of_mem _ hx)
    cases hi : l.incl with
    | none =>
      simp only [spliceNew, List.flatMap_cons, spliceLineNew, hi, List.singleton_append, foldOut]
      congr 1
      exact ih _ hok'
    | some n =>
      obtain ⟨hc, hcl, hnt⟩ := hok l (List.mem_cons_self ..) n hi
      simp only [spliceNew, List.flatMap_cons, spliceLineNew, hi, List.cons_append, foldOut]
      congr 1
      rw [foldOut_skip φ _ _ (fun s x hx => hφ s x (expand_spliced fs k _ x hx) (hnt x hx)) _
            (hcl _ (step_mode_top_of_not_cont s l hc))]
      exact ih _ hok'

theorem emit_step_spliced (P : Printer α) (tv : Tab → List α) (s : St) (y : PLine α) (hy : y.spliced = true)
    (hnt : ∀ t, y.cls ≠ .tab t) : emit P tv (step s y).1 = [] := by
  obtain ⟨sS, sF, m⟩ := s
  cases m with
  | objCont => simp [step, emit]
  | rawCont => simp [step, emit, hy]
  | top =>
    by_cases hs : y.skip = true
    · simp [step, hs, emit, hy]
    · cases hc : y.cls with
      | tab t' => exact absurd hc (hnt t')
      | _ => simp [step, hs, hc, emit, hy]

theorem itemVals_step_notab (t : Tab) (s : St) (y : PLine α) (hnt : ∀ t, y.cls ≠ .tab t) :
    itemVals t (step s y).1 = [] := by
  obtain ⟨sS, sF, m⟩ := s
  cases m with
  | objCont => simp [step, itemVals]
  | rawCont => simp [step, itemVals]
  | top =>
    by_cases hs : y.skip = true
    · simp [step, hs, itemVals]
    · cases hc : y.cls with
      | tab t' => exact absurd hc (hnt t')
      | _ => simp [step, hs, hc, itemVals]

/-- **include_transparent**: the lines spliced in from include files — nested to any depth — leave no trace in
    the written file: it is the file that is written when the `+name` lines are read as plain text. -/
theorem include_transparent (P : Printer α) (fs : FS α) (k : Nat) (f : List (PLine α)) (hok : InclOk fs k f) :
    cycle P (spliceNew fs k f) = cycle P f := by
  have hv : ∀ t, tableVals t (parse (spliceNew fs k f)) = tableVals t (parse f) := by
    intro t
    simp only [tableVals, parse, foldOut_eq]
    exact foldOut_splice _ fs k (fun s y _ hy => itemVals_step_notab t s y hy) f {} hok
  have e : (fun t => tableVals t (parse (spliceNew fs k f))) = (fun t => tableVals t (parse f)) := funext hv
  simp only [cycle, write, e]
  simp only [parse, foldOut_eq]
  exact foldOut_splice _ fs k (fun s y hy hnt => emit_step_spliced P _ s y hy hnt) f {} hok

theorem iterO_fixed (g : List (PLine α) → Option (List (PLine α))) (x : List (PLine α)) (h : g x = some x) :
    ∀ n, iterO g n x = some x := by
  intro n
  induction n with
  | zero => rfl
  | succ n ih => simp [iterO, h, ih]

/-- **include_no_accumulation**: any number `n + 1` of read/write cycles of a file with (nested) include files
    gives the file that one cycle without includes gives; in particular nothing accumulates.
    Hypotheses: every include name is used once (the code raises `ValueError` otherwise) and the include files are
    self-contained — for the input and for the written file (`cycle P f`, whose `+name` lines are those of `f`). -/
theorem include_no_accumulation_of_tables [DecidableEq α] (P : Printer α) (kw : Tab → α) (hP : Stable P kw) (fs : FS α) (k : Nat)
    (f : List (PLine α)) (hsp : ∀ l ∈ f, l.spliced = false)
    (htv : ∀ t, tableVals t (parse (cycle P f)) = tableVals t (parse f))
    (hf : (includeNames (spliceNew fs k f)).Nodup ∧ InclOk fs k f)
    (hg : (includeNames (spliceNew fs k (cycle P f))).Nodup ∧ InclOk fs k (cycle P f)) (n : Nat) :
    iterO (cycleNew P fs k) (n + 1) f = some (cycle P f) := by
  have h1 : cycleNew P fs k f = some (cycle P f) := by
    simp [cycleNew, hf.1, include_transparent P fs k f hf.2]
  have h2 : cycleNew P fs k (cycle P f) = some (cycle P f) := by
    simp [cycleNew, hg.1, include_transparent P fs k _ hg.2, write_fixpoint_of_tables P kw hP f hsp htv]
  simp [iterO, h1, iterO_fixed _ _ h2 n]

/-! ### number formatting and FVAR chunking: idempotence proved, not assumed -/

theorem roundHalfEven_int (k : Int) : roundHalfEven (k : Rat) = k := by
  simp [roundHalfEven, Rat.floor_intCast]

/-- **fmt_idem**: `'{:.nf}'.format(float('{:.nf}'.format(x)))` prints the same digits (exact arithmetic) -/
theorem fmtFixed_idem (n : Nat) (x : Rat) : fmtFixed n (readFixed n (fmtFixed n x)) = fmtFixed n x := by
  unfold fmtFixed readFixed
  have h : (10 : Rat) ^ n ≠ 0 := pow_ne_zero _ (by norm_num)
  rw [div_mul_cancel₀ _ h, roundHalfEven_int]

theorem chunksFuel_flatten (fuel n : Nat) (l : List α) (h : l.length ≤ fuel) :
    (chunksFuel fuel n l).flatten = l := by
  induction fuel generalizing l with
  | zero =>
    have : l = [] := List.length_eq_zero_iff.1 (Nat.le_zero.1 h)
    simp [chunksFuel, this]
  | succ fuel ih =>
    unfold chunksFuel
    cases l with
    | nil => simp
    | cons a l =>
      simp only [List.isEmpty_cons, Bool.false_eq_true, if_false, List.flatten_cons]
      rw [ih _ (by simp at h ⊢; omega)]
      exact List.take_append_drop _ _

/-- **fvar_chunks**: the values read back from the FVAR lines (7 per line) are the values of the table -/
theorem chunks_flatten (n : Nat) (l : List α) : (chunks n l).flatten = l :=
  chunksFuel_flatten _ _ _ (Nat.le_refl _)

/-! ### the coalesced tables keep the content and the order of the input -/

theorem foldOut_chain {β : Type} (φ : Item α → List β) (hb : ∀ l, φ (.blanked l) = []) (sS sF : Bool) (h : PLine α)
    (cs X : List (PLine α)) (hc : contChain (h :: cs) = true) :
    foldOut φ ⟨sS, sF, contMode h .objCont⟩ (cs ++ X) = foldOut φ ⟨sS, sF, .top⟩ X := by
  induction cs generalizing h with
  | nil =>
    simp [contChain] at hc
    simp [contMode, hc]
  | cons c cs ih =>
    simp [contChain] at hc
    simp [contMode, hc.1, foldOut, step, hb]
    exact ih c hc.2

theorem foldOut_card_group {β : Type} (φ : Item α → List β) (hb : ∀ l, φ (.blanked l) = []) (sS sF : Bool)
    (h : PLine α) (cs X : List (PLine α)) (hg : Group h cs) (hcls : h.cls = .obj ∨ h.cls = .atom) :
    foldOut φ ⟨sS, sF, .top⟩ (h :: cs ++ X) = φ (.card h) ++ foldOut φ ⟨sS, sF, .top⟩ X := by
  obtain ⟨h1, h2, _⟩ := hg
  have := foldOut_chain φ hb sS sF h cs X h2
  rcases hcls with hc | hc <;> simp [foldOut, step, h1, hc, this]

def absorbedOut {β : Type} (φ : Item α → List β) (t : Tab) : List (PLine α) → List β
  | [] => []
  | h :: _ => φ (.absorbed t h)

theorem foldOut_tab_groups_seen {β : Type} (φ : Item α → List β) (hb : ∀ l, φ (.blanked l) = []) (t : Tab) (s : St)
    (hm : s.mode = .top) (hseen : s.seen t = true) (gs : List (List (PLine α))) (X : List (PLine α))
    (hg : ∀ g ∈ gs, ∃ h cs, g = h :: cs ∧ Group h cs ∧ h.cls = .tab t) :
    foldOut φ s (gs.flatten ++ X) = gs.flatMap (absorbedOut φ t) ++ foldOut φ s X := by
  induction gs with
  | nil => simp
  | cons g gs ih =>
    obtain ⟨h, cs, rfl, ⟨h1, h2, h3⟩, hc⟩ := hg g (List.mem_cons_self ..)
    obtain ⟨sS, sF, m⟩ := s
    simp at hm; subst hm
    have e : List.flatten ((h :: cs) :: gs) ++ X = h :: (cs ++ (gs.flatten ++ X)) := by simp
    have hmark : St.mark ⟨sS, sF, .top⟩ t = ⟨sS, sF, .top⟩ := by
      cases t <;> simp [St.mark, St.seen] at hseen ⊢ <;> exact hseen
    rw [e]
    simp only [foldOut, step, h1, Bool.false_eq_true, if_false, hc, hseen, if_true, hmark, List.flatMap_cons,
      absorbedOut, List.append_assoc]
    rw [foldOut_chain φ hb sS sF h cs _ h2]
    congr 1
    exact ih (fun g hm => hg g (List.mem_cons_of_mem _ hm))

/-- marks the table object of kind `t` -/
def isTable (t : Tab) : Item α → List Unit
  | .table t' _ => if t' = t then [()] else []
  | _ => []

theorem absorbedOut_itemVals (t t0 : Tab) (gs : List (List (PLine α))) :
    gs.flatMap (absorbedOut (itemVals t0) t) = if t = t0 then gs.flatMap groupVals else [] := by
  induction gs with
  | nil => simp
  | cons g gs ih =>
    cases g with
    | nil => simpa [absorbedOut, groupVals] using ih
    | cons h cs =>
      by_cases e : t = t0 <;> simp [absorbedOut, groupVals, itemVals, e] at ih ⊢ <;> exact ih

/-- re-reading the written file collects, for table `t0`, exactly what the table object printed — once, at the
    place where the table object stood -/
theorem reread_vals (P : Printer α) (kw : Tab → α) (hP : Stable P kw) (tv : Tab → List α) (t0 : Tab) :
    ∀ (f : List (PLine α)) (s : St), (∀ l ∈ f, l.spliced = false) →
      foldOut (itemVals t0) (outState s) (outAux P tv s f)
        = (foldOut (isTable t0) s f).flatMap (fun _ => tv t0) := by
  have hb : ∀ l : PLine α, itemVals t0 (.blanked l) = [] := fun _ => rfl
  intro f
  induction f with
  | nil => intros; rfl
  | cons l rest ih =>
    intro s hsp
    have hl : l.spliced = false := hsp l (List.mem_cons_self ..)
    have hsp' : ∀ l ∈ rest, l.spliced = false := fun x hx => hsp x (List.mem_cons_of_mem _ hx)
    obtain ⟨sS, sF, m⟩ := s
    cases m with
    | objCont =>
      have := ih ⟨sS, sF, contMode l .objCont⟩ hsp'
      by_cases hc : l.cont = true <;> simpa [outAux, foldOut, step, emit, outState, contMode, hc, isTable] using this
    | rawCont =>
      have := ih ⟨sS, sF, contMode l .rawCont⟩ hsp'
      by_cases hc : l.cont = true <;>
        simp [outAux, foldOut, step, emit, outState, contMode, hc, hl, isTable, itemVals] at this ⊢ <;> exact this
    | top =>
      by_cases hskip : l.skip = true
      · have := ih ⟨sS, sF, .top⟩ hsp'
        by_cases he : l.empty = true
        · simpa [outAux, foldOut, step, emit, outState, hskip, hl, he, isTable] using this
        · simp [outAux, foldOut, step, emit, outState, hskip, hl, he, isTable, itemVals] at this ⊢; exact this
      · have hskip' : l.skip = false := by simpa using hskip
        have hemp : l.empty = false := by
          have := hskip'; simp [PLine.skip] at this; exact this.2
        have objCase : (l.cls = .obj ∨ l.cls = .atom) →
            foldOut (itemVals t0) ⟨sS, sF, .top⟩ (P.card l ++ outAux P tv ⟨sS, sF, contMode l .objCont⟩ rest)
              = (foldOut (isTable t0) ⟨sS, sF, contMode l .objCont⟩ rest).flatMap (fun _ => tv t0) := by
          intro hcls
          obtain ⟨h, cs, e, hg, hc, _⟩ := hP.card l hcls
          rw [e, foldOut_card_group _ hb sS sF h cs _ hg (by rw [hc]; exact hcls)]
          have := ih ⟨sS, sF, contMode l .objCont⟩ hsp'
          by_cases hc' : l.cont = true <;> simpa [outState, contMode, hc', itemVals] using this
        cases hcls : l.cls with
        | raw =>
          have := ih ⟨sS, sF, contMode l .rawCont⟩ hsp'
          by_cases hc : l.cont = true <;>
            simp [outAux, foldOut, step, emit, outState, hskip', hcls, hl, hemp, contMode, hc, isTable, itemVals] at this ⊢ <;>
            exact this
        | obj =>
          have := objCase (Or.inl hcls)
          simpa [outAux, foldOut, step, hskip', hcls, emit, hl, outState, isTable] using this
        | atom =>
          have := objCase (Or.inr hcls)
          simpa [outAux, foldOut, step, hskip', hcls, emit, hl, outState, isTable] using this
        | tab t =>
          have ih' := ih { (St.mark ⟨sS, sF, .top⟩ t) with mode := contMode l .objCont } hsp'
          have eos : outState { (St.mark ⟨sS, sF, .top⟩ t) with mode := contMode l .objCont }
              = St.mark ⟨sS, sF, .top⟩ t := by
            cases t <;> by_cases hc : l.cont = true <;> simp [outState, St.mark, contMode, hc]
          rw [eos] at ih'
          by_cases hseen : St.seen ⟨sS, sF, .top⟩ t = true
          · have hmark : St.mark ⟨sS, sF, .top⟩ t = ⟨sS, sF, .top⟩ := by
              cases t <;> simp [St.mark, St.seen] at hseen ⊢ <;> exact hseen
            have hS : (St.mark ⟨sS, sF, .top⟩ t).seenS = sS := by rw [hmark]
            have hF : (St.mark ⟨sS, sF, .top⟩ t).seenF = sF := by rw [hmark]
            rw [hmark] at ih'
            simpa [outAux, foldOut, step, hskip', hcls, hseen, emit, outState, hS, hF, isTable] using ih'
          · simp only [outAux, foldOut, step, hskip', Bool.false_eq_true, if_false, hcls, hseen, emit, hl, outState,
              reduceCtorEq, isTable, List.flatMap_append]
            have hne := hP.table_ne t (tv t)
            have hgs := hP.table t (tv t)
            have hvals := hP.table_vals t (tv t)
            cases egs : P.table t (tv t) with
            | nil => exact absurd egs hne
            | cons g gs =>
              rw [egs] at hgs hvals
              obtain ⟨h, cs, rfl, ⟨h1, h2, h3⟩, hc, _⟩ := hgs g (List.mem_cons_self ..)
              have e' : ∀ X, List.flatten ((h :: cs) :: gs) ++ X = h :: (cs ++ (gs.flatten ++ X)) := by simp
              rw [e']
              simp only [foldOut, step, h1, Bool.false_eq_true, if_false, hc, hseen]
              have em : ({ (St.mark ⟨sS, sF, .top⟩ t) with mode := contMode h .objCont } : St)
                  = ⟨(St.mark ⟨sS, sF, .top⟩ t).seenS, (St.mark ⟨sS, sF, .top⟩ t).seenF, contMode h .objCont⟩ := rfl
              rw [em, foldOut_chain _ hb _ _ h cs _ h2]
              have em2 : (⟨(St.mark ⟨sS, sF, .top⟩ t).seenS, (St.mark ⟨sS, sF, .top⟩ t).seenF, .top⟩ : St)
                  = St.mark ⟨sS, sF, .top⟩ t := by cases t <;> rfl
              rw [em2, foldOut_tab_groups_seen _ hb t _ (by rw [mark_mode]) (mark_seen _ t) gs _
                (fun g hm => by
                  obtain ⟨h, cs, e, hg, hc, _⟩ := hgs g (List.mem_cons_of_mem _ hm)
                  exact ⟨h, cs, e, hg, hc⟩), ih', absorbedOut_itemVals]
              simp only [List.flatMap_cons, groupVals] at hvals
              by_cases e : t = t0
              · subst e
                simp only [itemVals, if_true, ← List.append_assoc, hvals]
                simp
              · simp [itemVals, e]

theorem seen_step (s : St) (l : PLine α) (t : Tab) (h : s.seen t = true) : (step s l).2.seen t = true := by
  obtain ⟨sS, sF, m⟩ := s
  cases m with
  | objCont => simpa [step, St.seen] using h
  | rawCont => simpa [step, St.seen] using h
  | top =>
    by_cases hs : l.skip = true
    · simpa [step, hs] using h
    · cases hc : l.cls with
      | tab t' => cases t <;> cases t' <;> simp_all [step, St.seen, St.mark]
      | _ => simpa [step, hs, hc, St.seen] using h

theorem isTable_seen (t : Tab) : ∀ (f : List (PLine α)) (s : St), s.seen t = true → foldOut (isTable t) s f = [] := by
  intro f
  induction f with
  | nil => intros; rfl
  | cons l rest ih =>
    intro s hs
    simp only [foldOut, ih _ (seen_step s l t hs), List.append_nil]
    obtain ⟨sS, sF, m⟩ := s
    cases m with
    | objCont => simp [step, isTable]
    | rawCont => simp [step, isTable]
    | top =>
      by_cases hk : l.skip = true
      · simp [step, hk, isTable]
      · cases hc : l.cls with
        | tab t' =>
          by_cases e : t' = t
          · subst e; simp [step, hk, hc, hs, isTable]
          · by_cases h' : St.seen ⟨sS, sF, .top⟩ t' = true <;> simp [step, hk, hc, h', isTable, e]
        | _ => simp [step, hk, hc, isTable]

/-- the table object occurs at most once -/
theorem isTable_le_one (t : Tab) : ∀ (f : List (PLine α)) (s : St),
    foldOut (isTable t) s f = [] ∨ foldOut (isTable t) s f = [()] := by
  intro f
  induction f with
  | nil => intro s; exact Or.inl rfl
  | cons l rest ih =>
    intro s
    simp only [foldOut]
    cases hit : isTable t (step s l).1 with
    | nil => simpa using ih (step s l).2
    | cons u us =>
      -- the item is the table: from here on it has been seen
      have hseen : (step s l).2.seen t = true := by
        obtain ⟨sS, sF, m⟩ := s
        cases m with
        | objCont => simp [step, isTable] at hit
        | rawCont => simp [step, isTable] at hit
        | top =>
          by_cases hk : l.skip = true
          · simp [step, hk, isTable] at hit
          · cases hc : l.cls with
            | tab t' =>
              by_cases h' : St.seen ⟨sS, sF, .top⟩ t' = true
              · simp [step, hk, hc, h', isTable] at hit
              · by_cases e : t' = t
                · subst e
                  simp [step, hk, hc]
                  cases t' <;> rfl
                · simp [step, hk, hc, h', isTable, e] at hit
            | _ => simp [step, hk, hc, isTable] at hit
      rw [isTable_seen t rest _ hseen]
      have : us = [] := by
        have hl : (isTable t (step s l).1).length ≤ 1 := by
          cases (step s l).1 <;> simp [isTable]
          split <;> simp
        rw [hit] at hl
        simpa using hl
      right; simp [this]

/-- no table object, and none before: no SFAC/FVAR line fed the table at all -/
theorem vals_nil_of_no_table (t : Tab) : ∀ (f : List (PLine α)) (s : St), s.seen t = false →
    foldOut (isTable t) s f = [] → foldOut (itemVals t) s f = [] := by
  intro f
  induction f with
  | nil => intros; rfl
  | cons l rest ih =>
    intro s hs hT
    simp only [foldOut, List.append_eq_nil_iff] at hT ⊢
    obtain ⟨h1, h2⟩ := hT
    obtain ⟨sS, sF, m⟩ := s
    cases m with
    | objCont => exact ⟨by simp [step, itemVals], ih _ (by simpa [step, St.seen] using hs) h2⟩
    | rawCont => exact ⟨by simp [step, itemVals], ih _ (by simpa [step, St.seen] using hs) h2⟩
    | top =>
      by_cases hk : l.skip = true
      · exact ⟨by simp [step, hk, itemVals], ih _ (by simpa [step, hk] using hs) (by simpa [step, hk] using h2)⟩
      · cases hc : l.cls with
        | tab t' =>
          by_cases e : t' = t
          · subst e
            simp [step, hk, hc, hs, isTable] at h1
          · have hs' : (step (⟨sS, sF, .top⟩ : St) l).2.seen t = false := by
              cases t <;> cases t' <;> simp_all [step, St.seen, St.mark]
            refine ⟨?_, ih _ hs' h2⟩
            by_cases h' : St.seen ⟨sS, sF, .top⟩ t' = true <;> simp [step, hk, hc, h', itemVals, e]
        | _ =>
          refine ⟨by simp [step, hk, hc, itemVals], ih _ ?_ h2⟩
          simpa [step, hk, hc, St.seen] using hs

/-- **table_order_preserved**: what the SFAC lines (the FVAR lines) of the written file say, read in file order,
    is what the SFAC (FVAR) lines of the input say, in the order of the input: coalescing neither loses,
    duplicates nor reorders an entry (in particular the scattering-factor number of every element is kept). -/
theorem table_order_preserved (P : Printer α) (kw : Tab → α) (hP : Stable P kw) (f : List (PLine α))
    (hsp : ∀ l ∈ f, l.spliced = false) (t : Tab) :
    tableVals t (parse (cycle P f)) = tableVals t (parse f) := by
  have h := reread_vals P kw hP (fun t => tableVals t (parse f)) t f {} hsp
  have e1 : tableVals t (parse (cycle P f))
      = foldOut (itemVals t) (outState {}) (outAux P (fun t => tableVals t (parse f)) {} f) := by
    rw [cycle_eq]
    simp only [tableVals, parse, foldOut_eq]
    rfl
  rw [e1, h]
  rcases isTable_le_one t f {} with h0 | h1
  · rw [h0]
    have := vals_nil_of_no_table t f {} (by cases t <;> rfl) h0
    simp only [tableVals, parse, foldOut_eq]
    simp [this]
  · rw [h1]; simp

/-- **write_fixpoint**: reading a written file and writing it again reproduces it, line for line.
    The only hypotheses are the per-class idempotence facts about the printers (`Stable`). -/
theorem write_fixpoint (P : Printer α) (kw : Tab → α) (hP : Stable P kw) (f : List (PLine α))
    (hsp : ∀ l ∈ f, l.spliced = false) : cycle P (cycle P f) = cycle P f :=
  write_fixpoint_of_tables P kw hP f hsp (table_order_preserved P kw hP f hsp)

/-- **include_no_accumulation**: see `include_no_accumulation_of_tables`; the table hypothesis is discharged. -/
theorem include_no_accumulation [DecidableEq α] (P : Printer α) (kw : Tab → α) (hP : Stable P kw) (fs : FS α) (k : Nat)
    (f : List (PLine α)) (hsp : ∀ l ∈ f, l.spliced = false)
    (hf : (includeNames (spliceNew fs k f)).Nodup ∧ InclOk fs k f)
    (hg : (includeNames (spliceNew fs k (cycle P f))).Nodup ∧ InclOk fs k (cycle P f)) (n : Nat) :
    iterO (cycleNew P fs k) (n + 1) f = some (cycle P f) :=
  include_no_accumulation_of_tables P kw hP fs k f hsp (table_order_preserved P kw hP f hsp) hf hg n

/-! ### the code before fixes/C07_1: included content accumulates (witness), and concrete instances -/

namespace Witness

def kwN : Tab → Nat
  | .sfac => 100
  | .fvar => 101

def mk (text : Nat) (cls : Cls) (kwd : Nat) (cont : Bool := false) (incl : Option Nat := none) (vals : List Nat := []) :
    PLine Nat :=
  { text := text, indented := false, empty := false, cont := cont, cls := cls, key := (kwd, text), vals := vals,
    incl := incl, spliced := false }

/-- a printer over `Nat` texts: an object prints one normalised line, a table prints 7 values per line -/
def Pn : Printer Nat where
  card l := [{ l with text := l.text / 2 * 2, cont := false, indented := false, empty := false, spliced := false }]
  table t vs := (chunks 6 vs).map fun c =>
    [{ text := 0, indented := false, empty := false, cont := false, cls := .tab t, key := (kwN t, c.headD 0), vals := c,
       incl := none, spliced := false }]

/-- `+inc` -/
def incLine : PLine Nat := mk 1 .raw 50 (incl := some 7)
/-- a line of the include file that the parser does not interpret -/
def x : PLine Nat := mk 2 .raw 51
def fsN : FS Nat := fun n => if n = 7 then some [x] else none

theorem outAux_replicate_x (tv : Tab → List Nat) (k : Nat) :
    outAux Pn tv ⟨false, false, .top⟩ (List.replicate k x) = List.replicate k x := by
  induction k with
  | zero => rfl
  | succ k ih =>
    simp only [List.replicate_succ, outAux]
    rw [show (step (⟨false, false, .top⟩ : St) x) = (Item.str x, ⟨false, false, .top⟩) from rfl]
    simp only [ih]
    rfl

theorem cycle_old_step (k : Nat) :
    cycleOld Pn fsN (incLine :: List.replicate k x) = some (incLine :: List.replicate (k + 1) x) := by
  have hn : includeNames (incLine :: List.replicate k x) = [7] := by
    induction k with
    | zero => rfl
    | succ k ih =>
      simp only [includeNames, List.replicate_succ] at ih ⊢
      rw [List.filterMap_cons] at ih ⊢
      simp only [incLine, mk] at ih ⊢
      rw [List.filterMap_cons]
      simpa [x, mk] using ih
  have hs : spliceOld fsN (incLine :: List.replicate k x) = incLine :: List.replicate (k + 1) x := by
    have : ∀ k, (List.replicate k x).flatMap (spliceLineOld fsN) = List.replicate k x := by
      intro k
      induction k with
      | zero => rfl
      | succ k ih => simp only [List.replicate_succ, List.flatMap_cons, ih]; rfl
    simp only [spliceOld, List.flatMap_cons]
    rw [this]
    rfl
  have hnd : ([7] : List Nat).Nodup := by decide
  simp only [cycleOld, hn, hnd, if_true, hs, cycle_eq]
  congr 1
  simp only [outAux]
  rw [show (step ({} : St) incLine) = (Item.str incLine, ⟨false, false, .top⟩) from rfl]
  rw [outAux_replicate_x]
  rfl

/-- **include_accumulates_old**: with `_find_included_files` as it was, `n` read/write cycles of the file `+inc`
    leave `n` copies of the included line in the file — for every `n` (this is the replay of fixes/C07_1). -/
theorem include_accumulates_old (n : Nat) :
    iterO (cycleOld Pn fsN) n [incLine] = some (incLine :: List.replicate n x) := by
  have gen : ∀ n k, iterO (cycleOld Pn fsN) n (incLine :: List.replicate k x)
      = some (incLine :: List.replicate (k + n) x) := by
    intro n
    induction n with
    | zero => intro k; rfl
    | succ n ih =>
      intro k
      simp only [iterO, cycle_old_step, Option.bind_some, ih]
      congr 3
      omega
  simpa using gen n 0

theorem copies_old (n : Nat) :
    (iterO (cycleOld Pn fsN) n [incLine]).map (List.count x) = some n := by
  rw [include_accumulates_old]
  simp only [Option.map_some, Option.some.injEq]
  rw [List.count_cons_of_ne (by decide)]
  simp

/-- the repaired reader on the same file: one copy of nothing, for every number of cycles -/
example : iterO (cycleNew Pn fsN 2) 3 [incLine] = some [incLine] := by decide

/-- nested include files: `+7` holds a line, `+8`, and a further line behind it; file 8 holds one line -/
def fsNested : FS Nat := fun n =>
  if n = 7 then some [x, mk 3 .raw 52 (incl := some 8), mk 4 .obj 53] else if n = 8 then some [mk 5 .atom 54] else none

example : iterO (cycleNew Pn fsNested 3) 3 [mk 9 .obj 55, incLine, mk 10 .raw 56]
    = some (cycle Pn [mk 9 .obj 55, incLine, mk 10 .raw 56]) := by decide
example : (spliceNew fsNested 3 [incLine]).length = 5 := by decide

/-- a file with every kind of line: comment, two SFAC and two FVAR lines (9 values), a wrapped instruction, an
    uninterpreted wrapped line, an unknown keyword, an atom, a blank line -/
def demo : List (PLine Nat) :=
  [ mk 10 .obj 1,
    { mk 11 .raw 0 with indented := true },
    mk 12 (.tab .sfac) 100 (vals := [1, 2]),
    mk 13 .obj 2 (cont := true), { mk 14 .raw 0 with indented := true },
    mk 15 (.tab .sfac) 100 (vals := [3]),
    mk 16 (.tab .fvar) 101 (vals := [1, 2, 3, 4, 5]),
    mk 17 .raw 3 (cont := true), { mk 18 .raw 0 with indented := true },
    { mk 19 .raw 0 with empty := true },
    mk 20 (.tab .fvar) 101 (vals := [6, 7, 8, 9]),
    mk 21 .atom 4,
    mk 23 .raw 5 ]

example : coalesce kwN (keySeq kwN (cycle Pn demo)) = coalesce kwN (keySeq kwN demo) := by decide
example : cycle Pn (cycle Pn demo) = cycle Pn demo := by decide
example : (keySeq kwN (cycle Pn demo)).length = 8 ∧ (keySeq kwN demo).length = 9
    ∧ (coalesce kwN (keySeq kwN demo)).length = 7 := by decide
example : ∀ t, tableVals t (parse (cycle Pn demo)) = tableVals t (parse demo) := by
  intro t; cases t <;> decide
example : RawAt (demo.take 7) (mk 17 .raw 3 (cont := true)) ∧ RawAt (demo.take 8) { mk 18 .raw 0 with indented := true } := by
  refine ⟨⟨rfl, ?_⟩, ⟨rfl, ?_⟩⟩
  · rw [show (endSt {} (demo.take 7)).mode = .top from by decide]
    exact Or.inr ⟨rfl, rfl⟩
  · rw [show (endSt {} (demo.take 8)).mode = .rawCont from by decide]
    trivial

end Witness

end Shelx.C07

/-
  C06 — property theorems (model and specification: ShelxModel/C06.lean).

  Quantified over ALL instructions `l : List Char` (any number of tokens, any token lengths, any runs of blanks);
  the wrap width, indent, suffix and separator are the constants the translator reads off `misc.wrap_line` on every
  run (`Cfg.extracted`), and `consts_ok` is the decidable statement about them (`len(sep) + width + len(" =") ≤ 80`, …)
  that an edited constant breaks.

    wrap_width      noNL l →                        every physical line of `wrapLine l` has at most 80 columns
    wrap_shape      noNL l →                        all but the last end in " =", all but the first begin with a blank
    wrap_tokens     noNL l → endOk l → noLongTok l → the continuation-joining lexer gives exactly one logical line, with
                                                    the token sequence of `l` (so every break is between two tokens)
    wrap_nonblank   noNL l → endOk l →              … with the non-blank characters of `l`, in order (over-long tokens too)
    write_item_width                                the same bound for every '\n'-separated part of any item text
    write_item_verbatim  all parts ≤ shortMax →     a kept text (instruction + its continuation lines) is written exactly as it is
    write_item_tokens    partsOk (parts text) →     the lexer finds in the written item the logical lines of the text, token for
                                                    token (long parts are wrapped, also when they continue the part before them);
                                                    partsOk: a part longer than 80 characters does not end in '=' (open finding
                                                    C06|file|raw-continued|mark-line>80-by-blanks, witness
                                                    write_item_tokens_fails_on_flagged_long, WriteItemTokensStatement is false)
    fvar_lines_valid / sfac_line_valid              every line of the multi-line printers is keyword + ≥ 1 parameter
    wrap_width_fails_on_79, wrap_tokens_fails_on_long_token, sfac_line_fails_on_empty, fvar_value_alone_is_bare   witnesses

  Hypotheses: `noNL` — the writer splits at '\n' before it wraps, so `wrap_line` never sees one; `endOk` — the
  instruction does not itself end in '=' (such a line is not a complete instruction in a SHELXL file; the real code
  returns it with the dangling mark, checked by the harness in the correspondence stream only); `noLongTok` — no token is
  longer than `width - len(indent)` = 75 characters: such a token cannot be kept whole on a continuation line, the code
  splits it (`break_long_words`), `wrap_tokens_fails_on_long_token` shows the statement is false without it, and
  `wrap_nonblank` states what survives. White space other than the blank (tabs, which textwrap expands) is outside
  the model's domain (harness assumption).

  Open findings of the second half (written files after index-shifting edits; explicit SFAC) are not statements about
  `wrap_line`; full-strength statement: every logical line of `write (edit* (parse f))` is an instruction, atom or
  comment with its parameters. Proved here: the per-printer parts (`fvar_lines_valid`, `sfac_line_valid` — partial, see
  there) and the two witnesses.
-/
import ShelxModel.C06

namespace Shelx.C06

def AllBlank (l : List Char) : Prop := ∀ x ∈ l, x = ' '
def NoBlank (l : List Char) : Prop := ∀ x ∈ l, x ≠ ' '

/-! ### splitting -/

theorem splitOnC_ne_nil (s : Char) (l : List Char) : splitOnC s l ≠ [] := by
  induction l with
  | nil => simp [splitOnC]
  | cons c cs ih =>
    unfold splitOnC
    split
    · simp
    · split <;> simp

theorem splitOnC_append_sep (s : Char) (a b : List Char) :
    splitOnC s (a ++ s :: b) = splitOnC s a ++ splitOnC s b := by
  induction a with
  | nil => simp [splitOnC]
  | cons c a ih =>
    by_cases h : c = s
    · simp [splitOnC, h, ih]
    · rcases hs : splitOnC s a with _ | ⟨h', t⟩
      · exact absurd hs (splitOnC_ne_nil s a)
      · simp [splitOnC, h, ih, hs]

theorem splitOnC_not_mem (s : Char) (a : List Char) (h : s ∉ a) : splitOnC s a = [a] := by
  induction a with
  | nil => rfl
  | cons c a ih =>
    have hc : c ≠ s := fun e => h (by simp [e])
    have ha : s ∉ a := fun e => h (by simp [e])
    simp [splitOnC, hc, ih ha]

/-! ### tokens -/

theorem tokens_nil : tokens [] = [] := by simp [tokens, splitOnC]

theorem tokens_append_blank (a b : List Char) : tokens (a ++ ' ' :: b) = tokens a ++ tokens b := by
  simp [tokens, splitOnC_append_sep]

theorem tokens_blank_cons (b : List Char) : tokens (' ' :: b) = tokens b := by
  simpa [tokens_nil] using tokens_append_blank [] b

theorem tokens_blanks_append (bl c : List Char) (h : AllBlank bl) : tokens (bl ++ c) = tokens c := by
  induction bl with
  | nil => rfl
  | cons x bl ih =>
    have hx : x = ' ' := h x (by simp)
    subst hx
    rw [List.cons_append, tokens_blank_cons]
    exact ih (fun y hy => h y (by simp [hy]))

theorem tokens_allBlank (bl : List Char) (h : AllBlank bl) : tokens bl = [] := by
  simpa [tokens_nil] using tokens_blanks_append bl [] h

theorem tokens_of_tok (t : List Char) (h1 : t ≠ []) (h2 : NoBlank t) : tokens t = [t] := by
  have : ' ' ∉ t := fun hm => h2 ' ' hm rfl
  simp [tokens, splitOnC_not_mem _ _ this, h1]

/-- the two halves of a line can be lexed separately when the cut is next to a blank -/
def SepOK (a b : List Char) : Prop := a = [] ∨ b = [] ∨ (∃ a', a = a' ++ [' ']) ∨ (∃ b', b = ' ' :: b')

theorem tokens_append_sepOK (a b : List Char) (h : SepOK a b) : tokens (a ++ b) = tokens a ++ tokens b := by
  rcases h with h | h | ⟨a', h⟩ | ⟨b', h⟩
  · simp [h, tokens_nil]
  · simp [h, tokens_nil]
  · subst h
    have := tokens_append_blank a' b
    have h2 := tokens_append_blank a' []
    simp [tokens_nil] at h2
    simp [this, h2]
  · subst h
    rw [tokens_append_blank, tokens_blank_cons]

/-! ### chunks -/

/-- every chunk is a non-empty run of blanks or of non-blanks -/
def Hom (chs : List (List Char)) : Prop := ∀ ch ∈ chs, ch ≠ [] ∧ (AllBlank ch ∨ NoBlank ch)

/-- of two neighbouring chunks one is a run of blanks -/
def Adj : List (List Char) → Prop
  | a :: b :: rest => (AllBlank a ∨ AllBlank b) ∧ Adj (b :: rest)
  | _ => True

/-- a chunk that is not a run of blanks is at most `W` long -/
def Short (W : Nat) (chs : List (List Char)) : Prop := ∀ ch ∈ chs, AllBlank ch ∨ ch.length ≤ W

theorem chunks_flatten (l : List Char) : (chunks l).flatten = l := by
  induction l with
  | nil => rfl
  | cons c cs ih =>
    simp only [chunks]
    rcases h : chunks cs with _ | ⟨(_ | ⟨d, ds⟩), rest⟩
    · rw [h] at ih; simp at ih; simp [ih]
    · rw [h] at ih; simp at ih; simp [ih]
    · rw [h] at ih
      simp only
      split <;> simp at ih ⊢ <;> exact ih

theorem chunks_hom (l : List Char) : Hom (chunks l) := by
  induction l with
  | nil => intro ch h; simp [chunks] at h
  | cons c cs ih =>
    simp only [chunks]
    have hc : AllBlank [c] ∨ NoBlank [c] := by
      by_cases e : c = ' '
      · left; intro x hx; simp at hx; simp [hx, e]
      · right; intro x hx; simp at hx; simp [hx, e]
    rcases h : chunks cs with _ | ⟨(_ | ⟨d, ds⟩), rest⟩
    · intro ch hm; simp at hm; subst hm; exact ⟨by simp, hc⟩
    · rw [h] at ih
      intro ch hm
      simp at hm
      rcases hm with hm | hm
      · subst hm; exact ⟨by simp, hc⟩
      · exact ih ch (by simp [hm])
    · rw [h] at ih
      have hd := ih (d :: ds) (by simp)
      simp only
      split
      · rename_i heq
        intro ch hm
        simp at hm
        rcases hm with hm | hm
        · subst hm
          refine ⟨by simp, ?_⟩
          rcases hd.2 with hb | hn
          · left
            have : d = ' ' := hb d (by simp)
            have hc' : c = ' ' := by simpa [this] using heq
            intro x hx
            simp at hx
            rcases hx with hx | hx | hx
            · simp [hx, hc']
            · simp [hx, this]
            · exact hb x (by simp [hx])
          · right
            have : d ≠ ' ' := hn d (by simp)
            have hc' : c ≠ ' ' := by
              intro e
              rw [e] at heq
              simp [this] at heq
            intro x hx
            simp at hx
            rcases hx with hx | hx | hx
            · simp [hx, hc']
            · simp [hx, this]
            · exact hn x (by simp [hx])
        · exact ih ch (by simp [hm])
      · intro ch hm
        simp at hm
        rcases hm with hm | hm | hm
        · subst hm; exact ⟨by simp, hc⟩
        · subst hm; exact hd
        · exact ih ch (by simp [hm])

theorem chunks_adj (l : List Char) : Adj (chunks l) := by
  induction l with
  | nil => simp [chunks, Adj]
  | cons c cs ih =>
    have hh := chunks_hom cs
    simp only [chunks]
    rcases h : chunks cs with _ | ⟨(_ | ⟨d, ds⟩), rest⟩
    · simp [Adj]
    · rw [h] at hh
      exact absurd rfl (hh [] (by simp)).1
    · rw [h] at ih hh
      have hd := hh (d :: ds) (by simp)
      simp only
      split
      · rename_i heq
        cases rest with
        | nil => simp [Adj]
        | cons e rest =>
          simp only [Adj] at ih ⊢
          refine ⟨?_, ih.2⟩
          rcases ih.1 with hb | hb
          · left
            have : d = ' ' := hb d (by simp)
            have hc' : c = ' ' := by simpa [this] using heq
            intro x hx
            simp at hx
            rcases hx with hx | hx | hx
            · simp [hx, hc']
            · simp [hx, this]
            · exact hb x (by simp [hx])
          · right; exact hb
      · rename_i hne
        simp only [Adj]
        refine ⟨?_, ih⟩
        by_cases e : c = ' '
        · left; intro x hx; simp at hx; simp [hx, e]
        · right
          have hdb : d = ' ' := by
            by_cases e2 : d = ' '
            · exact e2
            · have h3 : (c == ' ') = (d == ' ') := by
                rw [beq_eq_false_iff_ne.mpr e, beq_eq_false_iff_ne.mpr e2]
              exact absurd h3 hne
          rcases hd.2 with hb | hn
          · exact hb
          · exact absurd hdb (hn d (by simp))

theorem hom_tail {a : List Char} {chs : List (List Char)} (h : Hom (a :: chs)) : Hom chs :=
  fun ch hm => h ch (by simp [hm])

theorem adj_tail {a : List Char} {chs : List (List Char)} (h : Adj (a :: chs)) : Adj chs := by
  cases chs with
  | nil => simp [Adj]
  | cons b r => exact h.2

theorem hom_suffix (pre rest : List (List Char)) (h : Hom (pre ++ rest)) : Hom rest :=
  fun ch hm => h ch (by simp [hm])

theorem short_suffix (W : Nat) (pre rest : List (List Char)) (h : Short W (pre ++ rest)) : Short W rest :=
  fun ch hm => h ch (by simp [hm])

theorem adj_suffix (pre rest : List (List Char)) (h : Adj (pre ++ rest)) : Adj rest := by
  induction pre with
  | nil => exact h
  | cons p pre ih => exact ih (adj_tail h)

theorem allBlank_ends {a : List Char} (h : AllBlank a) (hne : a ≠ []) : ∃ a', a = a' ++ [' '] := by
  refine ⟨a.dropLast, ?_⟩
  have h1 := List.dropLast_concat_getLast hne
  have hl : a.getLast hne = ' ' := h _ (List.getLast_mem hne)
  rw [hl] at h1
  exact h1.symm

theorem allBlank_starts {b : List Char} (h : AllBlank b) (hne : b ≠ []) : ∃ b', b = ' ' :: b' := by
  cases b with
  | nil => exact absurd rfl hne
  | cons x b' => exact ⟨b', by rw [h x (by simp)]⟩

/-- a cut between two chunks is always next to a blank -/
theorem sepOK_of_split (pre rest : List (List Char)) (hh : Hom (pre ++ rest)) (ha : Adj (pre ++ rest)) :
    SepOK pre.flatten rest.flatten := by
  induction pre with
  | nil => left; rfl
  | cons p pre ih =>
    have hh' : Hom (pre ++ rest) := hom_tail hh
    have ha' : Adj (pre ++ rest) := adj_tail ha
    have hp := hh p (by simp)
    cases pre with
    | nil =>
      cases rest with
      | nil => right; left; rfl
      | cons b r =>
        have hb := hh b (by simp)
        have ha1 : AllBlank p ∨ AllBlank b := ha.1
        rcases ha1 with h | h
        · right; right; left
          obtain ⟨a', e⟩ := allBlank_ends h hp.1
          exact ⟨a', by simp [e]⟩
        · right; right; right
          obtain ⟨b', e⟩ := allBlank_starts h hb.1
          exact ⟨b' ++ r.flatten, by simp [e]⟩
    | cons q pre' =>
      rcases ih hh' ha' with h | h | ⟨a', h⟩ | ⟨b', h⟩
      · have hq := hh q (by simp)
        simp at h
        exact absurd h.1 hq.1
      · right; left; exact h
      · right; right; left
        refine ⟨p ++ a', ?_⟩
        rw [List.flatten_cons, h, List.append_assoc]
      · right; right; right; exact ⟨b', h⟩

theorem tokens_flatten (chs : List (List Char)) (hh : Hom chs) (ha : Adj chs) :
    tokens chs.flatten = chs.flatMap tokens := by
  induction chs with
  | nil => simp [tokens_nil]
  | cons a rest ih =>
    have hs : SepOK [a].flatten rest.flatten := sepOK_of_split [a] rest hh ha
    have e : [a].flatten = a := by simp
    rw [e] at hs
    rw [List.flatten_cons, tokens_append_sepOK _ _ hs, ih (hom_tail hh) (adj_tail ha)]
    simp [List.flatMap_cons]

/-- the non-blank chunks of a line are its tokens -/
theorem chunk_mem_tokens (l ch : List Char) (hm : ch ∈ chunks l) (hn : NoBlank ch) : ch ∈ tokens l := by
  have h := tokens_flatten (chunks l) (chunks_hom l) (chunks_adj l)
  rw [chunks_flatten] at h
  rw [h]
  exact List.mem_flatMap.mpr ⟨ch, hm, by rw [tokens_of_tok ch (chunks_hom l ch hm).1 hn]; simp⟩

theorem chunks_short (W : Nat) (l : List Char) (h : noLongTok W l = true) : Short W (chunks l) := by
  intro ch hm
  rcases (chunks_hom l ch hm).2 with hb | hn
  · left; exact hb
  · right
    have h1 := chunk_mem_tokens l ch hm hn
    simp only [noLongTok, List.all_eq_true] at h
    simpa using h ch h1

/-! ### the greedy line filling -/

theorem fill_flatten (w : Nat) (chs : List (List Char)) (cur : Nat) :
    (fill w cur chs).1 ++ (fill w cur chs).2.flatten = chs.flatten := by
  induction chs generalizing cur with
  | nil => simp [fill]
  | cons ch rest ih =>
    simp only [fill]
    split
    · simp [ih (cur + ch.length)]
    · simp

theorem fill_split (w : Nat) (chs : List (List Char)) (cur : Nat) :
    ∃ pre, chs = pre ++ (fill w cur chs).2 ∧ (fill w cur chs).1 = pre.flatten := by
  induction chs generalizing cur with
  | nil => exact ⟨[], by simp [fill]⟩
  | cons ch rest ih =>
    simp only [fill]
    split
    · obtain ⟨pre, h1, h2⟩ := ih (cur + ch.length)
      refine ⟨ch :: pre, ?_, ?_⟩
      · simp only [List.cons_append]
        exact congrArg (ch :: ·) h1
      · simp [h2]
    · exact ⟨[], by simp⟩

theorem fill_len (w : Nat) (chs : List (List Char)) (cur : Nat) (h : cur ≤ w) :
    cur + (fill w cur chs).1.length ≤ w := by
  induction chs generalizing cur with
  | nil => simpa [fill] using h
  | cons ch rest ih =>
    simp only [fill]
    split
    · rename_i hf
      have := ih (cur + ch.length) hf
      simp only [List.length_append]
      omega
    · simpa using h

theorem lineStep_flatten (w : Nat) (chs : List (List Char)) :
    (lineStep w chs).1 ++ (lineStep w chs).2.flatten = chs.flatten := by
  have hf := fill_flatten w chs 0
  unfold lineStep
  simp only
  rcases hr : (fill w 0 chs).2 with _ | ⟨ch, rest⟩
  · rw [hr] at hf; simpa using hf
  · rw [hr] at hf
    simp only
    split
    · rw [← hf]
      simp only [List.flatten_cons, List.append_assoc]
      rw [← List.append_assoc (List.take _ ch), List.take_append_drop]
    · exact hf

theorem lineStep_len (w : Nat) (chs : List (List Char)) (hw : 1 ≤ w) : (lineStep w chs).1.length ≤ w := by
  have hl := fill_len w chs 0 (Nat.zero_le _)
  unfold lineStep
  simp only
  rcases hr : (fill w 0 chs).2 with _ | ⟨ch, rest⟩
  · simp only; omega
  · simp only
    split
    · have : ¬ w < 1 := by omega
      simp only [this, if_false, List.length_append, List.length_take]
      omega
    · simp only; omega

theorem lineStep_ne_nil (w : Nat) (ch : List Char) (rest : List (List Char)) (hne : ch ≠ []) (hw : 1 ≤ w) :
    (lineStep w (ch :: rest)).1 ≠ [] := by
  have hpos : 0 < ch.length := List.length_pos_iff.mpr hne
  by_cases hfit : ch.length ≤ w
  · -- the first chunk is taken by `fill`
    unfold lineStep
    have e : fill w 0 (ch :: rest) = (ch ++ (fill w (0 + ch.length) rest).1, (fill w (0 + ch.length) rest).2) := by
      simp [fill, hfit]
    rw [e]
    simp only
    split
    · simp [hne]
    · split <;> simp [hne]
  · -- it fits on no line: `_handle_long_word` takes `w` characters
    unfold lineStep
    have e : fill w 0 (ch :: rest) = ([], ch :: rest) := by simp [fill, hfit]
    rw [e]
    have h1 : ch.length > w := by omega
    have h2 : ¬ w < 1 := by omega
    simp only [h1, h2, if_true, if_false, List.nil_append, List.length_nil, Nat.sub_zero]
    intro h
    have h3 : (List.take w ch).length = 0 := by rw [h]; rfl
    rw [List.length_take] at h3
    omega

theorem lineStep_nonempty (w : Nat) (chs : List (List Char)) (hn : ∀ ch ∈ chs, ch ≠ []) (hw : 1 ≤ w) :
    ∀ ch ∈ (lineStep w chs).2, ch ≠ [] := by
  obtain ⟨pre, h1, _⟩ := fill_split w chs 0
  have hl := fill_len w chs 0 (Nat.zero_le _)
  unfold lineStep
  simp only
  rcases hr : (fill w 0 chs).2 with _ | ⟨ch, rest⟩
  · simp
  · rw [hr] at h1
    have hsuf : ∀ c ∈ ch :: rest, c ≠ [] := by
      intro c hc
      apply hn c
      rw [h1]
      exact List.mem_append_right _ hc
    simp only
    split
    · rename_i hlong
      have hnw : ¬ w < 1 := by omega
      simp only [hnw, if_false]
      intro c hc
      simp only [List.mem_cons] at hc
      rcases hc with hc | hc
      · subst hc
        intro h
        have h3 : (List.drop (w - (fill w 0 chs).1.length) ch).length = 0 := by rw [h]; rfl
        rw [List.length_drop] at h3
        omega
      · exact hsuf c (by simp [hc])
    · exact hsuf

theorem lineStep_inv (W w : Nat) (chs : List (List Char)) (hh : Hom chs) (ha : Adj chs) (hs : Short W chs)
    (hW : W ≤ w) (hw : 1 ≤ w) :
    Hom (lineStep w chs).2 ∧ Adj (lineStep w chs).2 ∧ Short W (lineStep w chs).2 ∧
      SepOK (lineStep w chs).1 (lineStep w chs).2.flatten := by
  obtain ⟨pre, h1, h2⟩ := fill_split w chs 0
  have hl := fill_len w chs 0 (Nat.zero_le _)
  unfold lineStep
  simp only
  rcases hr : (fill w 0 chs).2 with _ | ⟨ch, rest⟩
  · simp only
    refine ⟨by intro c hc; simp at hc, by simp [Adj], by intro c hc; simp at hc, ?_⟩
    right; left; rfl
  · rw [hr] at h1
    have hh2 : Hom (ch :: rest) := hom_suffix pre _ (h1 ▸ hh)
    have ha2 : Adj (ch :: rest) := adj_suffix pre _ (h1 ▸ ha)
    have hs2 : Short W (ch :: rest) := short_suffix W pre _ (h1 ▸ hs)
    simp only
    split
    · rename_i hlong
      have hb : AllBlank ch := by
        rcases hs2 ch (by simp) with h | h
        · exact h
        · omega
      have hnw : ¬ w < 1 := by omega
      simp only [hnw, if_false]
      have hsp : w - (fill w 0 chs).1.length < ch.length := by omega
      generalize w - (fill w 0 chs).1.length = sp at hsp ⊢
      have hdb : AllBlank (ch.drop sp) := fun x hx => hb x (List.mem_of_mem_drop hx)
      have hdne : ch.drop sp ≠ [] := by
        intro h
        have h3 : (ch.drop sp).length = 0 := by rw [h]; rfl
        rw [List.length_drop] at h3
        omega
      refine ⟨?_, ?_, ?_, ?_⟩
      · intro c hc
        simp only [List.mem_cons] at hc
        rcases hc with hc | hc
        · subst hc; exact ⟨hdne, Or.inl hdb⟩
        · exact hh2 c (by simp [hc])
      · cases rest with
        | nil => simp [Adj]
        | cons b r => exact ⟨Or.inl hdb, ha2.2⟩
      · intro c hc
        simp only [List.mem_cons] at hc
        rcases hc with hc | hc
        · subst hc; exact Or.inl hdb
        · exact hs2 c (by simp [hc])
      · right; right; right
        obtain ⟨b', e⟩ := allBlank_starts hdb hdne
        exact ⟨b' ++ rest.flatten, by simp [e]⟩
    · refine ⟨hh2, ha2, hs2, ?_⟩
      rw [h2]
      exact sepOK_of_split pre (ch :: rest) (h1 ▸ hh) (h1 ▸ ha)

/-! ### the outer loop -/

/-- the fuel never runs out and no character is lost, added or moved -/
theorem wrapLoop_flatten (w' : Nat) (hw' : 1 ≤ w') : ∀ (fuel w : Nat) (chs : List (List Char)), 1 ≤ w →
    (∀ ch ∈ chs, ch ≠ []) → chs.flatten.length < fuel → (wrapLoop w' fuel w chs).flatten = chs.flatten := by
  intro fuel
  induction fuel with
  | zero => intro w chs _ _ h; omega
  | succ fuel ih =>
    intro w chs hw hn hf
    cases chs with
    | nil => simp [wrapLoop]
    | cons ch chs =>
      simp only [wrapLoop]
      have h1 := lineStep_flatten w (ch :: chs)
      have h2 := lineStep_ne_nil w ch chs (hn ch (by simp)) hw
      have h3 := lineStep_nonempty w (ch :: chs) hn hw
      have hlen : (lineStep w (ch :: chs)).2.flatten.length < fuel := by
        have h4 := congrArg List.length h1
        rw [List.length_append] at h4
        have h5 : 0 < (lineStep w (ch :: chs)).1.length := List.length_pos_iff.mpr h2
        omega
      rw [List.flatten_cons, ih w' _ hw' h3 hlen, h1]

theorem wrapLoop_len (w' : Nat) (hw' : 1 ≤ w') : ∀ (fuel : Nat) (chs : List (List Char)),
    ∀ q ∈ wrapLoop w' fuel w' chs, q.length ≤ w' := by
  intro fuel
  induction fuel with
  | zero => intro chs q hq; simp [wrapLoop] at hq
  | succ fuel ih =>
    intro chs q hq
    cases chs with
    | nil => simp [wrapLoop] at hq
    | cons ch chs =>
      simp only [wrapLoop, List.mem_cons] at hq
      rcases hq with hq | hq
      · subst hq; exact lineStep_len w' _ hw'
      · exact ih _ q hq

theorem wrapLoop_len_first (w' w : Nat) (hw' : 1 ≤ w') (hw : 1 ≤ w) (fuel : Nat) (chs : List (List Char)) :
    ∀ p ps, wrapLoop w' fuel w chs = p :: ps → p.length ≤ w ∧ ∀ q ∈ ps, q.length ≤ w' := by
  intro p ps h
  cases fuel with
  | zero => simp [wrapLoop] at h
  | succ fuel =>
    cases chs with
    | nil => simp [wrapLoop] at h
    | cons ch chs =>
      simp only [wrapLoop, List.cons.injEq] at h
      obtain ⟨h1, h2⟩ := h
      subst h1 h2
      exact ⟨lineStep_len w _ hw, wrapLoop_len w' hw' fuel _⟩

/-- when no token has to be split, every line break falls between two tokens -/
theorem wrapLoop_tokens (W w' : Nat) (hw' : 1 ≤ w') (hW' : W ≤ w') : ∀ (fuel w : Nat) (chs : List (List Char)),
    1 ≤ w → W ≤ w → Hom chs → Adj chs → Short W chs → chs.flatten.length < fuel →
    (wrapLoop w' fuel w chs).flatMap tokens = tokens chs.flatten := by
  intro fuel
  induction fuel with
  | zero => intro w chs _ _ _ _ _ h; omega
  | succ fuel ih =>
    intro w chs hw hW hh ha hs hf
    cases chs with
    | nil => simp [wrapLoop, tokens_nil]
    | cons ch chs =>
      simp only [wrapLoop]
      have h1 := lineStep_flatten w (ch :: chs)
      have h2 := lineStep_ne_nil w ch chs (hh ch (by simp)).1 hw
      obtain ⟨i1, i2, i3, i4⟩ := lineStep_inv W w (ch :: chs) hh ha hs hW hw
      have hlen : (lineStep w (ch :: chs)).2.flatten.length < fuel := by
        have h4 := congrArg List.length h1
        rw [List.length_append] at h4
        have h5 : 0 < (lineStep w (ch :: chs)).1.length := List.length_pos_iff.mpr h2
        omega
      rw [List.flatMap_cons, ih w' _ hw' hW' i1 i2 i3 hlen, ← tokens_append_sepOK _ _ i4, h1]

/-! ### non-blank characters, last non-blank character -/

theorem nonblank_append (a b : List Char) : nonblank (a ++ b) = nonblank a ++ nonblank b := by
  simp [nonblank]

theorem nonblank_allBlank (b : List Char) (h : AllBlank b) : nonblank b = [] := by
  simp only [nonblank, List.filter_eq_nil_iff]
  intro x hx
  simp [h x hx]

theorem lastNB_nonblank (l : List Char) : lastNB l = (nonblank l).reverse.head? := by
  simp [lastNB, nonblank, ← List.filter_reverse, List.head?_filter]

theorem lastNB_append (a b : List Char) : lastNB (a ++ b) = (lastNB b).or (lastNB a) := by
  simp [lastNB, List.find?_append]

/-! ### what the joined pieces look like as physical lines, and what the lexer makes of them -/

/-- the physical lines of `pre ++ joinPieces ps` -/
def physOf (pre : List Char) : List (List Char) → List (List Char)
  | [] => [pre]
  | [p] => [pre ++ p]
  | p :: q :: ps => (pre ++ p ++ [' ', '=']) :: physOf [' '] (q :: ps)

/-- the logical line the lexer recovers from them -/
def joined (pre : List Char) : List (List Char) → List Char
  | [] => pre
  | [p] => pre ++ p
  | p :: q :: ps => pre ++ p ++ [' '] ++ joined [' '] (q :: ps)

/-- the last physical line is not flagged as continued -/
def LastOk (pre : List Char) : List (List Char) → Prop
  | [] => flagged pre = false
  | [p] => flagged (pre ++ p) = false
  | _ :: q :: ps => LastOk [' '] (q :: ps)

theorem physOf_ne_nil (pre : List Char) (ps : List (List Char)) : physOf pre ps ≠ [] := by
  rcases ps with _ | ⟨p, _ | ⟨q, ps⟩⟩ <;> simp [physOf]

theorem physLines_join (cfg : Cfg) (hs : cfg.suffix = [' ', '=', '\n']) (hsep : cfg.sep = [' ']) :
    ∀ (ps : List (List Char)) (pre : List Char), (∀ p ∈ ps, '\n' ∉ p) → '\n' ∉ pre →
      physLines (pre ++ joinPieces cfg ps) = physOf pre ps := by
  intro ps
  induction ps with
  | nil =>
    intro pre _ hpre
    simp [joinPieces, physOf, physLines, splitOnC_not_mem _ _ hpre]
  | cons p tl ih =>
    intro pre hps hpre
    have hp := hps p (by simp)
    cases tl with
    | nil =>
      have hn : '\n' ∉ pre ++ p := by simp [hpre, hp]
      simp [joinPieces, physOf, physLines, splitOnC_not_mem _ _ hn]
    | cons q ps' =>
      have e : pre ++ joinPieces cfg (p :: q :: ps') =
          (pre ++ p ++ [' ', '=']) ++ '\n' :: ([' '] ++ joinPieces cfg (q :: ps')) := by
        simp [joinPieces, hs, hsep]
      have hn : '\n' ∉ pre ++ p ++ [' ', '='] := by simp [hpre, hp]
      have h2 := ih [' '] (fun x hx => hps x (by simp [hx])) (by simp)
      unfold physLines at h2 ⊢
      rw [e, splitOnC_append_sep, splitOnC_not_mem _ _ hn, h2]
      simp [physOf]

theorem physOf_len (M : Nat) : ∀ (ps : List (List Char)) (pre : List Char), (∀ p ∈ ps, p.length ≤ M) → pre.length ≤ 1 →
    ∀ pl ∈ physOf pre ps, pl.length ≤ M + 3 := by
  intro ps
  induction ps with
  | nil => intro pre _ hpre pl hpl; simp [physOf] at hpl; subst hpl; omega
  | cons p tl ih =>
    intro pre hps hpre pl hpl
    have hp := hps p (by simp)
    cases tl with
    | nil => simp [physOf] at hpl; subst hpl; simp; omega
    | cons q ps' =>
      simp only [physOf, List.mem_cons] at hpl
      rcases hpl with hpl | hpl
      · subst hpl; simp; omega
      · exact ih [' '] (fun x hx => hps x (by simp [hx])) (by simp) pl hpl

theorem physOf_startsBlank : ∀ (ps : List (List Char)), ∀ pl ∈ physOf [' '] ps, startsBlank pl = true := by
  intro ps
  induction ps with
  | nil => intro pl hpl; simp [physOf] at hpl; subst hpl; rfl
  | cons p tl ih =>
    intro pl hpl
    cases tl with
    | nil => simp [physOf] at hpl; subst hpl; simp [startsBlank]
    | cons q ps' =>
      simp only [physOf, List.mem_cons] at hpl
      rcases hpl with hpl | hpl
      · subst hpl; simp [startsBlank]
      · exact ih pl hpl

theorem physOf_shape : ∀ (ps : List (List Char)) (pre : List Char), shapeOk (physOf pre ps) = true := by
  intro ps
  induction ps with
  | nil => intro pre; simp [physOf, shapeOk]
  | cons p tl ih =>
    intro pre
    cases tl with
    | nil => simp [physOf, shapeOk]
    | cons q ps' =>
      have h1 := ih [' ']
      have h2 := physOf_startsBlank (q :: ps')
      have h3 := physOf_ne_nil [' '] (q :: ps')
      simp only [shapeOk, Bool.and_eq_true] at h1 ⊢
      simp only [physOf]
      rw [List.dropLast_cons_of_ne_nil h3]
      refine ⟨?_, ?_⟩
      · simp only [List.all_cons, Bool.and_eq_true]
        exact ⟨by simp [endsWithEq], h1.1⟩
      · simp only [List.tail_cons, List.all_eq_true]
        exact h2

theorem flagged_eq (y : List Char) : flagged (y ++ [' ', '=']) = true := by
  simp [flagged, lastNB]

theorem body_eq (y : List Char) : body (y ++ [' ', '=']) = y ++ [' '] := by
  simp [body]

theorem unwrap_physOf : ∀ (ps : List (List Char)) (pre : List Char), LastOk pre ps →
    unwrapLines (physOf pre ps) = some [joined pre ps] := by
  intro ps
  induction ps with
  | nil => intro pre h; simp [LastOk] at h; simp [physOf, unwrapLines, joined, h]
  | cons p tl ih =>
    intro pre h
    cases tl with
    | nil => simp [LastOk] at h; simp [physOf, unwrapLines, joined, h]
    | cons q ps' =>
      have h1 := ih [' '] h
      obtain ⟨y, ys, hy⟩ := List.exists_cons_of_ne_nil (physOf_ne_nil [' '] (q :: ps'))
      simp only [physOf, joined]
      rw [hy] at h1 ⊢
      simp only [unwrapLines, flagged_eq, if_true] at h1 ⊢
      rw [h1]
      have hb := body_eq (pre ++ p)
      simp only [List.append_assoc] at hb
      simp [hb]

theorem tokens_joined : ∀ (ps : List (List Char)) (pre : List Char), AllBlank pre →
    tokens (joined pre ps) = ps.flatMap tokens := by
  intro ps
  induction ps with
  | nil => intro pre h; simp [joined, tokens_allBlank pre h]
  | cons p tl ih =>
    intro pre h
    cases tl with
    | nil => simp [joined, tokens_blanks_append pre p h]
    | cons q ps' =>
      have h1 := ih [' '] (by intro x hx; simpa using hx)
      simp only [joined, List.append_assoc, List.singleton_append]
      rw [← List.append_assoc, tokens_append_blank, tokens_blanks_append pre p h, h1]
      simp [List.flatMap_cons]

theorem nonblank_joined : ∀ (ps : List (List Char)) (pre : List Char), AllBlank pre →
    nonblank (joined pre ps) = nonblank ps.flatten := by
  intro ps
  induction ps with
  | nil =>
    intro pre h
    simp only [joined, List.flatten_nil]
    rw [nonblank_allBlank pre h]
    rfl
  | cons p tl ih =>
    intro pre h
    cases tl with
    | nil => simp [joined, nonblank_append, nonblank_allBlank pre h]
    | cons q ps' =>
      have h1 := ih [' '] (by intro x hx; simpa using hx)
      simp only [joined, nonblank_append, h1, nonblank_allBlank pre h, List.flatten_cons]
      simp [nonblank]

theorem lastOk_of : ∀ (ps : List (List Char)) (pre : List Char), AllBlank pre → lastNB ps.flatten ≠ some '=' →
    LastOk pre ps := by
  intro ps
  induction ps with
  | nil =>
    intro pre h _
    simp [LastOk, flagged, lastNB_nonblank, nonblank_allBlank pre h]
  | cons p tl ih =>
    intro pre h hl
    cases tl with
    | nil =>
      simp only [LastOk, flagged]
      simp only [List.flatten_cons, List.flatten_nil, List.append_nil] at hl
      rw [lastNB_nonblank, nonblank_append, nonblank_allBlank pre h, List.nil_append, ← lastNB_nonblank]
      simpa using hl
    | cons q ps' =>
      simp only [LastOk]
      apply ih [' '] (by intro x hx; simpa using hx)
      intro hc
      apply hl
      rw [List.flatten_cons, lastNB_append, hc]
      rfl

/-! ### the pieces of `textwrap.wrap` -/

theorem rawPieces_flatten (cfg : Cfg) (l : List Char) (h1 : cfg.indent.length < cfg.width) :
    (rawPieces cfg l).flatten = l := by
  unfold rawPieces
  rw [wrapLoop_flatten _ (by omega) _ _ _ (by omega) (fun ch hm => (chunks_hom l ch hm).1)
    (by rw [chunks_flatten]; omega), chunks_flatten]

theorem rawPieces_tokens (cfg : Cfg) (l : List Char) (h1 : cfg.indent.length < cfg.width)
    (hl : noLongTok (cfg.width - cfg.indent.length) l = true) : (rawPieces cfg l).flatMap tokens = tokens l := by
  unfold rawPieces
  rw [wrapLoop_tokens (cfg.width - cfg.indent.length) _ (by omega) (Nat.le_refl _) _ _ _ (by omega) (by omega)
    (chunks_hom l) (chunks_adj l) (chunks_short _ l hl) (by rw [chunks_flatten]; omega), chunks_flatten]

theorem rawPieces_len (cfg : Cfg) (l : List Char) (h1 : cfg.indent.length < cfg.width) :
    ∀ p ps, rawPieces cfg l = p :: ps → p.length ≤ cfg.width ∧ ∀ q ∈ ps, q.length ≤ cfg.width - cfg.indent.length :=
  wrapLoop_len_first _ _ (by omega) (by omega) _ _

theorem addIndent_tokens (indent : List Char) (h : AllBlank indent) (raw : List (List Char)) :
    (addIndent indent raw).flatMap tokens = raw.flatMap tokens := by
  cases raw with
  | nil => rfl
  | cons p ps =>
    simp only [addIndent, List.flatMap_cons]
    congr 1
    induction ps with
    | nil => rfl
    | cons q qs ih => simp only [List.map_cons, List.flatMap_cons, ih, tokens_blanks_append indent q h]

theorem addIndent_nonblank (indent : List Char) (h : AllBlank indent) (raw : List (List Char)) :
    nonblank (addIndent indent raw).flatten = nonblank raw.flatten := by
  cases raw with
  | nil => rfl
  | cons p ps =>
    simp only [addIndent, List.flatten_cons, nonblank_append]
    congr 1
    induction ps with
    | nil => rfl
    | cons q qs ih =>
      simp only [List.map_cons, List.flatten_cons, nonblank_append, ih, nonblank_allBlank indent h, List.nil_append]

theorem addIndent_len (indent : List Char) (raw : List (List Char)) (W w' : Nat) (h : indent.length + w' ≤ W)
    (hp : ∀ p ps, raw = p :: ps → p.length ≤ W ∧ ∀ q ∈ ps, q.length ≤ w') : ∀ p ∈ addIndent indent raw, p.length ≤ W := by
  cases raw with
  | nil => intro p hp'; simp [addIndent] at hp'
  | cons p0 ps =>
    obtain ⟨h0, hq⟩ := hp p0 ps rfl
    intro p hp'
    simp only [addIndent, List.mem_cons, List.mem_map] at hp'
    rcases hp' with hp' | ⟨q, hq', e⟩
    · subst hp'; exact h0
    · subst e
      have := hq q hq'
      simp only [List.length_append]
      omega

theorem addIndent_chars (indent : List Char) (raw : List (List Char)) :
    ∀ p ∈ addIndent indent raw, ∀ c ∈ p, c ∈ indent ∨ c ∈ raw.flatten := by
  cases raw with
  | nil => intro p hp; simp [addIndent] at hp
  | cons p0 ps =>
    intro p hp c hc
    simp only [addIndent, List.mem_cons, List.mem_map] at hp
    rcases hp with hp | ⟨q, hq, e⟩
    · subst hp; right; simp [hc]
    · subst e
      rcases List.mem_append.mp hc with hc | hc
      · left; exact hc
      · right
        simp only [List.flatten_cons, List.mem_append, List.mem_flatten]
        right; exact ⟨q, hq, hc⟩

/-! ### the property -/

/-- the decidable facts about the constants of `wrap_line` that the proofs use -/
def cfgOk (cfg : Cfg) : Bool :=
  cfg.suffix == [' ', '=', '\n'] && cfg.sep == [' '] && cfg.indent.all (· == ' ') &&
    decide (cfg.indent.length < cfg.width) && decide (cfg.sep.length + cfg.width + 2 ≤ 80) && decide (cfg.shortMax ≤ 80)

theorem cfgOk_spec (cfg : Cfg) (h : cfgOk cfg = true) :
    cfg.suffix = [' ', '=', '\n'] ∧ cfg.sep = [' '] ∧ AllBlank cfg.indent ∧ cfg.indent.length < cfg.width ∧
      cfg.width + 3 ≤ 80 ∧ cfg.shortMax ≤ 80 := by
  simp only [cfgOk, Bool.and_eq_true, beq_iff_eq, decide_eq_true_eq, List.all_eq_true] at h
  obtain ⟨⟨⟨⟨⟨h1, h2⟩, h3⟩, h4⟩, h5⟩, h6⟩ := h
  refine ⟨h1, h2, fun x hx => h3 x hx, h4, ?_, h6⟩
  rw [h2] at h5
  simp only [List.length_singleton] at h5
  omega

theorem noNL_spec (l : List Char) (h : noNL l = true) : '\n' ∉ l := by
  simpa [noNL] using h

theorem endOk_spec (l : List Char) (h : endOk l = true) : lastNB l ≠ some '=' := by
  simpa [endOk, flagged] using h

theorem pieces_noNL (cfg : Cfg) (l : List Char) (hc : cfgOk cfg = true) (hnl : noNL l = true) :
    ∀ p ∈ pieces cfg l, '\n' ∉ p := by
  obtain ⟨_, _, hib, hlt, _, _⟩ := cfgOk_spec cfg hc
  intro p hp hm
  rcases addIndent_chars cfg.indent (rawPieces cfg l) p hp '\n' hm with h | h
  · exact absurd (hib _ h) (by decide)
  · rw [rawPieces_flatten cfg l hlt] at h
    exact noNL_spec l hnl h

theorem pieces_len (cfg : Cfg) (l : List Char) (hc : cfgOk cfg = true) : ∀ p ∈ pieces cfg l, p.length ≤ cfg.width := by
  obtain ⟨_, _, _, hlt, _, _⟩ := cfgOk_spec cfg hc
  exact addIndent_len cfg.indent _ cfg.width (cfg.width - cfg.indent.length) (by omega) (rawPieces_len cfg l hlt)

/-- the physical lines `wrap_line` writes -/
theorem wrapLine_phys (cfg : Cfg) (l : List Char) (hc : cfgOk cfg = true) (hnl : noNL l = true) :
    physLines (wrapLine cfg l) = if l.length ≤ cfg.shortMax then [l] else physOf [] (pieces cfg l) := by
  obtain ⟨hs, hsep, _, _, _, _⟩ := cfgOk_spec cfg hc
  unfold wrapLine
  split
  · exact splitOnC_not_mem _ _ (noNL_spec l hnl)
  · have := physLines_join cfg hs hsep (pieces cfg l) [] (pieces_noNL cfg l hc hnl) (by simp)
    simpa using this

/-- **C06, width.** No physical line that `wrap_line` writes is longer than 80 columns — for every instruction `l`. -/
theorem wrap_width_cfg (cfg : Cfg) (hc : cfgOk cfg = true) (l : List Char) (hnl : noNL l = true) :
    ∀ pl ∈ physLines (wrapLine cfg l), pl.length ≤ 80 := by
  obtain ⟨_, _, _, _, hw, hsm⟩ := cfgOk_spec cfg hc
  rw [wrapLine_phys cfg l hc hnl]
  split
  · intro pl hpl
    simp only [List.mem_singleton] at hpl
    subst hpl
    omega
  · intro pl hpl
    have := physOf_len cfg.width (pieces cfg l) [] (pieces_len cfg l hc) (by simp) pl hpl
    omega

/-- **C06, shape.** Every physical line but the last ends in `" ="`, every continuation line begins with a blank. -/
theorem wrap_shape_cfg (cfg : Cfg) (hc : cfgOk cfg = true) (l : List Char) (hnl : noNL l = true) :
    shapeOk (physLines (wrapLine cfg l)) = true := by
  rw [wrapLine_phys cfg l hc hnl]
  split
  · simp [shapeOk]
  · exact physOf_shape _ _

theorem wrapLine_logical (cfg : Cfg) (hc : cfgOk cfg = true) (l : List Char) (hnl : noNL l = true) (he : endOk l = true) :
    logical (wrapLine cfg l) = some [if l.length ≤ cfg.shortMax then l else joined [] (pieces cfg l)] := by
  obtain ⟨_, _, hib, hlt, _, _⟩ := cfgOk_spec cfg hc
  have hl := endOk_spec l he
  unfold logical
  rw [wrapLine_phys cfg l hc hnl]
  split
  · have hf : flagged l = false := by simpa [endOk] using he
    simp [unwrapLines, hf]
  · apply unwrap_physOf
    apply lastOk_of _ _ (by intro x hx; simp at hx)
    rw [lastNB_nonblank]
    unfold pieces
    rw [addIndent_nonblank cfg.indent hib, rawPieces_flatten cfg l hlt, ← lastNB_nonblank]
    exact hl

/-- **C06, tokens.** Joining the continuation lines gives back exactly the token sequence of the instruction
    (hence every break is between two tokens). Hypotheses: the instruction does not itself end in a continuation
    mark (`endOk`; in a SHELXL file such a line is not a complete instruction), and no token is longer than a
    continuation line can hold (`noLongTok`; such a token cannot be written in 80 columns at all — the code splits it,
    see `wrap_nonblank_cfg` for what is preserved then). -/
theorem wrap_tokens_cfg (cfg : Cfg) (hc : cfgOk cfg = true) (l : List Char) (hnl : noNL l = true) (he : endOk l = true)
    (hl : noLongTok (cfg.width - cfg.indent.length) l = true) :
    (logical (wrapLine cfg l)).map (·.map tokens) = some [tokens l] := by
  obtain ⟨_, _, hib, hlt, _, _⟩ := cfgOk_spec cfg hc
  rw [wrapLine_logical cfg hc l hnl he]
  split
  · rfl
  · simp only [Option.map_some, List.map_cons, List.map_nil]
    rw [tokens_joined _ [] (by intro x hx; simp at hx)]
    unfold pieces
    rw [addIndent_tokens cfg.indent hib, rawPieces_tokens cfg l hlt hl]

/-- **C06, characters.** For every instruction, also one with over-long tokens: the non-blank characters of the
    joined continuation lines are those of the instruction, in order. -/
theorem wrap_nonblank_cfg (cfg : Cfg) (hc : cfgOk cfg = true) (l : List Char) (hnl : noNL l = true) (he : endOk l = true) :
    (logical (wrapLine cfg l)).map (·.map nonblank) = some [nonblank l] := by
  obtain ⟨_, _, hib, hlt, _, _⟩ := cfgOk_spec cfg hc
  rw [wrapLine_logical cfg hc l hnl he]
  split
  · rfl
  · simp only [Option.map_some, List.map_cons, List.map_nil]
    rw [nonblank_joined _ [] (by intro x hx; simp at hx)]
    unfold pieces
    rw [addIndent_nonblank cfg.indent hib, rawPieces_flatten cfg l hlt]

/-! ### the constants the code has now (regenerated from misc.py / cards.py on every run) -/

/-- The model is the model of `textwrap.wrap(…, drop_whitespace=False, break_on_hyphens=False)` with long words
    broken, joined with `' =\n'` and `' '`; with the extracted width every written line fits into 80 columns:
    `len(sep) + width + len(' =') ≤ 80`. An edited constant in `wrap_line` makes this `decide` fail. -/
theorem consts_ok :
    cfgOk Cfg.extracted = true ∧ Extracted.Wrap.dropWhitespace = false ∧ Extracted.Wrap.breakOnHyphens = false ∧
      Extracted.Wrap.breakLongWords = true ∧ Extracted.Wrap.initialIndent = [] := by decide

theorem wrap_width (l : List Char) (hnl : noNL l = true) : ∀ pl ∈ physLines (wrapLine Cfg.extracted l), pl.length ≤ 80 :=
  wrap_width_cfg _ consts_ok.1 l hnl

theorem wrap_shape (l : List Char) (hnl : noNL l = true) : shapeOk (physLines (wrapLine Cfg.extracted l)) = true :=
  wrap_shape_cfg _ consts_ok.1 l hnl

theorem wrap_tokens (l : List Char) (hnl : noNL l = true) (he : endOk l = true)
    (hl : noLongTok (Cfg.extracted.width - Cfg.extracted.indent.length) l = true) :
    (logical (wrapLine Cfg.extracted l)).map (·.map tokens) = some [tokens l] :=
  wrap_tokens_cfg _ consts_ok.1 l hnl he hl

theorem wrap_nonblank (l : List Char) (hnl : noNL l = true) (he : endOk l = true) :
    (logical (wrapLine Cfg.extracted l)).map (·.map nonblank) = some [nonblank l] :=
  wrap_nonblank_cfg _ consts_ok.1 l hnl he

/-- a restraint with 24 atom names (99 characters, wrapped into two lines) meets all hypotheses -/
def sampleLine : List Char :=
  "SADI C1 C2 C3 C4 C5 C6 C7 C8 C9 C10 C11 C12 C13 C14 C15 C16 C17 C18_$1 C19_$1 C20_2 C21 C22 C23 C24".toList

example : noNL sampleLine = true ∧ endOk sampleLine = true ∧ noLongTok 75 sampleLine = true ∧ sampleLine.length = 99 ∧
    (physLines (wrapLine Cfg.extracted sampleLine)).length = 2 := by decide +kernel

/-- the configuration the repository had before the repair (`maxlen = 79`, wrapped at 79) -/
def cfgBefore : Cfg := { shortMax := 78, width := 79, indent := [' ', ' '], suffix := [' ', '=', '\n'], sep := [' '] }

/-- with the old constants the width property is false: the first physical line of this `REM` has 81 columns -/
theorem wrap_width_fails_on_79 :
    ¬ ∀ l : List Char, noNL l = true → ∀ pl ∈ physLines (wrapLine cfgBefore l), pl.length ≤ 80 := by
  intro h
  have := h ("REM ".toList ++ List.replicate 75 'x' ++ " yyyyy zz".toList) (by decide +kernel)
    ("REM ".toList ++ List.replicate 75 'x' ++ " =".toList) (by decide +kernel)
  exact absurd this (by decide +kernel)

/-- `noLongTok` cannot be dropped from `wrap_tokens`: a token of 100 characters is split -/
theorem wrap_tokens_fails_on_long_token :
    ¬ ∀ l : List Char, noNL l = true → endOk l = true →
      (logical (wrapLine Cfg.extracted l)).map (·.map tokens) = some [tokens l] := by
  intro h
  have := h ("REM ".toList ++ List.replicate 100 'x') (by decide +kernel) (by decide +kernel)
  exact absurd this (by decide +kernel)

/-! ### the multi-line printers: no bare numbers, no keyword without parameters -/

theorem groupsAux_flatten {α} (n : Nat) (hn : 1 ≤ n) : ∀ (fuel : Nat) (l : List α), l.length ≤ fuel →
    (groupsAux n fuel l).flatten = l := by
  intro fuel
  induction fuel with
  | zero =>
    intro l h
    have : l = [] := List.length_eq_zero_iff.mp (by omega)
    subst this
    simp [groupsAux]
  | succ fuel ih =>
    intro l h
    cases l with
    | nil => simp [groupsAux]
    | cons a l =>
      simp only [groupsAux, List.flatten_cons]
      rw [ih _ (by simp only [List.length_drop, List.length_cons] at h ⊢; omega), List.take_append_drop]

theorem groupsAux_each {α} (n : Nat) (hn : 1 ≤ n) : ∀ (fuel : Nat) (l : List α),
    ∀ g ∈ groupsAux n fuel l, g ≠ [] ∧ g.length ≤ n ∧ ∀ v ∈ g, v ∈ l := by
  intro fuel
  induction fuel with
  | zero => intro l g hg; simp [groupsAux] at hg
  | succ fuel ih =>
    intro l g hg
    cases l with
    | nil => simp [groupsAux] at hg
    | cons a l =>
      simp only [groupsAux, List.mem_cons] at hg
      rcases hg with hg | hg
      · subst hg
        obtain ⟨k, rfl⟩ : ∃ k, n = k + 1 := ⟨n - 1, by omega⟩
        refine ⟨by simp, List.length_take_le _ _, fun v hv => List.mem_of_mem_take hv⟩
      · obtain ⟨h1, h2, h3⟩ := ih _ g hg
        exact ⟨h1, h2, fun v hv => List.mem_of_mem_drop (h3 v hv)⟩

/-- a parameter: non-empty and without blanks -/
def IsParam (v : List Char) : Prop := v ≠ [] ∧ NoBlank v

theorem tokens_joinWith (sep : List Char) (hs : AllBlank sep) (hne : sep ≠ []) :
    ∀ g : List (List Char), (∀ v ∈ g, IsParam v) → tokens (joinWith sep g) = g := by
  obtain ⟨sep', rfl⟩ := allBlank_starts hs hne
  have hs' : AllBlank sep' := fun x hx => hs x (by simp [hx])
  intro g
  induction g with
  | nil => intro _; simp [joinWith, tokens_nil]
  | cons p tl ih =>
    intro hg
    have hp := hg p (by simp)
    cases tl with
    | nil => simp [joinWith, tokens_of_tok p hp.1 hp.2]
    | cons q r =>
      have h1 := ih (fun v hv => hg v (by simp [hv]))
      simp only [joinWith, List.cons_append, List.append_assoc]
      rw [tokens_append_blank, tokens_blanks_append _ _ hs', h1, tokens_of_tok p hp.1 hp.2]
      rfl

/-- what the theorems need to know about a line prefix such as `'FVAR   '`: it is the keyword followed by blanks -/
def prefixOk (kw pre : List Char) : Bool := tokens pre == [kw] && pre.getLast? == some ' '

def sepOk (sep : List Char) : Bool := sep ≠ [] && sep.all (· == ' ')

theorem tokens_prefixed (kw pre sep : List Char) (hp : prefixOk kw pre = true) (hs : sepOk sep = true)
    (g : List (List Char)) (hg : ∀ v ∈ g, IsParam v) : tokens (pre ++ joinWith sep g) = kw :: g := by
  simp only [prefixOk, Bool.and_eq_true, beq_iff_eq] at hp
  simp only [sepOk, Bool.and_eq_true, decide_eq_true_eq, List.all_eq_true, beq_iff_eq] at hs
  obtain ⟨a, ha⟩ := List.getLast?_eq_some_iff.mp hp.2
  rw [tokens_append_sepOK _ _ (Or.inr (Or.inr (Or.inl ⟨a, ha⟩))), hp.1, tokens_joinWith sep (fun x hx => hs.2 x hx) hs.1 g hg]
  rfl

/-- **C06, second half, FVAR.** For every non-empty list of free variables every line `FVARs.__str__` prints is the
    keyword `FVAR` followed by at least one and at most `n` values, and the values of all lines together are the
    list — no bare number line, no `FVAR` without a value. -/
theorem fvar_lines_valid_gen (n : Nat) (kw pre sep : List Char) (hn : 1 ≤ n) (hp : prefixOk kw pre = true)
    (hs : sepOk sep = true) (vals : List (List Char)) (hv : ∀ v ∈ vals, IsParam v) :
    (∀ ln ∈ fvarLines n pre sep vals, ∃ g, g ≠ [] ∧ g.length ≤ n ∧ tokens ln = kw :: g) ∧
      (fvarLines n pre sep vals).flatMap (fun ln => (tokens ln).drop 1) = vals := by
  have he := groupsAux_each n hn vals.length vals
  have hf := groupsAux_flatten n hn vals.length vals (Nat.le_refl _)
  unfold fvarLines groups
  generalize groupsAux n vals.length vals = gs at he hf
  have ht : ∀ g ∈ gs, tokens (pre ++ joinWith sep g) = kw :: g :=
    fun g hg => tokens_prefixed kw pre sep hp hs g (fun v hv' => hv v ((he g hg).2.2 v hv'))
  constructor
  · intro ln hln
    obtain ⟨g, hg, rfl⟩ := List.mem_map.mp hln
    exact ⟨g, (he g hg).1, (he g hg).2.1, ht g hg⟩
  · rw [← hf]
    clear hf he
    induction gs with
    | nil => rfl
    | cons g gs ih =>
      simp only [List.map_cons, List.flatMap_cons, List.flatten_cons]
      rw [ht g (by simp), ih (fun g' hg' => ht g' (by simp [hg']))]
      rfl

/-- **C06, second half, SFAC.** With at least one element the table prints the keyword `SFAC` followed by the elements. -/
theorem sfac_line_valid_gen (kw pre sep : List Char) (hp : prefixOk kw pre = true) (hs : sepOk sep = true)
    (els : List (List Char)) (he : ∀ v ∈ els, IsParam v) : tokens (sfacLine pre sep els) = kw :: els :=
  tokens_prefixed kw pre sep hp hs els he

theorem multi_consts_ok :
    (1 ≤ Extracted.Wrap.fvarChunk) ∧ prefixOk "FVAR".toList Extracted.Wrap.fvarPrefix = true ∧
      sepOk Extracted.Wrap.fvarSep = true ∧ prefixOk "SFAC".toList Extracted.Wrap.sfacPrefix = true ∧
      sepOk Extracted.Wrap.sfacSep = true := by decide +kernel

theorem fvar_lines_valid (vals : List (List Char)) (hv : ∀ v ∈ vals, IsParam v) :
    (∀ ln ∈ fvarLines Extracted.Wrap.fvarChunk Extracted.Wrap.fvarPrefix Extracted.Wrap.fvarSep vals,
        ∃ g, g ≠ [] ∧ g.length ≤ Extracted.Wrap.fvarChunk ∧ tokens ln = "FVAR".toList :: g) ∧
      (fvarLines Extracted.Wrap.fvarChunk Extracted.Wrap.fvarPrefix Extracted.Wrap.fvarSep vals).flatMap
        (fun ln => (tokens ln).drop 1) = vals :=
  fvar_lines_valid_gen _ _ _ _ multi_consts_ok.1 multi_consts_ok.2.1 multi_consts_ok.2.2.1 vals hv

/-- `sfac_line_valid` is the `…_partial` form of "the SFAC table never prints a keyword line without parameters":
    the hypothesis `els ≠ []` excludes exactly the table that consists of explicit scattering factors only
    (known finding `C06|file|empty-keyword|SFAC|item=SFACTable|explicit`), for which `sfac_line_fails_on_empty` shows
    the failure.  Full-strength statement: `∀ table, keywordWithParams "SFAC" (repr table)`. -/
theorem sfac_line_valid (els : List (List Char)) (hne : els ≠ []) (he : ∀ v ∈ els, IsParam v) :
    keywordWithParams "SFAC".toList (sfacLine Extracted.Wrap.sfacPrefix Extracted.Wrap.sfacSep els) = true := by
  have h := sfac_line_valid_gen "SFAC".toList _ _ multi_consts_ok.2.2.2.1 multi_consts_ok.2.2.2.2 els he
  cases els with
  | nil => exact absurd rfl hne
  | cons e r => simp [keywordWithParams, h]

theorem sfac_line_fails_on_empty :
    keywordWithParams "SFAC".toList (sfacLine Extracted.Wrap.sfacPrefix Extracted.Wrap.sfacSep []) = false := by
  decide +kernel

/-- the other open finding (`C06|file|bare-number|item=FVAR|history=add_line`): an absorbed FVAR line is a `FVAR`
    object whose text is the value alone; written on its own it is a bare number line. The writer's index
    bookkeeping that lets it through is C04's subject and is not modelled here. -/
theorem fvar_value_alone_is_bare : bareLine "0.8".toList = true := by decide +kernel

example : (∀ v ∈ ["0.31437".toList, "0.77327".toList], IsParam v) := by
  intro v hv
  simp only [List.mem_cons, List.mem_nil_iff, or_false] at hv
  rcases hv with rfl | rfl <;> exact ⟨by decide, by unfold NoBlank; decide⟩

/-! ### the writer: every '\n'-separated part of an item's text is wrapped on its own -/

theorem splitOnC_parts (s : Char) : ∀ l : List Char, ∀ p ∈ splitOnC s l, s ∉ p := by
  intro l
  induction l with
  | nil => intro p hp; simp [splitOnC] at hp; subst hp; simp
  | cons c cs ih =>
    intro p hp
    by_cases h : c = s
    · simp only [splitOnC, h, if_true, List.mem_cons] at hp
      rcases hp with hp | hp
      · subst hp; simp
      · exact ih p hp
    · rcases hs : splitOnC s cs with _ | ⟨h', t⟩
      · exact absurd hs (splitOnC_ne_nil s cs)
      · rw [hs] at ih
        simp only [splitOnC, h, if_false, hs, List.mem_cons] at hp
        rcases hp with hp | hp
        · subst hp
          have := ih h' (by simp)
          intro hm
          simp only [List.mem_cons] at hm
          rcases hm with hm | hm
          · exact h hm.symm
          · exact this hm
        · exact ih p (by simp [hp])

theorem physLines_joinWith_nl : ∀ parts : List (List Char), parts ≠ [] →
    physLines (joinWith ['\n'] parts) = parts.flatMap physLines := by
  intro parts
  induction parts with
  | nil => intro h; exact absurd rfl h
  | cons p tl ih =>
    intro _
    cases tl with
    | nil => simp [joinWith]
    | cons q r =>
      have h1 := ih (by simp)
      unfold physLines at h1 ⊢
      simp only [joinWith, List.append_assoc, List.singleton_append, List.flatMap_cons]
      rw [splitOnC_append_sep, h1]
      simp [List.flatMap_cons]

/-- **C06, width, per written item.** Whatever text an item of the res list has (several lines for FVAR, SFAC, SYMM):
    no physical line written for it is longer than 80 columns. -/
theorem write_item_width (text : List Char) : ∀ pl ∈ physLines (writeItem Cfg.extracted text), pl.length ≤ 80 := by
  intro pl hpl
  unfold writeItem at hpl
  rw [physLines_joinWith_nl _ (by simp [splitOnC_ne_nil])] at hpl
  obtain ⟨w, hw, hpl⟩ := List.mem_flatMap.mp hpl
  obtain ⟨part, hpart, rfl⟩ := List.mem_map.mp hw
  have hn : noNL part = true := by simpa [noNL] using splitOnC_parts '\n' text part hpart
  exact wrap_width part hn pl hpl

/-! ### the writer, several parts: a text that is kept with its continuation lines (an instruction the library only
    passes through — `LAUE`, `BEDE`, `LONE`, `OMIT`, `EQIV`, `TIME` … — read from a file in which it is continued; a text with a
    hand-made continuation set through `add_line` / `replace_line`) -/

theorem joinWith_cons_cons (sep : List Char) (c : Char) (h : List Char) (t : List (List Char)) :
    joinWith sep ((c :: h) :: t) = c :: joinWith sep (h :: t) := by
  cases t <;> simp [joinWith]

theorem joinWith_splitOnC (s : Char) : ∀ l : List Char, joinWith [s] (splitOnC s l) = l := by
  intro l
  induction l with
  | nil => simp [splitOnC, joinWith]
  | cons c cs ih =>
    rcases hs : splitOnC s cs with _ | ⟨h, t⟩
    · exact absurd hs (splitOnC_ne_nil s cs)
    · rw [hs] at ih
      by_cases hc : c = s
      · simp only [splitOnC, hc, if_true, hs, joinWith, List.nil_append, List.singleton_append, ih]
      · simp only [splitOnC, hc, if_false, hs]
        rw [joinWith_cons_cons, ih]

/-- **C06, kept text.** A text all of whose physical lines are short enough is written exactly as it is: the continuation
    lines that the reader kept with the first line of a passed-through instruction reach the file, in place, unchanged. -/
theorem write_item_verbatim (cfg : Cfg) (text : List Char) (h : ∀ p ∈ splitOnC '\n' text, p.length ≤ cfg.shortMax) :
    writeItem cfg text = text := by
  unfold writeItem
  have : (splitOnC '\n' text).map (wrapLine cfg) = splitOnC '\n' text := by
    conv => rhs; rw [← List.map_id (splitOnC '\n' text)]
    apply List.map_congr_left
    intro p hp
    simp [wrapLine, h p hp]
  rw [this, joinWith_splitOnC]

/-- the physical lines written for the parts of a text -/
def written (cfg : Cfg) (parts : List (List Char)) : List (List Char) := parts.flatMap fun p => physLines (wrapLine cfg p)

theorem written_eq_nil (cfg : Cfg) (parts : List (List Char)) : written cfg parts = [] ↔ parts = [] := by
  cases parts with
  | nil => simp [written]
  | cons p tl =>
    simp only [written, List.flatMap_cons, List.append_eq_nil_iff, reduceCtorEq, iff_false, not_and]
    intro h
    exact absurd h (splitOnC_ne_nil _ _)

theorem unwrapLines_eq_nil : ∀ pls : List (List Char), unwrapLines pls = some [] → pls = [] := by
  intro pls
  cases pls with
  | nil => intro _; rfl
  | cons pl rest =>
    intro h
    unfold unwrapLines at h
    split at h
    · split at h <;> simp at h
    · cases hu : unwrapLines rest <;> simp [hu] at h

/-- the lexer on a block of wrapped lines followed by anything: the block is one logical line -/
theorem unwrap_physOf_append : ∀ (ps : List (List Char)) (pre : List Char) (X : List (List Char)), LastOk pre ps →
    unwrapLines (physOf pre ps ++ X) = (unwrapLines X).map (joined pre ps :: ·) := by
  intro ps
  induction ps with
  | nil => intro pre X h; simp [LastOk] at h; simp [physOf, unwrapLines, joined, h]
  | cons p tl ih =>
    intro pre X h
    cases tl with
    | nil => simp [LastOk] at h; simp [physOf, unwrapLines, joined, h]
    | cons q ps' =>
      have h1 := ih [' '] X h
      obtain ⟨y, ys, hy⟩ := List.exists_cons_of_ne_nil (physOf_ne_nil [' '] (q :: ps'))
      simp only [physOf, joined]
      rw [hy] at h1 ⊢
      simp only [List.cons_append, unwrapLines, flagged_eq, if_true] at h1 ⊢
      rw [h1]
      have hb := body_eq (pre ++ p)
      simp only [List.append_assoc] at hb
      cases unwrapLines X <;> simp [hb]

theorem unwrapLines_unflagged (pl : List Char) (rest : List (List Char)) (hf : flagged pl = false) :
    unwrapLines (pl :: rest) = (unwrapLines rest).map (pl :: ·) := by
  conv => lhs; unfold unwrapLines
  simp [hf]

theorem unwrapLines_flagged_last (pl : List Char) (hf : flagged pl = true) : unwrapLines [pl] = none := by
  conv => lhs; unfold unwrapLines
  simp [hf]

theorem unwrapLines_flagged_cons (pl q : List Char) (rest : List (List Char)) (hf : flagged pl = true) :
    unwrapLines (pl :: q :: rest) =
      match unwrapLines (q :: rest) with
      | some (h :: t) => some ((body pl ++ h) :: t)
      | _ => none := by
  conv => lhs; unfold unwrapLines
  simp only [hf, if_true]
  generalize unwrapLines (q :: rest) = u
  rcases u with _ | ⟨_ | ⟨h, t⟩⟩ <;> rfl

/-- the first token of a line that does not begin with a blank, and what follows it -/
theorem first_token_split (c : Char) (r : List Char) (hc : c ≠ ' ') :
    ∃ t r', c :: r = t ++ r' ∧ t ≠ [] ∧ NoBlank t ∧ (r' = [] ∨ ∃ r'', r' = ' ' :: r'') := by
  induction r generalizing c with
  | nil => exact ⟨[c], [], by simp, by simp, by intro x hx; simp at hx; rw [hx]; exact hc, Or.inl rfl⟩
  | cons d r ih =>
    by_cases hd : d = ' '
    · subst hd
      exact ⟨[c], ' ' :: r, by simp, by simp, by intro x hx; simp at hx; rw [hx]; exact hc, Or.inr ⟨r, rfl⟩⟩
    · obtain ⟨t, r', e, _, hnb, hr'⟩ := ih d hd
      refine ⟨c :: t, r', by simp [e], by simp, ?_, hr'⟩
      intro x hx
      simp only [List.mem_cons] at hx
      rcases hx with hx | hx
      · rw [hx]; exact hc
      · exact hnb x hx

theorem tokens_first_token (t r' : List Char) (ht : t ≠ []) (hnb : NoBlank t) (hr' : r' = [] ∨ ∃ r'', r' = ' ' :: r'') :
    tokens (t ++ r') = t :: tokens r' := by
  rw [tokens_append_sepOK t r' (by rcases hr' with h | ⟨r'', h⟩; exact Or.inr (Or.inl h); exact Or.inr (Or.inr (Or.inr ⟨r'', h⟩))),
    tokens_of_tok t ht hnb]
  rfl

/-- what is joined in front of a continuation does not care how the continuation is spaced: two texts with the same
    tokens and the same first character give the same tokens behind any text -/
theorem tokens_append_congr (a x y : List Char) (ht : tokens x = tokens y) (hh : x.head? = y.head?) :
    tokens (a ++ x) = tokens (a ++ y) := by
  cases x with
  | nil =>
    cases y with
    | nil => rfl
    | cons d s => simp at hh
  | cons c r =>
    cases y with
    | nil => simp at hh
    | cons d s =>
      have hcd : c = d := by simpa using hh
      subst hcd
      by_cases hc : c = ' '
      · subst hc
        rw [tokens_blank_cons, tokens_blank_cons] at ht
        rw [tokens_append_blank, tokens_append_blank, ht]
      · obtain ⟨t, r', e, htne, hnb, hr'⟩ := first_token_split c r hc
        obtain ⟨u, s', e', hune, hnb', hs'⟩ := first_token_split c s hc
        rw [e, tokens_first_token t r' htne hnb hr', e', tokens_first_token u s' hune hnb' hs'] at ht
        simp only [List.cons.injEq] at ht
        obtain ⟨htu, hrs⟩ := ht
        subst htu
        have sep : ∀ z : List Char, (z = [] ∨ ∃ z', z = ' ' :: z') → SepOK (a ++ t) z := by
          intro z hz
          rcases hz with h | ⟨z', h⟩
          · exact Or.inr (Or.inl h)
          · exact Or.inr (Or.inr (Or.inr ⟨z', h⟩))
        rw [e, e', ← List.append_assoc, ← List.append_assoc, tokens_append_sepOK _ _ (sep r' hr'),
          tokens_append_sepOK _ _ (sep s' hs'), hrs]

theorem chunks_ne_nil (c : Char) (cs : List Char) : chunks (c :: cs) ≠ [] := by
  intro h
  have := chunks_flatten (c :: cs)
  rw [h] at this
  simp at this

/-- the text the lexer joins from the wrapped lines begins like the instruction -/
theorem joined_pieces_head (cfg : Cfg) (hc : cfgOk cfg = true) (l : List Char) :
    (joined [] (pieces cfg l)).head? = l.head? := by
  obtain ⟨_, _, _, hlt, _, _⟩ := cfgOk_spec cfg hc
  cases l with
  | nil => simp [pieces, rawPieces, chunks, wrapLoop, addIndent, joined]
  | cons c cs =>
    have hfl := rawPieces_flatten cfg (c :: cs) hlt
    obtain ⟨ch, chs, hch⟩ := List.exists_cons_of_ne_nil (chunks_ne_nil c cs)
    have hne : ch ≠ [] := (chunks_hom (c :: cs) ch (by rw [hch]; simp)).1
    have hr : rawPieces cfg (c :: cs) =
        (lineStep cfg.width (ch :: chs)).1 ::
          wrapLoop (cfg.width - cfg.indent.length) (c :: cs).length (cfg.width - cfg.indent.length) (lineStep cfg.width (ch :: chs)).2 := by
      unfold rawPieces
      rw [hch]
      rfl
    have h0 : (lineStep cfg.width (ch :: chs)).1 ≠ [] := lineStep_ne_nil _ _ _ hne (by omega)
    rw [hr] at hfl
    obtain ⟨d, ds, hd⟩ := List.exists_cons_of_ne_nil h0
    have hl : (c :: cs).head? = some d := by
      rw [← hfl, List.flatten_cons, hd]; rfl
    rw [hl]
    unfold pieces
    rw [hr, hd]
    rcases wrapLoop (cfg.width - cfg.indent.length) (c :: cs).length (cfg.width - cfg.indent.length)
      (lineStep cfg.width (ch :: chs)).2 with _ | ⟨q, qs⟩ <;> simp [addIndent, joined]

/-- what `write_item_tokens` needs of the '\n'-separated parts of a text: a part is short (written as it is), or it does
    not end in a continuation mark (`endOk`) and has no over-long token (`noLongTok`) -/
def partsOk (cfg : Cfg) (parts : List (List Char)) : Bool :=
  parts.all fun p => decide (p.length ≤ cfg.shortMax) || (endOk p && noLongTok (cfg.width - cfg.indent.length) p)

/-- same token sequences, logical line by logical line; and first logical lines that behave alike when they are joined
    to a line before them (same first character) -/
def TokRel : Option (List (List Char)) → Option (List (List Char)) → Prop
  | none, none => True
  | some a, some b => a.map tokens = b.map tokens ∧ a.head?.bind List.head? = b.head?.bind List.head?
  | _, _ => False

theorem unwrap_written (cfg : Cfg) (hc : cfgOk cfg = true) : ∀ (parts : List (List Char)),
    (∀ p ∈ parts, '\n' ∉ p) → partsOk cfg parts = true →
      TokRel (unwrapLines (written cfg parts)) (unwrapLines parts) := by
  obtain ⟨_, _, hib, hlt, _, _⟩ := cfgOk_spec cfg hc
  intro parts
  induction parts with
  | nil => intro _ _; simp [written, unwrapLines, TokRel]
  | cons p tl ih =>
    intro hnl hch
    have hnlp : noNL p = true := by simpa [noNL] using hnl p (by simp)
    simp only [partsOk, List.all_cons, Bool.and_eq_true, Bool.or_eq_true, decide_eq_true_eq] at hch
    obtain ⟨hp, htl⟩ := hch
    have ih' := ih (fun q hq => hnl q (by simp [hq])) (by simpa [partsOk] using htl)
    have hw : written cfg (p :: tl) = physLines (wrapLine cfg p) ++ written cfg tl := by simp [written]
    rw [hw, wrapLine_phys cfg p hc hnlp]
    by_cases hs : p.length ≤ cfg.shortMax
    · -- a short part is written as it is
      simp only [hs, if_true, List.singleton_append]
      by_cases hf : flagged p = true
      · have hnil := written_eq_nil cfg tl
        rcases hX : written cfg tl with _ | ⟨x, xs⟩
        · have htl0 : tl = [] := hnil.mp hX
          subst htl0
          rw [unwrapLines_flagged_last p hf]
          simp [TokRel]
        · have htlne : tl ≠ [] := fun e => by rw [hnil.mpr e] at hX; simp at hX
          obtain ⟨t0, ts, ht⟩ := List.exists_cons_of_ne_nil htlne
          rw [hX, ht] at ih'
          rw [ht, unwrapLines_flagged_cons p x xs hf, unwrapLines_flagged_cons p t0 ts hf]
          rcases hu : unwrapLines (x :: xs) with _ | a <;> rcases hv : unwrapLines (t0 :: ts) with _ | b <;>
            rw [hu, hv] at ih' <;> simp only [TokRel] at ih'
          · simp [TokRel]
          · rcases a with _ | ⟨h, t⟩ <;> rcases b with _ | ⟨h', t'⟩
            · simp [TokRel]
            · simp at ih'
            · simp at ih'
            · obtain ⟨hm, hh⟩ := ih'
              simp only [List.map_cons, List.cons.injEq] at hm
              simp only [List.head?_cons, Option.bind_some] at hh
              have ht1 := tokens_append_congr (body p) h h' hm.1 hh
              refine ⟨by simp [ht1, hm.2], ?_⟩
              simp only [List.head?_cons, Option.bind_some, List.head?_append]
              rw [hh]
      · have hf' : flagged p = false := by simpa using hf
        rw [unwrapLines_unflagged p _ hf', unwrapLines_unflagged p _ hf']
        rcases hu : unwrapLines (written cfg tl) with _ | a <;> rcases hv : unwrapLines tl with _ | b <;>
          rw [hu, hv] at ih' <;> simp only [TokRel] at ih'
        · simp [TokRel]
        · simp [TokRel, ih'.1]
    · -- a long part: its block of wrapped lines is one logical line with the same tokens and the same first character
      simp only [hs, if_false]
      rcases hp with hp | hp
      · exact absurd hp hs
      · obtain ⟨he, hl⟩ := hp
        have hf' : flagged p = false := by simpa [endOk] using he
        have hlast : LastOk [] (pieces cfg p) := by
          apply lastOk_of _ _ (by intro x hx; simp at hx)
          rw [lastNB_nonblank]
          unfold pieces
          rw [addIndent_nonblank cfg.indent hib, rawPieces_flatten cfg p hlt, ← lastNB_nonblank]
          exact endOk_spec p he
        rw [unwrap_physOf_append _ _ _ hlast]
        have htok : tokens (joined [] (pieces cfg p)) = tokens p := by
          rw [tokens_joined _ [] (by intro x hx; simp at hx)]
          unfold pieces
          rw [addIndent_tokens cfg.indent hib, rawPieces_tokens cfg p hlt hl]
        rw [unwrapLines_unflagged p _ hf']
        rcases hu : unwrapLines (written cfg tl) with _ | a <;> rcases hv : unwrapLines tl with _ | b <;>
          rw [hu, hv] at ih' <;> simp only [TokRel] at ih'
        · simp [TokRel]
        · simp [TokRel, ih'.1, htok, joined_pieces_head cfg hc p]

/-- the full-strength statement about the parts of a written text (FALSE for the repository as it is, see
    `write_item_tokens_fails_on_flagged_long`; known finding `C06|file|raw-continued|mark-line>80-by-blanks`): whatever the
    parts are, as long as no token is too long to be written at all -/
def WriteItemTokensStatement (cfg : Cfg) : Prop :=
  ∀ text : List Char, (∀ p ∈ splitOnC '\n' text, noLongTok (cfg.width - cfg.indent.length) p = true) →
    (logical (writeItem cfg text)).map (·.map tokens) = (logical text).map (·.map tokens)

/-- **C06, tokens, per written item.** For the text of any item of the res list — one line or several ('\n'-separated:
    a passed-through instruction kept with its continuation lines, a multi-line printer, a text with a hand-made
    continuation) — the continuation-joining lexer finds in what the writer puts into the file the same logical lines,
    token for token, as in the text itself: wrapping a long part neither loses a continuation line nor runs into the
    part behind it, also when the long part itself continues the part before it. Hypothesis `partsOk`: a part that is
    longer than `shortMax` (80) characters does not end in '=' (excluded: the open finding, a line that carries a
    continuation mark and is longer than 80 columns — in the real code the blanks behind the mark become a continuation line
    of their own and cut the real one off, `write_item_tokens_fails_on_flagged_long`) and has no token longer than 75
    (`wrap_tokens_fails_on_long_token`). -/
theorem write_item_tokens_partial (cfg : Cfg) (hc : cfgOk cfg = true) (text : List Char)
    (h : partsOk cfg (splitOnC '\n' text) = true) :
    (logical (writeItem cfg text)).map (·.map tokens) = (logical text).map (·.map tokens) := by
  have hrel := unwrap_written cfg hc (splitOnC '\n' text) (splitOnC_parts '\n' text) h
  have e1 : logical (writeItem cfg text) = unwrapLines (written cfg (splitOnC '\n' text)) := by
    unfold logical writeItem written
    rw [physLines_joinWith_nl _ (by simp [splitOnC_ne_nil]), List.flatMap_map]
  have e2 : logical text = unwrapLines (splitOnC '\n' text) := rfl
  rw [e1, e2]
  rcases hu : unwrapLines (written cfg (splitOnC '\n' text)) with _ | a <;>
    rcases hv : unwrapLines (splitOnC '\n' text) with _ | b <;> rw [hu, hv] at hrel <;> simp only [TokRel] at hrel
  all_goals first | rfl | simp [hrel.1]

theorem write_item_tokens (text : List Char) (h : partsOk Cfg.extracted (splitOnC '\n' text) = true) :
    (logical (writeItem Cfg.extracted text)).map (·.map tokens) = (logical text).map (·.map tokens) :=
  write_item_tokens_partial _ consts_ok.1 text h

/-- a `LONE` instruction kept with its continuation lines, the second of which has to be wrapped itself, followed by a
    restraint of 99 characters, meets the hypothesis; the written text has six physical and two logical lines -/
def sampleItem : List Char :=
  "LONE 6 1 0.35 0.35 109.5 O1 O2 O3 =\n     O4 O5 O6 =\n  O7 O8 O9 O10 O11 O12 O13 O14 O15 O16 O17 O18 O19 O20 O21 O22 O23 O24 O25 O26 O27\n".toList ++ sampleLine

example : partsOk Cfg.extracted (splitOnC '\n' sampleItem) = true ∧
    (physLines (writeItem Cfg.extracted sampleItem)).length = 6 ∧
    (logical (writeItem Cfg.extracted sampleItem)).map (·.length) = some 2 := by decide +kernel

/-- the text of the open finding: the first line of a continued instruction carries its mark at column 12 and blanks up to
    column 92 -/
def flaggedLongItem : List Char := ("OMIT C1 C2 =".toList ++ List.replicate 80 ' ') ++ "\n  C3 C4".toList

/-- witness of the open finding: the mark of a part that is wrapped although only blanks reach beyond column 80 lands
    inside the joined line (as the token "="), the blanks become the continuation line and `C3 C4` is cut off -/
theorem write_item_tokens_fails_on_flagged_long :
    ¬ ((logical (writeItem Cfg.extracted flaggedLongItem)).map (·.map tokens) =
        (logical flaggedLongItem).map (·.map tokens)) := by decide +kernel

theorem write_item_statement_false : ¬ WriteItemTokensStatement Cfg.extracted := by
  intro h
  exact write_item_tokens_fails_on_flagged_long (h flaggedLongItem (by decide +kernel))

/-! ### the comment-aware reading used by the harness coincides with the proven one on comment-free lines -/

theorem code_eq_self (l : List Char) (h : '!' ∉ l) : code l = l := by
  unfold code
  induction l with
  | nil => rfl
  | cons c cs ih =>
    have hc : c ≠ '!' := fun e => h (by simp [e])
    have hcs : '!' ∉ cs := fun e => h (by simp [e])
    have ih' := ih hcs
    simp only [List.takeWhile_cons, ne_eq, hc, not_false_eq_true, decide_true, if_true]
    rw [ih']

theorem flaggedC_eq_flagged (l : List Char) (h : '!' ∉ l) (hr : isRem l = false) : flaggedC l = flagged l := by
  simp [flaggedC, hr, code_eq_self l h]

/-- a DSR command (`REM DSR PUT/REPLACE …`) is the one kind of remark that is continued: on it the comment-aware reading
    is the proven plain one as well, so `wrap_width`, `wrap_shape` and `wrap_tokens` say for a DSR command of any length
    what they say for an instruction (the writer must pass it through `wrapLine` like everything else). -/
theorem flaggedC_eq_flagged_dsr (l : List Char) (h : '!' ∉ l) (hd : isDsr l = true) : flaggedC l = flagged l := by
  simp [flaggedC, hd, code_eq_self l h]

/-- an ordinary remark is never continued, whatever it ends in -/
theorem flaggedC_rem (l : List Char) (hr : isRem l = true) (hd : isDsr l = false) : flaggedC l = false := by
  simp [flaggedC, hr, hd]

example : isDsr "REM DSR PUT OC(CF3)3 WITH O1 C1 C2 ON C1 C2 C3 PART 2 OCC -31 =".toList = true := by decide
example : isDsr "rem  dsr  replace TOLUENE with C1".toList = true := by decide
example : isDsr "REM DSR was used =".toList = false := by decide
example : isDsr " REM DSR PUT TOL".toList = false := by decide
example : (logicalC "REM DSR PUT TOL WITH C1 =\n  C2 C3\nREM a =\n  b\n".toList).map (·.map tokens)
    = some [["REM", "DSR", "PUT", "TOL", "WITH", "C1", "C2", "C3"].map String.toList, ["REM", "a", "="].map String.toList] := by
  decide +kernel

end Shelx.C06

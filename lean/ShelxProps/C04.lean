/-
  C04 — property theorems (model: ShelxModel/C04.lean).

  Refinement of the index-based editing code to an abstract list of logical lines, for ALL states, ALL
  operations and ALL finite histories (induction over the history, no bound).

  * `Clean s` (`delete_on_write` is empty) is the invariant of the repaired code: the parser blanks an absorbed
    SFAC/FVAR entry in place (`load_clean`), no edit touches `delete_on_write` (`step_clean`), and then every
    edit is exactly its abstract counterpart (`op_refines`, `history_refines`).
  * `Marked s` (`delete_on_write` lists exactly the positions of the absorbed entries) is what the scheme with
    absolute indices establishes at parse time (`loadAbs_marked`) and what makes the first write right
    (`written_of_marked`) — and what one insertion in front of such an entry destroys (`dow_breaks`).
-/
import ShelxModel.C04
import ShelxModel.Extracted.C04Scheme

namespace Shelx.C04

variable {τ : Type} [DecidableEq τ]
set_option linter.unusedSectionVars false

/-- invariant of the repaired code: nothing is remembered by absolute index.
    It is the only hypothesis of the refinement theorems, and it is forced: with a non-empty `delete_on_write`
    the statement is false (`dow_breaks` below; on the real code: `add_line(0, …)` on a file with two SFAC
    lines, before the repair). The repaired parser never fills `delete_on_write` (`load_clean`,
    `extracted_scheme_is_load`) and no edit does (`step_clean`); a caller who adds indices to the public
    attribute by hand is outside the theorem. -/
def Clean (s : St τ) : Prop := s.dow = []

instance (s : St τ) : Decidable (Clean s) := by unfold Clean; infer_instance

/-! ### the writer without index bookkeeping -/

theorem writtenFrom_nil (h : Nat → List τ) (k : Nat) (r : List (Item τ)) :
    writtenFrom h [] k r = r.filterMap (vis h) := by
  induction r generalizing k with
  | nil => rfl
  | cons it r ih =>
    simp only [writtenFrom, List.not_mem_nil, if_false, ih, List.filterMap_cons]
    cases vis h it <;> simp

theorem written_clean (s : St τ) (hc : Clean s) : written s = s.res.filterMap (vis s.heap) := by
  unfold written; rw [hc, writtenFrom_nil]

/-! ### list lemmas: one per way the code touches `_reslist` -/

theorem filterMap_pyInsert (h : Nat → List τ) (x : Item τ) (l : Line τ) (hx : vis h x = some l)
    (n : Nat) (r : List (Item τ)) :
    (pyInsert n x r).filterMap (vis h) = pyInsert (visCount h n r) l (r.filterMap (vis h)) := by
  induction r generalizing n with
  | nil => cases n <;> simp [pyInsert, visCount, hx]
  | cons it r ih =>
    cases n with
    | zero => simp [pyInsert, visCount, hx]
    | succ n =>
      simp only [pyInsert, visCount, List.filterMap_cons]
      cases hv : vis h it with
      | none => simpa using ih n
      | some l' =>
        have : 1 + visCount h n r = visCount h n r + 1 := Nat.add_comm _ _
        simp only [this, pyInsert, ih n]

/-- a written entry that is not object `o` is not printed by `o` -/
theorem key_ne_of_ne (h : Nat → List τ) (it : Item τ) (o : Nat) (l : Line τ)
    (hne : it ≠ .obj o) (hv : vis h it = some l) : ¬ l.key = some o := by
  cases it with
  | raw t => simp [vis] at hv; subst hv; simp
  | obj o' =>
    simp [vis] at hv; subst hv
    intro hk; apply hne; simp at hk; rw [hk]
  | blank => simp [vis] at hv
  | absorbed t => simp [vis] at hv; subst hv; simp

theorem delete_list (h : Nat → List τ) (o : Nat) (r : List (Item τ)) :
    ((indexOf o r).map fun i => (r.eraseIdx i).filterMap (vis h)) = deleteKey o (r.filterMap (vis h)) := by
  induction r with
  | nil => rfl
  | cons it r ih =>
    by_cases he : it = .obj o
    · subst he; simp [indexOf, vis, deleteKey]
    · simp only [indexOf, he, if_false, Option.map_map, List.filterMap_cons]
      cases hv : vis h it with
      | none =>
        rw [← ih]; congr 1; funext i; simp [List.eraseIdx_cons_succ, hv]
      | some l =>
        have hk := key_ne_of_ne h it o l he hv
        simp only [deleteKey, hk, if_false]
        rw [← ih, Option.map_map]; congr 1; funext i; simp [List.eraseIdx_cons_succ, hv]

theorem insertAfter_list (h : Nat → List τ) (x : Item τ) (l : Line τ) (hx : vis h x = some l)
    (o : Nat) (r : List (Item τ)) :
    ((indexOf o r).map fun i => (pyInsert (i + 1) x r).filterMap (vis h))
      = insertAfterKey o l (r.filterMap (vis h)) := by
  induction r with
  | nil => rfl
  | cons it r ih =>
    by_cases he : it = .obj o
    · subst he; simp [indexOf, vis, insertAfterKey, pyInsert]; rw [List.filterMap_cons_some hx]
    · simp only [indexOf, he, if_false, Option.map_map, List.filterMap_cons]
      cases hv : vis h it with
      | none =>
        rw [← ih]; congr 1; funext i; simp [pyInsert, hv]
      | some l' =>
        have hk := key_ne_of_ne h it o l' he hv
        simp only [insertAfterKey, hk, if_false]
        rw [← ih, Option.map_map]; congr 1; funext i; simp [pyInsert, hv]

theorem replace_list (h : Nat → List τ) (x : Item τ) (l : Line τ) (hx : vis h x = some l)
    (o : Nat) (r : List (Item τ)) :
    ((indexOf o r).map fun i => (r.set i x).filterMap (vis h)) = replaceKey o l (r.filterMap (vis h)) := by
  induction r with
  | nil => rfl
  | cons it r ih =>
    by_cases he : it = .obj o
    · subst he; simp [indexOf, vis, replaceKey]; rw [List.filterMap_cons_some hx]
    · simp only [indexOf, he, if_false, Option.map_map, List.filterMap_cons]
      cases hv : vis h it with
      | none =>
        rw [← ih]; congr 1; funext i; simp [hv]
      | some l' =>
        have hk := key_ne_of_ne h it o l' he hv
        simp only [replaceKey, hk, if_false]
        rw [← ih, Option.map_map]; congr 1; funext i; simp [hv]

theorem setHeap_list (h : Nat → List τ) (o : Nat) (t : List τ) (r : List (Item τ)) :
    r.filterMap (vis (setHeap h o t)) = setKey o t (r.filterMap (vis h)) := by
  induction r with
  | nil => rfl
  | cons it r ih =>
    cases it with
    | raw t' => simp [vis, setKey] at ih ⊢; exact ih
    | obj o' =>
      simp only [List.filterMap_cons, vis, setKey, List.map_cons] at ih ⊢
      rw [ih]
      by_cases ho : o' = o <;> simp [setHeap, ho]
    | blank => rw [List.filterMap_cons_none (by rfl), List.filterMap_cons_none (by rfl)]; exact ih
    | absorbed t' => simp [vis, setKey] at ih ⊢; exact ih

/-! ### what the abstract edits mean (the specification says what the property says) -/

/-- deleting: exactly one line — the first one printed by `o` — disappears; all others stay, in order -/
theorem deleteKey_spec (o : Nat) (ls ls' : List (Line τ)) (h : deleteKey o ls = some ls') :
    ∃ a l b, ls = a ++ l :: b ∧ ls' = a ++ b ∧ l.key = some o ∧ ∀ x ∈ a, ¬ x.key = some o := by
  induction ls generalizing ls' with
  | nil => simp [deleteKey] at h
  | cons x r ih =>
    by_cases hk : x.key = some o
    · simp [deleteKey, hk] at h; subst h
      exact ⟨[], x, r, rfl, rfl, hk, by simp⟩
    · simp only [deleteKey, hk, if_false, Option.map_eq_some_iff] at h
      obtain ⟨r', hr, rfl⟩ := h
      obtain ⟨a, l, b, e1, e2, e3, e4⟩ := ih r' hr
      refine ⟨x :: a, l, b, by simp [e1], by simp [e2], e3, ?_⟩
      intro y hy; rcases List.mem_cons.mp hy with rfl | hy
      · exact hk
      · exact e4 y hy

/-- inserting after an object: the new line stands right behind the first line printed by `o`; every old
    line stays, in order -/
theorem insertAfterKey_spec (o : Nat) (n : Line τ) (ls ls' : List (Line τ)) (h : insertAfterKey o n ls = some ls') :
    ∃ a l b, ls = a ++ l :: b ∧ ls' = a ++ l :: n :: b ∧ l.key = some o ∧ ∀ x ∈ a, ¬ x.key = some o := by
  induction ls generalizing ls' with
  | nil => simp [insertAfterKey] at h
  | cons x r ih =>
    by_cases hk : x.key = some o
    · simp [insertAfterKey, hk] at h; subst h
      exact ⟨[], x, r, rfl, rfl, hk, by simp⟩
    · simp only [insertAfterKey, hk, if_false, Option.map_eq_some_iff] at h
      obtain ⟨r', hr, rfl⟩ := h
      obtain ⟨a, l, b, e1, e2, e3, e4⟩ := ih r' hr
      refine ⟨x :: a, l, b, by simp [e1], by simp [e2], e3, ?_⟩
      intro y hy; rcases List.mem_cons.mp hy with rfl | hy
      · exact hk
      · exact e4 y hy

/-- replacing: the first line printed by `o` is exchanged for the new one; every other line stays -/
theorem replaceKey_spec (o : Nat) (n : Line τ) (ls ls' : List (Line τ)) (h : replaceKey o n ls = some ls') :
    ∃ a l b, ls = a ++ l :: b ∧ ls' = a ++ n :: b ∧ l.key = some o ∧ ∀ x ∈ a, ¬ x.key = some o := by
  induction ls generalizing ls' with
  | nil => simp [replaceKey] at h
  | cons x r ih =>
    by_cases hk : x.key = some o
    · simp [replaceKey, hk] at h; subst h
      exact ⟨[], x, r, rfl, rfl, hk, by simp⟩
    · simp only [replaceKey, hk, if_false, Option.map_eq_some_iff] at h
      obtain ⟨r', hr, rfl⟩ := h
      obtain ⟨a, l, b, e1, e2, e3, e4⟩ := ih r' hr
      refine ⟨x :: a, l, b, by simp [e1], by simp [e2], e3, ?_⟩
      intro y hy; rcases List.mem_cons.mp hy with rfl | hy
      · exact hk
      · exact e4 y hy

/-- changing an object: same number of lines, same owners in the same order, and a line changes only if
    `o` prints it -/
theorem setKey_spec (o : Nat) (t : List τ) (ls : List (Line τ)) :
    (setKey o t ls).map (·.key) = ls.map (·.key) ∧
    ∀ (i : Nat) (l : Line τ), ls[i]? = some l →
      (setKey o t ls)[i]? = some (if l.key = some o then { l with toks := t } else l) := by
  constructor
  · simp only [setKey, List.map_map]
    apply List.map_congr_left
    intro l _; by_cases hk : l.key = some o <;> simp [hk]
  · intro i l hl
    simp [setKey, List.getElem?_map, hl]

/-- inserting at a position: the lines in front and the lines behind are the old ones, in order -/
theorem insertAt_spec (p : Nat) (n : Line τ) (ls : List (Line τ)) :
    insertAt p n ls = ls.take p ++ n :: ls.drop p := by
  unfold insertAt
  induction ls generalizing p with
  | nil => cases p <;> simp [pyInsert]
  | cons x r ih => cases p with
    | zero => simp [pyInsert]
    | succ p => simp [pyInsert, ih p]

/-! ### the property -/

/-- no edit touches `delete_on_write` -/
theorem step_dow (s s' : St τ) (op : Op τ) (h : step s op = some s') : s'.dow = s.dow := by
  cases op <;> simp only [step, Option.map_eq_some_iff, Option.some.injEq] at h
  all_goals first
    | (obtain ⟨_, _, rfl⟩ := h; rfl)
    | (subst h; rfl)

theorem step_clean (s s' : St τ) (op : Op τ) (hc : Clean s) (h : step s op = some s') : Clean s' := by
  unfold Clean; rw [step_dow s s' op h]; exact hc

/-- **Every edit is exactly its abstract counterpart**: on a state without index bookkeeping, the file written
    after an API call is the file written before it with just that edit applied (and the call raises exactly
    when the line it addresses is not in the file). -/
theorem op_refines (s : St τ) (hc : Clean s) (op : Op τ) :
    (step s op).map written = absStep (written s) (absOf s op) := by
  rw [written_clean s hc]
  cases op with
  | addLine i t =>
    simp only [step, Option.map_some, absStep, absOf, insertAt]
    rw [written_clean _ (by exact hc)]
    exact congrArg some (filterMap_pyInsert s.heap (.raw t) ⟨none, t⟩ rfl (i + 1) s.res)
  | insertAfter o t =>
    simp only [step, Option.map_map, absStep, absOf]
    rw [← insertAfter_list s.heap (.raw t) ⟨none, t⟩ rfl o s.res]
    congr 1; funext i
    exact written_clean _ (by exact hc)
  | delete o =>
    simp only [step, Option.map_map, absStep, absOf]
    rw [← delete_list s.heap o s.res]
    congr 1; funext i
    exact written_clean _ (by exact hc)
  | replace o t =>
    simp only [step, Option.map_map, absStep, absOf]
    rw [← replace_list s.heap (.raw t) ⟨none, t⟩ rfl o s.res]
    congr 1; funext i
    exact written_clean _ (by exact hc)
  | setObj o t =>
    simp only [step, Option.map_some, absStep, absOf]
    rw [written_clean _ (by exact hc)]
    exact congrArg some (setHeap_list s.heap o t s.res)
  | insertObjAfter u n t =>
    simp only [step, Option.map_map, absStep, absOf]
    rw [← setHeap_list s.heap n t s.res,
      ← insertAfter_list (setHeap s.heap n t) (.obj n) ⟨some n, t⟩ (by simp [vis, setHeap]) u s.res]
    congr 1; funext i
    exact written_clean _ (by exact hc)

/-- **All finite histories**: the file written after any sequence of API calls is the originally written file
    with exactly those edits applied, in that order. -/
theorem history_refines (ops : List (Op τ)) : ∀ (s : St τ), Clean s →
    (run s ops).map written = absRun (written s) (absTrace s ops) := by
  induction ops with
  | nil => intro s _; rfl
  | cons op r ih =>
    intro s hc
    have h1 := op_refines s hc op
    simp only [run, absTrace, absRun]
    cases hs : step s op with
    | none => rw [hs] at h1; simp at h1; rw [← h1]; rfl
    | some s' =>
      rw [hs] at h1; simp only [Option.map_some] at h1
      rw [← h1]
      simpa using ih s' (step_clean s s' op hc hs)

/-! ### the repaired parser establishes `Clean` -/

theorem loadLine_dow (a : LoadSt τ) (l : Src τ) (h : a.dow = []) : (loadLine true a l).dow = [] := by
  unfold loadLine
  cases l.kind <;> simp only
  · cases a.sfac <;> simp [h]
  · cases a.fvar <;> simp [h]
  · exact h

theorem load_clean (src : List (Src τ)) : Clean (load src) := by
  have : ∀ (a : LoadSt τ), a.dow = [] → (src.foldl (loadLine true) a).dow = [] := by
    induction src with
    | nil => intro a h; exact h
    | cons l r ih => intro a h; exact ih _ (loadLine_dow a l h)
  exact this {} rfl

/-- **Tie to the source** (table regenerated from `_parse_cards` / `write_shelx_file` on every run): the parser
    blanks the entry of every absorbed SYMM/SFAC/FVAR line in place and records no index, no function of the
    package adds to `delete_on_write`, and the writer skips `''` — i.e. the code uses the scheme that `load`
    implements, so `load_clean` is a statement about the code as it is now. (With the absolute-index scheme
    this `decide` fails: `absorb` then reads `("SFAC", false, true)`.) -/
theorem extracted_scheme_is_load :
    Shelx.Extracted.C04.absorb = [("SYMM", true, false), ("SFAC", true, false), ("FVAR", true, false)] ∧
    Shelx.Extracted.C04.dowWriters = [] ∧ Shelx.Extracted.C04.writerSkipsEmpty = true := by decide

/-- the property for every file the repaired parser produces and every history of edits -/
theorem file_history_refines (src : List (Src τ)) (ops : List (Op τ)) :
    (run (load src) ops).map written = absRun (written (load src)) (absTrace (load src) ops) :=
  history_refines ops _ (load_clean src)

end Shelx.C04

namespace Shelx.C04
section AbsoluteIndices

variable {τ : Type} [DecidableEq τ]
set_option linter.unusedSectionVars false

/-! ### the scheme with absolute indices (the code before the repair) -/

/-- positions of the absorbed entries, counted from `k` -/
def absorbedFrom : Nat → List (Item τ) → List Nat
  | _, [] => []
  | k, .absorbed _ :: r => k :: absorbedFrom (k + 1) r
  | k, .raw _ :: r => absorbedFrom (k + 1) r
  | k, .obj _ :: r => absorbedFrom (k + 1) r
  | k, .blank :: r => absorbedFrom (k + 1) r

/-- what the absolute-index scheme relies on: `delete_on_write` lists exactly the positions of the absorbed
    entries -/
def Marked (s : St τ) : Prop := s.dow = absorbedFrom 0 s.res

instance (s : St τ) : Decidable (Marked s) := by unfold Marked; infer_instance

/-- the lines a file is meant to consist of: absorbed entries are not among them -/
def visKept (h : Nat → List τ) : Item τ → Option (Line τ)
  | .absorbed _ => none
  | it => vis h it

theorem absorbedFrom_ge (k j : Nat) (r : List (Item τ)) (h : j ∈ absorbedFrom k r) : k ≤ j := by
  induction r generalizing k with
  | nil => simp [absorbedFrom] at h
  | cons it r ih =>
    cases it with
    | absorbed t =>
      simp only [absorbedFrom, List.mem_cons] at h
      rcases h with h | h
      · omega
      · have := ih (k + 1) h; omega
    | raw t => have := ih (k + 1) (by simpa [absorbedFrom] using h); omega
    | obj o => have := ih (k + 1) (by simpa [absorbedFrom] using h); omega
    | blank => have := ih (k + 1) (by simpa [absorbedFrom] using h); omega

theorem writtenFrom_marked (h : Nat → List τ) (dow : List Nat) (k : Nat) (r : List (Item τ))
    (hd : ∀ j, k ≤ j → (j ∈ dow ↔ j ∈ absorbedFrom k r)) :
    writtenFrom h dow k r = r.filterMap (visKept h) := by
  induction r generalizing k with
  | nil => rfl
  | cons it r ih =>
    have hk := hd k (Nat.le_refl k)
    have notin : k ∉ absorbedFrom (k + 1) r := fun hm => by
      have := absorbedFrom_ge (k + 1) k r hm; omega
    cases it with
    | absorbed t =>
      have tail : ∀ j, k + 1 ≤ j → (j ∈ dow ↔ j ∈ absorbedFrom (k + 1) r) := by
        intro j hj
        have := hd j (by omega)
        simp only [absorbedFrom, List.mem_cons] at this
        constructor
        · intro hm; rcases this.mp hm with h1 | h1
          · omega
          · exact h1
        · intro hm; exact this.mpr (Or.inr hm)
      have kin : k ∈ dow := hk.mpr (by simp [absorbedFrom])
      simp only [writtenFrom, kin, if_true, List.nil_append, ih (k + 1) tail]
      rw [List.filterMap_cons_none (by rfl)]
    | raw t =>
      have tail : ∀ j, k + 1 ≤ j → (j ∈ dow ↔ j ∈ absorbedFrom (k + 1) r) := fun j hj => by
        simpa [absorbedFrom] using hd j (by omega)
      have kout : k ∉ dow := fun hm => notin (by simpa [absorbedFrom] using hk.mp hm)
      simp only [writtenFrom, kout, if_false, ih (k + 1) tail, vis]
      rw [List.filterMap_cons_some (by rfl)]; rfl
    | obj o =>
      have tail : ∀ j, k + 1 ≤ j → (j ∈ dow ↔ j ∈ absorbedFrom (k + 1) r) := fun j hj => by
        simpa [absorbedFrom] using hd j (by omega)
      have kout : k ∉ dow := fun hm => notin (by simpa [absorbedFrom] using hk.mp hm)
      simp only [writtenFrom, kout, if_false, ih (k + 1) tail, vis]
      rw [List.filterMap_cons_some (by rfl)]; rfl
    | blank =>
      have tail : ∀ j, k + 1 ≤ j → (j ∈ dow ↔ j ∈ absorbedFrom (k + 1) r) := fun j hj => by
        simpa [absorbedFrom] using hd j (by omega)
      have kout : k ∉ dow := fun hm => notin (by simpa [absorbedFrom] using hk.mp hm)
      simp only [writtenFrom, kout, if_false, ih (k + 1) tail, vis]
      rw [List.filterMap_cons_none (by rfl)]; rfl

/-- as long as the indices are right the writer emits exactly the lines that were not absorbed: the first
    write after parsing is correct in the absolute-index scheme too -/
theorem written_of_marked (s : St τ) (hm : Marked s) : written s = s.res.filterMap (visKept s.heap) := by
  unfold written
  apply writtenFrom_marked
  intro j _; rw [hm]

theorem absorbedFrom_append (k : Nat) (l1 l2 : List (Item τ)) :
    absorbedFrom k (l1 ++ l2) = absorbedFrom k l1 ++ absorbedFrom (k + l1.length) l2 := by
  induction l1 generalizing k with
  | nil => simp [absorbedFrom]
  | cons it r ih =>
    have e : k + 1 + r.length = k + (r.length + 1) := by omega
    cases it <;> simp [absorbedFrom, ih, e]

theorem absorbedFrom_blanks (k n : Nat) : absorbedFrom k (blanks n : List (Item τ)) = [] := by
  induction n generalizing k with
  | zero => rfl
  | succ n ih => simp [blanks, List.replicate_succ, absorbedFrom] at ih ⊢; exact ih (k + 1)

theorem loadLine_marked (a : LoadSt τ) (l : Src τ) (h : a.dow = absorbedFrom 0 a.res) :
    (loadLine false a l).dow = absorbedFrom 0 (loadLine false a l).res := by
  have first : a.dow = absorbedFrom 0 (a.res ++ .obj a.next :: blanks (l.nphys - 1)) := by
    rw [absorbedFrom_append]; simp [absorbedFrom, absorbedFrom_blanks, h]
  have absorb : ∀ t : List τ, a.dow ++ [a.res.length] = absorbedFrom 0 (a.res ++ .absorbed t :: blanks (l.nphys - 1)) := by
    intro t; rw [absorbedFrom_append]; simp [absorbedFrom, absorbedFrom_blanks, h]
  unfold loadLine
  cases l.kind <;> simp only
  · cases a.sfac <;> simp only [Bool.false_eq_true, if_false]
    · exact first
    · exact absorb _
  · cases a.fvar <;> simp only [Bool.false_eq_true, if_false]
    · exact first
    · exact absorb _
  · exact first

/-- the parser of the absolute-index scheme records the right indices … -/
theorem loadAbs_marked (src : List (Src τ)) : Marked (loadAbs src) := by
  have : ∀ (a : LoadSt τ), a.dow = absorbedFrom 0 a.res →
      (src.foldl (loadLine false) a).dow = absorbedFrom 0 (src.foldl (loadLine false) a).res := by
    induction src with
    | nil => intro a h; exact h
    | cons l r ih => intro a h; exact ih _ (loadLine_marked a l h)
  exact this {} rfl

end AbsoluteIndices

section Witness

/-- TITL / SFAC C / SFAC H / UNIT 1 2 / FVAR 0.5 / FVAR 0.8 / C1 … — two SFAC and two FVAR lines, parsed
    the way the code did before the repair -/
def twoSfacSrc : List (Src String) :=
  [⟨.other, 1, ["TITL", "x"]⟩, ⟨.sfac, 1, ["SFAC", "C"]⟩, ⟨.sfac, 1, ["SFAC", "H"]⟩, ⟨.other, 1, ["UNIT", "1", "2"]⟩,
   ⟨.fvar, 1, ["FVAR", "0.5"]⟩, ⟨.fvar, 1, ["FVAR", "0.8"]⟩, ⟨.other, 2, ["C1", "1", "0.1", "0.2", "0.3", "21.0", "0.04"]⟩]

def twoSfac : St String := loadAbs twoSfacSrc

/-- … so the unedited file is written correctly (one merged SFAC line, one merged FVAR line) -/
example : written twoSfac =
    [⟨some 0, ["TITL", "x"]⟩, ⟨some 1, ["SFAC", "C", "H"]⟩, ⟨some 3, ["UNIT", "1", "2"]⟩,
     ⟨some 4, ["FVAR", "0.5", "0.8"]⟩, ⟨some 6, ["C1", "1", "0.1", "0.2", "0.3", "21.0", "0.04"]⟩] := by decide

example : Marked twoSfac := loadAbs_marked _

/-- … but one `add_line(0, 'REM new')` later the SFAC table and the FVAR line are gone and `0.8` stands alone -/
example : (step twoSfac (.addLine 0 ["REM", "new"])).map written = some
    [⟨some 0, ["TITL", "x"]⟩, ⟨none, ["REM", "new"]⟩, ⟨none, []⟩, ⟨some 3, ["UNIT", "1", "2"]⟩,
     ⟨none, ["0.8"]⟩, ⟨some 6, ["C1", "1", "0.1", "0.2", "0.3", "21.0", "0.04"]⟩] := by decide

/-- **The absolute-index scheme does not satisfy the property**: there is a state in which `delete_on_write` is
    exactly right, and an edit, after which the written file is not the old file with that edit applied. -/
theorem dow_breaks : ∃ (s : St String) (op : Op String),
    Marked s ∧ (step s op).map written ≠ absStep (written s) (absOf s op) :=
  ⟨twoSfac, .addLine 0 ["REM", "new"], loadAbs_marked _, by decide⟩

/-- the same through `insert_anis` (insertion after UNIT, i.e. between the SFAC and the FVAR region) and
    through the deletion of a line in front of the FVAR region (ACTA removal, atom deletion) -/
theorem dow_breaks_insert_anis :
    (step twoSfac (.insertAfter 3 ["ANIS"])).map written ≠ absStep (written twoSfac) (.insertAfter 3 ["ANIS"]) := by
  decide

theorem dow_breaks_delete :
    (step twoSfac (.delete 3)).map written ≠ absStep (written twoSfac) (.delete 3) := by decide

/-- `Marked` is the invariant the scheme cannot keep -/
theorem marked_not_preserved : ∃ (s s' : St String) (op : Op String),
    Marked s ∧ step s op = some s' ∧ ¬ Marked s' :=
  ⟨twoSfac, _, .addLine 0 ["REM", "new"], loadAbs_marked _, rfl, by decide⟩

/-- the repaired parser on the same file: every one of these edits is exact -/
example : (step (load twoSfacSrc) (.addLine 0 ["REM", "new"])).map written = some
    [⟨some 0, ["TITL", "x"]⟩, ⟨none, ["REM", "new"]⟩, ⟨some 1, ["SFAC", "C", "H"]⟩, ⟨some 3, ["UNIT", "1", "2"]⟩,
     ⟨some 4, ["FVAR", "0.5", "0.8"]⟩, ⟨some 6, ["C1", "1", "0.1", "0.2", "0.3", "21.0", "0.04"]⟩] := by decide

/-- a history that meets the hypothesis of `history_refines` and uses every kind of edit -/
example : Clean (load twoSfacSrc) := load_clean _
example : (run (load twoSfacSrc) [.addLine 0 ["REM", "new"], .insertAfter 3 ["ANIS"], .setObj 3 ["UNIT", "1", "2", "1"],
      .delete 6, .replace 0 ["TITL", "y"], .insertObjAfter 3 9 ["ACTA"]]).map written = some
    [⟨none, ["TITL", "y"]⟩, ⟨none, ["REM", "new"]⟩, ⟨some 1, ["SFAC", "C", "H"]⟩, ⟨some 3, ["UNIT", "1", "2", "1"]⟩,
     ⟨some 9, ["ACTA"]⟩, ⟨none, ["ANIS"]⟩, ⟨some 4, ["FVAR", "0.5", "0.8"]⟩] := by decide

end Witness
end Shelx.C04

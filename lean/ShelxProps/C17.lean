/-
  C17 — property theorems (model and spec: ShelxModel/C17.lean).

  Quantified over ALL files (any atom list, any residue registry) and ALL restraints (any keyword text, any
  token list) that satisfy the decidable predicate `WellFormed`; no bound on sizes. Core Lean only
  (imports ShelxProps.C05 for the layout theorems; that file is core Lean as well).

    warnings_eq_missing       reported (NAME, residue) pairs = missing pairs, as sets
    history_statement         the same after ANY history of edits / evaluations / attribute assignments (no hypothesis
                              on the history: the check rebuilds the name index, fix C17_5)
    lookup_after_history      after API edits the name index itself answers for the edited atom list
    no_warning_if_all_exist   nothing missing, class known  =>  no message at all
    message_iff               a message exists  <=>  something is missing or the class has no residues
    wildcards_never_reported  no hypothesis: `$E`, `NAME_$n`, `<`, `>`, `=` are never among the reported names
    named_eq_missing          the names that stand in the message (after `set()` / `sort()`) = missing pairs: the step
                              loses and invents nothing, however many atoms are absent and however alike their names
    layout_warnings_eq_missing  the same from the PHYSICAL lines of the file: wrapped with `=`, `!` comments with any
                              content behind the `=` and behind the last line (layout specification: C05.norm,
                              gluing model: C05.modelLogicalLines, tied by C05.glue_tokens), for every predicate that
                              tells numerical parameters from atom names
    layout_invariant_diagnostics  two layouts of one file (C05.LayoutEq) give the same diagnostics
  Witnesses (decide +kernel): one per repaired defect (`Legacy.*` = the code before fixes/C17_1..4), one per
  excluded input class, and concrete inputs that meet the hypotheses.
-/
import ShelxModel.C17
import ShelxProps.C05

namespace Shelx.C17

/-! ### characters and `upper` -/

theorem toUpper_eq_underscore {c : Char} (h : c.toUpper = '_') : c = '_' := by
  unfold Char.toUpper at h
  split at h
  · rename_i hc
    exfalso
    have h2 := congrArg Char.val h
    simp only [UInt32.le_iff_toNat_le] at hc
    have h3 := congrArg UInt32.toNat h2
    simp [UInt32.toNat_add] at h3
    have h4 : 'a'.val.toNat = 97 := by decide
    have h5 : 'z'.val.toNat = 122 := by decide
    have h6 : c.val.toNat = c.toNat := rfl
    omega
  · exact h

theorem toUpper_of_not_lower {c : Char} (h : ¬ c.isLower) : c.toUpper = c := by
  unfold Char.toUpper
  split
  · rename_i hc
    exfalso; apply h
    have h4 : 'a'.val = 97 := by decide
    have h5 : 'z'.val = 122 := by decide
    simp only [h4, h5] at hc
    simp [Char.isLower, hc.1, hc.2]
  · rfl

theorem toUpper_digit {c : Char} (h : c.isDigit = true) : c.toUpper = c := by
  apply toUpper_of_not_lower
  simp only [Char.isDigit, Char.isLower, Bool.and_eq_true, decide_eq_true_eq, UInt32.le_iff_toNat_le] at *
  have h4 : 'a'.val.toNat = 97 := by decide
  have h5 : '9'.val.toNat = 57 := by decide
  omega

theorem upper_append (a b : Str) : upper (a ++ b) = upper a ++ upper b := by simp [upper]

theorem upper_cons (c : Char) (s : Str) : upper (c :: s) = c.toUpper :: upper s := rfl

theorem us_mem_upper {s : Str} : '_' ∈ upper s ↔ '_' ∈ s := by
  induction s with
  | nil => simp [upper]
  | cons c s ih =>
    simp only [upper_cons, List.mem_cons, ih]
    constructor
    · rintro (h | h)
      · left; exact (toUpper_eq_underscore h.symm).symm
      · right; exact h
    · rintro (h | h)
      · left; rw [← h]; decide
      · right; exact h

theorem upper_digits {s : Str} (h : ∀ c ∈ s, c.isDigit = true) : upper s = s := by
  induction s with
  | nil => rfl
  | cons c s ih =>
    rw [upper_cons, toUpper_digit (h c (by simp)), ih (fun d hd => h d (by simp [hd]))]

/-! ### numbers as text -/

theorem natStr_digits (n : Nat) : ∀ c ∈ natStr n, c.isDigit = true :=
  fun _ hc => Nat.isDigit_of_mem_toDigits (by decide) (by decide) hc

theorem toNat_natStr (n : Nat) : toNat (natStr n) = n := Nat.ofDigitChars_ten_toDigits

theorem natStr_inj {a b : Nat} (h : natStr a = natStr b) : a = b := by
  have := congrArg toNat h
  simpa [toNat_natStr] using this

theorem us_not_mem_natStr (n : Nat) : '_' ∉ natStr n := Nat.underscore_not_in_toDigits

theorem upper_natStr (n : Nat) : upper (natStr n) = natStr n := upper_digits (natStr_digits n)

theorem natStr_ne_star (n : Nat) : natStr n ≠ ['*'] := by
  intro h
  have := natStr_digits n '*' (by rw [h]; simp)
  exact absurd this (by decide)

theorem mem_dedup {l : List Nat} {x : Nat} : x ∈ dedup l ↔ x ∈ l := by
  induction l with
  | nil => simp [dedup]
  | cons y ys ih =>
    simp only [dedup, List.mem_cons, List.mem_filter, ih, bne_iff_ne, ne_eq]
    constructor
    · rintro (h | ⟨h, _⟩)
      · left; exact h
      · right; exact h
    · rintro (h | h)
      · left; exact h
      · by_cases hxy : x = y
        · left; exact hxy
        · right; exact ⟨h, hxy⟩

/-! ### splitting at `_` -/

theorem splitOn_of_not_mem {c : Char} {s : Str} (h : c ∉ s) : splitOn c s = (s, []) := by
  induction s with
  | nil => rfl
  | cons x xs ih =>
    have hx : x ≠ c := fun e => h (by simp [e])
    have hxs : c ∉ xs := fun e => h (by simp [e])
    simp [splitOn, hx, ih hxs]

theorem splitOn_append {c : Char} {a b : Str} (h : c ∉ a) :
    splitOn c (a ++ c :: b) = (a, (splitOn c b).1 :: (splitOn c b).2) := by
  induction a with
  | nil => simp [splitOn]
  | cons x xs ih =>
    have hx : x ≠ c := fun e => h (by simp [e])
    have hxs : c ∉ xs := fun e => h (by simp [e])
    simp [splitOn, hx, ih hxs]

theorem splitOn_one {c : Char} {a b : Str} (ha : c ∉ a) (hb : c ∉ b) : splitOn c (a ++ c :: b) = (a, [b]) := by
  rw [splitOn_append ha, splitOn_of_not_mem hb]

theorem takeWhile_ne_cons {x : Char} {xs : Str} (hx : x ≠ '_') :
    List.takeWhile (· != '_') (x :: xs) = x :: List.takeWhile (· != '_') xs := by
  have hb : (x != '_') = true := by simp [hx]
  simp [hb]

theorem dropWhile_ne_cons {x : Char} {xs : Str} (hx : x ≠ '_') :
    List.dropWhile (· != '_') (x :: xs) = List.dropWhile (· != '_') xs := by
  have hb : (x != '_') = true := by simp [hx]
  simp [hb]

theorem beforeUS_of_not_mem {s : Str} (h : '_' ∉ s) : beforeUS s = s := by
  induction s with
  | nil => rfl
  | cons x xs ih =>
    have hx : x ≠ '_' := fun e => h (by simp [e])
    have hxs : '_' ∉ xs := fun e => h (by simp [e])
    unfold beforeUS at ih ⊢
    rw [takeWhile_ne_cons hx, ih hxs]

theorem afterUS_of_not_mem {s : Str} (h : '_' ∉ s) : afterUS s = none := by
  induction s with
  | nil => rfl
  | cons x xs ih =>
    have hx : x ≠ '_' := fun e => h (by simp [e])
    have hxs : '_' ∉ xs := fun e => h (by simp [e])
    unfold afterUS at ih ⊢
    rw [dropWhile_ne_cons hx]; exact ih hxs

theorem beforeUS_append {a t : Str} (h : '_' ∉ a) : beforeUS (a ++ '_' :: t) = a := by
  induction a with
  | nil => simp [beforeUS]
  | cons x xs ih =>
    have hx : x ≠ '_' := fun e => h (by simp [e])
    have hxs : '_' ∉ xs := fun e => h (by simp [e])
    unfold beforeUS at ih ⊢
    rw [List.cons_append, takeWhile_ne_cons hx, ih hxs]

theorem afterUS_append {a t : Str} (h : '_' ∉ a) : afterUS (a ++ '_' :: t) = some t := by
  induction a with
  | nil => simp [afterUS]
  | cons x xs ih =>
    have hx : x ≠ '_' := fun e => h (by simp [e])
    have hxs : '_' ∉ xs := fun e => h (by simp [e])
    unfold afterUS at ih ⊢
    rw [List.cons_append, dropWhile_ne_cons hx]; exact ih hxs

/-- every text is either free of `_` or `before ++ '_' :: after` with `before` free of `_` -/
theorem us_decomp (s : Str) :
    ('_' ∉ s ∧ afterUS s = none) ∨ (∃ a t, s = a ++ '_' :: t ∧ '_' ∉ a ∧ afterUS s = some t ∧ beforeUS s = a) := by
  induction s with
  | nil => left; simp [afterUS]
  | cons x xs ih =>
    by_cases hx : x = '_'
    · right; refine ⟨[], xs, by simp [hx], by simp, ?_, ?_⟩
      · simp [afterUS, hx]
      · simp [beforeUS, hx]
    · rcases ih with ⟨h1, _⟩ | ⟨a, t, h1, h2, _, _⟩
      · left
        have : '_' ∉ x :: xs := by simp [h1]; exact fun e => hx e.symm
        exact ⟨this, afterUS_of_not_mem this⟩
      · right
        have hn : '_' ∉ x :: a := by simp [h2]; exact fun e => hx e.symm
        refine ⟨x :: a, t, by simp [h1], hn, ?_, ?_⟩
        · rw [h1, ← List.cons_append]; exact afterUS_append hn
        · rw [h1, ← List.cons_append]; exact beforeUS_append hn

/-! ### the name index -/

theorem append_us_inj {a b x y : Str} (ha : '_' ∉ a) (hb : '_' ∉ b) (h : a ++ '_' :: x = b ++ '_' :: y) :
    a = b ∧ x = y := by
  have h1 := congrArg beforeUS h
  rw [beforeUS_append ha, beforeUS_append hb] at h1
  have h2 := congrArg afterUS h
  rw [afterUS_append ha, afterUS_append hb] at h2
  exact ⟨h1, Option.some.inj h2⟩

theorem upper_name_num (nm : Str) (n : Nat) : upper (nm ++ '_' :: natStr n) = upper nm ++ '_' :: natStr n := by
  rw [upper_append, upper_cons, upper_natStr]; rfl

/-- atom names carry no `_` and the cached index is empty or agrees with the atom list -/
def NoUS (f : File) : Prop := (∀ a ∈ f.atoms, '_' ∉ a.name) ∧ index f = f.atoms.map atomKey

theorem index_of_coherent {f : File} (h : coherent f = true) : index f = f.atoms.map atomKey := by
  simp only [coherent, Bool.or_eq_true, beq_iff_eq] at h
  unfold index
  rcases h with h | h
  · simp [h]
  · split
    · rfl
    · exact h

/-- looking `NAME_n` up in the upper-case key list is the same as asking for an atom NAME in residue n -/
theorem key_lookup {f : File} (hf : NoUS f) {nm : Str} (hnm : '_' ∉ nm) (n : Nat) :
    (index f).contains (upper (nm ++ '_' :: natStr n)) = atomExists f (upper nm) n := by
  rw [hf.2]
  have hf := hf.1
  rw [Bool.eq_iff_iff]
  simp only [List.contains_iff_mem, List.mem_map, atomExists, List.any_eq_true, Bool.and_eq_true, beq_iff_eq]
  constructor
  · rintro ⟨a, ha, hk⟩
    refine ⟨a, ha, ?_⟩
    rw [atomKey, upper_name_num, upper_name_num] at hk
    have := append_us_inj (mt us_mem_upper.1 (hf a ha)) (mt us_mem_upper.1 hnm) hk
    exact ⟨this.1, natStr_inj this.2⟩
  · rintro ⟨a, ha, h1, h2⟩
    refine ⟨a, ha, ?_⟩
    rw [atomKey, upper_name_num, upper_name_num, h1, h2]

theorem getAtomByName_name_num {f : File} (hf : NoUS f) {nm : Str} (hnm : '_' ∉ nm) (n : Nat) :
    getAtomByName f (nm ++ '_' :: natStr n) = atomExists f (upper nm) n := by
  have : '_' ∈ nm ++ '_' :: natStr n := by simp
  simp only [getAtomByName, this, if_true]
  exact key_lookup hf hnm n

/-! ### `does_atom_exist` -/

theorem head_ne_dollar {nm t : Str} (h : '$' ∉ nm) : (nm ++ '_' :: t).head? ≠ some '$' := by
  cases nm with
  | nil => simp
  | cons c cs =>
    simp only [List.cons_append, List.head?_cons, ne_eq, Option.some.injEq]
    intro e; exact h (by simp [e])

theorem doesAtomExist_num {f : File} (hf : NoUS f) {nm : Str} (hnm : '_' ∉ nm) (hd : '$' ∉ nm) (n : Nat) (rep : Str) :
    doesAtomExist f (nm ++ '_' :: natStr n) rep = if atomExists f (upper nm) n then [] else [rep] := by
  have h1 : '_' ∈ nm ++ '_' :: natStr n := by simp
  have h2 : (lastPart (splitOn '_' (nm ++ '_' :: natStr n)) == ['*']) = false := by
    rw [splitOn_one hnm (us_not_mem_natStr n)]
    simp only [lastPart]
    exact beq_false_of_ne (natStr_ne_star n)
  simp only [doesAtomExist, if_neg (head_ne_dollar hd), h1, h2, decide_true, Bool.and_false, Bool.false_eq_true, if_false,
    getAtomByName_name_num hf hnm]

theorem doesAtomExist_star {f : File} (hf : NoUS f) {nm : Str} (hnm : '_' ∉ nm) (hd : '$' ∉ nm) (rep : Str) :
    doesAtomExist f (nm ++ ['_', '*']) rep =
      (residueNumbers f).filterMap fun num => if atomExists f (upper nm) num then none else some (nm ++ '_' :: natStr num) := by
  have h1 : '_' ∈ nm ++ ['_', '*'] := by simp
  have hs : '_' ∉ ['*'] := by decide
  have h2 : (lastPart (splitOn '_' (nm ++ ['_', '*'])) == ['*']) = true := by
    rw [splitOn_one hnm hs]; simp [lastPart]
  have h3 : (splitOn '_' (nm ++ ['_', '*'])).1 = nm := by rw [splitOn_one hnm hs]
  simp only [doesAtomExist, if_neg (head_ne_dollar hd), h1, h2, h3, decide_true, Bool.and_self, if_true,
    getAtomByName_name_num hf hnm]

theorem parseReport_name_num {nm : Str} (hnm : '_' ∉ nm) (n : Nat) : parseReport (nm ++ '_' :: natStr n) = (upper nm, n) := by
  simp only [parseReport, beforeUS_append hnm, afterUS_append hnm, toNat_natStr]

theorem parseReport_bare {nm : Str} (hnm : '_' ∉ nm) : parseReport nm = (upper nm, 0) := by
  simp only [parseReport, beforeUS_of_not_mem hnm, afterUS_of_not_mem hnm]

/-! ### the keyword -/

theorem digit_not_alpha {c : Char} (h : c.isDigit = true) : c.isAlpha = false := by
  simp only [Char.isDigit, Char.isAlpha, Char.isUpper, Char.isLower, Bool.and_eq_true, decide_eq_true_eq,
    UInt32.le_iff_toNat_le, Bool.or_eq_false_iff, Bool.and_eq_false_iff, decide_eq_false_iff_not] at *
  have h1 : '9'.val.toNat = 57 := by decide
  have h2 : 'A'.val.toNat = 65 := by decide
  have h3 : 'a'.val.toNat = 97 := by decide
  omega

theorem isDigitStr_cons {c : Char} {cs : Str} : isDigitStr (c :: cs) = true ↔ c.isDigit = true ∧ ∀ d ∈ cs, d.isDigit = true := by
  simp [isDigitStr]

theorem sum_pos {l : List Nat} (hne : l ≠ []) (h : ∀ x ∈ l, 0 < x) : 0 < l.sum := by
  cases l with
  | nil => exact absurd rfl hne
  | cons x xs =>
    have := h x (by simp)
    simp only [List.sum_cons]; omega

theorem classNumbers_eq (f : File) (c : Str) :
    classNumbers f c = if residuesOfClass f c = [] then none else some (residuesOfClass f c) := by
  unfold classNumbers residuesOfClass
  generalize List.map (·.num) (List.filter (fun r => upper r.cls == c) f.resis) = L
  cases L <;> simp

theorem not_mem_of_contains_false {c : Char} {s : Str} (h : s.contains c = false) : c ∉ s := by
  intro hm
  rw [List.contains_iff_mem.2 hm] at h
  exact absurd h (by decide)

theorem wfFile_iff {f : File} :
    wfFile f = true ↔ (∀ a ∈ f.atoms, '_' ∉ a.name) ∧ ∀ x ∈ f.resis, 0 < x.num ∧ x.cls ≠ [] := by
  simp [wfFile]

theorem residuesOfClass_nil {f : File} (h : ∀ x ∈ f.resis, 0 < x.num ∧ x.cls ≠ []) : residuesOfClass f [] = [] := by
  simp only [residuesOfClass, List.map_eq_nil_iff, List.filter_eq_nil_iff, beq_iff_eq]
  intro x hx e
  have := (h x hx).2
  cases hc : x.cls with
  | nil => exact this hc
  | cons c cs => rw [hc] at e; simp [upper] at e

theorem residuesOfClass_pos {f : File} (h : ∀ x ∈ f.resis, 0 < x.num ∧ x.cls ≠ []) (c : Str) :
    ∀ n ∈ residuesOfClass f c, 0 < n := by
  intro n hn
  simp only [residuesOfClass, List.mem_map, List.mem_filter] at hn
  obtain ⟨x, ⟨hx, _⟩, rfl⟩ := hn
  exact (h x hx).1

/-- what the code computes from the keyword (`residue_class`, `residue_number`, `class_without_residues`)
    against what the keyword addresses -/
theorem kw_spec {f : File} {r : Restr} (hf : wfFile f = true) (hk : wfKw r.kw = true) :
    ∃ cls nums, kwClass r.kw = .ok cls ∧ kwNumbers f r.kw cls = .ok nums ∧
      (decide (cls ≠ []) && nums.sum == 0) = classUnknown f r ∧
      (classUnknown f r = true → kwAddressed f r.kw = []) ∧
      (classUnknown f r = false → ∀ n, n ∈ nums ↔ n ∈ kwAddressed f r.kw) := by
  obtain ⟨kw, toks⟩ := r
  obtain ⟨_, hres⟩ := wfFile_iff.1 hf
  simp only [wfKw, Bool.and_eq_true, Bool.not_eq_true'] at hk
  obtain ⟨hd, hk⟩ := hk
  have hd : '$' ∉ kw := not_mem_of_contains_false hd
  rcases us_decomp (upper kw) with ⟨h1, h2⟩ | ⟨a, t, h1, h2, h3, _⟩
  · -- no suffix
    have hkw : '_' ∉ kw := mt us_mem_upper.2 h1
    have hcn : classNumbers f [] = none := by rw [classNumbers_eq, residuesOfClass_nil hres]; rfl
    refine ⟨[], [0], ?_, ?_, ?_, ?_, ?_⟩
    · simp [kwClass, hkw]
    · simp [kwNumbers, hkw, hcn]
    · simp [classUnknown, kwSfx, h2, classify]
    · simp [classUnknown, kwSfx, h2, classify]
    · intro _; simp [kwAddressed, kwSfx, h2, classify]
  · -- `NAME_t`
    have hkw : '_' ∈ kw := us_mem_upper.1 (by rw [h1]; simp)
    rw [h3] at hk
    simp only [Bool.and_eq_true, Bool.not_eq_true', Bool.or_eq_true, beq_iff_eq] at hk
    obtain ⟨ht, hk⟩ := hk
    have ht : '_' ∉ t := not_mem_of_contains_false ht
    have hsplit : splitOn '_' (upper kw) = (a, [t]) := by rw [h1]; exact splitOn_one h2 ht
    rcases hk with (hstar | hdig) | halpha
    · -- `_*`
      subst hstar
      refine ⟨[], residueNumbers f, ?_, ?_, ?_, ?_, ?_⟩
      · simp [kwClass, hkw, hsplit]
      · simp [kwNumbers, hkw, hd, hsplit]
      · simp [classUnknown, kwSfx, h3, classify]
      · simp [classUnknown, kwSfx, h3, classify]
      · intro _ n; simp [kwAddressed, kwSfx, h3, classify, residueNumbers, allResidues, mem_dedup]
    · -- `_n`
      cases t with
      | nil => simp [isDigitStr] at hdig
      | cons c cs =>
        have hc := (isDigitStr_cons.1 hdig).1
        have hna : c.isAlpha = false := digit_not_alpha hc
        have hns : c :: cs ≠ ['*'] := by
          intro e; injection e with e1 _; rw [e1] at hc; exact absurd hc (by decide)
        refine ⟨[], [toNat (c :: cs)], ?_, ?_, ?_, ?_, ?_⟩
        · simp [kwClass, hkw, hsplit, hna]
        · simp [kwNumbers, hkw, hd, hsplit, hns, hdig]
        · simp [classUnknown, kwSfx, h3, classify, hns, hdig]
        · simp [classUnknown, kwSfx, h3, classify, hns, hdig]
        · intro _ n; simp [kwAddressed, kwSfx, h3, classify, hns, hdig]
    · -- `_CLASS`
      cases t with
      | nil => simp at halpha
      | cons c cs =>
        simp only at halpha
        have hns : c :: cs ≠ ['*'] := by
          intro e; injection e with e1 _; rw [e1] at halpha; exact absurd halpha (by decide)
        have hnd : isDigitStr (c :: cs) = false := by
          cases hh : isDigitStr (c :: cs) with
          | false => rfl
          | true => have := digit_not_alpha (isDigitStr_cons.1 hh).1; rw [halpha] at this; exact absurd this (by decide)
        have hsfx : kwSfx kw = .cls (c :: cs) := by simp [kwSfx, h3, classify, hns, hnd, halpha]
        have hcls : kwClass kw = .ok (c :: cs) := by simp [kwClass, hkw, hsplit, halpha]
        by_cases hL : residuesOfClass f (c :: cs) = []
        · refine ⟨c :: cs, [0], hcls, ?_, ?_, ?_, ?_⟩
          · simp [kwNumbers, hkw, hd, hsplit, hns, hnd, classNumbers_eq, hL]
          · simp [classUnknown, hsfx, hL]
          · intro _; simp [kwAddressed, hsfx, hL]
          · intro h; simp [classUnknown, hsfx, hL] at h
        · refine ⟨c :: cs, residuesOfClass f (c :: cs), hcls, ?_, ?_, ?_, ?_⟩
          · simp [kwNumbers, hkw, hd, hsplit, hns, hnd, classNumbers_eq, hL]
          · have hp := sum_pos hL (residuesOfClass_pos hres (c :: cs))
            have : ((residuesOfClass f (c :: cs)).sum == 0) = false := by
              simp only [beq_eq_false_iff_ne, ne_eq]; omega
            simp [classUnknown, hsfx, hL, this]
          · intro h; simp [classUnknown, hsfx, hL] at h
          · intro _ n; simp [kwAddressed, hsfx]

/-! ### one token -/

/-- the part of `missing` that token `tok` contributes -/
def tokMissing (f : File) (r : Restr) (tok : Str) : List (Str × Nat) :=
  if addressable tok then
    ((addressed f r tok).filter fun n => !atomExists f (upper (beforeUS tok)) n).map fun n => (upper (beforeUS tok), n)
  else []

theorem missing_eq (f : File) (r : Restr) : missing f r = r.atoms.flatMap (tokMissing f r) := rfl

theorem mem_tokMissing {f : File} {r : Restr} {tok : Str} {p : Str × Nat} (ha : addressable tok = true) :
    p ∈ tokMissing f r tok ↔
      ∃ n ∈ addressed f r tok, atomExists f (upper (beforeUS tok)) n = false ∧ p = (upper (beforeUS tok), n) := by
  simp only [tokMissing, ha, if_true, List.mem_map, List.mem_filter, Bool.not_eq_true']
  constructor
  · rintro ⟨n, ⟨h1, h2⟩, rfl⟩; exact ⟨n, h1, h2, rfl⟩
  · rintro ⟨n, h1, h2, rfl⟩; exact ⟨n, ⟨h1, h2⟩, rfl⟩

theorem addressable_iff {tok : Str} :
    addressable tok = true ↔ ¬(tok = ['>'] ∨ tok = ['<'] ∨ tok = ['='] ∨ '$' ∈ tok) := by
  simp only [addressable, Bool.and_eq_true, Bool.not_eq_true', bne_iff_ne, ne_eq, not_or]
  constructor
  · rintro ⟨⟨⟨h1, h2⟩, h3⟩, h4⟩; exact ⟨h3, h2, h4, not_mem_of_contains_false h1⟩
  · rintro ⟨h3, h2, h4, h1⟩
    refine ⟨⟨⟨?_, h2⟩, h3⟩, h4⟩
    cases hc : tok.contains '$' with
    | false => rfl
    | true => exact absurd (List.contains_iff_mem.1 hc) h1

theorem mem_ite_singleton {α} {b : Bool} {x s : α} : s ∈ (if b = true then [] else [x]) ↔ b = false ∧ s = x := by
  cases b <;> simp

theorem natStr_zero : natStr 0 = ['0'] := by decide

theorem checkToken_spec {f : File} {r : Restr} (hf : NoUS f) {cw : Bool} {nums : List Nat}
    (h1 : cw = true → kwAddressed f r.kw = []) (h2 : cw = false → ∀ n, n ∈ nums ↔ n ∈ kwAddressed f r.kw)
    {tok : Str} (hw : wfTok tok = true) (p : Str × Nat) :
    p ∈ (checkToken f cw nums tok).map parseReport ↔ p ∈ tokMissing f r tok := by
  by_cases ha : addressable tok = true
  case neg =>
    have hs : tok = ['>'] ∨ tok = ['<'] ∨ tok = ['='] ∨ '$' ∈ tok := Classical.not_not.1 (mt addressable_iff.2 ha)
    simp [checkToken, hs, tokMissing, ha]
  case pos =>
    have hs := addressable_iff.1 ha
    have hd : '$' ∉ tok := fun h => hs (Or.inr (Or.inr (Or.inr h)))
    rw [mem_tokMissing ha]
    simp only [wfTok, ha, Bool.not_true, Bool.false_or] at hw
    rcases us_decomp tok with ⟨hnu, hau⟩ | ⟨a, t, ht, hna, hau, hbu⟩
    · -- a bare name: the keyword decides
      have hadr : addressed f r tok = kwAddressed f r.kw := by simp [addressed, tokSfx, hau, classify]
      rw [hadr, beforeUS_of_not_mem hnu]
      cases cw with
      | true =>
        simp [checkToken, hs, hnu, h1 rfl]
      | false =>
        have h2 := h2 rfl
        by_cases hn0 : nums = [0]
        · have hde := doesAtomExist_num hf hnu hd 0 tok
          rw [natStr_zero] at hde
          simp only [checkToken, if_neg hs, hn0, hnu, Bool.false_eq_true, false_and, ne_eq, not_true_eq_false, if_false, hde]
          rw [hn0] at h2
          cases he : atomExists f (upper tok) 0 with
          | true =>
            simp only [if_true, List.map_nil, List.not_mem_nil, false_iff]
            rintro ⟨n, hn, hne, _⟩
            have : n = 0 := by simpa using (h2 n).2 hn
            rw [this, he] at hne; exact absurd hne (by decide)
          | false =>
            simp only [Bool.false_eq_true, if_false, List.map_cons, List.map_nil, List.mem_singleton, parseReport_bare hnu]
            constructor
            · rintro rfl; exact ⟨0, (h2 0).1 (by simp), he, rfl⟩
            · rintro ⟨n, hn, _, rfl⟩
              have : n = 0 := by simpa using (h2 n).2 hn
              rw [this]
        · simp only [checkToken, if_neg hs, hnu, Bool.false_eq_true, false_and, ne_eq, hn0, not_false_eq_true, and_self, if_true, if_false,
            List.mem_map, List.mem_flatMap]
          constructor
          · rintro ⟨s, ⟨n, hn, hm⟩, rfl⟩
            rw [doesAtomExist_num hf hnu hd n, mem_ite_singleton] at hm
            obtain ⟨he, rfl⟩ := hm
            exact ⟨n, (h2 n).1 hn, he, parseReport_name_num hnu n⟩
          · rintro ⟨n, hn, he, rfl⟩
            refine ⟨tok ++ '_' :: natStr n, ⟨n, (h2 n).2 hn, ?_⟩, parseReport_name_num hnu n⟩
            rw [doesAtomExist_num hf hnu hd n, mem_ite_singleton]; exact ⟨he, rfl⟩
    · -- `NAME_suffix`: the token decides
      have hus : '_' ∈ tok := by rw [ht]; simp
      have hda : '$' ∉ a := fun h => hd (by rw [ht]; simp [h])
      rw [hau] at hw
      simp only [Bool.and_eq_true, Bool.not_eq_true', Bool.or_eq_true, beq_iff_eq] at hw
      obtain ⟨_, hw⟩ := hw
      rw [hbu]
      have hct : checkToken f cw nums tok = doesAtomExist f tok tok := by
        simp [checkToken, hs, hus]
      rw [hct]
      rcases hw with hstar | ⟨hdig, hcanon⟩
      · -- `NAME_*`
        subst hstar
        have hadr : addressed f r tok = allResidues f := by simp [addressed, tokSfx, hau, classify]
        rw [hadr]
        conv => lhs; rw [ht]
        rw [doesAtomExist_star hf hna hda]
        simp only [List.mem_map, List.mem_filterMap]
        constructor
        · rintro ⟨s, ⟨n, hn, hm⟩, rfl⟩
          cases he : atomExists f (upper a) n with
          | true => simp [he] at hm
          | false =>
            simp only [he, Bool.false_eq_true, if_false, Option.some.injEq] at hm
            subst hm
            exact ⟨n, by simpa [residueNumbers, allResidues, mem_dedup] using hn, he, parseReport_name_num hna n⟩
        · rintro ⟨n, hn, he, rfl⟩
          refine ⟨a ++ '_' :: natStr n, ⟨n, by simpa [residueNumbers, allResidues, mem_dedup] using hn, by simp [he]⟩,
            parseReport_name_num hna n⟩
      · -- `NAME_n`
        have hcanon : natStr (toNat t) = t := by simpa using hcanon
        have htne : t ≠ ['*'] := by
          intro e; rw [e] at hdig; exact absurd hdig (by decide)
        have hadr : addressed f r tok = [toNat t] := by
          cases t with
          | nil => simp [isDigitStr] at hdig
          | cons c cs => simp [addressed, tokSfx, hau, classify, htne, hdig]
        have htok : tok = a ++ '_' :: natStr (toNat t) := by rw [hcanon]; exact ht
        rw [hadr]
        have hde := doesAtomExist_num hf hna hda (toNat t) tok
        rw [← htok] at hde
        rw [hde]
        cases he : atomExists f (upper a) (toNat t) with
        | true =>
          simp only [if_true, List.map_nil, List.not_mem_nil, false_iff]
          rintro ⟨n, hn, hne, _⟩
          have : n = toNat t := by simpa using hn
          rw [this, he] at hne; exact absurd hne (by decide)
        | false =>
          have hpr : parseReport tok = (upper a, toNat t) := by
            conv => lhs; rw [htok]
            exact parseReport_name_num hna _
          simp only [Bool.false_eq_true, if_false, List.map_cons, List.map_nil, List.mem_singleton, hpr]
          constructor
          · rintro rfl; exact ⟨toNat t, by simp, he, rfl⟩
          · rintro ⟨n, hn, _, rfl⟩
            have : n = toNat t := by simpa using hn
            rw [this]

/-! ### the property -/

/-- core statement: on a well-formed input the check runs through, its class message appears exactly for a
    class without residues, and the names it reports denote exactly the missing (NAME, residue) pairs -/
theorem evaluate_spec (f : File) (r : Restr) (h : WellFormed f r) (hco : coherent f = true) :
    ∃ o, evaluate f r = .ok o ∧ o.classMsg = classUnknown f r ∧ ∀ p, p ∈ reported o ↔ p ∈ missing f r := by
  obtain ⟨hf, hk, ht⟩ := h
  obtain ⟨cls, nums, hc, hn, hcw, h1, h2⟩ := kw_spec hf hk
  have hnus : NoUS f := ⟨(wfFile_iff.1 hf).1, index_of_coherent hco⟩
  refine ⟨{ bad := r.atoms.flatMap (checkToken f (classUnknown f r) nums), classMsg := classUnknown f r }, ?_, rfl, ?_⟩
  · simp only [evaluate, hc, hn, bind, Except.bind, pure, Except.pure, hcw]
  · intro p
    simp only [reported, missing_eq, List.map_flatMap, List.mem_flatMap]
    constructor
    · rintro ⟨tok, htok, hp⟩
      exact ⟨tok, htok, (checkToken_spec hnus h1 h2 (ht tok htok) p).1 hp⟩
    · rintro ⟨tok, htok, hp⟩
      exact ⟨tok, htok, (checkToken_spec hnus h1 h2 (ht tok htok) p).2 hp⟩

/-- the check empties the cached index first, so whatever the cache holds (stale or not) the result is that of
    an evaluation on the atom list -/
theorem assign_spec (f : File) (r : Restr) (h : WellFormed f r) :
    ∃ o, assign f r = .ok o ∧ o.classMsg = classUnknown f r ∧ ∀ p, p ∈ reported o ↔ p ∈ missing f r :=
  evaluate_spec { f with cache := [] } r h rfl

/-- **warnings_eq_missing**: for every file, residue registry and restraint in the stated domain, the set of
    (NAME, residue) pairs named after 'Atom list has no -->' is the set of addressed pairs that do not exist.
    `WellFormed` excludes: a keyword with `$` or two `_` (`SADI_1_2` raises ValueError and ends the parse), a
    keyword suffix that is neither `*`, a number nor a class; atom tokens `NAME_x` where `x` is not `*` or a
    number as `str(int)` prints it (`C1_01` is looked up literally and reported although C1 exists in residue 1:
    `noncanonical_number_reported`); atom names with `_` in the atom list; registry entries with number 0 or an
    empty class slot (the parser never files those). -/
theorem warnings_eq_missing (f : File) (r : Restr) (h : WellFormed f r) :
    ∃ o, assign f r = .ok o ∧ ∀ p, p ∈ reported o ↔ p ∈ missing f r := by
  obtain ⟨o, h1, _, h3⟩ := assign_spec f r h
  exact ⟨o, h1, h3⟩

/-- **no_warning_if_all_exist**: nothing missing and no class without residues ⇒ no line in `restraint_errors` -/
theorem no_warning_if_all_exist (f : File) (r : Restr) (h : WellFormed f r)
    (hm : missing f r = []) (hc : classUnknown f r = false) :
    ∃ o, assign f r = .ok o ∧ o.anyMessage = false := by
  obtain ⟨o, h1, h2, h3⟩ := assign_spec f r h
  refine ⟨o, h1, ?_⟩
  have hb : o.bad = [] := by
    cases hbad : o.bad with
    | nil => rfl
    | cons s ss =>
      have : parseReport s ∈ reported o := by simp [reported, hbad]
      rw [h3, hm] at this
      exact absurd this (by simp)
  simp [Outcome.anyMessage, hb, h2, hc]

/-- a message exists exactly if something is missing or the class has no residues -/
theorem message_iff (f : File) (r : Restr) (h : WellFormed f r) :
    ∃ o, assign f r = .ok o ∧ (o.anyMessage = true ↔ (missing f r ≠ [] ∨ classUnknown f r = true)) := by
  obtain ⟨o, h1, h2, h3⟩ := assign_spec f r h
  refine ⟨o, h1, ?_⟩
  have hb : o.bad = [] ↔ missing f r = [] := by
    constructor
    · intro hb
      cases hm : missing f r with
      | nil => rfl
      | cons p ps =>
        have : p ∈ reported o := (h3 p).2 (by simp [hm])
        simp [reported, hb] at this
    · intro hm
      cases hbad : o.bad with
      | nil => rfl
      | cons s ss =>
        have : parseReport s ∈ reported o := by simp [reported, hbad]
        rw [h3, hm] at this
        exact absurd this (by simp)
  simp only [Outcome.anyMessage, Bool.or_eq_true, Bool.not_eq_true', List.isEmpty_eq_false_iff, ne_eq, h2, hb]

/-! ### histories: the diagnostics after edits of the atom list -/

/-- every edit that goes through the API leaves the cached index empty or in agreement with the atom list -/
theorem coherent_step {f : File} (h : coherent f = true) (op : Op) (hop : op.keepsIndex = true) :
    coherent (step f op) = true := by
  cases op with
  | delItem i => simp [step, coherent]
  | delete i => simp [step, coherent]
  | rename i nm =>
    simp only [step]
    split
    · exact h
    · simp [coherent]
  | add nm => simp [step, coherent]
  | setResi i n => simp [Op.keepsIndex] at hop
  | check => simp [step, coherent]
  | lookup =>
    have := index_of_coherent h
    simp [step, coherent, this]

theorem coherent_run {f : File} (h : coherent f = true) (ops : List Op) (hops : ∀ op ∈ ops, op.keepsIndex = true) :
    coherent (run f ops) = true := by
  induction ops generalizing f with
  | nil => exact h
  | cons op ops ih =>
    simp only [run, List.foldl_cons]
    exact ih (coherent_step h op (hops op (by simp))) (fun o ho => hops o (by simp [ho]))

/-- **HistoryStatement**, full strength: after ANY history — deletions in both forms, renamings, additions,
    intermediate evaluations and look-ups, and the plain assignment `atom.resi = RESI(...)` that leaves the cached
    index stale — the diagnostics name exactly the atoms missing from the EDITED atom list. No hypothesis on the
    ops and none on the cache; the data hypotheses are those of `warnings_eq_missing`, stated for the edited file. -/
def HistoryStatement : Prop :=
  ∀ (f : File) (ops : List Op) (r : Restr), WellFormed (run f ops) r →
    ∃ o, assign (run f ops) r = .ok o ∧ ∀ p, p ∈ reported o ↔ p ∈ missing (run f ops) r

theorem history_statement : HistoryStatement := fun f ops r h => warnings_eq_missing (run f ops) r h

theorem warnings_after_history (f : File) (ops : List Op) (r : Restr) (h : WellFormed (run f ops) r) :
    ∃ o, assign (run f ops) r = .ok o ∧ ∀ p, p ∈ reported o ↔ p ∈ missing (run f ops) r :=
  history_statement f ops r h

/-- **lookup_after_history**: after any history of API edits the name index answers `NAME_n` exactly for the atoms
    of the edited list (`get_atom_by_name`, which other code of the library relies on). The attribute assignment is
    excluded here — `stale_lookup_after_attribute_assignment` — and only here. -/
theorem lookup_after_history (f : File) (ops : List Op) (h0 : coherent f = true)
    (hops : ∀ op ∈ ops, op.keepsIndex = true) (hf : wfFile (run f ops) = true) {nm : Str} (hnm : '_' ∉ nm) (n : Nat) :
    getAtomByName (run f ops) (nm ++ '_' :: natStr n) = atomExists (run f ops) (upper nm) n :=
  getAtomByName_name_num ⟨(wfFile_iff.1 hf).1, index_of_coherent (coherent_run h0 ops hops)⟩ hnm n

/-! ### wildcards, operators and symmetry equivalents are never reported (no hypothesis at all) -/

theorem splitOn_fst_subset (c : Char) (s : Str) : ∀ x ∈ (splitOn c s).1, x ∈ s := by
  induction s with
  | nil => simp [splitOn]
  | cons y ys ih =>
    intro x hx
    simp only [splitOn] at hx
    split at hx
    · simp at hx
    · simp only [List.mem_cons] at hx ⊢
      rcases hx with hx | hx
      · exact Or.inl hx
      · exact Or.inr (ih x hx)

theorem addressable_name_num {nm : Str} (h : '$' ∉ nm) (n : Nat) : addressable (nm ++ '_' :: natStr n) = true := by
  rw [addressable_iff]
  have hus : '_' ∈ nm ++ '_' :: natStr n := by simp
  rintro (e | e | e | e)
  · rw [e] at hus; exact absurd hus (by decide)
  · rw [e] at hus; exact absurd hus (by decide)
  · rw [e] at hus; exact absurd hus (by decide)
  · simp only [List.mem_append, List.mem_cons] at e
    rcases e with e | e | e
    · exact h e
    · exact absurd e (by decide)
    · exact absurd (natStr_digits n '$' e) (by decide)

theorem doesAtomExist_addressable (f : File) {atomName rep : Str} (hd : '$' ∉ atomName) (hr : addressable rep = true) :
    ∀ s ∈ doesAtomExist f atomName rep, addressable s = true := by
  intro s hs
  simp only [doesAtomExist] at hs
  split at hs
  · simp at hs
  · split at hs
    · simp only [List.mem_filterMap] at hs
      obtain ⟨num, _, hm⟩ := hs
      split at hm
      · simp at hm
      · simp only [Option.some.injEq] at hm
        subst hm
        exact addressable_name_num (fun h => hd (splitOn_fst_subset '_' atomName '$' h)) num
    · split at hs
      · simp at hs
      · simp only [List.mem_singleton] at hs; rw [hs]; exact hr

theorem checkToken_addressable (f : File) (cw : Bool) (nums : List Nat) (tok : Str) :
    ∀ s ∈ checkToken f cw nums tok, addressable s = true := by
  intro s hs
  simp only [checkToken] at hs
  split at hs
  · simp at hs
  · rename_i hsp
    have ha : addressable tok = true := addressable_iff.2 hsp
    have hd : '$' ∉ tok := fun h => hsp (Or.inr (Or.inr (Or.inr h)))
    split at hs
    · simp at hs
    · split at hs
      · simp only [List.mem_flatMap] at hs
        obtain ⟨n, _, hm⟩ := hs
        have hd' : '$' ∉ tok ++ '_' :: natStr n := by
          have := addressable_iff.1 (addressable_name_num hd n)
          exact fun h => this (Or.inr (Or.inr (Or.inr h)))
        exact doesAtomExist_addressable f hd' (addressable_name_num hd n) s hm
      · split at hs
        · exact doesAtomExist_addressable f hd ha s hs
        · have hd' : '$' ∉ tok ++ ['_', '0'] := by
            simp only [List.mem_append, List.mem_cons, List.not_mem_nil, or_false, not_or]
            exact ⟨hd, by decide, by decide⟩
          exact doesAtomExist_addressable f hd' ha s hs

/-- **wildcards_never_reported**: whatever the file, the registry and the restraint, no reported name is an
    element wildcard (`$C`), a symmetry equivalent (`C1_$1`), or one of `<`, `>`, `=` -/
theorem evaluate_addressable (f : File) (r : Restr) (o : Outcome) (h : evaluate f r = .ok o) :
    ∀ s ∈ o.bad, addressable s = true := by
  simp only [evaluate, bind, Except.bind, pure, Except.pure] at h
  split at h
  · simp at h
  · split at h
    · simp at h
    · injection h with h
      subst h
      intro s hs
      simp only [List.mem_flatMap] at hs
      obtain ⟨tok, _, hm⟩ := hs
      exact checkToken_addressable _ _ _ tok s hm

theorem wildcards_never_reported (f : File) (r : Restr) (o : Outcome) (h : assign f r = .ok o) :
    ∀ s ∈ o.bad, addressable s = true :=
  evaluate_addressable _ r o h

/-! ### from `bad_atoms` to the names in the message: `sorted(set(bad_atoms))` neither loses nor invents a name -/

theorem mem_insertSorted (s t : Str) (l : List Str) : t ∈ insertSorted s l ↔ t = s ∨ t ∈ l := by
  induction l with
  | nil => simp [insertSorted]
  | cons x xs ih =>
    unfold insertSorted
    split
    · rename_i h
      subst h
      simp
    · split
      · simp
      · simp only [List.mem_cons, ih]
        constructor
        · rintro (h | h | h)
          · exact .inr (.inl h)
          · exact .inl h
          · exact .inr (.inr h)
        · rintro (h | h | h)
          · exact .inr (.inl h)
          · exact .inl h
          · exact .inr (.inr h)

/-- every name the loop collected is printed, and nothing else is -/
theorem mem_printed (bad : List Str) (s : Str) : s ∈ printed bad ↔ s ∈ bad := by
  induction bad with
  | nil => simp [printed]
  | cons b bs ih =>
    have : printed (b :: bs) = insertSorted b (printed bs) := rfl
    rw [this, mem_insertSorted, ih]
    simp

theorem mem_named (o : Outcome) (p : Str × Nat) : p ∈ named o ↔ p ∈ reported o := by
  simp only [named, reported, List.mem_map, mem_printed]

/-- **named_eq_missing**: the (NAME, residue) pairs that stand in the message — after `bad_atoms` went through
    `set()` and `sort()` — are exactly the addressed pairs that do not exist; any number of them may be absent at once,
    and names may differ in a single character (C1A / C1B / C1' / C1"). Hypotheses as for `warnings_eq_missing`. -/
theorem named_eq_missing (f : File) (r : Restr) (h : WellFormed f r) :
    ∃ o, assign f r = .ok o ∧ ∀ p, p ∈ named o ↔ p ∈ missing f r := by
  obtain ⟨o, h1, h2⟩ := warnings_eq_missing f r h
  exact ⟨o, h1, fun p => (mem_named o p).trans (h2 p)⟩

/-! ### the case of the keyword -/

theorem toUpper_not_lower (c : Char) : c.toUpper.isLower = false := by
  unfold Char.toUpper
  split
  · rename_i hc
    simp only [UInt32.le_iff_toNat_le] at hc
    have h4 : 'a'.val.toNat = 97 := by decide
    have h5 : 'z'.val.toNat = 122 := by decide
    have h7 : ('A'.val - 'a'.val).toNat = 4294967264 := by decide
    simp only [Char.isLower, Bool.and_eq_false_iff, decide_eq_false_iff_not, UInt32.le_iff_toNat_le, UInt32.toNat_add, h4, h5, h7]
    omega
  · rename_i hc
    simp only [Char.isLower, Bool.and_eq_false_iff, decide_eq_false_iff_not]
    by_cases h : 'a'.val ≤ c.val
    · right; intro h2; exact hc ⟨h, h2⟩
    · left; exact h

theorem toUpper_idem (c : Char) : c.toUpper.toUpper = c.toUpper :=
  toUpper_of_not_lower (by simp [toUpper_not_lower c])

theorem upper_idem (s : Str) : upper (upper s) = upper s := by
  simp [upper, toUpper_idem]

theorem toUpper_eq_dollar {c : Char} (h : c.toUpper = '$') : c = '$' := by
  unfold Char.toUpper at h
  split at h
  · rename_i hc
    exfalso
    have h2 := congrArg Char.val h
    simp only [UInt32.le_iff_toNat_le] at hc
    have h3 := congrArg UInt32.toNat h2
    simp [UInt32.toNat_add] at h3
    have h4 : 'a'.val.toNat = 97 := by decide
    have h5 : 'z'.val.toNat = 122 := by decide
    have h6 : c.val.toNat = c.toNat := rfl
    omega
  · exact h

theorem dollar_mem_upper {s : Str} : '$' ∈ upper s ↔ '$' ∈ s := by
  induction s with
  | nil => simp [upper]
  | cons c s ih =>
    simp only [upper_cons, List.mem_cons, ih]
    constructor
    · rintro (h | h)
      · left; exact (toUpper_eq_dollar h.symm).symm
      · right; exact h
    · rintro (h | h)
      · left; rw [← h]; decide
      · right; exact h

/-- the code reads the keyword in upper case wherever it reads it: a keyword and its upper-case spelling give the
    same diagnostics … -/
theorem assign_upper_kw (f : File) (k : Str) (a : List Str) :
    assign f { kw := upper k, atoms := a } = assign f { kw := k, atoms := a } := by
  simp only [assign, evaluate, kwClass, kwNumbers, us_mem_upper, dollar_mem_upper, upper_idem]

/-- … and address the same residues -/
theorem missing_upper_kw (f : File) (k : Str) (a : List Str) :
    missing f { kw := upper k, atoms := a } = missing f { kw := k, atoms := a } := by
  simp only [missing, addressed, kwAddressed, kwSfx, upper_idem]

/-! ### from the physical lines of the file to the diagnostics -/

theorem restrOf_upperHead (isNum : Str → Bool) (sp : List Str) (r : Restr)
    (h : restrOf isNum (C05.upperHead sp) = some r) :
    ∃ k rest, sp = k :: rest ∧ r = { kw := upper k, atoms := rest.filter fun t => !isNum t } ∧
      restrOf isNum sp = some { kw := k, atoms := rest.filter fun t => !isNum t } := by
  cases sp with
  | nil => simp [C05.upperHead, restrOf] at h
  | cons k rest =>
    simp only [C05.upperHead, restrOf, Option.some.injEq] at h
    exact ⟨k, rest, rfl, h.symm, rfl⟩

theorem mapOk_ok {α β} (g : α → β) (e : Except C05.PyErr (List α)) (n : List β) (h : C05.mapOk g e = .ok n) :
    ∃ ls, e = .ok ls ∧ ls.map g = n := by
  cases e with
  | error x => simp [C05.mapOk] at h
  | ok ls =>
    simp only [C05.mapOk, Except.ok.injEq] at h
    exact ⟨ls, rfl, h⟩

/-- **layout_warnings_eq_missing**: start from the PHYSICAL lines of any file. If line `i` of its normal form
    (`C05.norm`: the specification of wrapping with `=` and of `!` comments — whatever stands behind a `!`, further `=`
    and `!` included, is no part of the instruction; the tokens of continuation lines follow in order) is a restraint
    `r` in the domain of `warnings_eq_missing`, then the code's own way — glue the physical lines, split, build the
    restraint, check every atom, `set()`, `sort()` — names exactly the pairs `missing f r`. For every predicate `isNum`
    that tells parameters from atom names. No hypothesis on the layout beyond its validity (`norm ≠ none`:
    continuation lines are indented, no `=` on the last line of the file). -/
theorem layout_warnings_eq_missing (isNum : Str → Bool) (f : File) (lines : List C05.Line) (i : Nat) (r : Restr)
    (hr : restrOfLines isNum lines i = some r) (h : WellFormed f r) :
    ∃ o, assignLines isNum f lines i = some (.ok o) ∧ ∀ p, p ∈ named o ↔ p ∈ missing f r := by
  unfold restrOfLines at hr
  split at hr
  · exact absurd hr (by simp)
  · rename_i n hn
    split at hr
    · exact absurd hr (by simp)
    · rename_i toks hi
      obtain ⟨ls, hls, hmap⟩ := mapOk_ok _ _ _ (C05.glue_tokens lines n hn)
      rw [← hmap, List.getElem?_map] at hi
      cases hg : ls[i]? with
      | none => simp [hg] at hi
      | some g =>
        simp only [hg, Option.map_some, Option.some.injEq] at hi
        rw [← hi] at hr
        obtain ⟨k, rest, hsp, hreq, hraw⟩ := restrOf_upperHead isNum _ r hr
        obtain ⟨o, ho, hp⟩ := named_eq_missing f r h
        refine ⟨o, ?_, hp⟩
        unfold assignLines
        rw [hls]
        simp only [hg, hraw, Option.map_some]
        rw [← assign_upper_kw, ← hreq, ho]

/-- two layouts of the same file (wrap points, blanks, comments, keyword case, blank and comment lines: `C05.LayoutEq`)
    give the same diagnostics for every restraint -/
theorem layout_invariant_diagnostics {lines lines' : List C05.Line} (hl : C05.LayoutEq lines lines')
    (isNum : Str → Bool) (f : File) (i : Nat) (r : Restr)
    (hr : restrOfLines isNum lines i = some r) (h : WellFormed f r) :
    ∃ o o', assignLines isNum f lines i = some (.ok o) ∧ assignLines isNum f lines' i = some (.ok o') ∧
      ∀ p, p ∈ named o ↔ p ∈ named o' := by
  have hr' : restrOfLines isNum lines' i = some r := by
    unfold restrOfLines at hr ⊢
    rw [← C05.layoutEq_norm hl]
    exact hr
  obtain ⟨o, h1, h2⟩ := layout_warnings_eq_missing isNum f lines i r hr h
  obtain ⟨o', h1', h2'⟩ := layout_warnings_eq_missing isNum f lines' i r hr' h
  exact ⟨o, o', h1, h1', fun p => (h2 p).trans (h2' p).symm⟩

/-! ### concrete inputs: the hypotheses are met by non-trivial inputs, and every place where the code as it was
    before fixes/C17_1..4 (`Legacy`) differs from the property is witnessed -/
section Witnesses

instance decEqExcept {ε α : Type} [DecidableEq ε] [DecidableEq α] : DecidableEq (Except ε α)
  | .ok a, .ok b => if h : a = b then isTrue (by rw [h]) else isFalse (by intro e; injection e; contradiction)
  | .error a, .error b => if h : a = b then isTrue (by rw [h]) else isFalse (by intro e; injection e; contradiction)
  | .ok _, .error _ => isFalse (by intro e; cases e)
  | .error _, .ok _ => isFalse (by intro e; cases e)

def C1 : Str := ['C', '1']
def C2 : Str := ['c', '2']       -- names and classes are not case sensitive
def C3 : Str := ['C', '3']
def CCF3lower : Str := ['c', 'c', 'f', '3']

/-- residue 0: C1 C2;  RESI ccf3 1: C1 C2;  RESI ccf3 2: C1;  RESI 7 (no class): C1 C3 -/
def fileA : File :=
  { atoms := [⟨C1, 0⟩, ⟨C2, 0⟩, ⟨C1, 1⟩, ⟨C2, 1⟩, ⟨C1, 2⟩, ⟨C1, 7⟩, ⟨C3, 7⟩],
    resis := [⟨CCF3lower, 1⟩, ⟨CCF3lower, 2⟩, ⟨['R', 'E', 'S', 'I'], 7⟩] }

/-- `sadi_CCF3 C1 C2 $C > C3_$1 C2_2 C1_* C3_7` -/
def restrA : Restr :=
  { kw := ['s', 'a', 'd', 'i', '_', 'C', 'C', 'F', '3'],
    atoms := [['C', '1'], ['C', '2'], ['$', 'C'], ['>'], ['C', '3', '_', '$', '1'], ['C', '2', '_', '2'], ['C', '1', '_', '*'],
              ['C', '3', '_', '7']] }

example : WellFormed fileA restrA := by decide +kernel
example : missing fileA restrA = [(['C', '2'], 2), (['C', '2'], 2)] := by decide +kernel
example : (assign fileA restrA).map reported = .ok [(['C', '2'], 2), (['C', '2'], 2)] := by decide +kernel
example : classUnknown fileA restrA = false := by decide +kernel

/-- `SADI_1 C1 c2 $C C1_2 C1_*`: every addressed atom exists -/
def restrOK : Restr :=
  { kw := ['S', 'A', 'D', 'I', '_', '1'], atoms := [C1, C2, ['$', 'C'], ['C', '1', '_', '2'], ['C', '1', '_', '*']] }
example : WellFormed fileA restrOK ∧ missing fileA restrOK = [] ∧ classUnknown fileA restrOK = false := by decide +kernel
example : ∃ o, assign fileA restrOK = .ok o ∧ o.anyMessage = false :=
  no_warning_if_all_exist _ _ (by decide +kernel) (by decide +kernel) (by decide +kernel)
example : ∃ o, assign fileA restrA = .ok o ∧ ∀ p, p ∈ reported o ↔ p ∈ missing fileA restrA :=
  warnings_eq_missing _ _ (by decide +kernel)

/-- `SADI_* C1 C3` -/
def restrStar : Restr := { kw := ['S', 'A', 'D', 'I', '_', '*'], atoms := [C1, C3] }
example : WellFormed fileA restrStar := by decide +kernel
example : missing fileA restrStar = [(C3, 1), (C3, 2)] := by decide +kernel

/-- C17_1: `SADI C1 C2_$1` — the old code looked `C2_$1` up literally and reported it -/
def restrSym : Restr := { kw := ['S', 'A', 'D', 'I'], atoms := [C1, ['C', '2', '_', '$', '1']] }
theorem legacy_reports_symmetry_equivalent :
    missing fileA restrSym = [] ∧ (Legacy.assign fileA restrSym).map (·.bad) = .ok [['C', '2', '_', '$', '1']] ∧
    (assign fileA restrSym).map (·.bad) = .ok [] := by decide +kernel

/-- C17_2: `SADI_* C1 C3` — the old code resolved `_*` on the keyword to residue 0 (C3 of residues 1, 2 not
    reported, C3 of residue 0 reported) -/
theorem legacy_star_on_keyword_is_residue_0 :
    (Legacy.assign fileA restrStar).map reported = .ok [(C3, 0)] ∧
    (assign fileA restrStar).map reported = .ok (missing fileA restrStar) := by decide +kernel

/-- C17_3: `SADI_CCF3 C1 C2` with `RESI ccf3 1` — the old registry was keyed by the class as written -/
def restrCls : Restr := { kw := ['S', 'A', 'D', 'I', '_', 'C', 'C', 'F', '3'], atoms := [C1, ['C', '2']] }
theorem legacy_class_lookup_case_sensitive :
    missing fileA restrCls = [(['C', '2'], 2)] ∧ (Legacy.assign fileA restrCls).map reported = .ok [] ∧
    (Legacy.assign fileA restrCls).map (·.classMsg) = .ok true ∧
    (assign fileA restrCls).map reported = .ok [(['C', '2'], 2)] := by decide +kernel

/-- C17_4: `SADI_XYL C1 C3` with no residue of class XYL — the old code checked residue 0 and reported `C3_0` -/
def restrXyl : Restr := { kw := ['S', 'A', 'D', 'I', '_', 'X', 'Y', 'L'], atoms := [C1, C3] }
theorem legacy_unknown_class_checks_residue_0 :
    missing fileA restrXyl = [] ∧ classUnknown fileA restrXyl = true ∧
    (Legacy.assign fileA restrXyl).map reported = .ok [(C3, 0)] ∧
    assign fileA restrXyl = .ok { bad := [], classMsg := true } := by decide +kernel

/-- outside `wfTok`: `SADI C1_01` — residue 1 has C1, the literal key `C1_01` does not exist (real code, probed:
    "Atom list has no --> C1_01"). The hypothesis of `warnings_eq_missing` excludes exactly this spelling. -/
def restr01 : Restr := { kw := ['S', 'A', 'D', 'I'], atoms := [['C', '1', '_', '0', '1']] }
theorem noncanonical_number_reported :
    ¬ WellFormed fileA restr01 ∧ missing fileA restr01 = [] ∧
    (assign fileA restr01).map (·.bad) = .ok [['C', '1', '_', '0', '1']] := by decide +kernel

/-- outside `wfKw`: two underscores on the keyword raise ValueError in `_parse_line` (the parse ends there) -/
theorem two_underscores_raise : kwClass ['S', 'A', 'D', 'I', '_', '1', '_', '2'] = .error .valueError := by decide +kernel

/-- `SADI_1 C1 C2`, evaluated, then `atoms[2].resi = RESI 0` (C1 of residue 1 moved to residue 0), evaluated again:
    the stale index still finds `C1_1` -/
def restrR1 : Restr := { kw := ['S', 'A', 'D', 'I', '_', '1'], atoms := [C1, C2] }
/-- C17_5: before the fix the loop ran on the cached index as it was (`evaluate`): the stale index still finds
    `C1_1`; the repaired check reports it -/
theorem legacy_stale_index_misses_moved_atom :
    missing (run fileA [.check, .setResi 2 0]) restrR1 = [(C1, 1)] ∧
    (evaluate (run fileA [.check, .setResi 2 0]) restrR1).map reported = .ok [] ∧
    (assign (run fileA [.check, .setResi 2 0]) restrR1).map reported = .ok [(C1, 1)] := by decide +kernel

/-- the attribute assignment leaves the index itself stale (outside `lookup_after_history`) -/
theorem stale_lookup_after_attribute_assignment :
    coherent (run fileA [.check, .setResi 2 0]) = false ∧
    getAtomByName (run fileA [.check, .setResi 2 0]) ['C', '1', '_', '1'] = true ∧
    atomExists (run fileA [.check, .setResi 2 0]) C1 1 = false := by decide +kernel

example : WellFormed (run fileA [.check, .setResi 2 0]) restrR1 := by decide +kernel

/-- a history through the API: evaluate, `del atoms[3]` (C2 of residue 1), rename atoms[0] C1 -> C9, add C1, evaluate -/
def opsA : List Op := [.check, .delItem 3, .rename 0 ['C', '9'], .add C1, .check]
example : (∀ op ∈ opsA, op.keepsIndex = true) ∧ wfFile (run fileA opsA) = true := by decide +kernel
example : missing (run fileA opsA) restrR1 = [(['C', '2'], 1)] ∧
    (assign (run fileA opsA) restrR1).map reported = .ok [(['C', '2'], 1)] := by decide +kernel

/-! #### layout of the restraint in the file, several absent atoms with names that differ in one character -/

def isNumW (t : Str) : Bool := t.all fun c => c.isDigit || c == '.'

/-- residue 0: C1 C2 C3 C1A;  RESI CCF3 1: C1 C2 C3 C1A -/
def fileL : File :=
  { atoms := [⟨"C1".toList, 0⟩, ⟨"C2".toList, 0⟩, ⟨"C3".toList, 0⟩, ⟨"C1A".toList, 0⟩,
              ⟨"C1".toList, 1⟩, ⟨"C2".toList, 1⟩, ⟨"C3".toList, 1⟩, ⟨"C1A".toList, 1⟩],
    resis := [⟨"CCF3".toList, 1⟩] }

/-- a wrapped restraint whose comment behind the `=` contains `=` and `!` and the name of an atom that does not exist;
    the absent atom C9 stands on the continuation line; the last line has a comment that ends with `=` -/
def linesL : List C05.Line :=
  ["sadi_ccf3 0.02 C1 C2 = ! d = 1.54 ! C77 =".toList, "   C3 C9 ! not a wrapped line =".toList, "FVAR 0.5".toList]

example : (restrOfLines isNumW linesL 0).map (fun r => (r.kw, r.atoms)) =
    some ("SADI_CCF3".toList, ["C1".toList, "C2".toList, "C3".toList, "C9".toList]) := by decide +kernel
example : WellFormed fileL { kw := "SADI_CCF3".toList, atoms := ["C1".toList, "C2".toList, "C3".toList, "C9".toList] } := by
  decide +kernel
example : (assignLines isNumW fileL linesL 0).map (·.map named) = some (.ok [("C9".toList, 1)]) := by decide +kernel

/-- the continuation loop as it was before fix C05_1 (`line.rpartition('=')[0]` on the line with its comment): the cut
    falls into the comment, the later `split('!')[0]` throws the continuation line away — C9 is never checked -/
def assignLinesOld (isNum : Str → Bool) (f : File) (lines : List C05.Line) (i : Nat) : Option (Except PyErr Outcome) :=
  match C05.modelLogicalLinesOld lines with
  | .error _ => none
  | .ok ls =>
    match ls[i]? with
    | none => none
    | some g => (restrOf isNum (C05.classify g.2).spline).map (assign f)

theorem old_glue_misses_atoms_of_continuation_lines :
    (assignLinesOld isNumW fileL linesL 0).map (·.map named) = some (.ok []) ∧
    (restrOfLines isNumW linesL 0).map (missing fileL) = some [("C9".toList, 1)] := by decide +kernel

/-- several atoms absent at once whose names differ in one character behind the number: `SADI_1 C1A C1B C1C C1' C1" c1b` -/
def restrMany : Restr :=
  { kw := "SADI_1".toList, atoms := ["C1A".toList, "C1B".toList, "C1C".toList, "C1'".toList, "C1\"".toList, "c1b".toList] }
example : WellFormed fileL restrMany := by decide +kernel
example : missing fileL restrMany =
    [("C1B".toList, 1), ("C1C".toList, 1), ("C1'".toList, 1), ("C1\"".toList, 1), ("C1B".toList, 1)] := by decide +kernel
example : (assign fileL restrMany).map (fun o => printed o.bad) =
    .ok ["C1\"_1".toList, "C1'_1".toList, "C1B_1".toList, "C1C_1".toList, "c1b_1".toList] := by decide +kernel

end Witnesses

end Shelx.C17

import ShelxModel.C17
namespace Shelx.C17
theorem placeholder : True := trivial
end Shelx.C17

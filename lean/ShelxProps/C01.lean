/-
  C01 — property theorems (model: ShelxModel/C01.lean).
-/
import ShelxModel.C01
import Mathlib.Tactic.Ring
import Mathlib.Tactic.Linarith
import Mathlib.Tactic.FieldSimp
import Mathlib.Tactic.Push
import Mathlib.Tactic.NormNum

namespace Shelx.C01
open Ext

/-! ### F1 — tokens of blank-separated text -/

theorem flush_ne_nil (x : List Char) (h : x ≠ []) : flush x = [x.reverse] := by
  cases x with
  | nil => exact absurd rfl h
  | cons c cs => rfl

theorem splitGo_blanks (n : Nat) (rest cur : List Char) :
    splitGo (blanks n ++ rest) cur = if n = 0 then splitGo rest cur else flush cur ++ splitGo rest [] := by
  induction n generalizing cur with
  | zero => simp [blanks]
  | succ k ih =>
    have h1 : blanks (k + 1) ++ rest = ' ' :: (blanks k ++ rest) := by simp [blanks, List.replicate_succ]
    rw [h1]
    simp only [splitGo, if_true]
    rw [ih []]
    by_cases hk : k = 0 <;> simp [hk, flush]

theorem splitGo_tok (t rest cur : List Char) (h : ' ' ∉ t) :
    splitGo (t ++ rest) cur = splitGo rest (t.reverse ++ cur) := by
  induction t generalizing cur with
  | nil => simp
  | cons c t ih =>
    have hc : c ≠ ' ' := fun e => h (by simp [e])
    have ht : ' ' ∉ t := fun e => h (by simp [e])
    simp only [List.cons_append, splitGo, hc, if_false]
    rw [ih _ ht]
    simp

theorem flush_reverse (t : List Char) (h : t ≠ []) : flush t.reverse = [t] := by
  rw [flush_ne_nil _ (by simpa using h)]; simp

/-- **split_chunks**: if no two field texts touch (`sep`) and no text contains a blank, the tokens of the rendered
    line are exactly the non-empty field texts, in order — for ANY list of padded fields. -/
theorem split_chunks (cs : List Chunk) (cur : List Char) (hbf : ∀ c ∈ cs, ' ' ∉ c.t)
    (hs : sep (!cur.isEmpty) cs = true) :
    splitGo (renderChunks cs) cur = flush cur ++ toksOf cs := by
  induction cs generalizing cur with
  | nil => simp [renderChunks, toksOf, splitGo]
  | cons c cs ih =>
    have hbf' : ∀ c ∈ cs, ' ' ∉ c.t := fun c hc => hbf c (by simp [hc])
    have hct : ' ' ∉ c.t := hbf c (by simp)
    simp only [renderChunks, Chunk.text, List.append_assoc]
    by_cases ht : c.t = []
    · -- a chunk of blanks only
      simp only [sep, ht, if_true] at hs
      simp only [toksOf, ht, if_true, List.nil_append]
      rw [← List.append_assoc, show blanks c.l ++ blanks c.r = blanks (c.l + c.r) by unfold blanks; rw [List.replicate_append_replicate],
        splitGo_blanks]
      by_cases h0 : c.l + c.r = 0
      · have : (c.l + c.r == 0) = true := by simp [h0]
        rw [this, Bool.and_true] at hs
        simp only [h0, if_true]
        exact ih cur hbf' hs
      · have : (c.l + c.r == 0) = false := by simpa using h0
        rw [this, Bool.and_false] at hs
        simp only [h0, if_false]
        rw [ih [] hbf' (by simpa using hs)]
        simp [flush]
    · simp only [sep, ht, if_false, Bool.and_eq_true] at hs
      obtain ⟨hs1, hs2⟩ := hs
      simp only [toksOf, ht, if_false]
      rw [splitGo_blanks]
      -- after the leading blanks the pending token is flushed (or there was none)
      have step : ∀ cur', splitGo (c.t ++ (blanks c.r ++ renderChunks cs)) cur' =
          splitGo (blanks c.r ++ renderChunks cs) (c.t.reverse ++ cur') := fun cur' => splitGo_tok _ _ _ hct
      have tail : splitGo (blanks c.r ++ renderChunks cs) c.t.reverse = c.t :: toksOf cs := by
        rw [splitGo_blanks]
        by_cases hr : c.r = 0
        · have : (c.r == 0) = true := by simp [hr]
          rw [this] at hs2
          simp only [hr, if_true]
          rw [ih c.t.reverse hbf' (by rw [show (!c.t.reverse.isEmpty) = true by simp [List.isEmpty_iff, ht]]; exact hs2), flush_reverse _ ht]
          rfl
        · have : (c.r == 0) = false := by simp [hr]
          rw [this] at hs2
          simp only [hr, if_false]
          rw [ih [] hbf' (by simpa using hs2), flush_reverse _ ht]
          simp [flush]
      by_cases hl : c.l = 0
      · simp only [hl, if_true]
        have hcur : cur = [] := by
          cases cur with
          | nil => rfl
          | cons a b => simp [hl] at hs1
        subst hcur
        rw [step, List.append_nil, tail]
        simp [flush]
      · simp only [hl, if_false]
        rw [step, List.append_nil, tail]

/-- **split_join** (F1): splitting the blank-joined text gives the tokens back (any number ≥ 1 of blanks) -/
theorem split_join (k : Nat) (ts : List Tok) (hne : ∀ t ∈ ts, t ≠ []) (hbf : ∀ t ∈ ts, ' ' ∉ t) :
    splitWs (joinBl k ts) = ts := by
  cases ts with
  | nil => simp [joinBl, splitWs, splitGo, flush]
  | cons t ts =>
    have key : joinBl k (t :: ts) = renderChunks (⟨0, t, 0⟩ :: ts.map fun u => ⟨k + 1, u, 0⟩) := by
      simp only [joinBl, renderChunks, Chunk.text, blanks, List.replicate_zero, List.nil_append, List.append_nil]
      congr 1
      induction ts with
      | nil => simp [renderChunks]
      | cons u us ih =>
        have hne' : ∀ t' ∈ t :: us, t' ≠ [] := fun t' h => hne t' (by simp at h ⊢; tauto)
        have hbf' : ∀ t' ∈ t :: us, ' ' ∉ t' := fun t' h => hbf t' (by simp at h ⊢; tauto)
        simp only [List.map_cons, List.flatten_cons, renderChunks, Chunk.text, blanks, List.replicate_zero,
          List.append_nil, List.append_assoc]
        rw [ih hne' hbf']
    have htoks : ∀ us : List Tok, (∀ u ∈ us, u ≠ []) → toksOf (us.map fun u => (⟨k + 1, u, 0⟩ : Chunk)) = us := by
      intro us h
      induction us with
      | nil => rfl
      | cons u us ih =>
        have hu : u ≠ [] := h u (by simp)
        simp only [List.map_cons, toksOf, hu, if_false]
        rw [ih (fun v hv => h v (by simp [hv]))]
    have hsep : ∀ (us : List Tok) (o : Bool), (∀ u ∈ us, u ≠ []) → sep o (us.map fun u => (⟨k + 1, u, 0⟩ : Chunk)) = true := by
      intro us
      induction us with
      | nil => intro o _; rfl
      | cons u us ih =>
        intro o h
        have hu : u ≠ [] := h u (by simp)
        simp only [List.map_cons, sep, hu, if_false]
        rw [ih _ (fun v hv => h v (by simp [hv]))]
        simp
    rw [splitWs, key, split_chunks]
    · have ht : t ≠ [] := hne t (by simp)
      simp only [flush, toksOf, ht, if_false, List.nil_append]
      rw [htoks ts (fun u hu => hne u (by simp [hu]))]
    · intro c hc
      simp only [List.mem_cons, List.mem_map] at hc
      rcases hc with rfl | ⟨u, hu, rfl⟩
      · exact hbf t (by simp)
      · exact hbf u (by simp [hu])
    · have ht : t ≠ [] := hne t (by simp)
      simp only [List.isEmpty_nil, Bool.not_true, sep, ht, if_false, Bool.not_false, Bool.true_or, Bool.true_and]
      exact hsep ts _ (fun u hu => hne u (by simp [hu]))

/-- default printer (`Command.__str__`, `Restraint.__str__`: `' '.join(spline)`): an instruction whose object keeps
    its text keeps its keyword and all of its parameters -/
theorem default_render_tokens (ts : List Tok) (hne : ∀ t ∈ ts, t ≠ []) (hbf : ∀ t ∈ ts, ' ' ∉ t) :
    splitWs (joinBl 0 ts) = ts := split_join 0 ts hne hbf

example : splitWs (joinBl 0 ["DFIX".toList, "1.5".toList, "C1".toList, "C2_2".toList]) =
    ["DFIX".toList, "1.5".toList, "C1".toList, "C2_2".toList] := by
  apply default_render_tokens <;> decide

/-! ### F2 — fixed-precision numbers -/

theorem round_close (y : Rat) : |((roundHalfEven y : Int) : Rat) - y| ≤ 1 / 2 := by
  have h1 := Rat.floor_le y
  have h2 := Rat.lt_floor_add_one y
  push_cast at h2
  unfold roundHalfEven
  simp only
  rw [abs_le]
  split_ifs <;> constructor <;> push_cast <;> linarith

theorem natAbs_cast_nonneg (n : Int) (h : 0 ≤ n) : ((n.natAbs : Nat) : Rat) = (n : Rat) := by
  have e : (n.natAbs : Int) = n := by omega
  rw [← Int.cast_natCast, e]

theorem natAbs_cast_nonpos (n : Int) (h : n ≤ 0) : ((n.natAbs : Nat) : Rat) = -(n : Rat) := by
  have e : (n.natAbs : Int) = -n := by omega
  rw [← Int.cast_natCast, e, Int.cast_neg]

theorem round_nonneg (y : Rat) (h : 0 ≤ y) : 0 ≤ roundHalfEven y := by
  have := round_close y
  rw [abs_le] at this
  have h1 : (-1 : Rat) < ((roundHalfEven y : Int) : Rat) := by linarith [this.1]
  have h2 : (-1 : Int) < roundHalfEven y := by exact_mod_cast h1
  omega

theorem round_nonpos (y : Rat) (h : y < 0) : roundHalfEven y ≤ 0 := by
  have := round_close y
  rw [abs_le] at this
  have h1 : ((roundHalfEven y : Int) : Rat) < 1 := by linarith [this.2]
  have h2 : roundHalfEven y < (1 : Int) := by exact_mod_cast h1
  omega

def accDigits (a : Nat) (ds : List Nat) : Nat := ds.foldl (fun a d => 10 * a + d) a

theorem accDigits_snoc (a : Nat) (ds : List Nat) (d : Nat) : accDigits a (ds ++ [d]) = 10 * accDigits a ds + d := by
  simp [accDigits, List.foldl_append]

theorem digit_ok (d : Nat) (h : d < 10) :
    isDigit (digitChar d) = true ∧ digitVal (digitChar d) = d ∧ digitChar d ≠ '.' ∧ digitChar d ≠ ' ' ∧ digitChar d ≠ '-' := by
  have key : ∀ d : Fin 10, isDigit (digitChar d.val) = true ∧ digitVal (digitChar d.val) = d.val ∧
      digitChar d.val ≠ '.' ∧ digitChar d.val ≠ ' ' ∧ digitChar d.val ≠ '-' := by decide
  exact key ⟨d, h⟩

theorem natDigits_lt (n : Nat) : ∀ d ∈ natDigits n, d < 10 := by
  induction n using Nat.strong_induction_on with
  | _ n ih =>
    rw [natDigits]
    split
    · intro d hd; simp at hd; omega
    · intro d hd
      simp only [List.mem_append, List.mem_singleton] at hd
      rcases hd with hd | hd
      · exact ih (n / 10) (by omega) d hd
      · omega

theorem natDigits_cons (n : Nat) : ∃ d ds, natDigits n = d :: ds := by
  induction n using Nat.strong_induction_on with
  | _ n ih =>
    rw [natDigits]
    split
    · exact ⟨n, [], rfl⟩
    · obtain ⟨d, ds, h⟩ := ih (n / 10) (by omega)
      exact ⟨d, ds ++ [n % 10], by rw [h]; rfl⟩

theorem accDigits_natDigits (n : Nat) : accDigits 0 (natDigits n) = n := by
  induction n using Nat.strong_induction_on with
  | _ n ih =>
    rw [natDigits]
    split
    · simp [accDigits]
    · rw [accDigits_snoc, ih (n / 10) (by omega)]; omega

theorem fixDigits_lt (k m : Nat) : ∀ d ∈ fixDigits k m, d < 10 := by
  induction k generalizing m with
  | zero => intro d hd; simp [fixDigits] at hd
  | succ k ih =>
    intro d hd
    simp only [fixDigits, List.mem_append, List.mem_singleton] at hd
    rcases hd with hd | hd
    · exact ih _ d hd
    · omega

theorem fixDigits_length (k m : Nat) : (fixDigits k m).length = k := by
  induction k generalizing m with
  | zero => rfl
  | succ k ih => simp [fixDigits, ih]

theorem accDigits_fixDigits (k m : Nat) (h : m < 10 ^ k) : accDigits 0 (fixDigits k m) = m := by
  induction k generalizing m with
  | zero => simp [fixDigits, accDigits] at h ⊢; omega
  | succ k ih =>
    have : m / 10 < 10 ^ k := by
      rw [Nat.div_lt_iff_lt_mul (by norm_num)]; rw [Nat.pow_succ] at h; exact h
    rw [fixDigits, accDigits_snoc, ih _ this]; omega

theorem parseFrac_digits (ds : List Nat) (h : ∀ d ∈ ds, d < 10) (a k : Nat) :
    parseFrac (ds.map digitChar) a k = some (accDigits a ds, k + ds.length) := by
  induction ds generalizing a k with
  | nil => simp [parseFrac, accDigits]
  | cons d ds ih =>
    obtain ⟨h1, h2, -⟩ := digit_ok d (h d (by simp))
    simp only [List.map_cons, parseFrac, h1, if_true, h2]
    rw [ih (fun e he => h e (by simp [he]))]
    simp [accDigits]; omega

theorem parseUns_digits (ds : List Nat) (h : ∀ d ∈ ds, d < 10) (rest : List Char) (a : Nat) :
    parseUns (ds.map digitChar ++ rest) a = parseUns rest (accDigits a ds) := by
  induction ds generalizing a with
  | nil => simp [accDigits]
  | cons d ds ih =>
    obtain ⟨h1, h2, -⟩ := digit_ok d (h d (by simp))
    simp only [List.map_cons, List.cons_append, parseUns, h1, if_true, h2]
    rw [ih (fun e he => h e (by simp [he]))]
    simp [accDigits]

/-- reading an unsigned fixed-point numeral `ip.frac` with `nd` places -/
theorem parseUns_fixed (nd a : Nat) :
    parseUns (fmtNat (a / 10 ^ nd) ++ '.' :: (fixDigits nd (a % 10 ^ nd)).map digitChar) 0 =
      some ((a : Rat) / (10 : Rat) ^ nd) := by
  have hP : 0 < 10 ^ nd := by positivity
  unfold fmtNat
  rw [parseUns_digits _ (natDigits_lt _), accDigits_natDigits]
  have hdot : isDigit '.' = false := by decide
  simp only [parseUns, hdot, Bool.false_eq_true, if_false, if_true]
  rw [parseFrac_digits _ (fixDigits_lt _ _), accDigits_fixDigits _ _ (Nat.mod_lt _ hP), fixDigits_length]
  simp only [Option.map_some, Nat.zero_add, Option.some.injEq]
  have hc := Nat.div_add_mod a (10 ^ nd)
  have hc' : ((10 : Rat) ^ nd) * ((a / 10 ^ nd : Nat) : Rat) + ((a % 10 ^ nd : Nat) : Rat) = (a : Rat) := by
    exact_mod_cast hc
  have hPr : (0 : Rat) < (10 : Rat) ^ nd := by positivity
  field_simp
  linarith

/-- **fmtFixed_parse**: the printed numeral denotes exactly round-half-even(x·10^nd)/10^nd -/
theorem fmtFixed_parse (nd : Nat) (x : Rat) :
    parseDec (fmtFixed nd x) = some (((roundHalfEven (x * (10 : Rat) ^ nd) : Int) : Rat) / (10 : Rat) ^ nd) := by
  have hPr : (0 : Rat) < (10 : Rat) ^ nd := by positivity
  unfold fmtFixed
  simp only
  by_cases hx : x < 0
  · simp only [hx, if_true, List.cons_append, List.nil_append, parseDec]
    rw [parseUns_fixed]
    have hn := round_nonpos (x * (10 : Rat) ^ nd) (by nlinarith)
    simp only [Option.map_some, Option.some.injEq]
    rw [natAbs_cast_nonpos _ hn]; ring
  · simp only [hx, if_false, List.nil_append]
    obtain ⟨d, ds, hd⟩ := natDigits_cons ((roundHalfEven (x * (10 : Rat) ^ nd)).natAbs / 10 ^ nd)
    have hdl : d < 10 := natDigits_lt _ d (by rw [hd]; simp)
    have hne : digitChar d ≠ '-' := (digit_ok d hdl).2.2.2.2
    have e : fmtNat ((roundHalfEven (x * (10 : Rat) ^ nd)).natAbs / 10 ^ nd) = digitChar d :: ds.map digitChar := by
      simp [fmtNat, hd]
    have hp : ∀ rest, parseDec (fmtNat ((roundHalfEven (x * (10 : Rat) ^ nd)).natAbs / 10 ^ nd) ++ rest) =
        parseUns (fmtNat ((roundHalfEven (x * (10 : Rat) ^ nd)).natAbs / 10 ^ nd) ++ rest) 0 := by
      intro rest
      rw [e]
      simp [parseDec, hne]
    rw [hp, parseUns_fixed]
    have hn := round_nonneg (x * (10 : Rat) ^ nd) (by have : 0 ≤ x := not_lt.mp hx; positivity)
    rw [natAbs_cast_nonneg _ hn]

/-- **fmtFixed_close** (F2), for ALL x and all nd: what is written with `nd` places reads back within ½·10^(−nd) -/
theorem fmtFixed_close (nd : Nat) (x : Rat) :
    ∃ v, parseDec (fmtFixed nd x) = some v ∧ |v - x| ≤ 1 / (2 * (10 : Rat) ^ nd) := by
  refine ⟨_, fmtFixed_parse nd x, ?_⟩
  have hPr : (0 : Rat) < (10 : Rat) ^ nd := by positivity
  have h := round_close (x * (10 : Rat) ^ nd)
  have e : ((roundHalfEven (x * (10 : Rat) ^ nd) : Int) : Rat) / (10 : Rat) ^ nd - x =
      (((roundHalfEven (x * (10 : Rat) ^ nd) : Int) : Rat) - x * (10 : Rat) ^ nd) / (10 : Rat) ^ nd := by
    field_simp
  rw [e, abs_le] at *
  obtain ⟨ha, hb⟩ := h
  have h2 : (1 : Rat) / (2 * (10 : Rat) ^ nd) * (10 : Rat) ^ nd = 1 / 2 := by field_simp
  constructor
  · rw [le_div_iff₀ hPr]; linarith
  · rw [div_le_iff₀ hPr]; linarith

example : fmtFixed 6 (-1 / 3) = "-0.333333".toList := by decide +kernel
example : fmtFixed 5 (4000011 / 200000) = "20.00006".toList := by decide +kernel   -- tie 20.000055: to even
example : parseDec "-0.333333".toList = some (-333333 / 1000000) := by decide +kernel

end Shelx.C01

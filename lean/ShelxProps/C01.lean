/-
  C01 — property theorems (model: ShelxModel/C01.lean).

  Per line class a render∘read law, quantified over ALL token lists / ALL rational values / ALL tables:
    F1  split_chunks, split_join, default_render_tokens, split_kw_join      tokens of blank-separated text
    F2  fmtFixed_parse, fmtFixed_close, atom_render_close_{aniso,iso}       numbers printed with nd places (nd from atom.py)
        coord_code_kept, coords_codes_kept                                  free-variable codes of coordinates, per slot
        qpeak_render_partial + QpeakStatement + qpeak_fails_on              open finding (Q-peak U / precision)
    F3  sfac_render_table (+ sfac_old_printer_fails_on: the defect repaired by fixes/C01_1)
    F4  fvar_render_list, unit_render, size_render, acta_render, stir_render, wght_render, symm_render
    extracted_layout, extracted_overrides, fvar_chunk_pos                   re-checked against the source every run
    write_keeps_res_lines                                                   '+filename' include files: res lines kept, included lines not written
    roundtrip_content                                                       the per-class laws over a whole file
-/
import ShelxModel.C01
import Mathlib.Tactic.Ring
import Mathlib.Tactic.Linarith
import Mathlib.Tactic.FieldSimp
import Mathlib.Tactic.Push
import Mathlib.Tactic.NormNum

namespace Shelx.C01
open Ext

/-! ### F1 — tokens of blank-separated text -/

theorem flush_ne_nil (x : List Char) (h : x ≠ []) : flush x = [x.reverse] := by
  cases x with
  | nil => exact absurd rfl h
  | cons c cs => rfl

theorem splitGo_blanks (n : Nat) (rest cur : List Char) :
    splitGo (blanks n ++ rest) cur = if n = 0 then splitGo rest cur else flush cur ++ splitGo rest [] := by
  induction n generalizing cur with
  | zero => simp [blanks]
  | succ k ih =>
    have h1 : blanks (k + 1) ++ rest = ' ' :: (blanks k ++ rest) := by simp [blanks, List.replicate_succ]
    rw [h1]
    simp only [splitGo, if_true]
    rw [ih []]
    by_cases hk : k = 0 <;> simp [hk, flush]

theorem splitGo_tok (t rest cur : List Char) (h : ' ' ∉ t) :
    splitGo (t ++ rest) cur = splitGo rest (t.reverse ++ cur) := by
  induction t generalizing cur with
  | nil => simp
  | cons c t ih =>
    have hc : c ≠ ' ' := fun e => h (by simp [e])
    have ht : ' ' ∉ t := fun e => h (by simp [e])
    simp only [List.cons_append, splitGo, hc, if_false]
    rw [ih _ ht]
    simp

theorem flush_reverse (t : List Char) (h : t ≠ []) : flush t.reverse = [t] := by
  rw [flush_ne_nil _ (by simpa using h)]; simp

/-- **split_chunks**: if no two field texts touch (`sep`) and no text contains a blank, the tokens of the rendered
    line are exactly the non-empty field texts, in order — for ANY list of padded fields. -/
theorem split_chunks (cs : List Chunk) (cur : List Char) (hbf : ∀ c ∈ cs, ' ' ∉ c.t)
    (hs : sep (!cur.isEmpty) cs = true) :
    splitGo (renderChunks cs) cur = flush cur ++ toksOf cs := by
  induction cs generalizing cur with
  | nil => simp [renderChunks, toksOf, splitGo]
  | cons c cs ih =>
    have hbf' : ∀ c ∈ cs, ' ' ∉ c.t := fun c hc => hbf c (by simp [hc])
    have hct : ' ' ∉ c.t := hbf c (by simp)
    simp only [renderChunks, Chunk.text, List.append_assoc]
    by_cases ht : c.t = []
    · -- a chunk of blanks only
      simp only [sep, ht, if_true] at hs
      simp only [toksOf, ht, if_true, List.nil_append]
      rw [← List.append_assoc, show blanks c.l ++ blanks c.r = blanks (c.l + c.r) by unfold blanks; rw [List.replicate_append_replicate],
        splitGo_blanks]
      by_cases h0 : c.l + c.r = 0
      · have : (c.l + c.r == 0) = true := by simp [h0]
        rw [this, Bool.and_true] at hs
        simp only [h0, if_true]
        exact ih cur hbf' hs
      · have : (c.l + c.r == 0) = false := by simpa using h0
        rw [this, Bool.and_false] at hs
        simp only [h0, if_false]
        rw [ih [] hbf' (by simpa using hs)]
        simp [flush]
    · simp only [sep, ht, if_false, Bool.and_eq_true] at hs
      obtain ⟨hs1, hs2⟩ := hs
      simp only [toksOf, ht, if_false]
      rw [splitGo_blanks]
      -- after the leading blanks the pending token is flushed (or there was none)
      have step : ∀ cur', splitGo (c.t ++ (blanks c.r ++ renderChunks cs)) cur' =
          splitGo (blanks c.r ++ renderChunks cs) (c.t.reverse ++ cur') := fun cur' => splitGo_tok _ _ _ hct
      have tail : splitGo (blanks c.r ++ renderChunks cs) c.t.reverse = c.t :: toksOf cs := by
        rw [splitGo_blanks]
        by_cases hr : c.r = 0
        · have : (c.r == 0) = true := by simp [hr]
          rw [this] at hs2
          simp only [hr, if_true]
          rw [ih c.t.reverse hbf' (by rw [show (!c.t.reverse.isEmpty) = true by simp [List.isEmpty_iff, ht]]; exact hs2), flush_reverse _ ht]
          rfl
        · have : (c.r == 0) = false := by simp [hr]
          rw [this] at hs2
          simp only [hr, if_false]
          rw [ih [] hbf' (by simpa using hs2), flush_reverse _ ht]
          simp [flush]
      by_cases hl : c.l = 0
      · simp only [hl, if_true]
        have hcur : cur = [] := by
          cases cur with
          | nil => rfl
          | cons a b => simp [hl] at hs1
        subst hcur
        rw [step, List.append_nil, tail]
        simp [flush]
      · simp only [hl, if_false]
        rw [step, List.append_nil, tail]

/-- **split_join** (F1): splitting the blank-joined text gives the tokens back (any number ≥ 1 of blanks) -/
theorem split_join (k : Nat) (ts : List Tok) (hne : ∀ t ∈ ts, t ≠ []) (hbf : ∀ t ∈ ts, ' ' ∉ t) :
    splitWs (joinBl k ts) = ts := by
  cases ts with
  | nil => simp [joinBl, splitWs, splitGo, flush]
  | cons t ts =>
    have key : joinBl k (t :: ts) = renderChunks (⟨0, t, 0⟩ :: ts.map fun u => ⟨k + 1, u, 0⟩) := by
      simp only [joinBl, renderChunks, Chunk.text, blanks, List.replicate_zero, List.nil_append, List.append_nil]
      congr 1
      induction ts with
      | nil => simp [renderChunks]
      | cons u us ih =>
        have hne' : ∀ t' ∈ t :: us, t' ≠ [] := fun t' h => hne t' (by simp at h ⊢; tauto)
        have hbf' : ∀ t' ∈ t :: us, ' ' ∉ t' := fun t' h => hbf t' (by simp at h ⊢; tauto)
        simp only [List.map_cons, List.flatten_cons, renderChunks, Chunk.text, blanks, List.replicate_zero,
          List.append_nil, List.append_assoc]
        rw [ih hne' hbf']
    have htoks : ∀ us : List Tok, (∀ u ∈ us, u ≠ []) → toksOf (us.map fun u => (⟨k + 1, u, 0⟩ : Chunk)) = us := by
      intro us h
      induction us with
      | nil => rfl
      | cons u us ih =>
        have hu : u ≠ [] := h u (by simp)
        simp only [List.map_cons, toksOf, hu, if_false]
        rw [ih (fun v hv => h v (by simp [hv]))]
    have hsep : ∀ (us : List Tok) (o : Bool), (∀ u ∈ us, u ≠ []) → sep o (us.map fun u => (⟨k + 1, u, 0⟩ : Chunk)) = true := by
      intro us
      induction us with
      | nil => intro o _; rfl
      | cons u us ih =>
        intro o h
        have hu : u ≠ [] := h u (by simp)
        simp only [List.map_cons, sep, hu, if_false]
        rw [ih _ (fun v hv => h v (by simp [hv]))]
        simp
    rw [splitWs, key, split_chunks]
    · have ht : t ≠ [] := hne t (by simp)
      simp only [flush, toksOf, ht, if_false, List.nil_append]
      rw [htoks ts (fun u hu => hne u (by simp [hu]))]
    · intro c hc
      simp only [List.mem_cons, List.mem_map] at hc
      rcases hc with rfl | ⟨u, hu, rfl⟩
      · exact hbf t (by simp)
      · exact hbf u (by simp [hu])
    · have ht : t ≠ [] := hne t (by simp)
      simp only [List.isEmpty_nil, Bool.not_true, sep, ht, if_false, Bool.not_false, Bool.true_or, Bool.true_and]
      exact hsep ts _ (fun u hu => hne u (by simp [hu]))

/-- default printer (`Command.__str__`, `Restraint.__str__`: `' '.join(spline)`): an instruction whose object keeps
    its text keeps its keyword and all of its parameters -/
theorem default_render_tokens (ts : List Tok) (hne : ∀ t ∈ ts, t ≠ []) (hbf : ∀ t ∈ ts, ' ' ∉ t) :
    splitWs (joinBl 0 ts) = ts := split_join 0 ts hne hbf

example : splitWs (joinBl 0 ["DFIX".toList, "1.5".toList, "C1".toList, "C2_2".toList]) =
    ["DFIX".toList, "1.5".toList, "C1".toList, "C2_2".toList] := by
  apply default_render_tokens <;> decide

/-! ### F2 — fixed-precision numbers -/

theorem round_close (y : Rat) : |((roundHalfEven y : Int) : Rat) - y| ≤ 1 / 2 := by
  have h1 := Rat.floor_le y
  have h2 := Rat.lt_floor_add_one y
  push_cast at h2
  unfold roundHalfEven
  simp only
  rw [abs_le]
  split_ifs <;> constructor <;> push_cast <;> linarith

theorem natAbs_cast_nonneg (n : Int) (h : 0 ≤ n) : ((n.natAbs : Nat) : Rat) = (n : Rat) := by
  have e : (n.natAbs : Int) = n := by omega
  rw [← Int.cast_natCast, e]

theorem natAbs_cast_nonpos (n : Int) (h : n ≤ 0) : ((n.natAbs : Nat) : Rat) = -(n : Rat) := by
  have e : (n.natAbs : Int) = -n := by omega
  rw [← Int.cast_natCast, e, Int.cast_neg]

theorem round_nonneg (y : Rat) (h : 0 ≤ y) : 0 ≤ roundHalfEven y := by
  have := round_close y
  rw [abs_le] at this
  have h1 : (-1 : Rat) < ((roundHalfEven y : Int) : Rat) := by linarith [this.1]
  have h2 : (-1 : Int) < roundHalfEven y := by exact_mod_cast h1
  omega

theorem round_nonpos (y : Rat) (h : y < 0) : roundHalfEven y ≤ 0 := by
  have := round_close y
  rw [abs_le] at this
  have h1 : ((roundHalfEven y : Int) : Rat) < 1 := by linarith [this.2]
  have h2 : roundHalfEven y < (1 : Int) := by exact_mod_cast h1
  omega

def accDigits (a : Nat) (ds : List Nat) : Nat := ds.foldl (fun a d => 10 * a + d) a

theorem accDigits_snoc (a : Nat) (ds : List Nat) (d : Nat) : accDigits a (ds ++ [d]) = 10 * accDigits a ds + d := by
  simp [accDigits, List.foldl_append]

theorem digit_ok (d : Nat) (h : d < 10) :
    isDigit (digitChar d) = true ∧ digitVal (digitChar d) = d ∧ digitChar d ≠ '.' ∧ digitChar d ≠ ' ' ∧ digitChar d ≠ '-' := by
  have key : ∀ d : Fin 10, isDigit (digitChar d.val) = true ∧ digitVal (digitChar d.val) = d.val ∧
      digitChar d.val ≠ '.' ∧ digitChar d.val ≠ ' ' ∧ digitChar d.val ≠ '-' := by decide
  exact key ⟨d, h⟩

theorem natDigits_lt (n : Nat) : ∀ d ∈ natDigits n, d < 10 := by
  induction n using Nat.strong_induction_on with
  | _ n ih =>
    rw [natDigits]
    split
    · intro d hd; simp at hd; omega
    · intro d hd
      simp only [List.mem_append, List.mem_singleton] at hd
      rcases hd with hd | hd
      · exact ih (n / 10) (by omega) d hd
      · omega

theorem natDigits_cons (n : Nat) : ∃ d ds, natDigits n = d :: ds := by
  induction n using Nat.strong_induction_on with
  | _ n ih =>
    rw [natDigits]
    split
    · exact ⟨n, [], rfl⟩
    · obtain ⟨d, ds, h⟩ := ih (n / 10) (by omega)
      exact ⟨d, ds ++ [n % 10], by rw [h]; rfl⟩

theorem accDigits_natDigits (n : Nat) : accDigits 0 (natDigits n) = n := by
  induction n using Nat.strong_induction_on with
  | _ n ih =>
    rw [natDigits]
    split
    · simp [accDigits]
    · rw [accDigits_snoc, ih (n / 10) (by omega)]; omega

theorem fixDigits_lt (k m : Nat) : ∀ d ∈ fixDigits k m, d < 10 := by
  induction k generalizing m with
  | zero => intro d hd; simp [fixDigits] at hd
  | succ k ih =>
    intro d hd
    simp only [fixDigits, List.mem_append, List.mem_singleton] at hd
    rcases hd with hd | hd
    · exact ih _ d hd
    · omega

theorem fixDigits_length (k m : Nat) : (fixDigits k m).length = k := by
  induction k generalizing m with
  | zero => rfl
  | succ k ih => simp [fixDigits, ih]

theorem accDigits_fixDigits (k m : Nat) (h : m < 10 ^ k) : accDigits 0 (fixDigits k m) = m := by
  induction k generalizing m with
  | zero => simp [fixDigits, accDigits] at h ⊢; omega
  | succ k ih =>
    have : m / 10 < 10 ^ k := by
      rw [Nat.div_lt_iff_lt_mul (by norm_num)]; rw [Nat.pow_succ] at h; exact h
    rw [fixDigits, accDigits_snoc, ih _ this]; omega

theorem parseFrac_digits (ds : List Nat) (h : ∀ d ∈ ds, d < 10) (a k : Nat) :
    parseFrac (ds.map digitChar) a k = some (accDigits a ds, k + ds.length) := by
  induction ds generalizing a k with
  | nil => simp [parseFrac, accDigits]
  | cons d ds ih =>
    obtain ⟨h1, h2, -⟩ := digit_ok d (h d (by simp))
    simp only [List.map_cons, parseFrac, h1, if_true, h2]
    rw [ih (fun e he => h e (by simp [he]))]
    simp [accDigits]; omega

theorem parseUns_digits (ds : List Nat) (h : ∀ d ∈ ds, d < 10) (rest : List Char) (a : Nat) :
    parseUns (ds.map digitChar ++ rest) a = parseUns rest (accDigits a ds) := by
  induction ds generalizing a with
  | nil => simp [accDigits]
  | cons d ds ih =>
    obtain ⟨h1, h2, -⟩ := digit_ok d (h d (by simp))
    simp only [List.map_cons, List.cons_append, parseUns, h1, if_true, h2]
    rw [ih (fun e he => h e (by simp [he]))]
    simp [accDigits]

/-- reading an unsigned fixed-point numeral `ip.frac` with `nd` places -/
theorem parseUns_fixed (nd a : Nat) :
    parseUns (fmtNat (a / 10 ^ nd) ++ '.' :: (fixDigits nd (a % 10 ^ nd)).map digitChar) 0 =
      some ((a : Rat) / (10 : Rat) ^ nd) := by
  have hP : 0 < 10 ^ nd := by positivity
  unfold fmtNat
  rw [parseUns_digits _ (natDigits_lt _), accDigits_natDigits]
  have hdot : isDigit '.' = false := by decide
  simp only [parseUns, hdot, Bool.false_eq_true, if_false, if_true]
  rw [parseFrac_digits _ (fixDigits_lt _ _), accDigits_fixDigits _ _ (Nat.mod_lt _ hP), fixDigits_length]
  simp only [Option.map_some, Nat.zero_add, Option.some.injEq]
  have hc := Nat.div_add_mod a (10 ^ nd)
  have hc' : ((10 : Rat) ^ nd) * ((a / 10 ^ nd : Nat) : Rat) + ((a % 10 ^ nd : Nat) : Rat) = (a : Rat) := by
    exact_mod_cast hc
  have hPr : (0 : Rat) < (10 : Rat) ^ nd := by positivity
  field_simp
  linarith

/-- **fmtFixed_parse**: the printed numeral denotes exactly round-half-even(x·10^nd)/10^nd -/
theorem fmtFixed_parse (nd : Nat) (x : Rat) :
    parseDec (fmtFixed nd x) = some (((roundHalfEven (x * (10 : Rat) ^ nd) : Int) : Rat) / (10 : Rat) ^ nd) := by
  have hPr : (0 : Rat) < (10 : Rat) ^ nd := by positivity
  unfold fmtFixed
  simp only
  by_cases hx : x < 0
  · simp only [hx, if_true, List.cons_append, List.nil_append, parseDec]
    rw [parseUns_fixed]
    have hn := round_nonpos (x * (10 : Rat) ^ nd) (by nlinarith)
    simp only [Option.map_some, Option.some.injEq]
    rw [natAbs_cast_nonpos _ hn]; ring
  · simp only [hx, if_false, List.nil_append]
    obtain ⟨d, ds, hd⟩ := natDigits_cons ((roundHalfEven (x * (10 : Rat) ^ nd)).natAbs / 10 ^ nd)
    have hdl : d < 10 := natDigits_lt _ d (by rw [hd]; simp)
    have hne : digitChar d ≠ '-' := (digit_ok d hdl).2.2.2.2
    have e : fmtNat ((roundHalfEven (x * (10 : Rat) ^ nd)).natAbs / 10 ^ nd) = digitChar d :: ds.map digitChar := by
      simp [fmtNat, hd]
    have hp : ∀ rest, parseDec (fmtNat ((roundHalfEven (x * (10 : Rat) ^ nd)).natAbs / 10 ^ nd) ++ rest) =
        parseUns (fmtNat ((roundHalfEven (x * (10 : Rat) ^ nd)).natAbs / 10 ^ nd) ++ rest) 0 := by
      intro rest
      rw [e]
      simp [parseDec, hne]
    rw [hp, parseUns_fixed]
    have hn := round_nonneg (x * (10 : Rat) ^ nd) (by have : 0 ≤ x := not_lt.mp hx; positivity)
    rw [natAbs_cast_nonneg _ hn]

/-- **fmtFixed_close** (F2), for ALL x and all nd: what is written with `nd` places reads back within ½·10^(−nd) -/
theorem fmtFixed_close (nd : Nat) (x : Rat) :
    ∃ v, parseDec (fmtFixed nd x) = some v ∧ |v - x| ≤ 1 / (2 * (10 : Rat) ^ nd) := by
  refine ⟨_, fmtFixed_parse nd x, ?_⟩
  have hPr : (0 : Rat) < (10 : Rat) ^ nd := by positivity
  have h := round_close (x * (10 : Rat) ^ nd)
  have e : ((roundHalfEven (x * (10 : Rat) ^ nd) : Int) : Rat) / (10 : Rat) ^ nd - x =
      (((roundHalfEven (x * (10 : Rat) ^ nd) : Int) : Rat) - x * (10 : Rat) ^ nd) / (10 : Rat) ^ nd := by
    field_simp
  rw [e, abs_le] at *
  obtain ⟨ha, hb⟩ := h
  have h2 : (1 : Rat) / (2 * (10 : Rat) ^ nd) * (10 : Rat) ^ nd = 1 / 2 := by field_simp
  constructor
  · rw [le_div_iff₀ hPr]; linarith
  · rw [div_le_iff₀ hPr]; linarith

example : fmtFixed 6 (-1 / 3) = "-0.333333".toList := by decide +kernel
example : fmtFixed 5 (4000011 / 200000) = "20.00006".toList := by decide +kernel   -- tie 20.000055: to even
example : parseDec "-0.333333".toList = some (-333333 / 1000000) := by decide +kernel

/-! ### atom lines -/

theorem absR_eq (x : Rat) : absR x = |x| := by
  unfold absR
  split_ifs with h
  · rw [abs_of_neg h]
  · rw [abs_of_nonneg (not_lt.mp h)]

/-- a value printed with `nd` places is, for the reader, a numeral within `tol` whenever ½·10^(−nd) ≤ tol -/
theorem numClose_fixed (nd : Nat) (x tol : Rat) (h : 1 / (2 * (10 : Rat) ^ nd) ≤ tol) :
    numCloseB tol x (fmtFixed nd x) = true := by
  obtain ⟨v, hv, hc⟩ := fmtFixed_close nd x
  simp only [numCloseB, hv, decide_eq_true_eq, absR_eq]
  exact le_trans hc h

theorem parseDec_fmtNat (n : Nat) : parseDec (fmtNat n) = some (n : Rat) := by
  obtain ⟨d, ds, hd⟩ := natDigits_cons n
  have hdl : d < 10 := natDigits_lt _ d (by rw [hd]; simp)
  have hne : digitChar d ≠ '-' := (digit_ok d hdl).2.2.2.2
  have e : fmtNat n = digitChar d :: ds.map digitChar := by simp [fmtNat, hd]
  have h1 : parseDec (fmtNat n) = parseUns (fmtNat n ++ []) 0 := by
    rw [e]; simp [parseDec, hne]
  rw [h1]
  unfold fmtNat
  rw [parseUns_digits _ (natDigits_lt _), accDigits_natDigits]
  simp [parseUns]

theorem numClose_nat (n : Nat) : numCloseB 0 (n : Rat) (fmtNat n) = true := by
  simp [numCloseB, parseDec_fmtNat, absR]

theorem fmtNat_blankfree (n : Nat) : ' ' ∉ fmtNat n := by
  intro h
  simp only [fmtNat, List.mem_map] at h
  obtain ⟨d, hd, he⟩ := h
  exact (digit_ok d (natDigits_lt _ d hd)).2.2.2.1 he

theorem fmtNat_ne_nil (n : Nat) : fmtNat n ≠ [] := by
  obtain ⟨d, ds, hd⟩ := natDigits_cons n
  simp [fmtNat, hd]

theorem fmtFixed_blankfree (nd : Nat) (x : Rat) : ' ' ∉ fmtFixed nd x := by
  intro h
  simp only [fmtFixed, List.mem_append, List.mem_cons, List.mem_map] at h
  rcases h with h | h | h | ⟨d, hd, he⟩
  · split_ifs at h <;> simp at h
  · exact fmtNat_blankfree _ h
  · exact absurd h (by decide)
  · exact (digit_ok d (fixDigits_lt _ _ d hd)).2.2.2.1 he

theorem fmtFixed_ne_nil (nd : Nat) (x : Rat) : fmtFixed nd x ≠ [] := by
  intro h
  have : '.' ∈ fmtFixed nd x := by simp [fmtFixed]
  rw [h] at this
  simp at this

/-- a string argument is a non-empty word (atom names are) -/
def Val.ok : Val → Prop
  | .str s => s ≠ [] ∧ ' ' ∉ s
  | _ => True

theorem fieldText_ok (p : Option Nat) (v : Val) (h : v.ok) : fieldText p v ≠ [] ∧ ' ' ∉ fieldText p v := by
  cases v with
  | str s => exact h
  | int n => exact ⟨fmtNat_ne_nil n, fmtNat_blankfree n⟩
  | num x => exact ⟨fmtFixed_ne_nil _ x, fmtFixed_blankfree _ x⟩

theorem chunksOf_toks (fmt : List Piece) (vals : List Val) (cs : List Chunk) (h : chunksOf fmt vals = some cs)
    (hok : ∀ v ∈ vals, v.ok) : toksOf cs = fieldTexts fmt vals ∧ ∀ c ∈ cs, ' ' ∉ c.t := by
  induction fmt generalizing vals cs with
  | nil =>
    simp only [chunksOf, Option.some.injEq] at h
    subst h
    simp [toksOf, fieldTexts]
  | cons p ps ih =>
    cases p with
    | lit n =>
      simp only [chunksOf, Option.map_eq_some_iff] at h
      obtain ⟨cs', h', rfl⟩ := h
      obtain ⟨i1, i2⟩ := ih vals cs' h' hok
      refine ⟨by simp [toksOf, fieldTexts, i1], ?_⟩
      intro c hc
      simp only [List.mem_cons] at hc
      rcases hc with rfl | hc
      · simp
      · exact i2 c hc
    | fld l w pr =>
      cases vals with
      | nil => simp [chunksOf] at h
      | cons v vs =>
        simp only [chunksOf, Option.map_eq_some_iff] at h
        obtain ⟨cs', h', rfl⟩ := h
        obtain ⟨i1, i2⟩ := ih vs cs' h' (fun u hu => hok u (by simp [hu]))
        obtain ⟨o1, o2⟩ := fieldText_ok pr v (hok v (by simp))
        have ht : (chunkOf l w pr v).t = fieldText pr v := by
          unfold chunkOf; split_ifs <;> rfl
        refine ⟨by simp [toksOf, fieldTexts, ht, o1, i1], ?_⟩
        intro c hc
        simp only [List.mem_cons] at hc
        rcases hc with rfl | hc
        · rw [ht]; exact o2
        · exact i2 c hc

/-- **fmt_tokens**: the tokens of `fmt.format(*vals)` are the field texts, for ANY format of blank-separated fields,
    provided no two fields fuse (`sep`, a decidable predicate on the padded fields) -/
theorem fmt_tokens (fmt : List Piece) (vals : List Val) (cs : List Chunk) (h : chunksOf fmt vals = some cs)
    (hok : ∀ v ∈ vals, v.ok) (hs : sep false cs = true) :
    splitWs (renderChunks cs) = fieldTexts fmt vals := by
  obtain ⟨h1, h2⟩ := chunksOf_toks fmt vals cs h hok
  rw [splitWs, split_chunks cs [] h2 (by simpa using hs), h1]
  simp [flush]

/-- the layout the theorems below are about, re-read from atoms/atom.py on every run: which field has which
    precision. (An edited precision or a dropped field changes the left-hand side.) -/
theorem extracted_layout :
    (isoFmt.filterMap fun p => match p with | .fld _ _ pr => some pr | .lit _ => none) =
        [none, none, some 6, some 6, some 6, some 5, some 5] ∧
    (anisFmt.filterMap fun p => match p with | .fld _ _ pr => some pr | .lit _ => none) =
        [none, none, some 6, some 6, some 6, some 5, some 5, some 5, some 5, some 5, some 5, some 5] ∧
    (qpeakFmt.filterMap fun p => match p with | .fld _ _ pr => some pr | .lit _ => none) =
        [none, none, some 4, some 4, some 4, some 5, some 2, some 2] := by decide

/-- **atom_render_close** (anisotropic layout): the written line reads back as the same name and scattering-factor
    number, coordinates within 1e-6, occupation code and the six U values within 1e-5 — for ALL values.
    Hypotheses: the name is a word; `sep`: the padded fields do not fuse. `sep` is needed: with the format strings of
    atom.py a coordinate ≤ -1000 fills its twelve columns and fuses with its neighbour (example below). -/
theorem atom_render_close_aniso (name : Tok) (sfac : Nat) (x y z sof u1 u2 u3 u4 u5 u6 : Rat)
    (hname : name ≠ [] ∧ ' ' ∉ name) (cs : List Chunk)
    (h : chunksOf anisFmt ([.str name, .int sfac] ++ [x, y, z].map Val.num ++ [.num sof] ++ [u1, u2, u3, u4, u5, u6].map Val.num) = some cs)
    (hs : sep false cs = true) :
    specAtomLine (splitWs (renderChunks cs)) name sfac
      [(x, tolCoord), (y, tolCoord), (z, tolCoord), (sof, tolU), (u1, tolU), (u2, tolU), (u3, tolU), (u4, tolU),
       (u5, tolU), (u6, tolU)] = true := by
  rw [fmt_tokens _ _ cs h (by intro v hv; simp at hv; rcases hv with rfl | rfl | rfl | rfl | rfl | rfl | rfl | rfl | rfl | rfl | rfl | rfl <;> simp [Val.ok, hname]) hs]
  have c6 : (1 : Rat) / (2 * (10 : Rat) ^ 6) ≤ tolCoord := by norm_num [tolCoord]
  have c5 : (1 : Rat) / (2 * (10 : Rat) ^ 5) ≤ tolU := by norm_num [tolU]
  simp [anisFmt, fieldTexts, fieldText, specAtomLine, closeAll, numClose_nat, numClose_fixed _ _ _ c6, numClose_fixed _ _ _ c5]

/-- **atom_render_close** (isotropic layout; `Atom.uvals` is `[U, 0, 0, 0, 0, 0]`, the format takes the first) -/
theorem atom_render_close_iso (name : Tok) (sfac : Nat) (x y z sof u : Rat) (rest : List Rat)
    (hname : name ≠ [] ∧ ' ' ∉ name) (cs : List Chunk)
    (h : chunksOf isoFmt ([.str name, .int sfac] ++ [x, y, z].map Val.num ++ [.num sof] ++ (u :: rest).map Val.num) = some cs)
    (hs : sep false cs = true) :
    specAtomLine (splitWs (renderChunks cs)) name sfac
      [(x, tolCoord), (y, tolCoord), (z, tolCoord), (sof, tolU), (u, tolU)] = true := by
  rw [fmt_tokens _ _ cs h (by
    intro v hv
    simp only [List.map_cons, List.map_nil, List.cons_append, List.nil_append, List.mem_cons, List.mem_map] at hv
    rcases hv with rfl | rfl | rfl | rfl | rfl | rfl | rfl | ⟨r, _, rfl⟩ <;> simp [Val.ok, hname]) hs]
  have c6 : (1 : Rat) / (2 * (10 : Rat) ^ 6) ≤ tolCoord := by norm_num [tolCoord]
  have c5 : (1 : Rat) / (2 * (10 : Rat) ^ 5) ≤ tolU := by norm_num [tolU]
  simp [isoFmt, fieldTexts, fieldText, specAtomLine, closeAll, numClose_nat, numClose_fixed _ _ _ c6, numClose_fixed _ _ _ c5]

/-- **coord_code_kept** (repaired printer): a coordinate keeps its free-variable code, in its own slot — for every
    value, coded (|c| > 4, any m) or not -/
theorem coord_code_kept (c : Rat) : coordJoin (coordSplit c) = c := by
  unfold coordJoin coordSplit
  split_ifs <;> simp

theorem coords_codes_kept (xyz : List Rat) : (xyz.map coordSplit).map coordJoin = xyz := by
  induction xyz with
  | nil => rfl
  | cons c cs ih => simp [coord_code_kept, ih]

example : (coordSplit (-2025 / 100)).1 = -2 ∧ (coordSplit (-2025 / 100)).2 = -1 / 4 := by decide +kernel

/-- the hypotheses of the atom theorems as one executable test -/
def sepOK (fmt : List Piece) (vals : List Val) : Bool :=
  match chunksOf fmt vals with
  | some cs => sep false cs
  | none => false

def exAniso : List Val :=
  [.str "C4".toList, .int 10] ++ [(1 : Rat) / 10, -1 / 5, 3 / 10].map Val.num ++ [.num (-31)] ++
    [(2 : Rat) / 100, 3 / 100, 4 / 100, 1 / 1000, -2 / 1000, 3 / 1000].map Val.num

/-- a concrete anisotropic atom meets the hypotheses -/
example : sepOK anisFmt exAniso = true := by decide +kernel
example : sepOK isoFmt ([.str "H1A".toList, .int 2] ++ [(1 : Rat) / 10, -1 / 5, 3 / 10].map Val.num ++ [.num 11] ++ [Val.num (-6 / 5)]) = true := by
  decide +kernel

/-- `sep` is needed: x = -1000.5 fills the twelve columns of `{:>12.6f}`, fuses with the scattering-factor number and
    the line no longer reads back (CPython prints the same fused text `C4   10-1000.500000 ...`) -/
example :
    let vals := [.str "C4".toList, .int 10] ++ [(-2001 : Rat) / 2, -1 / 5, 3 / 10].map Val.num ++ [.num (-31)] ++
      [(2 : Rat) / 100, 3 / 100, 4 / 100, 1 / 1000, -2 / 1000, 3 / 1000].map Val.num
    sepOK anisFmt vals = false ∧
      (renderFmt anisFmt vals).map (fun l => (splitWs l).length) = some 11 := by decide +kernel

/-! #### Q-peaks — open finding `C01|qpeak|U-replaced`, `…|coordinate-rounded-to-4-decimals`, `…|peak-height-rounded-…` -/

theorem roundHalfEven_int (k : Int) : roundHalfEven (k : Rat) = k := by
  simp [roundHalfEven, Rat.floor_intCast]

/-- a value that has at most `nd` decimals is written exactly -/
theorem numClose_fixed_exact (nd : Nat) (x tol : Rat) (hx : ∃ k : Int, x * (10 : Rat) ^ nd = (k : Rat)) (ht : 0 ≤ tol) :
    numCloseB tol x (fmtFixed nd x) = true := by
  obtain ⟨k, hk⟩ := hx
  have hP : (0 : Rat) < (10 : Rat) ^ nd := by positivity
  have e : ((roundHalfEven (x * (10 : Rat) ^ nd) : Int) : Rat) / (10 : Rat) ^ nd = x := by
    rw [hk, roundHalfEven_int, ← hk]; field_simp
  simp only [numCloseB, fmtFixed_parse, e, sub_self, decide_eq_true_eq, absR]
  simpa using ht

/-- (i) the full-strength statement for Q-peak lines — FALSE for the code as it is (witness below):
    every Q-peak reads back with coordinates within 1e-6, occupation code, U and peak height within 1e-5. -/
def QpeakStatement : Prop :=
  ∀ (a : AtomV) (x y z : Rat) (line : List Char), a.qpeak = true → a.xyz = [x, y, z] → renderAtom a = some line →
    specAtomLine (splitWs line) a.name a.sfac
      [(x, tolCoord), (y, tolCoord), (z, tolCoord), (a.sof, tolU), (a.us.headD 0, tolU), (a.height, tolU)] = true

/-- (ii) what IS proved: a Q-peak as SHELXL writes it (coordinates with four decimals, height with two) whose U is the
    constant `c` that the printer writes (two decimals, today 0.04) reads back unchanged. The three extra hypotheses
    exclude exactly the three recorded signatures. -/
theorem qpeak_render_partial (name : Tok) (sfac : Nat) (x y z sof u c hgt : Rat)
    (hname : name ≠ [] ∧ ' ' ∉ name) (cs : List Chunk)
    (hx : ∃ k : Int, x * (10 : Rat) ^ 4 = k) (hy : ∃ k : Int, y * (10 : Rat) ^ 4 = k) (hz : ∃ k : Int, z * (10 : Rat) ^ 4 = k)
    (hh : ∃ k : Int, hgt * (10 : Rat) ^ 2 = k) (hc : ∃ k : Int, c * (10 : Rat) ^ 2 = k) (hu : c = u)
    (h : chunksOf qpeakFmt ([.str name, .int sfac] ++ [x, y, z].map Val.num ++ [.num sof] ++ [.num c, .num hgt]) = some cs)
    (hs : sep false cs = true) :
    specAtomLine (splitWs (renderChunks cs)) name sfac
      [(x, tolCoord), (y, tolCoord), (z, tolCoord), (sof, tolU), (u, tolU), (hgt, tolU)] = true := by
  rw [fmt_tokens _ _ cs h (by intro v hv; simp at hv; rcases hv with rfl | rfl | rfl | rfl | rfl | rfl | rfl | rfl <;> simp [Val.ok, hname]) hs]
  have t6 : (0 : Rat) ≤ tolCoord := by norm_num [tolCoord]
  have t5 : (0 : Rat) ≤ tolU := by norm_num [tolU]
  have c5 : (1 : Rat) / (2 * (10 : Rat) ^ 5) ≤ tolU := by norm_num [tolU]
  subst hu
  simp [qpeakFmt, fieldTexts, fieldText, specAtomLine, closeAll, numClose_nat, numClose_fixed _ _ _ c5,
    numClose_fixed_exact 4 _ _ hx t6, numClose_fixed_exact 4 _ _ hy t6, numClose_fixed_exact 4 _ _ hz t6,
    numClose_fixed_exact 2 _ _ hh t5, numClose_fixed_exact 2 _ _ hc t5]

def qpeakWitness : AtomV :=
  ⟨"Q1".toList, 1, [1234 / 10000, 2345 / 10000, 3456 / 10000], 11, [5 / 100, 123 / 100, 0, 0, 0, 0], true, 123 / 100⟩

/-- (iii) witness, replayed on the implementation in every run (`FIXED_CASES` of harness/props/c01.py):
    `Q1 1 0.1234 0.2345 0.3456 11.0 0.05 1.23` is written with U = 0.04 -/
theorem qpeak_fails_on : ¬ QpeakStatement := by
  intro h
  have := h qpeakWitness (1234 / 10000) (2345 / 10000) (3456 / 10000)
    "Q1   1   0.1234    0.2345    0.3456   11.00000  0.04      1.23     ".toList rfl rfl (by decide +kernel)
  revert this
  decide +kernel

/-! ### F3 — the SFAC table -/

theorem readSfac_append (a b : List (List Tok)) : readSfac (a ++ b) = readSfac a ++ readSfac b := by
  induction a with
  | nil => rfl
  | cons l ls ih => simp [readSfac, ih]

theorem readSfac_flushEls (els : List Tok) (out : List (List Tok)) (h : els.all isWord = true) :
    readSfac (flushEls els out) = readSfac out ++ els.map SfEntry.plain := by
  unfold flushEls
  split_ifs with he
  · simp [he]
  · have : allAlpha els = true := by
      simp only [allAlpha, h, Bool.true_and]
      cases els with
      | nil => exact absurd rfl he
      | cons a b => rfl
    simp [readSfac_append, readSfac, this]

/-- entries of a valid file: an element symbol is a word of letters; an explicit entry is not a list of words -/
def sfValidB : SfEntry → Bool
  | .plain e => isWord e
  | .expl ts => !allAlpha ts

def SfValid (e : SfEntry) : Prop := sfValidB e = true

theorem sfacGo_read (es : List SfEntry) (els : List Tok) (out lines : List (List Tok))
    (hv : ∀ e ∈ es, SfValid e) (hels : els.all isWord = true) (h : sfacGo es els out = some lines) :
    readSfac lines = readSfac out ++ els.map SfEntry.plain ++ es := by
  induction es generalizing els out with
  | nil =>
    simp only [sfacGo, Option.some.injEq] at h
    subst h
    simp [readSfac_flushEls _ _ hels]
  | cons e r ih =>
    have hr : ∀ e ∈ r, SfValid e := fun x hx => hv x (by simp [hx])
    cases e with
    | plain el =>
      simp only [sfacGo] at h
      split_ifs at h with hm
      have hw : isWord el = true := by simpa [SfValid, sfValidB] using hv (.plain el) (by simp)
      rw [ih (els ++ [el]) out hr (by simp [hels, hw]) h]
      simp
    | expl ts =>
      simp only [sfacGo] at h
      have hx : allAlpha ts = false := by simpa [SfValid, sfValidB] using hv (.expl ts) (by simp)
      rw [ih [] _ hr (by simp) h]
      simp [readSfac_append, readSfac_flushEls _ _ hels, readSfac, hx]

/-- **sfac_render_table** (F3, repaired printer): whatever `SFACTable.__repr__` prints re-lexes to the same entries —
    plain elements and explicit 15-field entries, in order, over any number of lines. -/
theorem sfac_render_table (es : List SfEntry) (lines : List (List Tok)) (hv : ∀ e ∈ es, SfValid e)
    (h : renderSfac es = some lines) : readSfac lines = es := by
  have := sfacGo_read es [] [] lines hv (by simp) h
  simpa [readSfac] using this

def exSfac : List SfEntry :=
  [.plain "C".toList, .plain "H".toList,
   .expl (["XX", "1.1", "2.1", "3.1", "4.1", "5.1", "6.1", "7.1", "8.1", "9.1", "0.11", "0.12", "13.1", "0.77", "12.5"].map String.toList),
   .plain "O".toList]

example : (∀ e ∈ exSfac, SfValid e) ∧ (renderSfac exSfac).isSome = true := by
  refine ⟨?_, by decide +kernel⟩
  intro e he
  simp only [exSfac, List.mem_cons, List.not_mem_nil, or_false] at he
  rcases he with rfl | rfl | rfl | rfl <;> (unfold SfValid; decide +kernel)

/-- the printer as it was before repair `C01_1_sfac_explicit` loses the coefficients: the same table comes back with
    an element list in place of the explicit entry (kept as the record of the defect; replayed by the harness) -/
theorem sfac_old_printer_fails_on : (renderSfacOld exSfac).map readSfac ≠ some exSfac := by decide +kernel

/-- a keyword followed by blank-separated parameters: the tokens are the keyword and the parameters -/
theorem split_kw_join (kw : Tok) (j k : Nat) (ts : List Tok) (hkw : kw ≠ [] ∧ ' ' ∉ kw)
    (hne : ∀ t ∈ ts, t ≠ []) (hbf : ∀ t ∈ ts, ' ' ∉ t) :
    splitWs (kw ++ (blanks (j + 1) ++ joinBl k ts)) = kw :: ts := by
  rw [splitWs, splitGo_tok _ _ _ hkw.2, splitGo_blanks]
  simp only [Nat.add_one_ne_zero, if_false, List.append_nil]
  rw [flush_reverse _ hkw.1]
  have := split_join k ts hne hbf
  rw [splitWs] at this
  rw [this]; rfl

/-- the text of a SFAC line has the tokens `SFAC` + parameters -/
theorem sfac_line_tokens (params : List Tok) (hne : ∀ t ∈ params, t ≠ []) (hbf : ∀ t ∈ params, ' ' ∉ t) :
    splitWs (sfacLineText params) = "SFAC".toList :: params := by
  have e : "SFAC ".toList = "SFAC".toList ++ blanks (0 + 1) := by decide
  have : sfacLineText params = "SFAC".toList ++ (blanks (0 + 1) ++ joinBl 1 params) := by
    unfold sfacLineText; rw [e, List.append_assoc]
  rw [this, split_kw_join _ _ _ _ (by decide) hne hbf]

/-! ### F4 — FVAR in chunks, UNIT, the printer overrides -/

theorem chunksGo_flatten {α} (n : Nat) (hn : 1 ≤ n) (f : Nat) (l : List α) (hf : l.length ≤ f) :
    (chunksGo n f l).flatten = l := by
  induction f generalizing l with
  | zero =>
    have : l = [] := List.eq_nil_of_length_eq_zero (by omega)
    simp [chunksGo, this]
  | succ f ih =>
    simp only [chunksGo]
    split_ifs with hl
    · simp [hl]
    · have hlen : 0 < l.length := List.length_pos_iff.mpr hl
      rw [List.flatten_cons, ih (l.drop n) (by simp; omega), List.take_append_drop]

theorem fvar_chunk_pos : 1 ≤ fvarChunk := by decide

/-- **fvar_render_list** (F4): the values of the printed FVAR lines, taken in order, are the free variables —
    for any number of them (chunk size re-read from `FVARs.__str__`) -/
theorem fvar_render_list (vals : List Tok) : readFvar (renderFvar vals) = vals := by
  have : (renderFvar vals).map List.tail = chunks fvarChunk vals := by
    simp [renderFvar, List.map_map, Function.comp_def]
  rw [readFvar, this, chunks, chunksGo_flatten _ fvar_chunk_pos _ _ (Nat.le_refl _)]

theorem fvar_line_tokens (c : List Tok) (hne : ∀ t ∈ c, t ≠ []) (hbf : ∀ t ∈ c, ' ' ∉ t) :
    splitWs (fvarLineText c) = "FVAR".toList :: c := by
  have e : "FVAR   ".toList = "FVAR".toList ++ blanks (2 + 1) := by decide
  have : fvarLineText c = "FVAR".toList ++ (blanks (2 + 1) ++ joinBl 2 c) := by
    unfold fvarLineText; rw [e, List.append_assoc]
  rw [this, split_kw_join _ _ _ _ (by decide) hne hbf]

example : (renderFvar (["0.5", "0.6", "0.7", "0.8", "0.9", "0.11", "0.12", "0.13", "0.14"].map String.toList)).length = 2 := by
  decide +kernel

theorem parseUns_fmtNat (n : Nat) : parseUns (fmtNat n) 0 = some (n : Rat) := by
  have := parseUns_digits (natDigits n) (natDigits_lt n) [] 0
  rw [List.append_nil] at this
  rw [fmtNat, this, accDigits_natDigits]; simp [parseUns]

theorem parseDec_fmtInt (n : Int) : parseDec (fmtInt n) = some (n : Rat) := by
  unfold fmtInt
  by_cases h : n < 0
  · simp only [h, if_true, List.cons_append, List.nil_append, parseDec, parseUns_fmtNat, Option.map_some]
    rw [natAbs_cast_nonpos n (by omega)]; simp
  · simp only [h, if_false, List.nil_append, parseDec_fmtNat]
    rw [natAbs_cast_nonneg n (by omega)]

/-- `_fmt_number` reads back as the same number; `hpr` is the ASSUMPTION on CPython's `repr(float)` -/
theorem fmtNum_parse (pr : Rat → Tok) (hpr : ∀ x, parseDec (pr x) = some x) (x : Rat) :
    parseDec (fmtNum pr x) = some x := by
  unfold fmtNum
  split_ifs with h
  · rw [parseDec_fmtInt, Rat.coe_int_num_of_den_eq_one h]
  · exact hpr x

/-- **unit_render**: every UNIT number reads back as the same number (no separator, no digit lost) -/
theorem unit_render (pr : Rat → Tok) (hpr : ∀ x, parseDec (pr x) = some x) (vals : List Rat) :
    (renderUnit pr vals).tail.map parseDec = vals.map some := by
  simp [renderUnit, List.map_map, Function.comp_def, fmtNum_parse pr hpr]

example : fmtNum (fun _ => []) 1200 = "1200".toList ∧ fmtNum (fun _ => []) 1234567 = "1234567".toList := by decide +kernel

/-- **size_render** (repaired printer): the dimensions that were given are written, also fewer than three or a zero -/
theorem size_render (pr : Rat → Tok) (hpr : ∀ x, parseDec (pr x) = some x) (nums : List Rat) (h : nums.length ≤ 3) :
    (renderSize pr nums).tail.map parseDec = nums.map some := by
  simp [renderSize, List.take_of_length_le h, List.map_map, Function.comp_def, fmtNum_parse pr hpr]

/-- **acta_render** (repaired printer): 2θ and the NOHKL flag are both written (at most one number: the syntax) -/
theorem acta_render (pr : Rat → Tok) (nums : List Rat) (words : List Tok) (h : nums.length ≤ 1) :
    renderActa pr nums words = "ACTA".toList :: (nums.map (fmtNum pr) ++ words) := by
  simp [renderActa, List.take_of_length_le h]

/-- **stir_render**: `STIR sres` is written as `STIR sres 0.01` — the same instruction; `STIR sres step` unchanged.
    (sres = 0 would be printed as an empty string: `sres ≠ 0`.) -/
theorem stir_render (pr : Rat → Tok) (s : Rat) (hs : s ≠ 0) :
    renderStir pr [s] = ["STIR".toList, pr s, pr (1 / 100)] ∧
    (∀ t, renderStir pr [s, t] = ["STIR".toList, pr s, pr t]) ∧
    SameInstr [0, 1 / 100] [s] [s, 1 / 100] := by
  refine ⟨by simp [renderStir, hs], fun t => by simp [renderStir, hs], by simp [SameInstr, withDefaults]⟩

/-- the values `WGHT._as_string` writes -/
def wghtOut (nums : List Rat) : List Rat :=
  let v := withDefaults wghtDefaults nums
  if v.drop 2 = wghtDefaults.drop 2 then v.take 2 else v

theorem renderWght_eq (pr : Rat → Tok) (nums : List Rat) : renderWght pr nums = "WGHT".toList :: (wghtOut nums).map pr := by
  simp only [renderWght, wghtOut]
  split_ifs <;> rfl

/-- **wght_render** (repaired printer): whatever prefix form the input uses, the written parameters denote the same
    weighting scheme (defaults may be added or, when all of c…f are the defaults, left out) -/
theorem wght_render (nums : List Rat) (h : nums.length ≤ 6) : SameInstr wghtDefaults nums (wghtOut nums) := by
  have hv : (withDefaults wghtDefaults nums).length = 6 := by
    simp [withDefaults, wghtDefaults]; omega
  have hlen : wghtDefaults.length = 6 := rfl
  have hd6 : List.drop 6 wghtDefaults = [] := rfl
  unfold SameInstr wghtOut
  simp only
  generalize withDefaults wghtDefaults nums = v at hv
  split_ifs with hd
  · have h2 : (v.take 2).length = 2 := by simp [hv]
    simp only [withDefaults, hlen, h2]
    rw [List.take_of_length_le (by rw [h2]; omega), ← hd, List.take_append_drop]
  · simp only [withDefaults, hlen, hv]
    rw [List.take_of_length_le (by omega), hd6, List.append_nil]

example : wghtOut [1 / 10, 1 / 5, 3 / 10, 0, -3 / 10, 33333 / 100000] = [1 / 10, 1 / 5, 3 / 10, 0, -3 / 10, 33333 / 100000] := by
  decide +kernel
example : wghtOut [1 / 20] = [1 / 20, 0] := by decide +kernel

/-! ### SYMM -/

theorem splitComma_tok (t rest cur : List Char) (h : ',' ∉ t) :
    splitComma (t ++ rest) cur = splitComma rest (t.reverse ++ cur) := by
  induction t generalizing cur with
  | nil => simp
  | cons c t ih =>
    have hc : c ≠ ',' := fun e => h (by simp [e])
    have ht : ',' ∉ t := fun e => h (by simp [e])
    simp only [List.cons_append, splitComma, hc, if_false]
    rw [ih _ ht]; simp

theorem splitComma_join (t : Tok) (ts : List Tok) (h : ∀ c ∈ t :: ts, ',' ∉ c) :
    splitComma (joinWith [','] (t :: ts)) [] = t :: ts := by
  induction ts generalizing t with
  | nil =>
    have := splitComma_tok t [] [] (h t (by simp))
    simp only [List.append_nil] at this
    simp [joinWith, this, splitComma]
  | cons u us ih =>
    have hu : ∀ c ∈ u :: us, ',' ∉ c := fun c hc => h c (by simp at hc ⊢; tauto)
    have e : joinWith [','] (t :: u :: us) = t ++ (',' :: joinWith [','] (u :: us)) := by simp [joinWith]
    rw [e, splitComma_tok _ _ _ (h t (by simp))]
    simp only [List.append_nil, splitComma, if_true, List.reverse_reverse]
    rw [ih u hu]

theorem filter_join (ts : List Tok) (h : ∀ c ∈ ts, ' ' ∉ c) :
    ((ts.map fun u => [',', ' '] ++ u).flatten).filter (· ≠ ' ') = (ts.map fun u => [','] ++ u).flatten := by
  induction ts with
  | nil => rfl
  | cons u us ih =>
    have hu : u.filter (· ≠ ' ') = u := by
      rw [List.filter_eq_self]; intro c hc
      have hne : c ≠ ' ' := fun e => h u (by simp) (e ▸ hc)
      simpa using hne
    simp only [List.map_cons, List.flatten_cons, List.filter_append, ih (fun c hc => h c (by simp [hc])), hu]
    simp

/-- **symm_render**: `"SYMM  " + ", ".join(symmcard)` states the same operator, component by component -/
theorem symm_render (t : Tok) (ts : List Tok) (hc : ∀ c ∈ t :: ts, ',' ∉ c) (hb : ∀ c ∈ t :: ts, ' ' ∉ c) :
    normSymm (renderSymm (t :: ts)) = t :: ts := by
  have e : (renderSymm (t :: ts)).drop 4 = ' ' :: ' ' :: joinWith [',', ' '] (t :: ts) := by
    simp [renderSymm]
  have ht : t.filter (· ≠ ' ') = t := by
    rw [List.filter_eq_self]; intro c hc'
    have hne : c ≠ ' ' := fun e => hb t (by simp) (e ▸ hc')
    simpa using hne
  unfold normSymm
  rw [e]
  simp only [ne_eq, decide_not, List.filter_cons, decide_true, Bool.not_true, Bool.false_eq_true, if_false]
  have : (joinWith [',', ' '] (t :: ts)).filter (fun x => !decide (x = ' ')) = joinWith [','] (t :: ts) := by
    have h1 := filter_join ts (fun c hc' => hb c (by simp [hc']))
    simp only [ne_eq, decide_not] at h1 ht
    simp only [joinWith, List.filter_append, h1, ht]
  rw [this, splitComma_join t ts hc]

example : normSymm (renderSymm (parseSymm ["Y,".toList, "X,".toList, "-Z+".toList, "0.50000".toList])) =
    ["Y".toList, "X".toList, "-Z+0.50000".toList] := by decide +kernel

/-! ### which classes print computed text -/

/-- the classes of cards.py (and Atom) whose `str()` is not the stored text, re-read from the source on every run.
    Every one of them has its lemma above (`Restraints` and `SymmCards` are containers that never sit in the list of
    lines; `FVAR` is printed through `FVARs`). A new override makes this fail: its printer has no lemma yet. -/
theorem extracted_overrides :
    strOverrides = ["ACTA", "Atom", "FVAR", "FVARs", "Restraints", "SFACTable", "SIZE", "STIR", "SYMM", "SymmCards",
      "UNIT", "WGHT"] := by decide

/-! ### include files -/

/-- **write_keeps_res_lines**: whatever the include files contain — also lines with exactly the text of lines of the
    res file — the writer emits every (non-empty) line of the res file itself, in order, and nothing else. -/
theorem write_keeps_res_lines (rs : List (List Char)) (es : List Entry) (h : Spliced rs es) :
    writeEntries es = rs.filter (· ≠ []) := by
  induction h with
  | nil => rfl
  | res l _ ih =>
    simp only [writeEntries, List.filter_cons, Bool.not_false, if_true, List.map_cons] at ih ⊢
    by_cases hl : l = []
    · simp only [hl, ne_eq, not_true_eq_false, decide_false, Bool.false_eq_true, if_false]; exact ih
    · simp only [hl, ne_eq, not_false_eq_true, decide_true, if_true, ih]
  | inc l _ ih =>
    simp only [writeEntries, List.filter_cons, Bool.not_true, Bool.false_eq_true, if_false] at ih ⊢
    exact ih

/-- an include file that repeats the text of a res line: both entries have the same text, only one is written -/
example : writeEntries [⟨false, "EQIV $1 1-x, 1-y, 1-z".toList⟩, ⟨true, "EQIV $1 1-x, 1-y, 1-z".toList⟩, ⟨true, "DFIX 2.8 O1 O1_$1".toList⟩] =
    ["EQIV $1 1-x, 1-y, 1-z".toList] := by decide +kernel

/-! ### the file -/

/-- a line of the parsed file by class, carrying what the parser stored for it (absorbed continuation lines and the
    second, third … SFAC/FVAR line are not lines of their own: `write_shelx_file` skips them) -/
inductive PLine where
  | kept (toks : List Tok)         -- raw string, or object whose `str()` is `' '.join(spline)`: every other instruction
  | sfac (es : List SfEntry)       -- the SFAC table, printed where the first SFAC line was
  | fvar (vals : List Tok)         -- all free variables (as `repr`), printed where the first FVAR line was
  | unit (vals : List Rat)
  | size (nums : List Rat)
  | acta (nums : List Rat) (words : List Tok)
  | wght (nums : List Rat)
  | symm (t : Tok) (ts : List Tok)
  | atomA (name : Tok) (sfac : Nat) (x y z sof u1 u2 u3 u4 u5 u6 : Rat)
  | atomI (name : Tok) (sfac : Nat) (x y z sof u : Rat)

/-- what a valid file guarantees per line (tokens are non-empty words without blanks, entries well-formed, at most
    as many numbers as the syntax has) -/
def PLine.Valid : PLine → Prop
  | .kept toks => (∀ t ∈ toks, t ≠ []) ∧ (∀ t ∈ toks, ' ' ∉ t)
  | .sfac es => ∀ e ∈ es, SfValid e
  | .fvar _ => True
  | .unit _ => True
  | .size nums => nums.length ≤ 3
  | .acta nums _ => nums.length ≤ 1
  | .wght nums => nums.length ≤ 6
  | .symm t ts => (∀ c ∈ t :: ts, ',' ∉ c) ∧ (∀ c ∈ t :: ts, ' ' ∉ c)
  | .atomA name _ _ _ _ _ _ _ _ _ _ _ => name ≠ [] ∧ ' ' ∉ name
  | .atomI name _ _ _ _ _ _ => name ≠ [] ∧ ' ' ∉ name

/-- the written form of the line states the same content (reader of the specification applied to the printer) -/
def PLine.Lossless (pr : Rat → Tok) : PLine → Prop
  | .kept toks => splitWs (joinBl 0 toks) = toks
  | .sfac es => ∀ lines, renderSfac es = some lines → readSfac lines = es
  | .fvar vals => readFvar (renderFvar vals) = vals
  | .unit vals => (renderUnit pr vals).tail.map parseDec = vals.map some
  | .size nums => (renderSize pr nums).tail.map parseDec = nums.map some
  | .acta nums words => renderActa pr nums words = "ACTA".toList :: (nums.map (fmtNum pr) ++ words)
  | .wght nums => renderWght pr nums = "WGHT".toList :: (wghtOut nums).map pr ∧ SameInstr wghtDefaults nums (wghtOut nums)
  | .symm t ts => normSymm (renderSymm (t :: ts)) = t :: ts
  | .atomA name sf x y z sof u1 u2 u3 u4 u5 u6 =>
    ∀ cs, chunksOf anisFmt ([.str name, .int sf] ++ [x, y, z].map Val.num ++ [.num sof] ++ [u1, u2, u3, u4, u5, u6].map Val.num) = some cs →
      sep false cs = true →
      specAtomLine (splitWs (renderChunks cs)) name sf
        [(x, tolCoord), (y, tolCoord), (z, tolCoord), (sof, tolU), (u1, tolU), (u2, tolU), (u3, tolU), (u4, tolU),
         (u5, tolU), (u6, tolU)] = true
  | .atomI name sf x y z sof u =>
    ∀ cs, chunksOf isoFmt ([.str name, .int sf] ++ [x, y, z].map Val.num ++ [.num sof] ++ (u :: [0, 0, 0, 0, 0]).map Val.num) = some cs →
      sep false cs = true →
      specAtomLine (splitWs (renderChunks cs)) name sf [(x, tolCoord), (y, tolCoord), (z, tolCoord), (sof, tolU), (u, tolU)] = true

/-- **roundtrip_content**: for every file (= any list of classified lines) every line is written losslessly.
    PROVED, for all values: the per-class render∘read laws above (tokens kept; numbers within ½·10^(−nd) of what was
    stored, nd read off atom.py; SFAC table, FVAR list, UNIT, SIZE, ACTA, WGHT, SYMM).
    HYPOTHESES: `Valid` (syntactic well-formedness of the input tokens); `hpr`: CPython's `repr(float)` reads back as
    the same number; in the atom classes `sep` (no fused columns; decidable, checked by the driver for every generated
    atom). NOT PROVED here, tied by the correspondence streams only: that `_parse_cards` stores for each input line the
    values the input states and replaces exactly the absorbed lines (properties C02, C03, C16), and Q-peak lines
    (open finding, see `qpeak_render_partial`). -/
theorem roundtrip_content (pr : Rat → Tok) (hpr : ∀ x, parseDec (pr x) = some x) (f : List PLine)
    (hv : ∀ l ∈ f, l.Valid) : ∀ l ∈ f, l.Lossless pr := by
  intro l hl
  have h := hv l hl
  cases l <;> unfold PLine.Lossless <;> unfold PLine.Valid at h
  case kept toks => exact default_render_tokens toks h.1 h.2
  case sfac es => exact fun lines hr => sfac_render_table es lines h hr
  case fvar vals => exact fvar_render_list vals
  case unit vals => exact unit_render pr hpr vals
  case size nums => exact size_render pr hpr nums h
  case acta nums words => exact acta_render pr nums words h
  case wght nums => exact ⟨renderWght_eq pr nums, wght_render nums h⟩
  case symm t ts => exact symm_render t ts h.1 h.2
  case atomA name sfac x y z sof u1 u2 u3 u4 u5 u6 =>
    exact fun cs hc hs => atom_render_close_aniso name sfac x y z sof u1 u2 u3 u4 u5 u6 h cs hc hs
  case atomI name sfac x y z sof u =>
    exact fun cs hc hs => atom_render_close_iso name sfac x y z sof u [0, 0, 0, 0, 0] h cs hc hs

end Shelx.C01

/-
  C02 — valid input is parsed to the end; no valid instruction truncates the model.

  `T` is the requirement table REGENERATED from the repository on every run (`ShelxModel/Extracted/C02Dispatch.lean`:
  dispatch chain of `_parse_cards`, constructors of `cards.py`, `Atom.parse_line`, `is_atom`).  The `decide`
  theorems below are therefore re-checked against what the code says now: removing a length guard in shelx.py or
  cards.py, converting the wrong token, or re-introducing an undefined name on a reachable path makes `accepts`
  false for some valid form and the corresponding theorem stops to type-check.

  Open finding (known_findings.jsonl): an atom line with a free-variable coded coordinate (kind `big` in x, y or z)
  is refused by `is_atom`; it is kept as (i) the full-strength statement `AtomsRecognisedStatement`,
  (ii) `atoms_recognised_partial` with the hypothesis `plainCoords`, (iii) the witness `atoms_recognised_fails_on`.
-/
import ShelxModel.C02
import ShelxModel.Extracted.C02Dispatch

namespace Shelx.C02.Props
open Shelx.C02

abbrev T : Tables := Shelx.C02.Extracted.tables

/-! ## 1. The finite part: one `decide` over the regenerated requirement table -/

/-- For EVERY entry of the syntax table: the keyword is in `SHX_CARDS`, a keyword branch of `_parse_cards` handles
    it, every legal parameter form (optional parameters omitted from the right, alternative syntaxes, reals written
    `2.5`, `2`, `.5`) is accepted in every context the syntax allows and in all three modes — no unguarded index, no
    failing conversion, no undefined name, no reachable raise — and a body line leaves a body context behind.
    Re-checked against the regenerated table on every run. -/
theorem entries_ok : syntaxTable.all (entryOk T) = true := by decide +kernel

/-- the numeric keyword codes the table is compared through are the codes of the keyword strings, and every
    `card` requirement points at the class it names -/
theorem codes_consistent : T.codesOk = true ∧ syntaxTable.all (fun s => encode s.kw == s.code) = true := by
  decide +kernel

/-- Keyword case.  The abstract lines of the model carry the keyword in upper case, i.e. the model is blind to the
    case the file uses; that is sound only while every place that reads the keyword off the line folds its case
    (`line.upper()` before `word = line[:4]`, `atomline[:4].upper()` in `is_atom`, `spline[0].upper()` on every path
    of `Command._parse_line` and of `Restraint._parse_line`).  Re-checked against the source on every run; the
    harness additionally parses every keyword in lower, Title and mIxEd case in all three modes. -/
theorem keyword_case_folded : T.caseSites.length = 4 ∧ T.caseSites.all (·.2) = true := by decide

theorem atoms_ok : (atomForms.filter plainCoords).all (atomOk T) = true := by decide +kernel

/-! ## 2. Generic lemmas (any table): from the per-entry check to single lines -/

theorem forms_code {s : Syn} {f : Form} (h : f ∈ s.forms) : f.code = s.code := by
  unfold Syn.forms at h
  simp only [List.mem_flatMap, List.mem_map] at h
  obtain ⟨_, _, _, _, rfl⟩ := h
  rfl

/-- a line whose first word is listed in `SHX_CARDS` is dispatched on its keyword alone -/
theorem selectBranch_eq_selectKw (T : Tables) (f : Form) (h : T.shxCodes.contains f.code = true) :
    selectBranch T f = selectKw T f.code := by
  have hm : f.code ∈ T.shxCodes := by simpa using h
  unfold selectBranch selectKw
  congr 1
  funext b
  cases hb : b.test <;> simp [Test.holds, Test.holdsKw, lineIsAtom, Form.isAtomName, hm]

theorem entry_line {s : Syn} (hs : entryOk T s = true) {c : Ctx} (hc : c ∈ s.slot.ctxs) {f : Form} (hf : f ∈ s.forms)
    {m : Mode} (hm : m ∈ allModes) :
    ∃ b c', selectBranch T f = some b ∧ b.test ≠ .otherwise ∧ b.test ≠ .isAtom ∧ stepLine T m c f = .ok c' ∧
      (s.slot.isBody = true → c ∈ bodyCtxs → c' ∈ bodyCtxs) ∧ closedAfter s.slot c' = true ∧
      (s.slot = .body → c ∈ preCtxs → c' = c) := by
  unfold entryOk at hs
  simp only [Bool.and_eq_true] at hs
  obtain ⟨hcard, hs⟩ := hs
  have hcode := forms_code hf
  have hsel := selectBranch_eq_selectKw T f (by rw [hcode]; exact hcard)
  rw [hcode] at hsel
  cases hk : selectKw T s.code with
  | none => rw [hk] at hs; simp at hs
  | some b =>
    rw [hk] at hs
    simp only [Bool.and_eq_true, List.all_eq_true] at hs
    obtain ⟨hne, hall⟩ := hs
    have hrun := hall c hc f hf m hm
    have hnot : b.test ≠ .isAtom := by
      intro hb
      have := List.find?_some hk
      simp [hb, Test.holdsKw] at this
    cases hr : runBranch T m c b f with
    | error e => rw [hr] at hrun; simp at hrun
    | ok c' =>
      rw [hr] at hrun
      simp only [Bool.and_eq_true] at hrun
      obtain ⟨⟨hbody, hclosed⟩, hpre⟩ := hrun
      refine ⟨b, c', by rw [hsel, hk], by simpa using hne, hnot, ?_, ?_, hclosed, ?_⟩
      · have hmem : f.code ∈ T.shxCodes := by rw [hcode]; simpa using hcard
        have hat : atomTestRaises T f = false := by simp [atomTestRaises, Form.isAtomName, hmem]
        unfold stepLine; rw [hat, hsel, hk]; simpa using hr
      · intro hb hcb
        simp only [hb, Bool.true_and, Bool.or_eq_true, Bool.not_eq_true'] at hbody
        rcases hbody with h | h
        · have : bodyCtxs.contains c = true := by simpa using hcb
          rw [this] at h; exact absurd h (by decide)
        · simpa using h
      · intro hb hcb
        have h1 : (s.slot == Slot.body) = true := by rw [hb]; decide
        have h2 : preCtxs.contains c = true := by simpa using hcb
        simp only [h1, h2, Bool.and_self, Bool.not_true, Bool.false_or] at hpre
        simpa using hpre

/-! ## 3. Every handler is total on every valid form; the chain covers the syntax table -/

/-- `handler_total`: every keyword of the syntax table, in every legal parameter form, in every context the syntax
    allows it in, is accepted by its handler — in quiet, verbose and debug mode. -/
theorem handler_total : ∀ m ∈ allModes, ∀ cf ∈ allValidCases, accepts T m cf.1 cf.2 = true := by
  intro m hm cf hcf
  unfold allValidCases at hcf
  simp only [List.mem_flatMap, List.mem_map] at hcf
  obtain ⟨s, hs, c, hc, f, hf, rfl⟩ := hcf
  have hso := List.all_eq_true.mp entries_ok s hs
  obtain ⟨b, c', _, _, _, hstep, _, _, _⟩ := entry_line hso hc hf hm
  simp [accepts, hstep, Except.toBool]

/-- the hypothesis is met by something non-trivial: a 13-parameter HKLF is among the cases -/
example : (({ last := "UNIT", flags := ["cell", "latt", "sfac"] } : Ctx),
           ({ kw := "HKLF", toks := [.int, .num, .int, .int, .int, .int, .int, .int, .int, .int, .int, .num, .int], code := 1212894278 } : Form))
          ∈ allValidCases := by decide +kernel

/-- `dispatch_covers_syntax`: every valid form of every keyword is dispatched to a keyword branch of `_parse_cards`
    — it is neither taken for an atom nor does it fall through to the final `else` (whose debug arm raises). -/
theorem dispatch_covers_syntax :
    ∀ f ∈ allValidForms, ∃ b ∈ T.dispatch, selectBranch T f = some b ∧ b.test ≠ .otherwise ∧ b.test ≠ .isAtom := by
  intro f hf
  unfold allValidForms at hf
  simp only [List.mem_flatMap] at hf
  obtain ⟨s, hs, hf⟩ := hf
  have hso := List.all_eq_true.mp entries_ok s hs
  have hctx : ∃ c, c ∈ s.slot.ctxs := by cases s.slot <;> exact ⟨_, List.mem_cons_self⟩
  obtain ⟨c, hc⟩ := hctx
  obtain ⟨b, _, hsel, h1, h2, _, _, _, _⟩ := entry_line hso hc hf (m := .quiet) (by decide)
  exact ⟨b, List.mem_of_find?_eq_some (by simpa [selectBranch] using hsel), hsel, h1, h2⟩

/-! ## 3b. Atom lines -/

/-- full-strength statement (open finding: false today, see `atoms_recognised_fails_on`) -/
def AtomsRecognisedStatement : Prop := ∀ f ∈ atomForms, lineIsAtom T f = true

/-- Every atom line shape (5, 6, 7, 8, 12 columns; sof / U carrying a free-variable code) whose coordinates are
    plain numbers is recognised as an atom and its parser accepts it, in every mode.  `plainCoords` excludes exactly
    the class of the open finding: x, y or z written as 10m+p. -/
theorem atoms_recognised_partial :
    ∀ f ∈ atomForms, plainCoords f = true →
      lineIsAtom T f = true ∧ ∀ c ∈ bodyCtxs, ∀ m ∈ allModes, ∃ c' ∈ bodyCtxs, stepLine T m c f = .ok c' := by
  intro f hf hp
  have h := List.all_eq_true.mp atoms_ok f (List.mem_filter.mpr ⟨hf, hp⟩)
  unfold atomOk at h
  simp only [Bool.and_eq_true, List.all_eq_true] at h
  refine ⟨h.1, fun c hc m hm => ?_⟩
  have := h.2 c hc m hm
  cases hs : stepLine T m c f with
  | ok c' => rw [hs] at this; exact ⟨c', by simpa using this, rfl⟩
  | error e => rw [hs] at this; simp at this

example : ({ kw := "C1", toks := [.int, .num, .num, .num], code := 17201 } : Form) ∈ atomForms ∧
          plainCoords { kw := "C1", toks := [.int, .num, .num, .num], code := 17201 } = true := by decide +kernel

/-- witness of the open finding: `C1 1 10.25 0.2 0.3 11.0 0.04` is not an atom for `is_atom` … -/
theorem atoms_recognised_fails_on : ¬ AtomsRecognisedStatement := by
  intro h
  have := h { kw := "C1", toks := [.int, .big, .num, .num, .big, .num], code := 17201 } (by decide +kernel)
  revert this
  decide +kernel

/-- … and in debug mode the line raises (unknown-line branch), while quiet mode passes over it -/
theorem coded_coordinate_modes_differ :
    accepts T .debug { last := "UNIT", flags := ["cell", "latt", "sfac"] } { kw := "C1", toks := [.int, .big, .num, .num, .big, .num], code := 17201 } = false ∧
    accepts T .quiet { last := "UNIT", flags := ["cell", "latt", "sfac"] } { kw := "C1", toks := [.int, .big, .num, .num, .big, .num], code := 17201 } = true := by
  decide +kernel

/-! ## 4. From lines to files: induction over the line list (any table, any length) -/

/-- every line is accepted in the context the lines before it leave behind -/
def AllAccepted (T : Tables) (m : Mode) : Ctx → List Form → Prop
  | _, [] => True
  | c, f :: r => ∃ c', stepLine T m c f = .ok c' ∧ AllAccepted T m c' r

theorem loop_reaches_end (T : Tables) (m : Mode) :
    ∀ (file : List Form) (c : Ctx) (i : Nat), AllAccepted T m c file →
      (loop T m c i file).innerErr = none ∧ (loop T m c i file).raised = none ∧
      (loop T m c i file).consumed = i + file.length ∧ (loop T m c i file).lastLine = i + file.length - 1 := by
  intro file
  induction file with
  | nil => intro c i _; simp [loop]
  | cons f r ih =>
    intro c i h
    obtain ⟨c', hs, hr⟩ := h
    have := ih c' (i + 1) hr
    simp only [loop, hs]
    refine ⟨this.1, this.2.1, ?_, ?_⟩
    · rw [this.2.2.1]; simp only [List.length_cons]; omega
    · rw [this.2.2.2]; simp only [List.length_cons]; omega

/-- `parse_reaches_end`: if every line is accepted, `parse_cards` looks at every line, `error_line_num` ends on the
    last one, nothing leaves `_parse_cards` and nothing leaves `parse_cards` — in any of the three modes. -/
theorem parse_reaches_end (T : Tables) (m : Mode) (file : List Form) (h : AllAccepted T m {} file) :
    SpecHolds (parseAll T m file) file.length := by
  have := loop_reaches_end T m file {} 0 h
  unfold SpecHolds parseAll
  refine ⟨this.1, this.2.1, ?_, ?_⟩
  · rw [this.2.2.1]; simp
  · rw [this.2.2.2]; simp

/-- `modes_agree` on the property's observables: the three modes end on the same line, with the same (empty) error -/
theorem modes_agree (T : Tables) (file : List Form)
    (hq : AllAccepted T .quiet {} file) (hv : AllAccepted T .verbose {} file) (hd : AllAccepted T .debug {} file) :
    let q := parseAll T .quiet file; let v := parseAll T .verbose file; let d := parseAll T .debug file
    q.lastLine = v.lastLine ∧ q.lastLine = d.lastLine ∧ q.consumed = v.consumed ∧ q.consumed = d.consumed ∧
    q.innerErr = v.innerErr ∧ q.innerErr = d.innerErr ∧ q.raised = none ∧ v.raised = none ∧ d.raised = none := by
  have a := parse_reaches_end T .quiet file hq
  have b := parse_reaches_end T .verbose file hv
  have c := parse_reaches_end T .debug file hd
  unfold SpecHolds at a b c
  simp only
  refine ⟨?_, ?_, ?_, ?_, ?_, ?_, a.2.1, b.2.1, c.2.1⟩
  · rw [a.2.2.2, b.2.2.2]
  · rw [a.2.2.2, c.2.2.2]
  · rw [a.2.2.1, b.2.2.1]
  · rw [a.2.2.1, c.2.2.1]
  · rw [a.1, b.1]
  · rw [a.1, c.1]

/-- `quiet_total`: whatever the text — valid or not, for ANY table — nothing leaves `parse_cards` in quiet mode
    (and in verbose mode); only debug re-raises. -/
theorem quiet_total (T : Tables) (m : Mode) (hm : m ≠ .debug) :
    ∀ (file : List Form) (c : Ctx) (i : Nat), (loop T m c i file).raised = none := by
  intro file
  induction file with
  | nil => intro c i; simp [loop]
  | cons f r ih =>
    intro c i
    simp only [loop]
    cases h : stepLine T m c f with
    | ok c' => simpa using ih c' (i + 1)
    | error e => cases m <;> simp_all

theorem quiet_never_raises (T : Tables) (file : List Form) : (parseAll T .quiet file).raised = none :=
  quiet_total T .quiet (by decide) file {} 0

/-! ## 5. Files of arbitrary length: the body of a file is closed under valid lines -/

theorem body_ctxs_sub : ∀ sl : Slot, sl.isBody = true → bodyCtxs.all (fun c => sl.ctxs.contains c) = true := by
  intro sl; cases sl <;> decide

/-- One valid body line (instruction, FVAR, plain atom, HKLF, END, WGHT, Q-peak) met in a body context is accepted
    and leaves a body context behind (regenerated table, all three modes). -/
theorem body_step_closed :
    ∀ m ∈ allModes, ∀ c ∈ bodyCtxs, ∀ f ∈ bodyForms, ∃ c' ∈ bodyCtxs, stepLine T m c f = .ok c' := by
  intro m hm c hc f hf
  unfold bodyForms at hf
  rcases List.mem_append.mp hf with hf | hf
  · simp only [List.mem_flatMap, List.mem_filter] at hf
    obtain ⟨s, ⟨hs, hbody⟩, hf⟩ := hf
    have hso := List.all_eq_true.mp entries_ok s hs
    have hcs : c ∈ s.slot.ctxs := by
      have := List.all_eq_true.mp (body_ctxs_sub s.slot hbody) c hc
      simpa using this
    obtain ⟨b, c', _, _, _, hstep, hcl, _, _⟩ := entry_line hso hcs hf hm
    exact ⟨c', hcl hbody hc, hstep⟩
  · obtain ⟨hf, hp⟩ := List.mem_filter.mp hf
    exact (atoms_recognised_partial f hf hp).2 c hc m hm

/-- Any number of valid body lines, in any order, is accepted — by induction over the list. -/
theorem body_lines_accepted (m : Mode) (hm : m ∈ allModes) :
    ∀ (l : List Form), (∀ f ∈ l, f ∈ bodyForms) → ∀ c ∈ bodyCtxs, AllAccepted T m c l := by
  intro l
  induction l with
  | nil => intro _ c _; trivial
  | cons f r ih =>
    intro hl c hc
    obtain ⟨c', hc', hs⟩ := body_step_closed m hm c hc f (hl f (by simp))
    exact ⟨c', hs, ih (fun g hg => hl g (by simp [hg])) c' hc'⟩

/-- the standard header of the generated files: TITL CELL ZERR LATT SYMM SFAC UNIT -/
def stdHeader : List Form := [
  { kw := "TITL", toks := [.word, .word] },
  { kw := "CELL", toks := [.num, .big, .big, .big, .big, .big, .big] },
  { kw := "ZERR", toks := [.int, .num, .num, .num, .num, .num, .num] },
  { kw := "LATT", toks := [.int] },
  { kw := "SYMM", toks := [.sym, .sym, .sym] },
  { kw := "SFAC", toks := [.word, .word, .word] },
  { kw := "UNIT", toks := [.int, .int, .int] }]

/-- the context after a list of lines, `none` if one of them raises -/
def runLines (T : Tables) (m : Mode) : Ctx → List Form → Option Ctx
  | c, [] => some c
  | c, f :: r => match stepLine T m c f with
    | .ok c' => runLines T m c' r
    | .error _ => none

theorem allAccepted_append (T : Tables) (m : Mode) :
    ∀ (l : List Form) (c c' : Ctx) (rest : List Form), runLines T m c l = some c' → AllAccepted T m c' rest →
      AllAccepted T m c (l ++ rest) := by
  intro l
  induction l with
  | nil => intro c c' rest h hr; simp [runLines] at h; subst h; simpa using hr
  | cons f r ih =>
    intro c c' rest h hr
    simp only [runLines] at h
    cases hs : stepLine T m c f with
    | ok c1 =>
      rw [hs] at h
      exact ⟨c1, hs, ih c1 c' rest h hr⟩
    | error e => rw [hs] at h; simp at h

theorem header_runs : ∀ m ∈ allModes, runLines T m {} stdHeader = some { last := "UNIT", flags := ["cell", "latt", "sfac"] } := by
  decide +kernel

theorem header_reaches_body :
    ∀ m ∈ allModes, ∃ c ∈ bodyCtxs, ∀ rest, AllAccepted T m c rest → AllAccepted T m {} (stdHeader ++ rest) := by
  intro m hm
  exact ⟨{ last := "UNIT", flags := ["cell", "latt", "sfac"] }, by decide,
         fun rest hr => allAccepted_append T m stdHeader {} _ rest (header_runs m hm) hr⟩

/-- `valid_no_raise`: header + ANY sequence of valid body lines of ANY length is parsed to its last line, without
    exception, in each of the three modes. -/
theorem valid_no_raise (m : Mode) (hm : m ∈ allModes) (body : List Form) (hb : ∀ f ∈ body, f ∈ bodyForms) :
    SpecHolds (parseAll T m (stdHeader ++ body)) (stdHeader ++ body).length := by
  obtain ⟨c, hc, hh⟩ := header_reaches_body m hm
  exact parse_reaches_end T m _ (hh body (body_lines_accepted m hm body hb c hc))

/-! ## 6. Every header the grammar generates (histories of header lines) -/

theorem pre_ctxs_sub : preCtxs.all (fun c => Slot.body.ctxs.contains c) = true := by decide

theorem closedAfter_next {s s' : Slot} {c : Ctx} (h : closedAfter s c = true) (hs : s' ∈ s.next) : c ∈ s'.ctxs := by
  unfold closedAfter at h
  simp only [Bool.and_eq_true, List.all_eq_true] at h
  simpa using h.1.1 s' hs

theorem closedAfter_pre {s : Slot} {c : Ctx} (h : closedAfter s c = true) (hs : s.allowsPre = true) : c ∈ preCtxs := by
  unfold closedAfter at h
  simp only [Bool.and_eq_true] at h
  have := h.1.2
  rw [hs] at this
  simpa using this

theorem closedAfter_unit {c : Ctx} (h : closedAfter .unit c = true) : c ∈ bodyCtxs := by
  unfold closedAfter at h
  simp only [Bool.and_eq_true] at h
  have := h.2
  simpa using this

/-- `header_closed`: whatever continuation of the header the grammar allows — any number of SYMM, SFAC and DISP lines
    in any of their forms, NEUT or not, body instructions in front of SFAC — every line is accepted in the context the
    lines before it left behind, and the line after UNIT meets a body context.  By induction over the derivation; the
    step is the `closedAfter` clause of `entries_ok` (regenerated table): a handler that leaves a `lastcard` behind which
    its own order test, or that of a legal successor, refuses makes `entries_ok` fail. -/
theorem header_closed (m : Mode) (hm : m ∈ allModes) :
    ∀ {s : Slot} {l : List Form}, Header s l → ∀ c, closedAfter s c = true → ∃ c' ∈ bodyCtxs, runLines T m c l = some c' := by
  intro s l h
  induction h with
  | done => intro c hc; exact ⟨c, closedAfter_unit hc, rfl⟩
  | @step s e f l he hn hf _ ih =>
    intro c hc
    have hso := List.all_eq_true.mp entries_ok e he
    obtain ⟨_, c1, _, _, _, hstep, _, hcl, _⟩ := entry_line hso (closedAfter_next hc hn) hf hm
    obtain ⟨c', hc', hr⟩ := ih c1 hcl
    exact ⟨c', hc', by simp only [runLines, hstep]; exact hr⟩
  | @pre s e f l hp he hb hf _ ih =>
    intro c hc
    have hso := List.all_eq_true.mp entries_ok e he
    have hpc := closedAfter_pre hc hp
    have hcs : c ∈ e.slot.ctxs := by
      rw [hb]
      have := List.all_eq_true.mp pre_ctxs_sub c hpc
      simpa using this
    obtain ⟨_, c1, _, _, _, hstep, _, _, hsame⟩ := entry_line hso hcs hf hm
    have : c1 = c := hsame hb hpc
    subst this
    obtain ⟨c', hc', hr⟩ := ih c1 hc
    exact ⟨c', hc', by simp only [runLines, hstep]; exact hr⟩

theorem validHeader_runs (m : Mode) (hm : m ∈ allModes) {h : List Form} (hh : ValidHeader h) :
    ∃ c' ∈ bodyCtxs, runLines T m {} h = some c' := by
  obtain ⟨e, he, f, hf, r, hslot, rfl, hr⟩ := hh
  have hso := List.all_eq_true.mp entries_ok e he
  have hc0 : ({} : Ctx) ∈ e.slot.ctxs := by rw [hslot]; decide
  obtain ⟨_, c1, _, _, _, hstep, _, hcl, _⟩ := entry_line hso hc0 hf hm
  rw [hslot] at hcl
  obtain ⟨c', hc', hrun⟩ := header_closed m hm hr c1 hcl
  exact ⟨c', hc', by simp only [runLines, hstep]; exact hrun⟩

/-- `valid_file_no_raise`: ANY header of the grammar (any history of header lines) followed by ANY sequence of valid
    body lines, of any length, is parsed to its last line without exception, in each of the three modes. -/
theorem valid_file_no_raise (m : Mode) (hm : m ∈ allModes) (h : List Form) (hh : ValidHeader h)
    (body : List Form) (hb : ∀ f ∈ body, f ∈ bodyForms) :
    SpecHolds (parseAll T m (h ++ body)) (h ++ body).length := by
  obtain ⟨c, hc, hrun⟩ := validHeader_runs m hm hh
  exact parse_reaches_end T m _ (allAccepted_append T m h {} c body hrun (body_lines_accepted m hm body hb c hc))

/-- the three modes end on the same line for every such file -/
theorem valid_file_modes_agree (h : List Form) (hh : ValidHeader h) (body : List Form) (hb : ∀ f ∈ body, f ∈ bodyForms) :
    (parseAll T .quiet (h ++ body)).lastLine = (parseAll T .verbose (h ++ body)).lastLine ∧
    (parseAll T .quiet (h ++ body)).lastLine = (parseAll T .debug (h ++ body)).lastLine := by
  have a := valid_file_no_raise .quiet (by decide) h hh body hb
  have b := valid_file_no_raise .verbose (by decide) h hh body hb
  have c := valid_file_no_raise .debug (by decide) h hh body hb
  unfold SpecHolds at a b c
  exact ⟨by rw [a.2.2.2, b.2.2.2], by rw [a.2.2.2, c.2.2.2]⟩

/-- the grammar generates something non-trivial: two SYMM, a body instruction and NEUT in front of two SFAC lines with
    explicit scattering factors, one DISP per element, UNIT -/
def sfacExplicit : List Kind := [.word, .num, .num, .num, .num, .num, .num, .num, .num, .num, .num, .num, .num, .num, .num]

example : ValidHeader [
    { kw := "TITL", toks := [.word], code := 1414091852 },
    { kw := "CELL", toks := [.num, .big, .big, .big, .big, .big, .big], code := 1128614988 },
    { kw := "ZERR", toks := [.int, .num, .num, .num, .num, .num, .num], code := 1514492498 },
    { kw := "LATT", toks := [.int], code := 1279349844 },
    { kw := "SYMM", toks := [.sym, .sym, .sym], code := 1398361421 },
    { kw := "SYMM", toks := [.sym], code := 1398361421 },
    { kw := "MORE", toks := [.int], code := 1297044037 },
    { kw := "NEUT", toks := [], code := 1313166676 },
    { kw := "SFAC", toks := sfacExplicit, code := 1397113155 },
    { kw := "SFAC", toks := sfacExplicit, code := 1397113155 },
    { kw := "DISP", toks := [.word, .num, .num], code := 1145656144 },
    { kw := "DISP", toks := [.word, .num, .num, .num], code := 1145656144 },
    { kw := "UNIT", toks := [.int, .int, .int], code := 1431193940 }] := by
  refine ⟨syntaxTable[0], by decide +kernel, _, by decide +kernel, _, by decide +kernel, rfl, ?_⟩
  refine .step (e := syntaxTable[1]) (by decide +kernel) (by decide +kernel) (by decide +kernel) ?_
  refine .step (e := syntaxTable[2]) (by decide +kernel) (by decide +kernel) (by decide +kernel) ?_
  refine .step (e := syntaxTable[3]) (by decide +kernel) (by decide +kernel) (by decide +kernel) ?_
  refine .step (e := syntaxTable[4]) (by decide +kernel) (by decide +kernel) (by decide +kernel) ?_
  refine .step (e := syntaxTable[4]) (by decide +kernel) (by decide +kernel) (by decide +kernel) ?_
  refine .pre (e := syntaxTable[18]) (by decide +kernel) (by decide +kernel) (by decide +kernel) (by decide +kernel) ?_
  refine .step (e := syntaxTable[5]) (by decide +kernel) (by decide +kernel) (by decide +kernel) ?_
  refine .step (e := syntaxTable[6]) (by decide +kernel) (by decide +kernel) (by decide +kernel) ?_
  refine .step (e := syntaxTable[6]) (by decide +kernel) (by decide +kernel) (by decide +kernel) ?_
  refine .step (e := syntaxTable[7]) (by decide +kernel) (by decide +kernel) (by decide +kernel) ?_
  refine .step (e := syntaxTable[7]) (by decide +kernel) (by decide +kernel) (by decide +kernel) ?_
  refine .step (e := syntaxTable[8]) (by decide +kernel) (by decide +kernel) (by decide +kernel) ?_
  exact .done

example : ∀ f ∈ ([{ kw := "TEMP", toks := [] }, { kw := "C1", toks := [.int, .num, .num, .num] },
                  { kw := "HKLF", toks := [.int] }, { kw := "END", toks := [] }] : List Form), f ∈ bodyForms := by
  decide +kernel

end Shelx.C02.Props

/-
  C19 — property theorems (model and specification: ShelxModel/C19.lean).

  Quantified over ALL file contents `B`, ALL documents, ALL codecs (`text`/`garbled`/`parse`/`size` are arbitrary
  functions: no assumption on the writer or the parser is used), ALL states of the directory (including a stale
  <name>.shx-bak, a missing .res/.hkl), ALL outcomes of the external program and ALL call histories.

  `Fix.all` is the repaired code (fixes/C19_1 … C19_5, C04_1); the `…_orig_fails_on` theorems are the `decide`-proved
  witnesses that the code as found (`Fix.none`, or one repair missing) violates the same statements.
  The former open finding (ACTA removal shifted `delete_on_write`, overlap with C04) is repaired in the tree (C04_1):
  `ins_is_model` is full strength; the legacy behaviour is kept as `Fix.dow = false` with its witness.

  Outcomes include what SHELXL PRINTS (`ConOut`): `output_cannot_abort` (neither the output nor the .lst has any influence),
  `nohkl_restores`. The line list (`Line`, `delActa`, `putActa`, `linesAfter`): `lines_after_good_run`,
  `lines_after_failed_run` — for all lists before the run and all lists after the reload, ACTA is the entry directly
  after UNIT of the list as it is then; `removeActa_lines`/`restoreActa_lines` tie the abstract `Doc.acta` to the list;
  `stale_position_fails_on`: a position taken from the list before the run is wrong after the reload.
-/
import ShelxModel.C19

namespace Shelx.C19
variable {B R : Type}

/-! ### run_shelxl, case by case -/

theorem runShelxl_ins (f : Fix) (c : Codec B R) (fs : FS B) (call : Call B) :
    (runShelxl f c fs call).1.ins = fs.ins := by
  obtain ⟨res, ins, bak, hkl, saves⟩ := fs
  obtain ⟨cycles, backup, ⟨exit, ro, lst, con⟩⟩ := call
  unfold runShelxl backupStep restoreStep
  cases hkl <;> cases backup <;> cases res <;> simp <;> (repeat' split) <;> simp_all

/-- SHELXL is not started: nothing on disk changes -/
theorem runShelxl_not_started (f : Fix) (c : Codec B R) (fs : FS B) (call : Call B)
    (h : (fs.hkl && (!call.backup || fs.res.isSome)) = false) :
    runShelxl f c fs call = (fs, some .SystemExit) := by
  obtain ⟨res, ins, bak, hkl, saves⟩ := fs
  obtain ⟨cycles, backup, ⟨exit, ro, lst, con⟩⟩ := call
  unfold runShelxl backupStep
  cases hkl <;> cases backup <;> cases res <;> simp_all

/-- the directory after the backup step -/
def backedUp (backup : Bool) (fs : FS B) : FS B :=
  if backup then
    match fs.res with
    | none => fs
    | some r => { fs with bak := some r, saves := r :: fs.saves }
  else fs

/-- the repaired code, failed run: SystemExit; with a backup the previous file is back and the backup file is used up,
    without one the directory is as SHELXL left it -/
theorem runShelxl_failed (c : Codec B R) (fs : FS B) (call : Call B)
    (hst : (fs.hkl && (!call.backup || fs.res.isSome)) = true)
    (hp : plausible c fs.res call.out = true) (hf : failed c fs.res call.out = true) :
    runShelxl Fix.all c fs call =
      (if call.backup then { backedUp true fs with bak := none }
       else { fs with res := left fs.res call.out.res }, some .SystemExit) := by
  obtain ⟨res, ins, bak, hkl, saves⟩ := fs
  obtain ⟨cycles, backup, ⟨exit, ro, lst, con⟩⟩ := call
  unfold runShelxl backupStep restoreStep backedUp
  unfold plausible at hp
  unfold failed at hf hp
  cases hkl <;> cases backup <;> cases res <;> cases ro <;> cases con <;>
    simp_all [Fix.all, left] <;> (try (repeat' split)) <;> (try simp_all) <;> (try omega)

/-- the repaired code, good run: no exception, .res is what SHELXL left, the backup stays -/
theorem runShelxl_ok (c : Codec B R) (fs : FS B) (call : Call B)
    (hst : (fs.hkl && (!call.backup || fs.res.isSome)) = true)
    (hp : plausible c fs.res call.out = true) (hf : failed c fs.res call.out = false) :
    runShelxl Fix.all c fs call =
      ({ backedUp call.backup fs with res := left fs.res call.out.res }, none) := by
  obtain ⟨res, ins, bak, hkl, saves⟩ := fs
  obtain ⟨cycles, backup, ⟨exit, ro, lst, con⟩⟩ := call
  unfold runShelxl backupStep restoreStep backedUp
  unfold plausible at hp
  unfold failed at hf hp
  cases hkl <;> cases backup <;> cases res <;> cases ro <;> cases con <;>
    simp_all [Fix.all, left] <;> (try (repeat' split)) <;> (try simp_all) <;> (try omega)

/-- a run that reports success has left a result file, and .res is that file -/
theorem runShelxl_none (f : Fix) (c : Codec B R) (fs : FS B) (call : Call B)
    (h : (runShelxl f c fs call).2 = none) :
    ∃ b, (runShelxl f c fs call).1.res = some b ∧ left fs.res call.out.res = some b := by
  obtain ⟨res, ins, bak, hkl, saves⟩ := fs
  obtain ⟨cycles, backup, ⟨exit, ro, lst, con⟩⟩ := call
  revert h
  unfold runShelxl backupStep restoreStep
  cases hkl <;> cases backup <;> cases res <;> cases ro <;>
    simp [left] <;> (try (repeat' split)) <;> (try simp_all)

theorem left_some_of_not_failed (c : Codec B R) (pre : Option B) (o : Outcome B)
    (hf : failed c pre o = false) : ∃ b, left pre o.res = some b := by
  unfold failed at hf
  cases h : left pre o.res with
  | none => simp [h] at hf
  | some b => exact ⟨b, rfl⟩

/-! ### the .ins file -/

/-- the memory object handed to `write_shelx_file` -/
def insMem (st : St B R) (call : Call B) : Mem R :=
  (removeActa (setCycles call.cycles st.mem)).1

theorem refine_eq (f : Fix) (c : Codec B R) (st : St B R) (call : Call B) :
    refine f c st call = finish f c (removeActa (setCycles call.cycles st.mem)).2 (insMem st call)
      (runShelxl f c { st.fs with ins := some (write f c (insMem st call)) } call) := rfl

theorem refine_ins (f : Fix) (c : Codec B R) (st : St B R) (call : Call B) :
    (refine f c st call).st.fs.ins = some (write f c (insMem st call)) := by
  have h := runShelxl_ins f c { st.fs with ins := some (write f c (insMem st call)) } call
  rw [refine_eq]
  generalize runShelxl f c _ call = x at h ⊢
  obtain ⟨fs2, e⟩ := x
  cases e with
  | some e => simpa [finish] using h
  | none => cases hr : fs2.res <;> simp_all [finish]

theorem write_insMem (f : Fix) (c : Codec B R) (st : St B R) (call : Call B) (hf : f.dow = true) :
    write f c (insMem st call) = c.text (insDoc st call) := by
  obtain ⟨fs, ⟨⟨acta, cyc, rest⟩, dow, skew⟩⟩ := st
  obtain ⟨cycles, backup, o⟩ := call
  cases acta <;> cases cycles <;> simp [write, hf, insMem, setCycles, removeActa, insDoc]

theorem write_insMem_legacy (f : Fix) (c : Codec B R) (st : St B R) (call : Call B) (hs : inSync st.mem = true) :
    write f c (insMem st call) = c.text (insDoc st call) := by
  obtain ⟨fs, ⟨⟨acta, cyc, rest⟩, dow, skew⟩⟩ := st
  obtain ⟨cycles, backup, o⟩ := call
  unfold inSync at hs
  cases acta <;> cases cycles <;> cases dow <;> cases hd : f.dow <;>
    simp_all [write, insMem, setCycles, removeActa, insDoc] <;> omega

/-- **ins_is_model** (full strength since the C04 repair is in the tree: no hypothesis on the state).
    The file handed to SHELXL is the current model without ACTA and with the requested number of cycles —
    for every outcome, every directory state, every object (any number of FVAR/SFAC/SYMM lines), and every
    combination of the C19 repairs. -/
theorem ins_is_model (f : Fix) (c : Codec B R) (st : St B R) (call : Call B) (hf : f.dow = true) :
    (refine f c st call).st.fs.ins = some (c.text (insDoc st call)) := by
  rw [refine_ins, write_insMem f c st call hf]

/-- the same for the code before the C04 repair, where it needed `inSync` (kept with its witness below) -/
theorem ins_is_model_legacy (f : Fix) (c : Codec B R) (st : St B R) (call : Call B)
    (hs : inSync st.mem = true) :
    (refine f c st call).st.fs.ins = some (c.text (insDoc st call)) := by
  rw [refine_ins, write_insMem_legacy f c st call hs]

/-! ### a concrete instance for witnesses and examples: contents and documents are numbers -/

/-- `size b = b`; files ≥ 50 have a second FVAR line (delete_on_write behind UNIT); odd files carry an ACTA line
    three lines behind UNIT -/
def wc : Codec Nat Nat where
  text d := 1000 + d.cycles.toNat + 100 * d.rest
  garbled _ := 7
  parse b := (⟨if b % 2 = 1 then some ⟨5, 3⟩ else none, 10, b⟩, decide (50 ≤ b))
  size b := b

/-- a freshly read file with ACTA (three lines behind UNIT) and two FVAR lines; stale backup 33 in the directory -/
def wSt : St Nat Nat :=
  ⟨⟨some 51, none, some 33, true, []⟩, ⟨⟨some ⟨5, 3⟩, 10, 51⟩, true, 0⟩⟩

/-- the same without the second FVAR line -/
def wSt' : St Nat Nat :=
  ⟨⟨some 21, none, some 33, true, []⟩, ⟨⟨some ⟨5, 3⟩, 10, 21⟩, false, 0⟩⟩

def good (b : Nat) : Outcome Nat := ⟨0, .wrote b, .good, .plain⟩

/-- C04_1 missing: ACTA is deleted from `_reslist`, `delete_on_write` still points one line further -/
theorem ins_is_model_orig_fails_on :
    ¬ ((refine { Fix.all with dow := false } wc wSt ⟨some 4, true, good 60⟩).st.fs.ins
        = some (wc.text (insDoc wSt ⟨some 4, true, good 60⟩))) := by
  decide

/-- the state the legacy code garbled (ACTA + second FVAR line, freshly read) is inside the theorem now -/
example : (refine Fix.all wc wSt ⟨some 4, true, good 60⟩).st.fs.ins
    = some (wc.text (insDoc wSt ⟨some 4, true, good 60⟩)) ∧ inSync wSt.mem = false := by decide

/-! ### failure: the previous .res is back -/

theorem refine_fs_of_run (f : Fix) (c : Codec B R) (st : St B R) (call : Call B) :
    (refine f c st call).st.fs = (runShelxl f c { st.fs with ins := some (write f c (insMem st call)) } call).1 := by
  rw [refine_eq]
  generalize runShelxl f c _ call = x
  obtain ⟨fs2, e⟩ := x
  cases e with
  | some e => rfl
  | none => cases hr : fs2.res <;> simp_all [finish]

theorem refine_exc_of_run_some (f : Fix) (c : Codec B R) (st : St B R) (call : Call B) (e : PyErr) (fs2 : FS B)
    (h : runShelxl f c { st.fs with ins := some (write f c (insMem st call)) } call = (fs2, some e)) :
    (refine f c st call).exc = some e ∧
    (refine f c st call).st.mem = (if f.acta then restoreActa (removeActa (setCycles call.cycles st.mem)).2
        (insMem st call) else insMem st call) := by
  rw [refine_eq, h]
  simp [finish]

theorem refine_of_run_ok (f : Fix) (c : Codec B R) (st : St B R) (call : Call B) (fs2 : FS B) (b : B)
    (h : runShelxl f c { st.fs with ins := some (write f c (insMem st call)) } call = (fs2, none))
    (hb : fs2.res = some b) :
    (refine f c st call).exc = none ∧
    (refine f c st call).st.mem = restoreActa (removeActa (setCycles call.cycles st.mem)).2
        ⟨(c.parse b).1, (c.parse b).2, 0⟩ := by
  rw [refine_eq, h]
  simp [finish, hb]

theorem refine_of_run_none (f : Fix) (c : Codec B R) (st : St B R) (call : Call B) (fs2 : FS B)
    (h : runShelxl f c { st.fs with ins := some (write f c (insMem st call)) } call = (fs2, none))
    (hb : fs2.res = none) :
    (refine f c st call).exc = some .FileNotFoundError ∧ (refine f c st call).st.mem = insMem st call := by
  rw [refine_eq, h]
  simp [finish, hb]

/-- **failure_restores**: with a backup, whenever the external run fails (non-zero exit, empty or missing result
    file, whatever the .lst looks like, whatever lay in the directory before) the previous .res is back,
    byte-identical for all contents, and the caller is told (an exception leaves `refine`). -/
theorem failure_restores (c : Codec B R) (st : St B R) (call : Call B)
    (hb : call.backup = true) (hp : plausible c st.fs.res call.out = true)
    (hf : failed c st.fs.res call.out = true) :
    (refine Fix.all c st call).st.fs.res = st.fs.res ∧ (refine Fix.all c st call).exc ≠ none := by
  by_cases hst : started st call = true
  · have h := runShelxl_failed c { st.fs with ins := some (write Fix.all c (insMem st call)) } call
      (by simpa [started] using hst) hp hf
    have he := refine_exc_of_run_some Fix.all c st call _ _ h
    rw [refine_fs_of_run, h, he.1]
    obtain ⟨⟨res, ins, bak, hkl, saves⟩, m⟩ := st
    cases res <;> simp_all [backedUp, started]
  · have hst' : started st call = false := by simpa using hst
    have h := runShelxl_not_started Fix.all c { st.fs with ins := some (write Fix.all c (insMem st call)) } call
      (by simpa [started] using hst')
    have he := refine_exc_of_run_some Fix.all c st call _ _ h
    rw [refine_fs_of_run, h, he.1]
    simp

/-- the exit status is any integer — `Popen.returncode` is negative when the program was killed by a signal —
    and every value other than 0 is a failure, whatever lies in the result file -/
theorem failed_of_exit_ne_zero (c : Codec B R) (pre : Option B) (o : Outcome B) (h : o.exit ≠ 0) :
    failed c pre o = true := by
  simp [failed, h]

/-- **nonzero_status_restores**: SHELXL killed by a signal (negative status) or leaving with any positive code, with a
    partly written result of any size ≥ 10 bytes (or any other result state): with a backup the previous .res is back. -/
theorem nonzero_status_restores (c : Codec B R) (st : St B R) (call : Call B)
    (hb : call.backup = true) (hp : plausible c st.fs.res call.out = true) (he : call.out.exit ≠ 0) :
    (refine Fix.all c st call).st.fs.res = st.fs.res ∧ (refine Fix.all c st call).exc ≠ none :=
  failure_restores c st call hb hp (failed_of_exit_ne_zero c _ _ he)

/-- segmentation fault (−11) after a 60-byte result was written; exit code 255 likewise -/
example : plausible wc wSt.fs.res ⟨-11, .wrote 60, .good, .plain⟩ = true ∧
    (refine Fix.all wc wSt ⟨some 4, true, ⟨-11, .wrote 60, .good, .plain⟩⟩).st.fs.res = wSt.fs.res ∧
    (refine Fix.all wc wSt ⟨some 4, true, ⟨255, .wrote 60, .missing, .plain⟩⟩).st.fs.res = wSt.fs.res ∧
    (refine Fix.all wc wSt ⟨some 4, true, ⟨-11, .wrote 60, .good, .plain⟩⟩).st.mem.doc.rest = wSt.mem.doc.rest := by decide

example : (wSt.fs.res.isSome ∧ failed wc wSt.fs.res ⟨0, .removed, .raises, .plain⟩ ∧
    plausible wc wSt.fs.res ⟨0, .removed, .raises, .plain⟩) := by decide

/-! ### success: reload, ACTA directly after UNIT -/

/-- **success_reloads**: a run that did not fail returns normally, leaves SHELXL's result in .res, and the object is the
    parse of that file with the user's ACTA directly after UNIT. -/
theorem success_reloads (c : Codec B R) (st : St B R) (call : Call B)
    (hst : started st call = true) (hp : plausible c st.fs.res call.out = true)
    (hf : failed c st.fs.res call.out = false) :
    ∃ b, left st.fs.res call.out.res = some b ∧
      (refine Fix.all c st call).exc = none ∧
      (refine Fix.all c st call).st.fs.res = some b ∧
      (refine Fix.all c st call).st.mem.doc = reloaded c st b := by
  obtain ⟨b, hb⟩ := left_some_of_not_failed c _ _ hf
  refine ⟨b, hb, ?_⟩
  have h := runShelxl_ok c { st.fs with ins := some (write Fix.all c (insMem st call)) } call
    (by simpa [started] using hst) hp hf
  have he := refine_of_run_ok Fix.all c st call _ b h (by simpa using hb)
  rw [refine_fs_of_run, h, he.1, he.2]
  refine ⟨rfl, by simpa using hb, ?_⟩
  obtain ⟨fs, ⟨⟨acta, cyc, rest⟩, dow, skew⟩⟩ := st
  obtain ⟨cycles, backup, o⟩ := call
  cases acta <;> cases cycles <;> simp [setCycles, removeActa, restoreActa, reloaded]

/-- ACTA is back at its place after UNIT -/
theorem acta_after_unit (c : Codec B R) (st : St B R) (call : Call B) (a : Acta)
    (ha : st.mem.doc.acta = some a)
    (hst : started st call = true) (hp : plausible c st.fs.res call.out = true)
    (hf : failed c st.fs.res call.out = false) :
    (refine Fix.all c st call).st.mem.doc.acta = some ⟨a.text, 1⟩ := by
  obtain ⟨b, _, _, _, h⟩ := success_reloads c st call hst hp hf
  rw [h]
  simp [reloaded, ha]

example : started wSt ⟨some 4, true, good 60⟩ = true ∧ plausible wc wSt.fs.res (good 60) = true ∧
    failed wc wSt.fs.res (good 60) = false ∧ (wc.parse 60).1 ≠ wSt.mem.doc := by decide

/-! ### nothing stale -/

/-- **no_stale_restore**: after any call — backup or not, success or not, any directory state including an old
    <name>.shx-bak — .res is the pre-run content or what SHELXL left, never anything else. No hypothesis. -/
theorem no_stale_restore (c : Codec B R) (st : St B R) (call : Call B) :
    (refine Fix.all c st call).st.fs.res = st.fs.res ∨
    (refine Fix.all c st call).st.fs.res = left st.fs.res call.out.res := by
  rw [refine_fs_of_run]
  obtain ⟨⟨res, ins, bak, hkl, saves⟩, m⟩ := st
  obtain ⟨cycles, backup, ⟨exit, ro, lst, con⟩⟩ := call
  simp only [runShelxl, backupStep, restoreStep, Fix.all]
  cases hkl <;> cases backup <;> cases res <;> cases ro <;>
    simp [left] <;> (repeat' split) <;> simp_all

/-! ### the in-memory model survives a run that does not complete -/

/-- **failure_keeps_model**: whenever an exception leaves `refine`, the object still has everything but ACTA untouched,
    and has an ACTA (the same text) iff it had one. -/
theorem failure_keeps_model (c : Codec B R) (st : St B R) (call : Call B)
    (he : (refine Fix.all c st call).exc ≠ none) :
    (refine Fix.all c st call).st.mem.doc.rest = st.mem.doc.rest ∧
    (∀ a, st.mem.doc.acta = some a → (refine Fix.all c st call).st.mem.doc.acta = some ⟨a.text, 1⟩) ∧
    (st.mem.doc.acta = none → (refine Fix.all c st call).st.mem.doc.acta = none) := by
  generalize hx : runShelxl Fix.all c { st.fs with ins := some (write Fix.all c (insMem st call)) } call = x
  obtain ⟨fs2, e⟩ := x
  cases e with
  | some e =>
    have h := (refine_exc_of_run_some Fix.all c st call e fs2 hx).2
    rw [h]
    obtain ⟨fs, ⟨⟨acta, cyc, rest⟩, dow, skew⟩⟩ := st
    obtain ⟨cycles, backup, o⟩ := call
    cases acta <;> cases cycles <;> simp [Fix.all, insMem, setCycles, removeActa, restoreActa]
  | none =>
    exfalso
    apply he
    cases hr : fs2.res with
    | some b => exact (refine_of_run_ok Fix.all c st call fs2 b hx hr).1
    | none =>
      -- a run that reports success has left a result file
      obtain ⟨b, hb, _⟩ := runShelxl_none Fix.all c _ call (by rw [hx])
      rw [hx] at hb
      simp [hr] at hb

/-- a crash with the backup switched off and an old backup file lying around: an exception leaves `refine` -/
example : (refine Fix.all wc wSt ⟨some 4, false, ⟨1, .wrote 0, .good, .plain⟩⟩).exc ≠ none ∧
    (refine Fix.all wc wSt ⟨some 4, false, ⟨1, .wrote 0, .good, .plain⟩⟩).st.fs.res = some 0 ∧
    (refine Fix.all wc wSt ⟨some 4, false, ⟨1, .wrote 0, .good, .plain⟩⟩).st.mem.doc.acta = some ⟨5, 1⟩ := by decide

/-! ### one call meets the whole specification; histories -/

theorem refine_meets_spec [DecidableEq B] [DecidableEq R] (c : Codec B R) (st : St B R) (call : Call B)
    (hp : plausible c st.fs.res call.out = true) :
    specStep c st call (refine Fix.all c st call) = true := by
  have hins := ins_is_model Fix.all c st call rfl
  have hstale := no_stale_restore c st call
  unfold specStep
  simp only [Bool.and_eq_true]
  refine ⟨⟨⟨by simp [specIns, hins], ?_⟩, ?_⟩, ?_⟩
  · -- specRes
    unfold specRes
    by_cases hst : started st call = true
    · by_cases hf : failed c st.fs.res call.out = true
      · by_cases hb : call.backup = true
        · simp [hst, hf, hb, (failure_restores c st call hb hp hf).1]
        · have h := runShelxl_failed c { st.fs with ins := some (write Fix.all c (insMem st call)) } call
            (by simpa [started] using hst) hp hf
          simp only [Bool.not_eq_true] at hb
          simp [hst, hf, hb, refine_fs_of_run, h]
      · obtain ⟨b, hb, _, hr, _⟩ := success_reloads c st call hst hp (by simpa using hf)
        simp [hst, hf, hr, hb]
    · have hst' : started st call = false := by simpa using hst
      have h := runShelxl_not_started Fix.all c { st.fs with ins := some (write Fix.all c (insMem st call)) } call
        (by simpa [started] using hst')
      simp [hst', refine_fs_of_run, h]
  · -- specBak
    unfold specBak
    by_cases hsb : (started st call && call.backup) = true
    · have hst : started st call = true := by simp_all
      have hb : call.backup = true := by simp_all
      obtain ⟨r0, hr0⟩ : ∃ r0, st.fs.res = some r0 := by
        cases h : st.fs.res with
        | none => simp [started, hb, h] at hst
        | some r0 => exact ⟨r0, rfl⟩
      by_cases hf : failed c st.fs.res call.out = true
      · have h := runShelxl_failed c { st.fs with ins := some (write Fix.all c (insMem st call)) } call
          (by simpa [started] using hst) hp hf
        rw [refine_fs_of_run, h]
        rw [hr0] at hf
        simp [hst, hf, hb, backedUp, hr0]
      · have h := runShelxl_ok c { st.fs with ins := some (write Fix.all c (insMem st call)) } call
          (by simpa [started] using hst) hp (by simpa using hf)
        rw [refine_fs_of_run, h]
        simp [hst, hb, backedUp, hr0]
    · simp [hsb]
  · -- specMem
    unfold specMem
    by_cases hok : (started st call && !failed c st.fs.res call.out) = true
    · have hst : started st call = true := by simp_all
      have hf : failed c st.fs.res call.out = false := by simp_all
      obtain ⟨b, hb, he, _, hm⟩ := success_reloads c st call hst hp hf
      simp [hok, he, hb, hm]
    · have hexc : (refine Fix.all c st call).exc ≠ none := by
        by_cases hst : started st call = true
        · have hf : failed c st.fs.res call.out = true := by simp_all
          have h := runShelxl_failed c { st.fs with ins := some (write Fix.all c (insMem st call)) } call
            (by simpa [started] using hst) hp hf
          rw [(refine_exc_of_run_some Fix.all c st call _ _ h).1]; simp
        · have hst' : started st call = false := by simpa using hst
          have h := runShelxl_not_started Fix.all c { st.fs with ins := some (write Fix.all c (insMem st call)) } call
            (by simpa [started] using hst')
          rw [(refine_exc_of_run_some Fix.all c st call _ _ h).1]; simp
      obtain ⟨h1, h2, h3⟩ := failure_keeps_model c st call hexc
      have hsome : (refine Fix.all c st call).exc.isSome = true := by
        cases h : (refine Fix.all c st call).exc <;> simp_all
      cases ha : st.mem.doc.acta with
      | none => simp [hok, hsome, h1, h3 ha]
      | some a => simp [hok, hsome, h1, h2 a ha]

example : plausible wc wSt.fs.res (good 60) = true ∧
    specStep wc wSt ⟨some 4, true, good 60⟩ (refine Fix.all wc wSt ⟨some 4, true, good 60⟩) = true := by decide

/-- **history_meets_spec**: over any sequence of `refine()` calls (the caller catching what is raised), every call meets
    the specification with respect to the state the previous call left — by induction over the outcome list. -/
theorem history_meets_spec [DecidableEq B] [DecidableEq R] (c : Codec B R) (calls : List (Call B)) :
    ∀ st : St B R, history c st calls = true →
      traceSpec c st (trace Fix.all c st calls) = true := by
  induction calls with
  | nil => intro st _; rfl
  | cons call t ih =>
    intro st hh
    simp only [history, Bool.and_eq_true] at hh
    obtain ⟨hp, ht⟩ := hh
    simp only [trace, traceSpec, Bool.and_eq_true]
    exact ⟨refine_meets_spec c st call hp, ih _ ht⟩

/-- **steps_meet_spec**: histories in which the user re-reads the model between calls (`reload()`, `read_file()` of a
    rewritten file — with or without ACTA, with another ACTA): every call meets the specification with respect to the
    model as it is right before that call. -/
theorem steps_meet_spec [DecidableEq B] [DecidableEq R] (c : Codec B R) (steps : List (Step B)) :
    ∀ st : St B R, stepsPlausible c st steps = true →
      ∀ e ∈ traceSteps Fix.all c st steps, specStep c e.1 e.2.1 e.2.2 = true := by
  induction steps with
  | nil => intro st _ e he; simp [traceSteps] at he
  | cons s t ih =>
    intro st hp e he
    cases s with
    | call k =>
      simp only [stepsPlausible, Bool.and_eq_true] at hp
      simp only [traceSteps, List.mem_cons] at he
      rcases he with rfl | he
      · exact refine_meets_spec c st k hp.1
      · exact ih _ hp.2 e he
    | load w =>
      simp only [stepsPlausible, traceSteps] at hp he
      cases hl : load c st w with
      | none => simp [hl] at he
      | some st' =>
        rw [hl] at hp he
        exact ih st' hp e he

/-- how a call that is not a completed good run ends -/
theorem exc_of_not_ok (c : Codec B R) (st : St B R) (call : Call B)
    (hp : plausible c st.fs.res call.out = true)
    (hok : (started st call && !failed c st.fs.res call.out) = false) :
    (refine Fix.all c st call).exc ≠ none := by
  by_cases hst : started st call = true
  · have hf : failed c st.fs.res call.out = true := by simp_all
    have h := runShelxl_failed c { st.fs with ins := some (write Fix.all c (insMem st call)) } call
      (by simpa [started] using hst) hp hf
    rw [(refine_exc_of_run_some Fix.all c st call _ _ h).1]; simp
  · have hst' : started st call = false := by simpa using hst
    have h := runShelxl_not_started Fix.all c { st.fs with ins := some (write Fix.all c (insMem st call)) } call
      (by simpa [started] using hst')
    rw [(refine_exc_of_run_some Fix.all c st call _ _ h).1]; simp

/-- **no_acta_from_nowhere**: a model without ACTA has none after the call either, unless the result file SHELXL left
    carries one — whatever earlier calls on the same object took out of earlier models. -/
theorem no_acta_from_nowhere (c : Codec B R) (st : St B R) (call : Call B)
    (hp : plausible c st.fs.res call.out = true) (ha : st.mem.doc.acta = none) :
    (refine Fix.all c st call).st.mem.doc.acta = none ∨
    ∃ b, left st.fs.res call.out.res = some b ∧ (refine Fix.all c st call).st.mem.doc.acta = (c.parse b).1.acta := by
  by_cases hok : (started st call && !failed c st.fs.res call.out) = true
  · have hst : started st call = true := by simp_all
    have hf : failed c st.fs.res call.out = false := by simp_all
    obtain ⟨b, hb, _, _, hm⟩ := success_reloads c st call hst hp hf
    exact Or.inr ⟨b, hb, by rw [hm]; simp [reloaded, ha]⟩
  · exact Or.inl ((failure_keeps_model c st call (exc_of_not_ok c st call hp (by simpa using hok))).2.2 ha)

/-- good run of a model with ACTA, re-read of the ACTA-free result, crash, re-read of a file with ACTA, good run -/
def wSteps : List (Step Nat) :=
  [.call ⟨some 4, true, good 60⟩, .load none, .call ⟨none, true, ⟨-9, .wrote 30, .missing, .plain⟩⟩, .load (some 71),
   .call ⟨some 2, false, good 80⟩]

example : stepsPlausible wc wSt wSteps = true ∧ (traceSteps Fix.all wc wSt wSteps).length = 3 ∧
    (traceSteps Fix.all wc wSt wSteps).map (fun e => (e.1.mem.doc.acta, e.2.2.st.mem.doc.acta)) =
      [(some ⟨5, 3⟩, some ⟨5, 1⟩), (none, none), (some ⟨5, 3⟩, some ⟨5, 1⟩)] := by decide

/-- every call takes a backup -/
def allBackup : List (Call B) → Bool
  | [] => true
  | call :: t => call.backup && allBackup t

/-- result files along a history are empty or real -/
def allPlausible (c : Codec B R) : Option B → List (Call B) → Bool
  | _, [] => true
  | r0, call :: t =>
    plausible c r0 call.out && allPlausible c (if failed c r0 call.out then r0 else left r0 call.out.res) t

/-- **res_is_last_success**: when every call takes its backup, then after any history the user's .res is the result
    of the last successful run, or the file he started with — nothing is ever lost. -/
theorem res_is_last_success (c : Codec B R) (calls : List (Call B)) :
    ∀ st : St B R, st.fs.hkl = true → st.fs.res.isSome = true → allBackup calls = true →
      allPlausible c st.fs.res calls = true →
      (run Fix.all c st calls).fs.res = lastGood c st.fs.res calls := by
  induction calls with
  | nil => intro st _ _ _ _; rfl
  | cons call t ih =>
    intro st hh hr hb hp
    simp only [allBackup, Bool.and_eq_true] at hb
    simp only [allPlausible, Bool.and_eq_true] at hp
    have hst : started st call = true := by simp [started, hh, hr]
    have hhkl : (refine Fix.all c st call).st.fs.hkl = true := by
      rw [refine_fs_of_run]
      obtain ⟨⟨res, ins, bak, hkl, saves⟩, m⟩ := st
      obtain ⟨cycles, backup, ⟨exit, ro, lst, con⟩⟩ := call
      simp only [runShelxl, backupStep, restoreStep, Fix.all]
      cases hkl <;> cases backup <;> cases res <;> cases ro <;>
        simp [left] <;> (repeat' split) <;> simp_all
    simp only [run, lastGood]
    by_cases hf : failed c st.fs.res call.out = true
    · have h := (failure_restores c st call hb.1 hp.1 hf).1
      have := ih (refine Fix.all c st call).st hhkl (by rw [h]; exact hr) hb.2 (by rw [h]; simpa [hf] using hp.2)
      rw [this, h]; simp [hf]
    · have hf' : failed c st.fs.res call.out = false := by simpa using hf
      obtain ⟨b, hb', _, hres, _⟩ := success_reloads c st call hst hp.1 hf'
      have := ih (refine Fix.all c st call).st hhkl (by rw [hres]; rfl) hb.2
        (by rw [hres, ← hb']; simpa [hf'] using hp.2)
      rw [this, hres, hb']; simp [hf']

/-- **acta_survives_history**: an object that has an ACTA card has one (the same) after any history of calls —
    no hypothesis on outcomes, directory or backup flag. -/
theorem acta_survives_history (c : Codec B R) (calls : List (Call B)) :
    ∀ (st : St B R) (a : Acta), st.mem.doc.acta = some a →
      ∃ a', (run Fix.all c st calls).mem.doc.acta = some a' ∧ a'.text = a.text := by
  induction calls with
  | nil => intro st a ha; exact ⟨a, ha, rfl⟩
  | cons call t ih =>
    intro st a ha
    simp only [run]
    have : (refine Fix.all c st call).st.mem.doc.acta = some ⟨a.text, 1⟩ := by
      cases he : (refine Fix.all c st call).exc with
      | some e => exact (failure_keeps_model c st call (by simp [he])).2.1 a ha
      | none =>
        generalize hx : runShelxl Fix.all c { st.fs with ins := some (write Fix.all c (insMem st call)) } call = x
        obtain ⟨fs2, e⟩ := x
        cases e with
        | some e => rw [(refine_exc_of_run_some Fix.all c st call e fs2 hx).1] at he; simp at he
        | none =>
          cases hr : fs2.res with
          | none =>
            rw [(refine_of_run_none Fix.all c st call fs2 hx hr).1] at he; simp at he
          | some b =>
            rw [(refine_of_run_ok Fix.all c st call fs2 b hx hr).2]
            obtain ⟨fs, ⟨⟨acta, cyc, rest⟩, dow, skew⟩⟩ := st
            obtain ⟨cycles, backup, o⟩ := call
            cases cycles <;> simp_all [setCycles, removeActa, restoreActa]
    obtain ⟨a', h1, h2⟩ := ih _ _ this
    exact ⟨a', h1, by simpa using h2⟩

/-- a three-call history (good run, crash that removes the result, good run) inside all hypotheses -/
def wCalls : List (Call Nat) :=
  [⟨some 4, true, good 60⟩, ⟨none, true, ⟨1, .removed, .raises, .plain⟩⟩, ⟨some 2, true, ⟨0, .wrote 70, .missing, .plain⟩⟩]

example : history wc wSt wCalls = true ∧ allBackup wCalls = true ∧
    allPlausible wc wSt.fs.res wCalls = true ∧ lastGood wc wSt.fs.res wCalls = some 70 := by decide

/-! ### what SHELXL prints and what it leaves in the .lst are advice: they have no influence on the protocol -/

/-- **output_cannot_abort**: whatever the display filter does with the program's output short of 'cannot open hkl' —
    including raising (a byte that is not UTF-8, a line cut short) — and whatever the list file looks like, `refine` does
    exactly what it does for a plain banner and a well-formed list file: same files, same object, same way of ending.
    All states, all calls, no hypothesis. -/
theorem output_cannot_abort (c : Codec B R) (st : St B R) (cycles : Option Int) (backup : Bool)
    (exit : Int) (ro : ResOut B) (lst : LstOut) (con : ConOut) (hc : con ≠ .nohkl) :
    refine Fix.all c st ⟨cycles, backup, ⟨exit, ro, lst, con⟩⟩ =
    refine Fix.all c st ⟨cycles, backup, ⟨exit, ro, .good, .plain⟩⟩ := by
  have key : ∀ fs : FS B, runShelxl Fix.all c fs ⟨cycles, backup, ⟨exit, ro, lst, con⟩⟩ =
      runShelxl Fix.all c fs ⟨cycles, backup, ⟨exit, ro, .good, .plain⟩⟩ := by
    intro fs
    cases con <;> cases lst <;> simp_all [runShelxl, Fix.all]
  show finish _ _ _ _ (runShelxl _ _ _ _) = finish _ _ _ _ (runShelxl _ _ _ _)
  rw [key]

/-- the split into failed / succeeded does not look at the output or the list file either -/
theorem failed_indep (c : Codec B R) (pre : Option B) (exit : Int) (ro : ResOut B) (lst : LstOut) (con : ConOut) :
    failed c pre ⟨exit, ro, lst, con⟩ = failed c pre ⟨exit, ro, .good, .plain⟩ := rfl

/-- **nohkl_restores**: SHELXL reports that it cannot open the reflection file: the call ends with an exception and, with a
    backup, the previous .res is back — whatever the status and the result file are. No hypothesis. -/
theorem nohkl_restores (c : Codec B R) (st : St B R) (call : Call B)
    (hc : call.out.con = .nohkl) (hb : call.backup = true) :
    (refine Fix.all c st call).st.fs.res = st.fs.res ∧ (refine Fix.all c st call).exc ≠ none := by
  generalize hx : runShelxl Fix.all c { st.fs with ins := some (write Fix.all c (insMem st call)) } call = x
  have hfs := refine_fs_of_run Fix.all c st call
  rw [hx] at hfs
  obtain ⟨fs2, e⟩ := x
  have key : fs2.res = st.fs.res ∧ e ≠ none := by
    obtain ⟨⟨res, ins, bak, hkl, saves⟩, m⟩ := st
    obtain ⟨cycles, backup, ⟨exit, ro, lst, con⟩⟩ := call
    simp only at hc hb
    subst hc hb
    revert hx
    simp only [runShelxl, backupStep, restoreStep, Fix.all]
    cases hkl <;> cases res <;> cases ro <;>
      simp [left] <;> (repeat' split) <;> simp_all <;> (intro h1 h2; subst h1; subst h2; simp_all)
  cases e with
  | none => exact absurd rfl key.2
  | some e =>
    have he := refine_exc_of_run_some Fix.all c st call e fs2 hx
    rw [hfs, he.1]
    exact ⟨key.1, by simp⟩

/-- inside the hypothesis: 'cannot open hkl' with status 1 and no new result … -/
example : plausible wc wSt.fs.res ⟨1, .untouched, .missing, .nohkl⟩ = true ∧
    failed wc wSt.fs.res ⟨1, .untouched, .missing, .nohkl⟩ = true := by decide

/-- … and the point `plausible` excludes: the same report together with status 0 and a fresh result of 60 bytes — a success
    by the wording of the property, a failure for the code (previous file back, exception) -/
example : plausible wc wSt.fs.res ⟨0, .wrote 60, .good, .nohkl⟩ = false ∧
    (refine Fix.all wc wSt ⟨some 4, true, ⟨0, .wrote 60, .good, .nohkl⟩⟩).st.fs.res = wSt.fs.res ∧
    (refine Fix.all wc wSt ⟨some 4, true, ⟨0, .wrote 60, .good, .nohkl⟩⟩).exc = some .SystemExit := by decide

/-! ### the line list: ACTA goes where UNIT is in the list as it is after the run -/

section Lines
variable {T : Type}

/-- the list has no ACTA entry -/
def actaFree (l : List (Line T)) : Bool := l.all fun x => !x.isActa

/-- the list has a UNIT entry -/
def hasUnit (l : List (Line T)) : Bool := l.any Line.isUnit

/-- number of ACTA entries -/
def countActa (l : List (Line T)) : Nat := (l.filter Line.isActa).length

@[simp] theorem sansActa_cons (x : Line T) (t : List (Line T)) :
    sansActa (x :: t) = if x.isActa then sansActa t else x :: sansActa t := by
  cases x <;> simp [sansActa, List.filter_cons]

@[simp] theorem countActa_cons (x : Line T) (t : List (Line T)) :
    countActa (x :: t) = (if x.isActa then 1 else 0) + countActa t := by
  cases x <;> simp [countActa, List.filter_cons] <;> omega

@[simp] theorem squeeze_cons (x : Line T) (t : List (Line T)) :
    squeeze (x :: t) = if x.isGap then squeeze t else x :: squeeze t := by
  cases x <;> simp [squeeze, List.filter_cons]

@[simp] theorem actaFree_cons (x : Line T) (t : List (Line T)) :
    actaFree (x :: t) = (!x.isActa && actaFree t) := by
  simp [actaFree]

@[simp] theorem hasUnit_cons (x : Line T) (t : List (Line T)) :
    hasUnit (x :: t) = (x.isUnit || hasUnit t) := by
  simp [hasUnit]

theorem putActa_isSome (n : Nat) (l : List (Line T)) : (putActa n l).isSome = hasUnit l := by
  induction l with
  | nil => rfl
  | cons x t ih => cases x <;> simp_all [putActa]

/-- ACTA is the entry directly after UNIT — for every list: any number of entries of any kind before, between, after -/
theorem putActa_next (n : Nat) (l l' : List (Line T)) (h : putActa n l = some l') :
    afterUnit l' = some (.acta n) := by
  induction l generalizing l' with
  | nil => simp [putActa] at h
  | cons x t ih =>
    cases x with
    | unit => simp only [putActa, Option.some.injEq] at h; subst h; simp [afterUnit]
    | acta m =>
      simp only [putActa, Option.map_eq_some_iff] at h
      obtain ⟨t', ht, rfl⟩ := h
      simpa [afterUnit] using ih t' ht
    | gap =>
      simp only [putActa, Option.map_eq_some_iff] at h
      obtain ⟨t', ht, rfl⟩ := h
      simpa [afterUnit] using ih t' ht
    | other tag =>
      simp only [putActa, Option.map_eq_some_iff] at h
      obtain ⟨t', ht, rfl⟩ := h
      simpa [afterUnit] using ih t' ht

/-- nothing else moves: without its ACTA cards the list is what it was, and exactly one card was added -/
theorem putActa_rest (n : Nat) (l l' : List (Line T)) (h : putActa n l = some l') :
    sansActa l' = sansActa l ∧ countActa l' = countActa l + 1 := by
  induction l generalizing l' with
  | nil => simp [putActa] at h
  | cons x t ih =>
    cases x with
    | unit =>
      simp only [putActa, Option.some.injEq] at h; subst h
      simp; omega
    | acta m =>
      simp only [putActa, Option.map_eq_some_iff] at h
      obtain ⟨t', ht, rfl⟩ := h
      have := ih t' ht
      simp [this.1, this.2]; omega
    | gap =>
      simp only [putActa, Option.map_eq_some_iff] at h
      obtain ⟨t', ht, rfl⟩ := h
      have := ih t' ht
      simp [this.1, this.2]
    | other tag =>
      simp only [putActa, Option.map_eq_some_iff] at h
      obtain ⟨t', ht, rfl⟩ := h
      have := ih t' ht
      simp [this.1, this.2]

/-- … and by index: `index_of(acta) − index_of(unit) = 1`. This is the `off := 1` of the abstract `restoreActa`. -/
theorem putActa_docActa (n : Nat) (l l' : List (Line T)) (hfree : actaFree l = true) (h : putActa n l = some l') :
    docActa l' = some ⟨n, 1⟩ := by
  have key : ∀ (l l' : List (Line T)), actaFree l = true → putActa n l = some l' →
      ∃ u, idxOf Line.isUnit l' = some u ∧ idxOf Line.isActa l' = some (u + 1) ∧ actaText l' = some n := by
    intro l
    induction l with
    | nil => intro l' _ h; simp [putActa] at h
    | cons x t ih =>
      intro l' hfree h
      cases x with
      | unit =>
        simp only [putActa, Option.some.injEq] at h; subst h
        exact ⟨0, by simp [idxOf, actaText]⟩
      | acta m => simp at hfree
      | gap =>
        simp only [putActa, Option.map_eq_some_iff] at h
        obtain ⟨t', ht, rfl⟩ := h
        obtain ⟨u, h1, h2, h3⟩ := ih t' (by simpa using hfree) ht
        exact ⟨u + 1, by simp [idxOf, actaText, h1, h2, h3]⟩
      | other tag =>
        simp only [putActa, Option.map_eq_some_iff] at h
        obtain ⟨t', ht, rfl⟩ := h
        obtain ⟨u, h1, h2, h3⟩ := ih t' (by simpa using hfree) ht
        exact ⟨u + 1, by simp [idxOf, actaText, h1, h2, h3]⟩
  obtain ⟨u, h1, h2, h3⟩ := key l l' hfree h
  simp only [docActa, h1, h2, h3]
  congr 1
  simp only [Acta.mk.injEq, true_and]
  omega

/-- the written file: dropping the entries that print as nothing commutes with putting ACTA back, so in the FILE the
    ACTA line follows the UNIT line whatever placeholders the list holds -/
theorem putActa_squeeze (n : Nat) (l : List (Line T)) :
    (putActa n l).map squeeze = putActa n (squeeze l) := by
  induction l with
  | nil => rfl
  | cons x t ih =>
    cases x with
    | unit => simp [putActa]
    | acta m =>
      rw [squeeze_cons]
      simp only [Line.isGap, Bool.false_eq_true, if_false, putActa]
      rw [← ih]
      cases h : putActa n t <;> simp
    | gap =>
      rw [squeeze_cons]
      simp only [Line.isGap, if_true, putActa]
      rw [← ih]
      cases h : putActa n t <;> simp
    | other tag =>
      rw [squeeze_cons]
      simp only [Line.isGap, Bool.false_eq_true, if_false, putActa]
      rw [← ih]
      cases h : putActa n t <;> simp

theorem actaText_none_of_free (l : List (Line T)) (h : actaFree l = true) : actaText l = none := by
  induction l with
  | nil => rfl
  | cons x t ih => cases x <;> simp_all [actaText]

theorem sansActa_of_free (l : List (Line T)) (h : actaFree l = true) : sansActa l = l := by
  induction l with
  | nil => rfl
  | cons x t ih => cases x <;> simp_all

theorem actaFree_of_count (l : List (Line T)) (h : countActa l = 0) : actaFree l = true := by
  induction l with
  | nil => rfl
  | cons x t ih => cases x <;> simp_all <;> omega

/-- taking the one ACTA card out leaves none: the .ins is written from a list without ACTA -/
theorem delActa_free (l : List (Line T)) (h : countActa l ≤ 1) : actaFree (delActa l) = true := by
  induction l with
  | nil => rfl
  | cons x t ih =>
    cases x with
    | acta m => exact actaFree_of_count t (by simp at h; omega)
    | unit => simpa [delActa] using ih (by simpa using h)
    | gap => simpa [delActa] using ih (by simpa using h)
    | other tag => simpa [delActa] using ih (by simpa using h)

theorem delActa_sans (l : List (Line T)) (h : countActa l ≤ 1) : delActa l = sansActa l := by
  induction l with
  | nil => rfl
  | cons x t ih =>
    cases x with
    | acta m =>
      have := sansActa_of_free t (actaFree_of_count t (by simp at h; omega))
      simp [delActa, this]
    | unit => simpa [delActa] using ih (by simpa using h)
    | gap => simpa [delActa] using ih (by simpa using h)
    | other tag => simpa [delActa] using ih (by simpa using h)

theorem delActa_hasUnit (l : List (Line T)) : hasUnit (delActa l) = hasUnit l := by
  induction l with
  | nil => rfl
  | cons x t ih => cases x <;> simp_all [delActa]

/-- putting the user's card (if any) into an ACTA-free list with a UNIT line meets the line-level specification -/
theorem putUser_spec [DecidableEq T] (user : Option Nat) (base : List (Line T)) (hfree : actaFree base = true)
    (hu : user ≠ none → hasUnit base = true) :
    ∃ l', putUser user base = some l' ∧
      specLines user base l' = true ∧ (∀ n, user = some n → docActa l' = some ⟨n, 1⟩) := by
  cases user with
  | none => exact ⟨base, rfl, by simp [specLines], by simp⟩
  | some n =>
    have hsome : (putActa n base).isSome = true := by
      rw [putActa_isSome]; exact hu (by simp)
    obtain ⟨l', hl'⟩ := Option.isSome_iff_exists.mp hsome
    refine ⟨l', by simpa [putUser] using hl', ?_, ?_⟩
    · have hr := putActa_rest n base l' hl'
      have hn := putActa_next n base l' hl'
      have hc : (l'.filter Line.isActa).length = (base.filter Line.isActa).length + 1 := hr.2
      simp [specLines, hn, hr.1, hc]
    · intro m hm
      cases hm
      exact putActa_docActa n base l' hfree hl'

/-- **lines_after_good_run**: for EVERY list the object held before the call (blank lines, continuation lines, absorbed
    lines anywhere, ACTA anywhere) and EVERY list the reload builds from the new result (no ACTA: the .ins had none; a
    UNIT line), the list in memory after a good run is the new one with exactly the user's ACTA card directly after UNIT
    (by entry and by index). The two lists need have nothing in common — no position is carried from one to the other. -/
theorem lines_after_good_run [DecidableEq T] (l ln : List (Line T))
    (hfree : actaFree ln = true) (hu : hasUnit ln = true) :
    ∃ l', linesAfter l (some ln) = some l' ∧ specLines (actaText l) ln l' = true ∧
      (∀ n, actaText l = some n → docActa l' = some ⟨n, 1⟩) :=
  putUser_spec (actaText l) ln hfree (fun _ => hu)

/-- **lines_after_failed_run**: a call that raised leaves the lines the object had, its ACTA card directly after UNIT -/
theorem lines_after_failed_run [DecidableEq T] (l : List (Line T)) (h1 : countActa l ≤ 1) (hu : hasUnit l = true) :
    ∃ l', linesAfter l none = some l' ∧ specLines (actaText l) (sansActa l) l' = true ∧
      (∀ n, actaText l = some n → docActa l' = some ⟨n, 1⟩) := by
  have := putUser_spec (actaText l) (delActa l) (delActa_free l h1) (fun _ => by rw [delActa_hasUnit]; exact hu)
  rw [delActa_sans l h1] at this
  simpa [linesAfter, delActa_sans l h1] using this

/-- a file as users have them: blank line between ZERR and LATT, SFAC continued over two lines, ACTA three entries behind
    UNIT; the result SHELXL derives from the .ins has none of the placeholders and lines of its own after TITL -/
def wLines : List (Line Nat) :=
  [.other 0, .other 1, .other 2, .gap, .other 3, .other 4, .gap, .unit, .other 5, .other 6, .acta 7, .other 8]
def wNew : List (Line Nat) :=
  [.other 0, .other 20, .other 21, .other 1, .other 2, .other 3, .other 4, .unit, .other 5, .other 6, .other 8, .other 9]

example : countActa wLines ≤ 1 ∧ actaFree wNew = true ∧ hasUnit wNew = true ∧ hasUnit wLines = true ∧
    docActa wLines = some ⟨7, 3⟩ ∧
    linesAfter wLines (some wNew) = some [.other 0, .other 20, .other 21, .other 1, .other 2, .other 3, .other 4, .unit,
      .acta 7, .other 5, .other 6, .other 8, .other 9] := by decide

/-- a position remembered from the list BEFORE the run (UNIT + 1 there, once ACTA is out) is the wrong place in the list
    AFTER the reload whenever an entry above UNIT was not written back: ACTA lands behind the line that follows UNIT -/
theorem stale_position_fails_on :
    (idxOf Line.isUnit (delActa wLines)).map (· + 1) = some 8 ∧
    docActa (putAt 8 7 (squeeze (delActa wLines))) = some ⟨7, 3⟩ ∧
    afterUnit (putAt 8 7 (squeeze (delActa wLines))) ≠ some (.acta 7) := by decide

end Lines

section LinesRefine
variable {T : Type}

theorem idxOf_isSome (p : Line T → Bool) (l : List (Line T)) : (idxOf p l).isSome = l.any p := by
  induction l with
  | nil => rfl
  | cons x t ih => by_cases hx : p x = true <;> simp_all [idxOf]

theorem actaText_isSome (l : List (Line T)) : (actaText l).isSome = l.any Line.isActa := by
  induction l with
  | nil => rfl
  | cons x t ih => cases x <;> simp_all [actaText, Line.isActa]

theorem delActa_of_none (l : List (Line T)) (h : actaText l = none) : delActa l = l := by
  induction l with
  | nil => rfl
  | cons x t ih => cases x <;> simp_all [actaText, delActa]

theorem docActa_text (l : List (Line T)) (a : Acta) (h : docActa l = some a) : actaText l = some a.text := by
  unfold docActa at h
  split at h
  · rename_i n i u hn _ _
    simp only [Option.some.injEq] at h
    subst h
    exact hn
  · simp at h

theorem docActa_none (l : List (Line T)) (hu : hasUnit l = true) (h : docActa l = none) : actaText l = none := by
  cases ht : actaText l with
  | none => rfl
  | some n =>
    exfalso
    have hi : (idxOf Line.isActa l).isSome = true := by
      rw [idxOf_isSome, ← actaText_isSome, ht]; rfl
    have hq : (idxOf Line.isUnit l).isSome = true := by
      rw [idxOf_isSome]; exact hu
    obtain ⟨i, hi⟩ := Option.isSome_iff_exists.mp hi
    obtain ⟨u, hq⟩ := Option.isSome_iff_exists.mp hq
    simp [docActa, ht, hi, hq] at h

/-- the abstract model's ACTA (`Doc.acta`, a text and an offset) is the list-level one. Taking the card out:
    `removeActa` on the document is `delActa` on any line list that shows the same ACTA … -/
theorem removeActa_lines (l : List (Line T)) (m : Mem R) (h1 : countActa l ≤ 1) (hu : hasUnit l = true)
    (hrep : docActa l = m.doc.acta) :
    docActa (delActa l) = (removeActa m).1.doc.acta ∧ actaText l = (removeActa m).2.map (·.text) := by
  cases ha : m.doc.acta with
  | none =>
    rw [ha] at hrep
    have ht := docActa_none l hu hrep
    simp [removeActa, ha, ht, delActa_of_none l ht, hrep]
  | some a =>
    rw [ha] at hrep
    have hnone : docActa (delActa l) = none := by
      simp [docActa, actaText_none_of_free _ (delActa_free l h1)]
    simp [removeActa, ha, hnone, docActa_text l a hrep]

/-- … and putting it back: `restoreActa`'s `off := 1` is `putActa` on ANY ACTA-free list with a UNIT line — the list of
    before the run (a run that did not complete) or the list the reload built, whatever their lengths -/
theorem restoreActa_lines (l l' : List (Line T)) (m : Mem R) (a : Acta) (hfree : actaFree l = true)
    (h : putActa a.text l = some l') :
    docActa l' = (restoreActa (some a) m).doc.acta := by
  rw [putActa_docActa a.text l l' hfree h]
  simp [restoreActa]

end LinesRefine

/-! ### witnesses: the code as found breaks each statement (kept; `Fix` with the one repair missing) -/

/-- C19_1: result file missing → `os.stat` raises before the restore: the previous .res is not back -/
theorem failure_restores_orig_fails_on_missing_res :
    ¬ ((refine { Fix.all with stat := false } wc wSt' ⟨some 4, true, ⟨0, .removed, .good, .plain⟩⟩).st.fs.res = wSt'.fs.res) := by
  decide

/-- C19_2: malformed .lst → IndexError before the status is looked at: a crashed run is not rolled back … -/
theorem failure_restores_orig_fails_on_bad_lst :
    ¬ ((refine { Fix.all with lst := false } wc wSt' ⟨some 4, true, ⟨1, .wrote 0, .raises, .plain⟩⟩).st.fs.res = wSt'.fs.res) := by
  decide

/-- … and a good run is not reloaded (the object is the old one, without its ACTA) -/
theorem success_reloads_orig_fails_on_bad_lst :
    ¬ ((refine { Fix.all with lst := false } wc wSt' ⟨some 4, true, ⟨0, .wrote 60, .raises, .plain⟩⟩).st.mem.doc
        = reloaded wc wSt' 60) := by
  decide

/-- C19_3: backup off, old <name>.shx-bak (33) in the directory → it is copied over what SHELXL left -/
theorem no_stale_restore_orig_fails_on :
    ¬ ((refine { Fix.all with stale := false } wc wSt' ⟨some 4, false, ⟨1, .wrote 0, .good, .plain⟩⟩).st.fs.res = wSt'.fs.res ∨
       (refine { Fix.all with stale := false } wc wSt' ⟨some 4, false, ⟨1, .wrote 0, .good, .plain⟩⟩).st.fs.res = some 0) := by
  decide

/-- the same through the code's own backup: good run with backup, then a crash with backup off -/
theorem no_stale_restore_orig_fails_on_history :
    (run { Fix.all with stale := false } wc wSt' [⟨some 4, true, good 60⟩, ⟨none, false, ⟨1, .wrote 0, .good, .plain⟩⟩]).fs.res
      = some 21 := by
  decide

/-- C19_4: a failed run and then a good one: the user's ACTA is gone for good -/
theorem acta_survives_orig_fails_on :
    (run { Fix.all with acta := false } wc wSt' [⟨some 4, true, ⟨1, .wrote 0, .good, .plain⟩⟩, ⟨none, true, good 60⟩]).mem.doc.acta
      = none := by
  decide

/-- C19_5: SHELXL prints a byte that is not UTF-8 (or a line the display filter chokes on) and crashes: the exception
    leaves the reading loop before the status is looked at — the emptied result is not rolled back … -/
theorem failure_restores_orig_fails_on_output :
    ¬ ((refine { Fix.all with con := false } wc wSt' ⟨some 4, true, ⟨1, .wrote 0, .good, .raises⟩⟩).st.fs.res
        = wSt'.fs.res) := by
  decide

/-- … and a good run is not reloaded -/
theorem success_reloads_orig_fails_on_output :
    ¬ ((refine { Fix.all with con := false } wc wSt' ⟨some 4, true, ⟨0, .wrote 60, .good, .raises⟩⟩).st.mem.doc
        = reloaded wc wSt' 60) := by
  decide

/-- C19_5, 'CANNOT OPEN FILE …hkl': the filter left with `sys.exit()` on the spot, the backup was never copied back -/
theorem failure_restores_orig_fails_on_nohkl :
    ¬ ((refine { Fix.all with con := false } wc wSt' ⟨some 4, true, ⟨1, .wrote 0, .good, .nohkl⟩⟩).st.fs.res
        = wSt'.fs.res) := by
  decide

/-- all of them together, the tree as found: result removed with exit 0 → FileNotFoundError, file lost, ACTA lost -/
theorem orig_loses_model :
    (refine Fix.none wc wSt' ⟨some 4, true, ⟨0, .removed, .good, .plain⟩⟩).st.fs.res = none ∧
    (refine Fix.none wc wSt' ⟨some 4, true, ⟨0, .removed, .good, .plain⟩⟩).exc = some .FileNotFoundError ∧
    (refine Fix.none wc wSt' ⟨some 4, true, ⟨0, .removed, .good, .plain⟩⟩).st.mem.doc.acta = none := by
  decide

end Shelx.C19

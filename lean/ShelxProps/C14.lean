/-
  C14 — property theorems (model: ShelxModel/C14.lean).            PARTIAL, see below.

  Quantified over ALL number types `K` with `+ - *` and a decidable order (so over `Float` as the driver runs it
  and over `Rat/ℝ`), ALL kernels (any `vector_length`, any `floor`, any thresholds), ALL operator lists, ALL
  asymmetric units, ALL lists of needed operations / SDM items, both values of `with_qpeaks`.  No size bound:
  the proofs are fold invariants.

  Proved here (about the model of `packer` / `collect_needed_symmetry`):
    grow_prefix                     the shown originals are a prefix of the result, unchanged
    grown_atoms_are_images          every other atom is `R x + t + (h,k,l)` of an original non-Q atom (operator of the
                                    list, integer translation), same element / PART / sof / U, flagged symmgen
    no_coincident_same_part         no added atom of PART >= 0 lies within the duplicate distance of an earlier atom
                                    of its PART; with originals that do not coincide: no two atoms of the result do
    bonded_images_present_partial   completeness of collect + packer under named hypotheses
  NOT proved, checked by the harness only (brute-force oracle): that the SDM items / molecule numbers handed in are
  right (C13), i.e. that "bonded image" implies a covalent SDM item, and that every added fragment image is itself
  bonded to the asymmetric unit (open finding `merged-fragments`).
  Open findings (full-strength statement false, witness proved below): PART < 0 coincidence, the `d_min + 0.2`
  window, the single wrapped translation per operator.
-/
import ShelxModel.C14
import ShelxModel.Extracted.C14Consts
import Mathlib.Tactic.Ring
import Mathlib.Tactic.Linarith

namespace Shelx.C14

/-! ### generic facts about `foldlM` in `Option` -/

theorem foldlM_inv {α β : Type} (f : β → α → Option β) (P : β → Prop) (l : List α) :
    ∀ (b r : β), P b → (∀ s a s', P s → a ∈ l → f s a = some s' → P s') → l.foldlM f b = some r → P r := by
  induction l with
  | nil => intro b r hb _ h; simp [List.foldlM] at h; exact h ▸ hb
  | cons a t ih =>
    intro b r hb hstep h
    rw [List.foldlM_cons] at h
    cases hf : f b a with
    | none => simp [hf] at h
    | some s =>
      simp only [hf, Option.bind_eq_bind, Option.bind_some] at h
      exact ih s r (hstep b a s hb (List.mem_cons_self ..) hf)
        (fun s₁ x s₂ h₁ hx h₂ => hstep s₁ x s₂ h₁ (List.mem_cons_of_mem _ hx) h₂) h

/-- if the fold visits `a`, establishes `Q` there, and every step preserves `Q`, then `Q` holds at the end -/
theorem foldlM_visit {α β : Type} (f : β → α → Option β) (Q : β → Prop) (a : α) (l : List α) :
    ∀ (b r : β), a ∈ l → (∀ s s', f s a = some s' → Q s') → (∀ s x s', Q s → f s x = some s' → Q s') →
      l.foldlM f b = some r → Q r := by
  induction l with
  | nil => intro b r ha; simp at ha
  | cons x t ih =>
    intro b r ha hQ hmono h
    rw [List.foldlM_cons] at h
    cases hf : f b x with
    | none => simp [hf] at h
    | some s =>
      simp only [hf, Option.bind_eq_bind, Option.bind_some] at h
      rcases List.mem_cons.mp ha with rfl | hat
      · exact foldlM_inv f Q t s r (hQ b s hf) (fun s₁ y s₂ h₁ _ h₂ => hmono s₁ y s₂ h₁ h₂) h
      · exact ih s r hat hQ hmono h

section
set_option linter.unusedSectionVars false
variable {K : Type} [Add K] [Sub K] [Mul K] [LT K] [LE K] [DecidableLT K] [DecidableLE K]

/-! ### one step of `packer` -/

/-- what one iteration of `for atom in asymm` can do: nothing, or append the image of a non-Q atom of the group -/
theorem packAtom_cases (ker : Kernel K) (ops : List (Op K)) (withQ : Bool) (e : Need) (shown s' : List (Atom K)) (a : Atom K)
    (h : packAtom ker ops withQ e shown a = some s') :
    s' = shown ∨ ∃ op, pyIndex ops (e.n - 1) = some op ∧ a.qpeak = false ∧ a.mol = e.group ∧
      isThere ker shown (mkImage ker op (e.h - 5) (e.k - 5) (e.l - 5) a) = false ∧
      s' = shown ++ [mkImage ker op (e.h - 5) (e.k - 5) (e.l - 5) a] := by
  unfold packAtom at h
  split at h
  · left; exact (Option.some.inj h).symm
  · split at h
    · rename_i hmol
      split at h
      · left; exact (Option.some.inj h).symm
      · rename_i hq
        split at h
        · cases h
        · split at h
          · cases h
          · rename_i op hop
            simp only at h
            split at h
            · left; exact (Option.some.inj h).symm
            · rename_i hthere
              right
              refine ⟨op, hop, by simpa using hq, hmol, by simpa using hthere, (Option.some.inj h).symm⟩
    · left; exact (Option.some.inj h).symm

theorem pyIndex_mem {α : Type} (l : List α) (i : Int) (x : α) (h : pyIndex l i = some x) : x ∈ l := by
  unfold pyIndex at h
  split at h
  · exact List.mem_of_getElem? h
  · split at h
    · exact List.mem_of_getElem? h
    · cases h

/-- `mkImage` is an image in the sense of the specification -/
theorem mkImage_isImage (ker : Kernel K) (op : Op K) (h k l : Int) (o : Atom K) (hq : o.qpeak = false) :
    IsImageOf ker op h k l o (mkImage ker op h k l o) := by
  simp [IsImageOf, mkImage, hq]

/-! ### shape of the result: prefix + images -/

/-- `added`: every atom of `rest` is the image of a non-Q original atom under an operator of the list and the
    integer translation of an entry of `need` -/
def AllImages (ker : Kernel K) (ops : List (Op K)) (asymm : List (Atom K)) (need : List Need) (rest : List (Atom K)) : Prop :=
  ∀ a ∈ rest, ∃ e ∈ need, ∃ op ∈ ops, ∃ o ∈ asymm, o.qpeak = false ∧ o.mol = e.group ∧
    IsImageOf ker op (e.h - 5) (e.k - 5) (e.l - 5) o a

theorem packer_shape (ker : Kernel K) (ops : List (Op K)) (asymm : List (Atom K)) (need : List Need) (withQ : Bool)
    (res : List (Atom K)) (h : packer ker ops asymm need withQ = some res) :
    ∃ rest, res = shownOriginals withQ asymm ++ rest ∧ AllImages ker ops asymm need rest := by
  unfold packer at h
  refine foldlM_inv (packEntry ker ops withQ asymm)
    (fun s => ∃ rest, s = shownOriginals withQ asymm ++ rest ∧ AllImages ker ops asymm need rest) need _ _
    ⟨[], by simp, by intro a ha; cases ha⟩ ?_ h
  intro s e s' hs he hstep
  unfold packEntry at hstep
  refine foldlM_inv (packAtom ker ops withQ e)
    (fun s => ∃ rest, s = shownOriginals withQ asymm ++ rest ∧ AllImages ker ops asymm need rest) asymm _ _ hs ?_ hstep
  intro t a t' ht ha hpa
  obtain ⟨rest, hrest, himg⟩ := ht
  rcases packAtom_cases ker ops withQ e t t' a hpa with rfl | ⟨op, hop, hq, hmol, _, rfl⟩
  · exact ⟨rest, hrest, himg⟩
  · refine ⟨rest ++ [mkImage ker op (e.h - 5) (e.k - 5) (e.l - 5) a], by rw [hrest, List.append_assoc], ?_⟩
    intro b hb
    rcases List.mem_append.mp hb with hb | hb
    · exact himg b hb
    · rw [List.mem_singleton] at hb
      subst hb
      exact ⟨e, he, op, pyIndex_mem ops _ op hop, a, ha, hq, hmol, mkImage_isImage ker op _ _ _ a hq⟩

/-- **grow_prefix**: the original atoms (Q-peaks only if requested) come first, unchanged -/
theorem grow_prefix (ker : Kernel K) (ops : List (Op K)) (asymm : List (Atom K)) (sdm : List (SdmItem K)) (withQ : Bool)
    (res : List (Atom K)) (h : grow ker ops asymm sdm withQ = some res) :
    ∃ rest, res = shownOriginals withQ asymm ++ rest := by
  obtain ⟨rest, hr, _⟩ := packer_shape ker ops asymm _ withQ res h
  exact ⟨rest, hr⟩

/-- **grown_atoms_are_images**: everything behind the originals is `R x + t + (h,k,l)`, `(h,k,l) ∈ ℤ³`, of an original
    atom that is no Q-peak, under an operator of the list, with the same element, PART, occupation code and U values -/
theorem grown_atoms_are_images (ker : Kernel K) (ops : List (Op K)) (asymm : List (Atom K)) (sdm : List (SdmItem K))
    (withQ : Bool) (res : List (Atom K)) (h : grow ker ops asymm sdm withQ = some res) :
    ∀ a ∈ res.drop (shownOriginals withQ asymm).length,
      ∃ op ∈ ops, ∃ o ∈ asymm, ∃ hh kk ll : Int, o.qpeak = false ∧ IsImageOf ker op hh kk ll o a := by
  obtain ⟨rest, hr, himg⟩ := packer_shape ker ops asymm _ withQ res h
  intro a ha
  rw [hr, List.drop_left] at ha
  obtain ⟨e, _, op, hop, o, ho, hq, _, him⟩ := himg a ha
  exact ⟨op, hop, o, ho, _, _, _, hq, him⟩

/-! ### no coincident atoms of the same PART -/

/-- the relation the append loop maintains between an earlier atom `a` and a later atom `b` -/
def Apart (ker : Kernel K) (a b : Atom K) : Prop := 0 ≤ b.part → ¬ Coincide ker a b

theorem isThere_false (ker : Kernel K) (shown : List (Atom K)) (na : Atom K) (h : isThere ker shown na = false) :
    ∀ a ∈ shown, Apart ker a na := by
  intro a ha hpart hco
  have : isThere ker shown na = true := by
    simp only [isThere, Bool.and_eq_true, decide_eq_true_eq, List.any_eq_true]
    exact ⟨hpart, a, ha, hco.1, hco.2⟩
  rw [h] at this
  cases this

/-- **no_coincident_same_part**: if no two of the shown original atoms of one PART >= 0 coincide, no two atoms of the
    result do (the later atom's distance from the earlier one is not below the duplicate limit — exactly the test
    `vector_length(new - old) < 0.2` of the code) -/
theorem no_coincident_same_part (ker : Kernel K) (ops : List (Op K)) (asymm : List (Atom K)) (need : List Need) (withQ : Bool)
    (res : List (Atom K)) (horig : (shownOriginals withQ asymm).Pairwise (Apart ker))
    (h : packer ker ops asymm need withQ = some res) : res.Pairwise (Apart ker) := by
  unfold packer at h
  refine foldlM_inv (packEntry ker ops withQ asymm) (fun s => s.Pairwise (Apart ker)) need _ _ horig ?_ h
  intro s e s' hs _ hstep
  unfold packEntry at hstep
  refine foldlM_inv (packAtom ker ops withQ e) (fun s => s.Pairwise (Apart ker)) asymm _ _ hs ?_ hstep
  intro t a t' ht _ hpa
  rcases packAtom_cases ker ops withQ e t t' a hpa with rfl | ⟨op, _, _, _, hthere, rfl⟩
  · exact ht
  · rw [List.pairwise_append]
    refine ⟨ht, List.pairwise_singleton _ _, ?_⟩
    intro x hx y hy
    rw [List.mem_singleton] at hy
    subst hy
    exact isThere_false ker t _ hthere x hx

/-- independent of the originals: an added atom never coincides with anything before it -/
theorem added_atoms_apart (ker : Kernel K) (ops : List (Op K)) (asymm : List (Atom K)) (need : List Need) (withQ : Bool)
    (res : List (Atom K)) (h : packer ker ops asymm need withQ = some res) :
    ∀ pre b post, res = pre ++ b :: post → (shownOriginals withQ asymm).length ≤ pre.length → ∀ a ∈ pre, Apart ker a b := by
  unfold packer at h
  refine foldlM_inv (packEntry ker ops withQ asymm)
    (fun s => ∀ pre b post, s = pre ++ b :: post → (shownOriginals withQ asymm).length ≤ pre.length → ∀ a ∈ pre, Apart ker a b)
    need _ _ ?_ ?_ h
  · intro pre b post hs hlen
    have := congrArg List.length hs
    simp at this
    omega
  intro s e s' hs _ hstep
  unfold packEntry at hstep
  refine foldlM_inv (packAtom ker ops withQ e)
    (fun s => ∀ pre b post, s = pre ++ b :: post → (shownOriginals withQ asymm).length ≤ pre.length → ∀ a ∈ pre, Apart ker a b)
    asymm _ _ hs ?_ hstep
  intro t a t' ht _ hpa
  rcases packAtom_cases ker ops withQ e t t' a hpa with rfl | ⟨op, _, _, _, hthere, rfl⟩
  · exact ht
  · intro pre b post hsplit hlen x hx
    rcases List.eq_nil_or_concat post with rfl | ⟨post', last, rfl⟩
    · -- b is the new atom
      have h1 : t ++ [mkImage ker op (e.h - 5) (e.k - 5) (e.l - 5) a] = pre ++ [b] := by simpa using hsplit
      obtain ⟨h2, h3⟩ := List.append_inj' h1 rfl
      subst h2
      have : b = mkImage ker op (e.h - 5) (e.k - 5) (e.l - 5) a := by simpa using h3.symm
      subst this
      exact isThere_false ker t _ hthere x hx
    · have h1 : t ++ [mkImage ker op (e.h - 5) (e.k - 5) (e.l - 5) a] = (pre ++ b :: post') ++ [last] := by
        rw [hsplit]; simp [List.concat_eq_append]
      obtain ⟨h2, _⟩ := List.append_inj' h1 rfl
      exact ht pre b post' h2 hlen x hx

/-! ### completeness of `collect_needed_symmetry` + `packer` -/

theorem addNeed_mono (need : List Need) (c : Option Need) (x : Need) (hx : x ∈ need) : x ∈ addNeed need c := by
  unfold addNeed
  split
  · exact hx
  · split
    · exact hx
    · exact List.mem_append_left _ hx

theorem addNeed_mem (need : List Need) (bs : Need) : bs ∈ addNeed need (some bs) := by
  unfold addNeed
  simp only
  split
  · assumption
  · simp

theorem collectOps_mono (ker : Kernel K) (it : SdmItem K) (ops : List (Op K)) :
    ∀ (n : Nat) (need : List Need) (x : Need), x ∈ need → x ∈ collectOps ker it ops n need := by
  induction ops with
  | nil => intro n need x hx; exact hx
  | cons op rest ih => intro n need x hx; exact ih (n + 1) _ x (addNeed_mono need _ x hx)

theorem collectOps_mem (ker : Kernel K) (it : SdmItem K) (ops : List (Op K)) :
    ∀ (start : Nat) (need : List Need) (i : Nat) (op : Op K) (bs : Need), ops[i]? = some op →
      candidate ker it (start + i) op = some bs → bs ∈ collectOps ker it ops start need := by
  induction ops with
  | nil => intro start need i op bs h; simp at h
  | cons o rest ih =>
    intro start need i op bs hget hc
    cases i with
    | zero =>
      simp at hget
      subst hget
      simp only [collectOps]
      apply collectOps_mono
      simp only [Nat.add_zero] at hc
      rw [hc]
      exact addNeed_mem need bs
    | succ j =>
      simp at hget
      simp only [collectOps]
      apply ih (start + 1) _ j op bs hget
      have : start + 1 + j = start + (j + 1) := by omega
      rw [this]; exact hc

theorem collectItem_mono (ker : Kernel K) (ops : List (Op K)) (need : List Need) (it : SdmItem K) (x : Need) (hx : x ∈ need) :
    x ∈ collectItem ker ops need it := by
  unfold collectItem
  split
  · exact collectOps_mono ker it ops 0 need x hx
  · exact hx

theorem foldl_collect_mono (ker : Kernel K) (ops : List (Op K)) (sdm : List (SdmItem K)) :
    ∀ (need : List Need) (x : Need), x ∈ need → x ∈ sdm.foldl (collectItem ker ops) need := by
  induction sdm with
  | nil => intro need x hx; exact hx
  | cons it rest ih => intro need x hx; exact ih _ x (collectItem_mono ker ops need it x hx)

/-- an active SDM item contributes the candidate of every operator -/
theorem collectNeeded_mem (ker : Kernel K) (ops : List (Op K)) (sdm : List (SdmItem K)) (it : SdmItem K) (hit : it ∈ sdm)
    (hact : itemActive ker it = true) (n : Nat) (op : Op K) (hop : ops[n]? = some op) (bs : Need)
    (hc : candidate ker it n op = some bs) : bs ∈ collectNeeded ker ops sdm := by
  unfold collectNeeded
  suffices ∀ (need : List Need), bs ∈ sdm.foldl (collectItem ker ops) need from this []
  induction sdm with
  | nil => cases hit
  | cons x rest ih =>
    intro need
    rcases List.mem_cons.mp hit with rfl | hrest
    · simp only [List.foldl_cons]
      apply foldl_collect_mono
      unfold collectItem
      rw [if_pos hact]
      exact collectOps_mem ker it ops 0 need n op bs hop (by simpa using hc)
    · simp only [List.foldl_cons]
      exact ih hrest _

theorem imagePresent_append (ker : Kernel K) (s : List (Atom K)) (x na : Atom K) (h : imagePresent ker s na) :
    imagePresent ker (s ++ [x]) na := by
  rcases h with h | ⟨hp, b, hb, hco⟩
  · exact Or.inl (List.mem_append_left _ h)
  · exact Or.inr ⟨hp, b, List.mem_append_left _ hb, hco⟩

theorem packAtom_mono (ker : Kernel K) (ops : List (Op K)) (withQ : Bool) (e : Need) (na : Atom K) (s s' : List (Atom K)) (x : Atom K)
    (hq : imagePresent ker s na) (h : packAtom ker ops withQ e s x = some s') : imagePresent ker s' na := by
  rcases packAtom_cases ker ops withQ e s s' x h with rfl | ⟨op, _, _, _, _, rfl⟩
  · exact hq
  · exact imagePresent_append ker s _ na hq

theorem pyIndex_nat {α : Type} (l : List α) (n : Nat) : pyIndex l ((n : Int) + 1 - 1) = l[n]? := by
  unfold pyIndex
  have : (0 : Int) ≤ (n : Int) + 1 - 1 := by omega
  rw [if_pos this]
  congr 1
  omega

/-- `packer` generates (or finds already present) the image of every non-Q atom of the group of every entry -/
theorem packer_complete (ker : Kernel K) (ops : List (Op K)) (asymm : List (Atom K)) (need : List Need) (withQ : Bool)
    (res : List (Atom K)) (h : packer ker ops asymm need withQ = some res)
    (e : Need) (he : e ∈ need) (op : Op K) (hop : pyIndex ops (e.n - 1) = some op)
    (o : Atom K) (ho : o ∈ asymm) (hq : o.qpeak = false) (hmol : o.mol = e.group) :
    imagePresent ker res (mkImage ker op (e.h - 5) (e.k - 5) (e.l - 5) o) := by
  unfold packer at h
  refine foldlM_visit (packEntry ker ops withQ asymm) (fun s => imagePresent ker s (mkImage ker op (e.h - 5) (e.k - 5) (e.l - 5) o))
    e need _ _ he ?_ ?_ h
  · intro s s' hs
    unfold packEntry at hs
    refine foldlM_visit (packAtom ker ops withQ e) (fun s => imagePresent ker s (mkImage ker op (e.h - 5) (e.k - 5) (e.l - 5) o))
      o asymm _ _ ho ?_ ?_ hs
    · intro t t' ht
      -- the visit of (e, o)
      unfold packAtom at ht
      simp only [hq, Bool.and_false, Bool.false_eq_true, if_false, hmol, if_true, hop] at ht
      split at ht
      · cases ht
      · split at ht
        · rename_i hthere
          have := Option.some.inj ht
          subst this
          simp only [isThere, Bool.and_eq_true, decide_eq_true_eq, List.any_eq_true] at hthere
          obtain ⟨hp, b, hb, hpart, hd⟩ := hthere
          exact Or.inr ⟨hp, b, hb, ⟨hpart, hd⟩⟩
        · have := Option.some.inj ht
          subst this
          exact Or.inl (by simp)
    · intro t x t' hq' hx
      exact packAtom_mono ker ops withQ e _ t t' x hq' hx
  · intro s e' s' hq' hs
    unfold packEntry at hs
    exact foldlM_inv (packAtom ker ops withQ e') (fun s => imagePresent ker s (mkImage ker op (e.h - 5) (e.k - 5) (e.l - 5) o))
      asymm _ _ hq' (fun t x t' h₁ _ h₂ => packAtom_mono ker ops withQ e' _ t t' x h₁ h₂) hs

/-! The hypotheses of the completeness theorem, one name each.  `it` is the SDM item (atom1, atom2, shortest image
    distance, covalent flag), `op` the operator number `n`, `(fl, dp) = wrapDiff (op atom1) atom2`. -/

/-- the molecule number of atom1 is one the code grows: at least `molLow` (atoms without a molecule — lone H — have -1)
    and not above the limit in the source, if there is one (unchanged tree: 6; none after fixes/C14_2) -/
def MolIndexInRange (ker : Kernel K) (it : SdmItem K) : Prop :=
  ker.molLow ≤ it.atom1.mol ∧ ∀ m, ker.molLimit = some m → it.atom1.mol ≤ m

/-- the image contact is inside the code's window: at most `d_min + 0.2` (1.8 for H...H), d_min = SDM distance of the pair -/
def InWindow (ker : Kernel K) (it : SdmItem K) (dp : V3 K) : Prop :=
  (if it.atom1.isH && it.atom2.isH then ker.hh else it.dist + ker.window) ≥ ker.vlen dp.x dp.y dp.z

/-- the image meant is the one the code looks at: translation `-floor(op x1 - x2 + 1/2)`, and it is not atom1 itself -/
def WrappedTranslate (n : Nat) (fl : V3 Int) (h k l : Int) : Prop :=
  h = -fl.x ∧ k = -fl.y ∧ l = -fl.z ∧ ¬ (n = 0 ∧ fl = ⟨0, 0, 0⟩)

/-- Full-strength completeness as the property words it (NOT a theorem: false, see `bonded_images_present_fails_outside_window`
    and `bonded_images_present_fails_unwrapped`, whose images are bonded — 1.5239 < 1.848 A resp. 2.1 < 2.448 A — and absent):
    whenever the image `op(a1) + (h,k,l)` of an atom of the asymmetric unit lies within the bond limit of an atom `a2`
    of the asymmetric unit (and is not that site itself), the image of every atom of a1's molecule under the same
    operation is present. -/
def BondedImagesPresentStatement (ker : Kernel K) (bondLimit : Atom K → Atom K → K) (ops : List (Op K)) (asymm : List (Atom K))
    (sdm : List (SdmItem K)) (withQ : Bool) : Prop :=
  ∀ res, grow ker ops asymm sdm withQ = some res →
    ∀ a1 ∈ asymm, ∀ a2 ∈ asymm, ∀ op ∈ ops, ∀ h k l : Int, a1.qpeak = false → a2.qpeak = false →
      ¬ ker.vlen ((shift ker (applyOp ker op a1.pos) h k l).x - a2.pos.x) ((shift ker (applyOp ker op a1.pos) h k l).y - a2.pos.y)
          ((shift ker (applyOp ker op a1.pos) h k l).z - a2.pos.z) < ker.dupLim →
      ker.vlen ((shift ker (applyOp ker op a1.pos) h k l).x - a2.pos.x) ((shift ker (applyOp ker op a1.pos) h k l).y - a2.pos.y)
          ((shift ker (applyOp ker op a1.pos) h k l).z - a2.pos.z) < bondLimit a1 a2 →
      ∀ o ∈ asymm, o.qpeak = false → o.mol = a1.mol → imagePresent ker res (mkImage ker op h k l o)

/-- **bonded_images_present_partial**.  Let `it = (atom1, atom2)` be a covalent SDM item, `op = ops[n]`, and let the image
    `op(atom1) + (h,k,l)` be the wrapped translate (`WrappedTranslate`), farther than `eps` from atom2 and inside the window
    (`InWindow`), PARTs compatible, not H next to H, molecule number in range (`MolIndexInRange`).  Then for every
    non-Q atom `o` of atom1's molecule the image `op(o) + (h,k,l)` is in the grown list — or, for PART >= 0, an atom of
    its PART already sits within the duplicate distance of that position.

    Each hypothesis marks a place where the code is narrower than the property; `…_fails_outside_window`,
    `…_fails_unwrapped` below are witnesses that the conclusion is false without `InWindow` / `WrappedTranslate`;
    `MolIndexInRange` excludes molecule numbers > 6 on the unchanged tree (repaired by fixes/C14_2). -/
theorem bonded_images_present_partial (ker : Kernel K) (ops : List (Op K)) (asymm : List (Atom K)) (sdm : List (SdmItem K))
    (withQ : Bool) (res : List (Atom K)) (hres : grow ker ops asymm sdm withQ = some res)
    (it : SdmItem K) (hit : it ∈ sdm) (hcov : it.covalent = true) (hmolr : MolIndexInRange ker it)
    (n : Nat) (op : Op K) (hop : ops[n]? = some op)
    (hparts : partsClash it = false) (hhh : sameHydrogen it = false)
    (h k l : Int) (hwrap : WrappedTranslate n (wrapDiff ker (applyOp ker op it.atom1.pos) it.atom2.pos).1 h k l)
    (hfar : ker.vlen (wrapDiff ker (applyOp ker op it.atom1.pos) it.atom2.pos).2.x
              (wrapDiff ker (applyOp ker op it.atom1.pos) it.atom2.pos).2.y
              (wrapDiff ker (applyOp ker op it.atom1.pos) it.atom2.pos).2.z > ker.eps)
    (hwin : InWindow ker it (wrapDiff ker (applyOp ker op it.atom1.pos) it.atom2.pos).2)
    (o : Atom K) (ho : o ∈ asymm) (hq : o.qpeak = false) (hmol : o.mol = it.atom1.mol) :
    imagePresent ker res (mkImage ker op h k l o) := by
  obtain ⟨hh', hk', hl', hnot⟩ := hwrap
  have hact : itemActive ker it = true := by
    unfold itemActive
    obtain ⟨hlow, hup⟩ := hmolr
    have h1 : ¬ it.atom1.mol < ker.molLow := Int.not_lt.mpr hlow
    cases hlim : ker.molLimit with
    | none => simp [hcov, h1]
    | some m =>
      have h2 : ¬ it.atom1.mol > m := Int.not_lt.mpr (hup m hlim)
      simp [hcov, h1, h2]
  have hcand : candidate ker it n op =
      some ⟨(n : Int) + 1, 5 - (wrapDiff ker (applyOp ker op it.atom1.pos) it.atom2.pos).1.x,
            5 - (wrapDiff ker (applyOp ker op it.atom1.pos) it.atom2.pos).1.y,
            5 - (wrapDiff ker (applyOp ker op it.atom1.pos) it.atom2.pos).1.z, it.atom1.mol⟩ := by
    unfold candidate
    simp only [hparts, hhh, Bool.false_eq_true, if_false]
    rw [if_neg hnot, if_pos ⟨hfar, hwin⟩]
  have hmem := collectNeeded_mem ker ops sdm it hit hact n op hop _ hcand
  have := packer_complete ker ops asymm _ withQ res hres _ hmem op (by rw [pyIndex_nat]; exact hop) o ho hq hmol
  have e1 : (5 - (wrapDiff ker (applyOp ker op it.atom1.pos) it.atom2.pos).1.x - 5 : Int) = h := by omega
  have e2 : (5 - (wrapDiff ker (applyOp ker op it.atom1.pos) it.atom2.pos).1.y - 5 : Int) = k := by omega
  have e3 : (5 - (wrapDiff ker (applyOp ker op it.atom1.pos) it.atom2.pos).1.z - 5 : Int) = l := by omega
  simpa only [e1, e2, e3] using this

end

/-! ### concrete instances and witnesses (exact arithmetic, `K = Rat`)

  Orthogonal cell; all atoms of the witnesses differ along `x` only (or the lengths are tabulated), so the kernel below
  returns the Euclidean length on every vector that occurs. -/

/-- cell 8 x 9 x 10 A, orthogonal: length of an axis-parallel vector (the only ones in the examples that use it) -/
def kerAxis (a : Rat) (lim : Option Int) : Kernel Rat :=
  { ofInt := fun i => (i : Rat), floor := Rat.floor, vlen := fun x y z => a * |x| + 9 * |y| + 10 * |z|, half := 1 / 2,
    dupLim := 1 / 5, window := 1 / 5, eps := 1 / 1000, hh := 9 / 5, molLow := 1, molLimit := lim }

def opId : Op Rat := ⟨⟨1, 0, 0⟩, ⟨0, 1, 0⟩, ⟨0, 0, 1⟩, ⟨0, 0, 0⟩⟩
def opInv : Op Rat := ⟨⟨-1, 0, 0⟩, ⟨0, -1, 0⟩, ⟨0, 0, -1⟩, ⟨0, 0, 0⟩⟩

def mkAtom (src : Nat) (x y z : Rat) (part : Int) (mol : Int) : Atom Rat :=
  { src := src, sfac := 1, pos := ⟨x, y, z⟩, part := part, sof := 11, u := [1 / 50], qpeak := false, mol := mol, an := 6,
    isH := false, symmgen := false }

/-- half molecule in P-1 (a = 8 A): C1 0.56 A from the inversion centre at 1/2 1/2 1/2, C2 bonded to it (1.2 A) -/
def exHalf : List (Atom Rat) := [mkAtom 0 (57 / 100) (1 / 2) (1 / 2) 0 1, mkAtom 1 (72 / 100) (1 / 2) (1 / 2) 0 1]

def exHalfSdm : List (SdmItem Rat) :=
  match exHalf with
  | [c1, c2] => [⟨c1, c1, 28 / 25, true⟩, ⟨c1, c2, 6 / 5, true⟩, ⟨c2, c1, 6 / 5, true⟩]
  | _ => []

/-- the hypotheses of the theorems are met by a non-trivial input: the half molecule is completed (4 atoms, the two
    images `1 - x`), originals first -/
example : (grow (kerAxis 8 (some 6)) [opId, opInv] exHalf exHalfSdm false).map (fun r => r.map (fun a => (a.src, a.pos.x, a.symmgen)))
    = some [(0, 57 / 100, false), (1, 72 / 100, false), (0, 43 / 100, true), (1, 28 / 100, true)] := by decide +kernel

example : collectNeeded (kerAxis 8 (some 6)) [opId, opInv] exHalfSdm = [⟨2, 6, 6, 6, 1⟩] := by decide +kernel

instance (ker : Kernel Rat) (a b : Atom Rat) : Decidable (Apart ker a b) := by unfold Apart; infer_instance

/-- `no_coincident_same_part` applies to it: the two original atoms are 1.2 A apart -/
example (res : List (Atom Rat)) (h : packer (kerAxis 8 (some 6)) [opId, opInv] exHalf [⟨2, 6, 6, 6, 1⟩] false = some res) :
    res.Pairwise (Apart (kerAxis 8 (some 6))) :=
  no_coincident_same_part _ _ _ _ _ res (by decide +kernel) h

/-- `bonded_images_present_partial` applies to it: item (C1, C1), inversion (n = 1), translation (1,1,1); every hypothesis is
    met, so the image of C2 (same molecule) at x = 1 - 0.72 is present -/
example (res : List (Atom Rat)) (h : grow (kerAxis 8 (some 6)) [opId, opInv] exHalf exHalfSdm false = some res) :
    imagePresent (kerAxis 8 (some 6)) res (mkImage (kerAxis 8 (some 6)) opInv 1 1 1 (mkAtom 1 (72 / 100) (1 / 2) (1 / 2) 0 1)) :=
  bonded_images_present_partial (kerAxis 8 (some 6)) [opId, opInv] exHalf exHalfSdm false res h
    ⟨mkAtom 0 (57 / 100) (1 / 2) (1 / 2) 0 1, mkAtom 0 (57 / 100) (1 / 2) (1 / 2) 0 1, 28 / 25, true⟩ (by decide +kernel) rfl
    ⟨by decide +kernel, by intro m hm; cases hm; decide +kernel⟩ 1 opInv rfl (by decide +kernel) (by decide +kernel) 1 1 1
    (by unfold WrappedTranslate; decide +kernel) (by decide +kernel) (by unfold InWindow; decide +kernel) _ (by decide +kernel) rfl rfl

/-- **PART < 0** (open finding `C14|coincide|part<0`): C1 of PART -1 exactly on the inversion centre, C2 1.2 A away.
    Full-strength statement `¬ Coincide` for every pair is false: the image of C1 is appended on top of C1. -/
def exNeg : List (Atom Rat) := [mkAtom 0 (1 / 2) (1 / 2) (1 / 2) (-1) 1, mkAtom 1 (13 / 20) (1 / 2) (1 / 2) (-1) 1]

def exNegSdm : List (SdmItem Rat) :=
  match exNeg with
  | [c1, c2] => [⟨c1, c2, 6 / 5, true⟩, ⟨c2, c1, 6 / 5, true⟩]
  | _ => []

/-- the statement of the property without the restriction to PART >= 0 -/
def NoCoincidentStatement (ker : Kernel Rat) (res : List (Atom Rat)) : Prop :=
  res.Pairwise fun a b => ¬ Coincide ker a b

theorem no_coincident_fails_on_negative_part :
    ∃ res, grow (kerAxis 8 (some 6)) [opId, opInv] exNeg exNegSdm false = some res ∧
      ¬ NoCoincidentStatement (kerAxis 8 (some 6)) res := by
  refine ⟨[mkAtom 0 (1 / 2) (1 / 2) (1 / 2) (-1) 1, mkAtom 1 (13 / 20) (1 / 2) (1 / 2) (-1) 1,
           { mkAtom 0 (1 / 2) (1 / 2) (1 / 2) (-1) 0 with symmgen := true },
           { mkAtom 1 (7 / 20) (1 / 2) (1 / 2) (-1) 0 with symmgen := true }], by decide +kernel, ?_⟩
  intro h
  simp only [NoCoincidentStatement, List.pairwise_cons] at h
  exact h.1 { mkAtom 0 (1 / 2) (1 / 2) (1 / 2) (-1) 0 with symmgen := true } (by simp) (by decide +kernel)

/-- **single wrapped translation** (open finding `C14|complete|not-nearest-translate`): S chain along a 2.1 A axis in
    P1; the bonded image `x + 1` of the atom itself is the identity with translation (1,0,0); the code looks at the
    wrapped translate only, which is the atom itself.  Nothing is collected, the image is absent. -/
def exChain : List (Atom Rat) := [mkAtom 0 (1 / 4) (1 / 2) (1 / 2) 0 1]

theorem bonded_images_present_fails_unwrapped :
    ∃ res, grow (kerAxis (21 / 10) none) [opId] exChain [⟨mkAtom 0 (1 / 4) (1 / 2) (1 / 2) 0 1, mkAtom 0 (1 / 4) (1 / 2) (1 / 2) 0 1, 21 / 10, true⟩] false
        = some res ∧ ¬ imagePresent (kerAxis (21 / 10) none) res (mkImage (kerAxis (21 / 10) none) opId 1 0 0 (mkAtom 0 (1 / 4) (1 / 2) (1 / 2) 0 1)) := by
  refine ⟨exChain, by decide +kernel, ?_⟩
  rintro (h | ⟨_, b, hb, hco⟩)
  · revert h; decide +kernel
  · simp only [exChain, List.mem_singleton] at hb
    subst hb
    revert hco; decide +kernel

/-- **window** (open finding `C14|complete|outside-window`): four-membered ring C1 C2 C1' C2' on the inversion centre at the
    origin of a 10 A cubic cell, C1 = (0.1, 0.015, 0), C2 = (0, 0.1, 0): C1–C2 1.3124 A, C1'–C2 1.5239 A (bonded, limit
    1.848 A), diagonals 2.02 / 2.0 A (not bonded).  `vlen` is the table of the Euclidean lengths (4 decimals) of the
    difference vectors that occur.  The only covalent items are (C1,C2), (C2,C1) with d_min = 1.3124; the inverted image
    is at 1.5239 > 1.3124 + 0.2, nothing is collected, the ring stays half. -/
def kerRing : Kernel Rat :=
  { ofInt := fun i => (i : Rat), floor := Rat.floor, half := 1 / 2, dupLim := 1 / 5, window := 1 / 5, eps := 1 / 1000, hh := 9 / 5,
    molLow := 1, molLimit := none,
    vlen := fun x y z =>
      if z ≠ 0 then 1000
      else if (x, y) = (1 / 10, -17 / 200) ∨ (x, y) = (-1 / 10, 17 / 200) then 13124 / 10000
      else if (x, y) = (-1 / 10, -23 / 200) ∨ (x, y) = (1 / 10, 23 / 200) then 15239 / 10000
      else if (x, y) = (-1 / 5, -3 / 100) ∨ (x, y) = (1 / 5, 3 / 100) then 20224 / 10000
      else if (x, y) = (0, -1 / 5) ∨ (x, y) = (0, 1 / 5) then 2
      else if (x, y) = (0, 0) then 0 else 1000 }

def exRing : List (Atom Rat) := [mkAtom 0 (1 / 10) (3 / 200) 0 0 1, mkAtom 1 0 (1 / 10) 0 0 1]

def exRingSdm : List (SdmItem Rat) :=
  match exRing with
  | [c1, c2] => [⟨c1, c2, 13124 / 10000, true⟩, ⟨c2, c1, 13124 / 10000, true⟩, ⟨c1, c1, 20224 / 10000, false⟩, ⟨c2, c2, 2, false⟩]
  | _ => []

theorem bonded_images_present_fails_outside_window :
    ∃ res, grow kerRing [opId, opInv] exRing exRingSdm false = some res ∧
      ¬ imagePresent kerRing res (mkImage kerRing opInv 0 0 0 (mkAtom 0 (1 / 10) (3 / 200) 0 0 1)) := by
  refine ⟨exRing, by decide +kernel, ?_⟩
  rintro (h | ⟨_, b, hb, hco⟩)
  · revert h; decide +kernel
  · simp only [exRing, List.mem_cons, List.not_mem_nil, or_false] at hb
    rcases hb with rfl | rfl <;> revert hco <;> decide +kernel

/-! ### the tie of the duplicate distance to the property's number

  `no_coincident_same_part` and `imagePresent` speak about `ker.dupLim`, whatever it is; the property names the distance:
  0.2 A.  The kernel the driver runs takes `dupLim` from `Extracted/C14Consts.lean`, i.e. from what `packer` of the working
  tree was observed to do (extract/probe_c14.py), so this is re-checked on every run: a tree whose `packer` suppresses images
  at another distance no longer proves the property as stated (larger: bonded images go missing; smaller: atoms of one PART
  closer than 0.2 A). -/
theorem dupLim_is_the_property_distance : Consts.dupLimR = 1 / 5 := by decide +kernel

end Shelx.C14

/-
  C05 — property theorems (model and spec: ShelxModel/C05.lean).
-/
import ShelxModel.C05

namespace Shelx.C05

/-! ### tokens -/

theorem ws_blank : ws ' ' = true := by decide
theorem ws_eq : ws '=' = false := by decide
theorem ws_bang : ws '!' = false := by decide

theorem split_ws (c : Char) (cs : List Char) (h : ws c = true) : split (c :: cs) = split cs := by
  simp [split, h]

theorem split_single (c : Char) (h : ws c = false) : split [c] = [[c]] := by
  simp [split, h, startsWs]

theorem split_nws_ws (c d : Char) (cs : List Char) (hc : ws c = false) (hd : ws d = true) :
    split (c :: d :: cs) = [c] :: split (d :: cs) := by
  rw [split.eq_2]; simp [hc, hd, startsWs]

theorem split_nws_nws (c d : Char) (cs : List Char) (hc : ws c = false) (hd : ws d = false) :
    split (c :: d :: cs) = consTok c (split (d :: cs)) := by
  rw [split.eq_2]; simp [hc, hd, startsWs]

theorem split_ne_nil (c : Char) (cs : List Char) (h : ws c = false) : split (c :: cs) ≠ [] := by
  cases cs with
  | nil => simp [split_single c h]
  | cons d ds =>
    by_cases hd : ws d = true
    · simp [split_nws_ws c d ds h hd]
    · simp only [Bool.not_eq_true] at hd
      rw [split_nws_nws c d ds h hd]
      cases split (d :: ds) <;> simp [consTok]

/-- the tokenizer sees a blank as a token boundary: gluing two texts of which the second starts with a blank
    concatenates their tokens -/
theorem split_append_blank (a b : List Char) : split (a ++ ' ' :: b) = split a ++ split (' ' :: b) := by
  induction a with
  | nil => simp [split]
  | cons c a ih =>
    by_cases hc : ws c = true
    · simp only [List.cons_append, split_ws _ _ hc, ih]
    · simp only [Bool.not_eq_true] at hc
      cases a with
      | nil =>
        simp only [List.cons_append, List.nil_append]
        rw [split_nws_ws c ' ' b hc ws_blank, split_single c hc]; rfl
      | cons d a' =>
        by_cases hd : ws d = true
        · simp only [List.cons_append] at ih ⊢
          rw [split_nws_ws c d _ hc hd, split_nws_ws c d _ hc hd, ih]; rfl
        · simp only [Bool.not_eq_true] at hd
          have hne := split_ne_nil d a' hd
          simp only [List.cons_append] at ih ⊢
          rw [split_nws_nws c d _ hc hd, split_nws_nws c d _ hc hd, ih]
          cases hs : split (d :: a') with
          | nil => exact absurd hs hne
          | cons t ts => simp [consTok]

theorem split_blank_cons (b : List Char) : split (' ' :: b) = split b := split_ws _ _ ws_blank

theorem split_allWs (w : List Char) (h : allWs w = true) : split w = [] := by
  induction w with
  | nil => rfl
  | cons c w ih =>
    simp only [allWs, List.all_cons, Bool.and_eq_true] at h
    rw [split_ws c w h.1]; exact ih (by simpa [allWs] using h.2)

/-! ### comments, the continuation marker, `rpartition`, `rstrip` -/

theorem stripComment_append (B x : List Char) (h : ∀ c ∈ B, c ≠ '!') :
    stripComment (B ++ x) = B ++ stripComment x := by
  induction B with
  | nil => rfl
  | cons c B ih =>
    have hc : c ≠ '!' := h c (by simp)
    simp only [stripComment, List.cons_append, List.takeWhile_cons, bne_iff_ne, ne_eq, hc, not_false_eq_true, ↓reduceIte]
    congr 1
    exact ih (fun d hd => h d (by simp [hd]))

theorem stripComment_noBang (l : List Char) : ∀ c ∈ stripComment l, c ≠ '!' := by
  induction l with
  | nil => simp [stripComment]
  | cons d ds ih =>
    intro c hc
    simp only [stripComment, List.takeWhile_cons] at hc
    by_cases hd : (d != '!') = true
    · simp only [hd, ↓reduceIte] at hc
      rcases List.mem_cons.mp hc with h | h
      · rw [h]; simpa using hd
      · exact ih c h
    · simp [hd] at hc

theorem stripComment_idem (l : List Char) : stripComment (stripComment l) = stripComment l := by
  have := stripComment_append (stripComment l) [] (stripComment_noBang l)
  simpa [stripComment] using this

theorem allWs_append (a b : List Char) : allWs (a ++ b) = (allWs a && allWs b) := by simp [allWs]

theorem allWs_no_eq (w : List Char) (h : allWs w = true) : '=' ∉ w := by
  intro hm
  simp only [allWs, List.all_eq_true] at h
  exact absurd (h _ hm) (by decide)

theorem trailingEq_allWs (w : List Char) (h : allWs w = true) : trailingEq w = false := by
  induction w with
  | nil => rfl
  | cons c w ih =>
    simp only [allWs, List.all_cons, Bool.and_eq_true] at h
    have hc : (c == '=') = false := by
      cases hh : c == '=' with
      | false => rfl
      | true => rw [beq_iff_eq.mp hh] at h; exact absurd h.1 (by decide)
    simp [trailingEq, hc, ih (by simpa [allWs] using h.2)]

theorem trailingEq_contains (l : List Char) (h : trailingEq l = true) : '=' ∈ l := by
  induction l with
  | nil => simp [trailingEq] at h
  | cons c cs ih =>
    simp only [trailingEq] at h
    by_cases hm : (c == '=' && allWs cs) = true
    · simp only [Bool.and_eq_true, beq_iff_eq] at hm
      simp [hm.1]
    · simp only [hm] at h
      exact List.mem_cons_of_mem _ (ih (by simpa using h))

theorem beforeLastEq_cons_mem (c : Char) (cs : List Char) (h : '=' ∈ cs) :
    beforeLastEq (c :: cs) = c :: beforeLastEq cs := by
  simp [beforeLastEq, h]

theorem beforeLastEq_cons_not_mem (c : Char) (cs : List Char) (h : '=' ∉ cs) :
    beforeLastEq (c :: cs) = [] := by
  simp [beforeLastEq, h]

theorem beforeLastEq_body (l : List Char) (h : trailingEq l = true) : beforeLastEq l = body l := by
  induction l with
  | nil => rfl
  | cons c cs ih =>
    simp only [trailingEq] at h
    by_cases hm : (c == '=' && allWs cs) = true
    · have := allWs_no_eq cs (by simp only [Bool.and_eq_true] at hm; exact hm.2)
      rw [beforeLastEq_cons_not_mem c cs this]; simp [body, hm]
    · simp only [hm] at h
      have ht : trailingEq cs = true := by simpa using h
      rw [beforeLastEq_cons_mem c cs (trailingEq_contains cs ht), ih ht]; simp [body, hm]

theorem beforeLastEq_append (B x : List Char) (h : '=' ∈ x) :
    beforeLastEq (B ++ x) = B ++ beforeLastEq x := by
  induction B with
  | nil => rfl
  | cons c B ih =>
    have : '=' ∈ B ++ x := List.mem_append.mpr (Or.inr h)
    rw [List.cons_append, beforeLastEq_cons_mem c _ this, ih]; rfl

theorem body_of_not_trailing (l : List Char) (h : trailingEq l = false) : body l = l := by
  induction l with
  | nil => rfl
  | cons c cs ih =>
    simp only [trailingEq] at h
    by_cases hm : (c == '=' && allWs cs) = true
    · simp [hm] at h
    · simp only [hm] at h
      simp [body, hm, ih (by simpa using h)]

theorem mem_body (l : List Char) : ∀ c ∈ body l, c ∈ l := by
  induction l with
  | nil => simp [body]
  | cons d ds ih =>
    intro c hc
    simp only [body] at hc
    by_cases hm : (d == '=' && allWs ds) = true
    · simp [hm] at hc
    · simp only [hm] at hc
      rcases List.mem_cons.mp hc with h | h
      · simp [h]
      · exact List.mem_cons_of_mem _ (ih c h)

theorem body_cons_blank (x : List Char) : body (' ' :: x) = ' ' :: body x := by
  simp [body]

theorem dropWhile_all {p : Char → Bool} (l : List Char) (h : ∀ x ∈ l, p x = true) : l.dropWhile p = [] := by
  induction l with
  | nil => rfl
  | cons c cs ih =>
    simp [List.dropWhile_cons, h c (by simp), ih (fun x hx => h x (by simp [hx]))]

theorem dropWhile_ne_nil {p : Char → Bool} (l : List Char) (x : Char) (hx : x ∈ l) (hp : p x = false) :
    l.dropWhile p ≠ [] := by
  induction l with
  | nil => simp at hx
  | cons c cs ih =>
    rw [List.dropWhile_cons]
    by_cases hc : p c = true
    · simp only [hc, ↓reduceIte]
      rcases List.mem_cons.mp hx with h | h
      · rw [h, hc] at hp; exact absurd hp (by simp)
      · exact ih h
    · simp [hc]

theorem rstrip_cons (c : Char) (cs : List Char) :
    rstrip (c :: cs) = if allWs (c :: cs) then [] else c :: rstrip cs := by
  simp only [rstrip, List.reverse_cons, List.dropWhile_append]
  by_cases h : allWs cs = true
  · have hall : ∀ x ∈ cs.reverse, ws x = true := by
      intro x hx; simp only [allWs, List.all_eq_true] at h; exact h x (List.mem_reverse.mp hx)
    have : cs.reverse.dropWhile ws = [] := dropWhile_all _ hall
    by_cases hc : ws c = true
    · have h2 : allWs (c :: cs) = true := by simp only [allWs, List.all_cons, hc, Bool.true_and]; exact h
      simp [this, hc, h2]
    · have h2 : allWs (c :: cs) = false := by simp [allWs, hc]
      simp [this, hc, h2]
  · have hex : ∃ x ∈ cs, ws x = false := by
      simp only [allWs, List.all_eq_true, Bool.not_eq_true] at h
      simpa using h
    obtain ⟨x, hx, hp⟩ := hex
    have : cs.reverse.dropWhile ws ≠ [] := dropWhile_ne_nil _ x (List.mem_reverse.mpr hx) hp
    have h2 : allWs (c :: cs) = false := by
      simp only [allWs, List.all_cons, Bool.and_eq_false_iff]; right
      simpa [allWs] using h
    simp [this, h2]

theorem rstrip_eq_nil (l : List Char) : rstrip l = [] ↔ allWs l = true := by
  induction l with
  | nil => simp [rstrip, allWs]
  | cons c cs ih =>
    rw [rstrip_cons]
    by_cases h : allWs (c :: cs) = true <;> simp [h]

theorem endsWithEq_rstrip (l : List Char) : endsWithEq (rstrip l) = trailingEq l := by
  induction l with
  | nil => rfl
  | cons c cs ih =>
    rw [rstrip_cons]
    by_cases h : allWs (c :: cs) = true
    · simp [h, trailingEq_allWs _ h, endsWithEq]
    · simp only [h, Bool.false_eq_true, ↓reduceIte]
      by_cases h2 : allWs cs = true
      · have := (rstrip_eq_nil cs).mpr h2
        simp only [this, endsWithEq, trailingEq, h2, trailingEq_allWs _ h2, List.getLast?_singleton, Bool.and_true]
        cases hh : c == '=' <;> simp_all
      · have hne : rstrip cs ≠ [] := fun e => h2 ((rstrip_eq_nil cs).mp e)
        have : endsWithEq (c :: rstrip cs) = endsWithEq (rstrip cs) := by
          cases hr : rstrip cs with
          | nil => exact absurd hr hne
          | cons a b => simp [endsWithEq, List.getLast?_cons_cons]
        rw [this, ih]; simp [trailingEq, h2]

theorem mtNew_eq_isContLine (l : Line) : mtNew l = isContLine l := by
  simp [mtNew, isContLine, content, endsWithEq_rstrip]


/-! ### the code's gluing yields the specification's logical lines -/

theorem indented_iff (l : Line) : indented l = true ↔ ∃ l', l = ' ' :: l' := by
  constructor
  · intro h
    cases l with
    | nil => simp [indented] at h
    | cons c l' =>
      by_cases hc : c = ' '
      · exact ⟨l', by rw [hc]⟩
      · exfalso
        unfold indented at h
        split at h
        · rename_i heq; injection heq with h1 h2; exact hc h1
        · simp at h
  · rintro ⟨l', rfl⟩; rfl

theorem upperHead_append (t u : List Token) (h : t ≠ []) : upperHead (t ++ u) = upperHead t ++ u := by
  cases t with
  | nil => exact absurd rfl h
  | cons a b => rfl

theorem upperHead_eq_nil (t : List Token) : upperHead t = [] ↔ t = [] := by
  cases t <;> simp [upperHead]

theorem content_blank_cons (x : List Char) : content (' ' :: x) = ' ' :: content x := by
  simp [content, stripComment, List.takeWhile_cons]

theorem isContLine_trailing (l : Line) (h : isContLine l = true) : trailingEq (content l) = true := by
  simp only [isContLine, Bool.and_eq_true] at h; exact h.1

theorem cutNew_cont (C l : List Char) (hC : ∀ c ∈ C, c ≠ '!') (h : isContLine l = true) :
    cutNew (C ++ l) = C ++ body (content l) := by
  have ht := isContLine_trailing l h
  rw [cutNew, stripComment_append C l hC]
  show beforeLastEq (C ++ content l) = _
  rw [beforeLastEq_append C _ (trailingEq_contains _ ht), beforeLastEq_body _ ht]

/-- invariant between the model's accumulated text and the spec's accumulated tokens -/
def Rel : Option (Nat × Line) → Option (List Token) → Prop
  | none, none => True
  | some (_, cur), some acc =>
      acc = upperHead (split (cutNew cur)) ∧ (∀ c ∈ cutNew cur, c ≠ '!') ∧ split (cutNew cur) ≠ []
  | _, _ => False

theorem glue_aux (f : List Line) : ∀ (i : Nat) (ms : Option (Nat × Line)) (ss : Option (List Token))
    (n : List (List Token)), Rel ms ss → normAux ss f = some n →
    mapOk (fun p => tokensOf p.2) (run mtNew cutNew i ms f) = .ok n := by
  induction f with
  | nil =>
    intro i ms ss n hrel hn
    match ms, ss, hrel with
    | none, none, _ =>
      simp only [normAux, Option.some.injEq] at hn
      subst hn; rfl
    | some (_, _), some _, _ => simp [normAux] at hn
  | cons l rest ih =>
    intro i ms ss n hrel hn
    match ms, ss, hrel with
    | none, none, _ =>
      simp only [normAux] at hn
      simp only [run, mtNew_eq_isContLine]
      by_cases hs : skip l = true
      · simp only [hs, ↓reduceIte] at hn ⊢
        exact ih (i + 1) none none n trivial hn
      · simp only [hs, Bool.false_eq_true, ↓reduceIte] at hn ⊢
        have hni : indented l = false := by
          simp only [skip, Bool.or_eq_true, not_or, Bool.not_eq_true] at hs; exact hs.1
        by_cases hc : isContLine l = true
        · simp only [hc, ↓reduceIte] at hn ⊢
          by_cases he : (ptoks l).isEmpty = true
          · simp [he] at hn
          · simp only [he, Bool.false_eq_true, ↓reduceIte] at hn
            have hcut : cutNew l = body (content l) := by
              have := cutNew_cont [] l (by simp) hc
              simpa using this
            have hp : ptoks l = upperHead (split (body (content l))) := by
              simp [ptoks, hc, hni]
            refine ih (i + 1) (some (i, l)) (some (ptoks l)) n ⟨?_, ?_, ?_⟩ hn
            · rw [hcut, hp]
            · rw [hcut]; intro c hm; exact stripComment_noBang l c (mem_body _ c hm)
            · rw [hcut]; intro e; apply he; rw [hp, e]; rfl
        · simp only [hc, Bool.false_eq_true, ↓reduceIte] at hn ⊢
          cases hr : normAux none rest with
          | none => simp [hr] at hn
          | some n' =>
            simp only [hr, Option.map_some, Option.some.injEq] at hn
            have := ih (i + 1) none none n' trivial hr
            cases hrun : run mtNew cutNew (i + 1) none rest with
            | error e => simp [hrun, mapOk] at this
            | ok t =>
              simp only [hrun, mapOk, Except.ok.injEq] at this ⊢
              rw [← hn, List.map_cons, this]
              congr 1
              simp [tokensOf, classify, ptoks, hc, hni, content]
    | some (s, cur), some acc, hrel =>
      obtain ⟨hacc, hbang, hne⟩ := hrel
      simp only [normAux] at hn
      simp only [run, mtNew_eq_isContLine]
      by_cases hi : indented l = true
      · simp only [hi, Bool.not_true, Bool.false_eq_true, ↓reduceIte] at hn
        obtain ⟨l', rfl⟩ := (indented_iff l).mp hi
        by_cases hc : isContLine (' ' :: l') = true
        · simp only [hc, ↓reduceIte] at hn ⊢
          have hcut := cutNew_cont (cutNew cur) (' ' :: l') hbang hc
          rw [content_blank_cons, body_cons_blank] at hcut
          have hp : ptoks (' ' :: l') = split (' ' :: body (content l')) := by
            simp [ptoks, hc, indented, content_blank_cons, body_cons_blank]
          refine ih (i + 1) (some (s, cutNew cur ++ ' ' :: l')) (some (acc ++ ptoks (' ' :: l'))) n ⟨?_, ?_, ?_⟩ hn
          · rw [hcut, split_append_blank, upperHead_append _ _ hne, hacc, hp]
          · rw [hcut]; intro c hm
            rcases List.mem_append.mp hm with h | h
            · exact hbang c h
            · rcases List.mem_cons.mp h with h | h
              · rw [h]; decide
              · exact stripComment_noBang l' c (mem_body _ c h)
          · rw [hcut, split_append_blank]; intro e
            exact hne (List.append_eq_nil_iff.mp e).1
        · simp only [hc, Bool.false_eq_true, ↓reduceIte] at hn ⊢
          cases hr : normAux none rest with
          | none => simp [hr] at hn
          | some n' =>
            simp only [hr, Option.map_some, Option.some.injEq] at hn
            have := ih (i + 1) none none n' trivial hr
            cases hrun : run mtNew cutNew (i + 1) none rest with
            | error e => simp [hrun, mapOk] at this
            | ok t =>
              simp only [hrun, mapOk, Except.ok.injEq] at this ⊢
              rw [← hn, List.map_cons, this]
              congr 1
              have hp : ptoks (' ' :: l') = split (' ' :: content l') := by
                simp [ptoks, hc, indented, content_blank_cons]
              show upperHead (split (stripComment (cutNew cur ++ ' ' :: l'))) = _
              rw [stripComment_append _ _ hbang]
              show upperHead (split (cutNew cur ++ content (' ' :: l'))) = _
              rw [content_blank_cons, split_append_blank, upperHead_append _ _ hne, hacc, hp]
      · simp [hi] at hn

/-- **glue_tokens** — for every file with a valid layout, what the (repaired) code's continuation loop hands to the
    rest of the parser, line by line, is the specification's list of logical token lines: the character-level
    gluing (`rpartition('=')` on the accumulated text, comment stripping afterwards, blanking of consumed lines)
    neither loses nor invents nor merges tokens, and never runs past the end of the file.
    `norm f = some n` is the decidable validity of the layout (continuation lines indented, no marker on the
    last line, no marker without instruction); outside it the real code raises IndexError or glues a token
    onto its neighbour (`C1=` + `C2`). -/
theorem glue_tokens (f : List Line) (n : List (List Token)) (h : norm f = some n) : modelTokens f = .ok n :=
  glue_aux f 0 none none n trivial h

example : norm ["dfix 1.5 c1 = ! x = y".toList, "   C2 =".toList, " C3".toList, "  ignored".toList, "rem a =".toList] =
    some [["DFIX".toList, "1.5".toList, "c1".toList, "C2".toList, "C3".toList], ["REM".toList, "a".toList, "=".toList]] := by
  decide


end Shelx.C05

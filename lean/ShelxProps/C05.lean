/-
  C05 — property theorems (model and spec: ShelxModel/C05.lean).
-/
import ShelxModel.C05

namespace Shelx.C05

/-! ### tokens -/

theorem ws_blank : ws ' ' = true := by decide
theorem ws_eq : ws '=' = false := by decide
theorem ws_bang : ws '!' = false := by decide

theorem split_ws (c : Char) (cs : List Char) (h : ws c = true) : split (c :: cs) = split cs := by
  simp [split, h]

theorem split_single (c : Char) (h : ws c = false) : split [c] = [[c]] := by
  simp [split, h, startsWs]

theorem split_nws_ws (c d : Char) (cs : List Char) (hc : ws c = false) (hd : ws d = true) :
    split (c :: d :: cs) = [c] :: split (d :: cs) := by
  rw [split.eq_2]; simp [hc, hd, startsWs]

theorem split_nws_nws (c d : Char) (cs : List Char) (hc : ws c = false) (hd : ws d = false) :
    split (c :: d :: cs) = consTok c (split (d :: cs)) := by
  rw [split.eq_2]; simp [hc, hd, startsWs]

theorem split_ne_nil (c : Char) (cs : List Char) (h : ws c = false) : split (c :: cs) ≠ [] := by
  cases cs with
  | nil => simp [split_single c h]
  | cons d ds =>
    by_cases hd : ws d = true
    · simp [split_nws_ws c d ds h hd]
    · simp only [Bool.not_eq_true] at hd
      rw [split_nws_nws c d ds h hd]
      cases split (d :: ds) <;> simp [consTok]

/-- the tokenizer sees white space as a token boundary: gluing two texts of which the second starts with a
    white-space character concatenates their tokens -/
theorem split_append_ws (a b : List Char) (s : Char) (hs : ws s = true) :
    split (a ++ s :: b) = split a ++ split (s :: b) := by
  induction a with
  | nil => simp [split]
  | cons c a ih =>
    by_cases hc : ws c = true
    · simp only [List.cons_append, split_ws _ _ hc, ih]
    · simp only [Bool.not_eq_true] at hc
      cases a with
      | nil =>
        simp only [List.cons_append, List.nil_append]
        rw [split_nws_ws c s b hc hs, split_single c hc]; rfl
      | cons d a' =>
        by_cases hd : ws d = true
        · simp only [List.cons_append] at ih ⊢
          rw [split_nws_ws c d _ hc hd, split_nws_ws c d _ hc hd, ih]; rfl
        · simp only [Bool.not_eq_true] at hd
          have hne := split_ne_nil d a' hd
          simp only [List.cons_append] at ih ⊢
          rw [split_nws_nws c d _ hc hd, split_nws_nws c d _ hc hd, ih]
          cases hs : split (d :: a') with
          | nil => exact absurd hs hne
          | cons t ts => simp [consTok]

theorem split_append_blank (a b : List Char) : split (a ++ ' ' :: b) = split a ++ split (' ' :: b) :=
  split_append_ws a b ' ' ws_blank

theorem split_blank_cons (b : List Char) : split (' ' :: b) = split b := split_ws _ _ ws_blank

theorem split_allWs (w : List Char) (h : allWs w = true) : split w = [] := by
  induction w with
  | nil => rfl
  | cons c w ih =>
    simp only [allWs, List.all_cons, Bool.and_eq_true] at h
    rw [split_ws c w h.1]; exact ih (by simpa [allWs] using h.2)

/-! ### comments, the continuation marker, `rpartition`, `rstrip` -/

theorem stripComment_append (B x : List Char) (h : ∀ c ∈ B, c ≠ '!') :
    stripComment (B ++ x) = B ++ stripComment x := by
  induction B with
  | nil => rfl
  | cons c B ih =>
    have hc : c ≠ '!' := h c (by simp)
    simp only [stripComment, List.cons_append, List.takeWhile_cons, bne_iff_ne, ne_eq, hc, not_false_eq_true, ↓reduceIte]
    congr 1
    exact ih (fun d hd => h d (by simp [hd]))

theorem stripComment_noBang (l : List Char) : ∀ c ∈ stripComment l, c ≠ '!' := by
  induction l with
  | nil => simp [stripComment]
  | cons d ds ih =>
    intro c hc
    simp only [stripComment, List.takeWhile_cons] at hc
    by_cases hd : (d != '!') = true
    · simp only [hd, ↓reduceIte] at hc
      rcases List.mem_cons.mp hc with h | h
      · rw [h]; simpa using hd
      · exact ih c h
    · simp [hd] at hc

theorem stripComment_idem (l : List Char) : stripComment (stripComment l) = stripComment l := by
  have := stripComment_append (stripComment l) [] (stripComment_noBang l)
  simpa [stripComment] using this

theorem allWs_append (a b : List Char) : allWs (a ++ b) = (allWs a && allWs b) := by simp [allWs]

theorem allWs_no_eq (w : List Char) (h : allWs w = true) : '=' ∉ w := by
  intro hm
  simp only [allWs, List.all_eq_true] at h
  exact absurd (h _ hm) (by decide)

theorem trailingEq_allWs (w : List Char) (h : allWs w = true) : trailingEq w = false := by
  induction w with
  | nil => rfl
  | cons c w ih =>
    simp only [allWs, List.all_cons, Bool.and_eq_true] at h
    have hc : (c == '=') = false := by
      cases hh : c == '=' with
      | false => rfl
      | true => rw [beq_iff_eq.mp hh] at h; exact absurd h.1 (by decide)
    simp [trailingEq, hc, ih (by simpa [allWs] using h.2)]

theorem trailingEq_contains (l : List Char) (h : trailingEq l = true) : '=' ∈ l := by
  induction l with
  | nil => simp [trailingEq] at h
  | cons c cs ih =>
    simp only [trailingEq] at h
    by_cases hm : (c == '=' && allWs cs) = true
    · simp only [Bool.and_eq_true, beq_iff_eq] at hm
      simp [hm.1]
    · simp only [hm] at h
      exact List.mem_cons_of_mem _ (ih (by simpa using h))

theorem beforeLastEq_cons_mem (c : Char) (cs : List Char) (h : '=' ∈ cs) :
    beforeLastEq (c :: cs) = c :: beforeLastEq cs := by
  simp [beforeLastEq, h]

theorem beforeLastEq_cons_not_mem (c : Char) (cs : List Char) (h : '=' ∉ cs) :
    beforeLastEq (c :: cs) = [] := by
  simp [beforeLastEq, h]

theorem beforeLastEq_body (l : List Char) (h : trailingEq l = true) : beforeLastEq l = body l := by
  induction l with
  | nil => rfl
  | cons c cs ih =>
    simp only [trailingEq] at h
    by_cases hm : (c == '=' && allWs cs) = true
    · have := allWs_no_eq cs (by simp only [Bool.and_eq_true] at hm; exact hm.2)
      rw [beforeLastEq_cons_not_mem c cs this]; simp [body, hm]
    · simp only [hm] at h
      have ht : trailingEq cs = true := by simpa using h
      rw [beforeLastEq_cons_mem c cs (trailingEq_contains cs ht), ih ht]; simp [body, hm]

theorem beforeLastEq_append (B x : List Char) (h : '=' ∈ x) :
    beforeLastEq (B ++ x) = B ++ beforeLastEq x := by
  induction B with
  | nil => rfl
  | cons c B ih =>
    have : '=' ∈ B ++ x := List.mem_append.mpr (Or.inr h)
    rw [List.cons_append, beforeLastEq_cons_mem c _ this, ih]; rfl

theorem body_of_not_trailing (l : List Char) (h : trailingEq l = false) : body l = l := by
  induction l with
  | nil => rfl
  | cons c cs ih =>
    simp only [trailingEq] at h
    by_cases hm : (c == '=' && allWs cs) = true
    · simp [hm] at h
    · simp only [hm] at h
      simp [body, hm, ih (by simpa using h)]

theorem mem_body (l : List Char) : ∀ c ∈ body l, c ∈ l := by
  induction l with
  | nil => simp [body]
  | cons d ds ih =>
    intro c hc
    simp only [body] at hc
    by_cases hm : (d == '=' && allWs ds) = true
    · simp [hm] at hc
    · simp only [hm] at hc
      rcases List.mem_cons.mp hc with h | h
      · simp [h]
      · exact List.mem_cons_of_mem _ (ih c h)

theorem body_cons_blank (x : List Char) : body (' ' :: x) = ' ' :: body x := by
  simp [body]

theorem dropWhile_all {p : Char → Bool} (l : List Char) (h : ∀ x ∈ l, p x = true) : l.dropWhile p = [] := by
  induction l with
  | nil => rfl
  | cons c cs ih =>
    simp [List.dropWhile_cons, h c (by simp), ih (fun x hx => h x (by simp [hx]))]

theorem dropWhile_ne_nil {p : Char → Bool} (l : List Char) (x : Char) (hx : x ∈ l) (hp : p x = false) :
    l.dropWhile p ≠ [] := by
  induction l with
  | nil => simp at hx
  | cons c cs ih =>
    rw [List.dropWhile_cons]
    by_cases hc : p c = true
    · simp only [hc, ↓reduceIte]
      rcases List.mem_cons.mp hx with h | h
      · rw [h, hc] at hp; exact absurd hp (by simp)
      · exact ih h
    · simp [hc]

theorem rstrip_cons (c : Char) (cs : List Char) :
    rstrip (c :: cs) = if allWs (c :: cs) then [] else c :: rstrip cs := by
  simp only [rstrip, List.reverse_cons, List.dropWhile_append]
  by_cases h : allWs cs = true
  · have hall : ∀ x ∈ cs.reverse, ws x = true := by
      intro x hx; simp only [allWs, List.all_eq_true] at h; exact h x (List.mem_reverse.mp hx)
    have : cs.reverse.dropWhile ws = [] := dropWhile_all _ hall
    by_cases hc : ws c = true
    · have h2 : allWs (c :: cs) = true := by simp only [allWs, List.all_cons, hc, Bool.true_and]; exact h
      simp [this, hc, h2]
    · have h2 : allWs (c :: cs) = false := by simp [allWs, hc]
      simp [this, hc, h2]
  · have hex : ∃ x ∈ cs, ws x = false := by
      simp only [allWs, List.all_eq_true, Bool.not_eq_true] at h
      simpa using h
    obtain ⟨x, hx, hp⟩ := hex
    have : cs.reverse.dropWhile ws ≠ [] := dropWhile_ne_nil _ x (List.mem_reverse.mpr hx) hp
    have h2 : allWs (c :: cs) = false := by
      simp only [allWs, List.all_cons, Bool.and_eq_false_iff]; right
      simpa [allWs] using h
    simp [this, h2]

theorem rstrip_eq_nil (l : List Char) : rstrip l = [] ↔ allWs l = true := by
  induction l with
  | nil => simp [rstrip, allWs]
  | cons c cs ih =>
    rw [rstrip_cons]
    by_cases h : allWs (c :: cs) = true <;> simp [h]

theorem endsWithEq_rstrip (l : List Char) : endsWithEq (rstrip l) = trailingEq l := by
  induction l with
  | nil => rfl
  | cons c cs ih =>
    rw [rstrip_cons]
    by_cases h : allWs (c :: cs) = true
    · simp [h, trailingEq_allWs _ h, endsWithEq]
    · simp only [h, Bool.false_eq_true, ↓reduceIte]
      by_cases h2 : allWs cs = true
      · have := (rstrip_eq_nil cs).mpr h2
        simp only [this, endsWithEq, trailingEq, h2, trailingEq_allWs _ h2, List.getLast?_singleton, Bool.and_true]
        cases hh : c == '=' <;> simp_all
      · have hne : rstrip cs ≠ [] := fun e => h2 ((rstrip_eq_nil cs).mp e)
        have : endsWithEq (c :: rstrip cs) = endsWithEq (rstrip cs) := by
          cases hr : rstrip cs with
          | nil => exact absurd hr hne
          | cons a b => simp [endsWithEq, List.getLast?_cons_cons]
        rw [this, ih]; simp [trailingEq, h2]

theorem mtNew_eq_isContLine (l : Line) : mtNew l = isContLine l := by
  simp [mtNew, isContLine, content, endsWithEq_rstrip]


theorem split_append_allWs (u w : List Char) (h : allWs w = true) : split (u ++ w) = split u := by
  cases w with
  | nil => simp
  | cons c w' =>
    have hc : ws c = true := by simp only [allWs, List.all_cons, Bool.and_eq_true] at h; exact h.1
    rw [split_append_ws u w' c hc, split_allWs _ h]; simp

/-! ### lemmas about the marker under appending -/

theorem trailingEq_append_allWs (a w : List Char) (h : allWs w = true) : trailingEq (a ++ w) = trailingEq a := by
  induction a with
  | nil => simpa [trailingEq] using trailingEq_allWs w h
  | cons c a ih => simp [trailingEq, allWs_append, h, ih]

theorem body_append_allWs (a w : List Char) (h : allWs w = true) :
    body (a ++ w) = body a ++ (if trailingEq a then [] else w) := by
  induction a with
  | nil => simpa [trailingEq, body] using body_of_not_trailing w (trailingEq_allWs w h)
  | cons c a ih =>
    by_cases hm : (c == '=' && allWs a) = true
    · simp [body, trailingEq, allWs_append, h, hm]
    · simp [body, trailingEq, allWs_append, h, hm, ih]

theorem split_body_append_allWs (a w : List Char) (h : allWs w = true) : split (body (a ++ w)) = split (body a) := by
  rw [body_append_allWs a w h]
  by_cases ht : trailingEq a = true
  · simp [ht]
  · simp only [ht, Bool.false_eq_true, ↓reduceIte]; exact split_append_allWs _ _ h

theorem trailingEq_append (a x : List Char) (h : allWs x = false) : trailingEq (a ++ x) = trailingEq x := by
  induction a with
  | nil => rfl
  | cons c a ih => simp [trailingEq, allWs_append, h, ih]

theorem body_append (a x : List Char) (h : allWs x = false) : body (a ++ x) = a ++ body x := by
  induction a with
  | nil => rfl
  | cons c a ih => simp [body, allWs_append, h, ih]

theorem allWs_blank_cons (x : List Char) : allWs (' ' :: x) = allWs x := by simp [allWs, ws_blank]

theorem trailingEq_blank_cons (x : List Char) : trailingEq (' ' :: x) = trailingEq x := by simp [trailingEq]

theorem allWs_of_split_nil (x : List Char) : split x = [] → allWs x = true := by
  induction x with
  | nil => intro _; rfl
  | cons c x ih =>
    intro h
    by_cases hc : ws c = true
    · rw [split_ws c x hc] at h
      simp only [allWs, List.all_cons, hc, Bool.true_and]; exact ih h
    · simp only [Bool.not_eq_true] at hc; exact absurd h (split_ne_nil c x hc)

/-! ### `normAux` sees a physical line only through four observations -/

theorem normAux_line_congr (L L' : Line) (post : List Line)
    (h1 : indented L' = indented L) (h2 : L'.isEmpty = L.isEmpty)
    (h3 : isContLine L' = isContLine L) (h4 : ptoks L' = ptoks L) :
    ∀ st, normAux st (L' :: post) = normAux st (L :: post) := by
  intro st
  cases st <;> simp [normAux, skip, h1, h2, h3, h4]

theorem normAux_pre_congr (pre x y : List Line) (h : ∀ st, normAux st x = normAux st y) :
    ∀ st, normAux st (pre ++ x) = normAux st (pre ++ y) := by
  induction pre with
  | nil => exact h
  | cons p pre ih =>
    intro st
    cases st <;> simp [normAux, ih]

/-- one line replaced by two: the general shape of a wrap -/
theorem normAux_wrap (L l1 l2 : Line) (post : List Line)
    (hi1 : indented l1 = indented L) (heL : L.isEmpty = false) (he1 : l1.isEmpty = false)
    (hi2 : indented l2 = true) (hc1 : isContLine l1 = true) (hc2 : isContLine l2 = isContLine L)
    (hp : ptoks L = ptoks l1 ++ ptoks l2) (hne : indented L = false → (ptoks l1).isEmpty = false) :
    ∀ st, normAux st (L :: post) = normAux st (l1 :: l2 :: post) := by
  intro st
  cases st with
  | none =>
    by_cases hi : indented L = true
    · simp [normAux, skip, hi, hi1, hi2]
    · simp only [Bool.not_eq_true] at hi
      have hpe : (ptoks L).isEmpty = false := by
        have := hne hi
        rw [hp]; cases h : ptoks l1 with
        | nil => simp [h] at this
        | cons a b => rfl
      have hl1 : ptoks l1 ≠ [] := by
        intro e; have := hne hi; simp [e] at this
      have hL : ptoks l1 ++ ptoks l2 ≠ [] := by simp [hl1]
      cases hcL : isContLine L <;>
        simp [normAux, skip, hi, hi1, hi2, heL, he1, hc1, hc2, hl1, hL, hp, hcL]
  | some acc =>
    by_cases hi : indented L = true
    · simp [normAux, hi, hi1, hi2, hc1, hc2, hp, List.append_assoc]
    · simp [normAux, hi, hi1]

/-- the state after `pre` is "between instructions" when its last line carries no marker -/
def boundary (pre : List Line) : Prop := ∀ p ∈ pre.getLast?, isContLine p = false

theorem normAux_insert_aux (e : Line) (he : skip e = true) (post : List Line) :
    ∀ (pre : List Line), pre ≠ [] → boundary pre →
      ∀ st, normAux st (pre ++ post) = normAux st (pre ++ e :: post) := by
  intro pre
  induction pre with
  | nil => intro h; exact absurd rfl h
  | cons p pre ih =>
    intro _ hb st
    cases pre with
    | nil =>
      have hp : isContLine p = false := hb p (by simp)
      cases st <;> simp [normAux, hp, he]
    | cons q pre' =>
      have hb' : boundary (q :: pre') := by
        intro x hx; apply hb x; simpa [List.getLast?_cons_cons] using hx
      have := ih (by simp) hb'
      exact normAux_pre_congr [p] _ _ this st

theorem norm_insert (e : Line) (he : skip e = true) (pre post : List Line) (hb : boundary pre) :
    norm (pre ++ post) = norm (pre ++ e :: post) := by
  cases pre with
  | nil => simp [norm, normAux, he]
  | cons p pre' => exact normAux_insert_aux e he post (p :: pre') (by simp) hb none


/-! ### the code's gluing yields the specification's logical lines -/

theorem indented_iff (l : Line) : indented l = true ↔ ∃ l', l = ' ' :: l' := by
  constructor
  · intro h
    cases l with
    | nil => simp [indented] at h
    | cons c l' =>
      by_cases hc : c = ' '
      · exact ⟨l', by rw [hc]⟩
      · exfalso
        unfold indented at h
        split at h
        · rename_i heq; injection heq with h1 h2; exact hc h1
        · simp at h
  · rintro ⟨l', rfl⟩; rfl

theorem upperHead_append (t u : List Token) (h : t ≠ []) : upperHead (t ++ u) = upperHead t ++ u := by
  cases t with
  | nil => exact absurd rfl h
  | cons a b => rfl

theorem upperHead_eq_nil (t : List Token) : upperHead t = [] ↔ t = [] := by
  cases t <;> simp [upperHead]

theorem content_blank_cons (x : List Char) : content (' ' :: x) = ' ' :: content x := by
  simp [content, stripComment, List.takeWhile_cons]

theorem isContLine_trailing (l : Line) (h : isContLine l = true) : trailingEq (content l) = true := by
  simp only [isContLine, Bool.and_eq_true] at h; exact h.1

theorem cutNew_cont (C l : List Char) (hC : ∀ c ∈ C, c ≠ '!') (h : isContLine l = true) :
    cutNew (C ++ l) = C ++ body (content l) := by
  have ht := isContLine_trailing l h
  rw [cutNew, stripComment_append C l hC]
  show beforeLastEq (C ++ content l) = _
  rw [beforeLastEq_append C _ (trailingEq_contains _ ht), beforeLastEq_body _ ht]

/-- invariant between the model's accumulated text and the spec's accumulated tokens -/
def Rel : Option (Nat × Line) → Option (List Token) → Prop
  | none, none => True
  | some (_, cur), some acc =>
      acc = upperHead (split (cutNew cur)) ∧ (∀ c ∈ cutNew cur, c ≠ '!') ∧ split (cutNew cur) ≠ []
  | _, _ => False

theorem glue_aux (f : List Line) : ∀ (i : Nat) (ms : Option (Nat × Line)) (ss : Option (List Token))
    (n : List (List Token)), Rel ms ss → normAux ss f = some n →
    mapOk (fun p => tokensOf p.2) (run mtNew cutNew i ms f) = .ok n := by
  induction f with
  | nil =>
    intro i ms ss n hrel hn
    match ms, ss, hrel with
    | none, none, _ =>
      simp only [normAux, Option.some.injEq] at hn
      subst hn; rfl
    | some (_, _), some _, _ => simp [normAux] at hn
  | cons l rest ih =>
    intro i ms ss n hrel hn
    match ms, ss, hrel with
    | none, none, _ =>
      simp only [normAux] at hn
      simp only [run, mtNew_eq_isContLine]
      by_cases hs : skip l = true
      · simp only [hs, ↓reduceIte] at hn ⊢
        exact ih (i + 1) none none n trivial hn
      · simp only [hs, Bool.false_eq_true, ↓reduceIte] at hn ⊢
        have hni : indented l = false := by
          simp only [skip, Bool.or_eq_true, not_or, Bool.not_eq_true] at hs; exact hs.1
        by_cases hc : isContLine l = true
        · simp only [hc, ↓reduceIte] at hn ⊢
          by_cases he : (ptoks l).isEmpty = true
          · simp [he] at hn
          · simp only [he, Bool.false_eq_true, ↓reduceIte] at hn
            have hcut : cutNew l = body (content l) := by
              have := cutNew_cont [] l (by simp) hc
              simpa using this
            have hp : ptoks l = upperHead (split (body (content l))) := by
              simp [ptoks, hc, hni]
            refine ih (i + 1) (some (i, l)) (some (ptoks l)) n ⟨?_, ?_, ?_⟩ hn
            · rw [hcut, hp]
            · rw [hcut]; intro c hm; exact stripComment_noBang l c (mem_body _ c hm)
            · rw [hcut]; intro e; apply he; rw [hp, e]; rfl
        · simp only [hc, Bool.false_eq_true, ↓reduceIte] at hn ⊢
          cases hr : normAux none rest with
          | none => simp [hr] at hn
          | some n' =>
            simp only [hr, Option.map_some, Option.some.injEq] at hn
            have := ih (i + 1) none none n' trivial hr
            cases hrun : run mtNew cutNew (i + 1) none rest with
            | error e => simp [hrun, mapOk] at this
            | ok t =>
              simp only [hrun, mapOk, Except.ok.injEq] at this ⊢
              rw [← hn, List.map_cons, this]
              congr 1
              simp [tokensOf, classify, ptoks, hc, hni, content]
    | some (s, cur), some acc, hrel =>
      obtain ⟨hacc, hbang, hne⟩ := hrel
      simp only [normAux] at hn
      simp only [run, mtNew_eq_isContLine]
      by_cases hi : indented l = true
      · simp only [hi, Bool.not_true, Bool.false_eq_true, ↓reduceIte] at hn
        obtain ⟨l', rfl⟩ := (indented_iff l).mp hi
        by_cases hc : isContLine (' ' :: l') = true
        · simp only [hc, ↓reduceIte] at hn ⊢
          have hcut := cutNew_cont (cutNew cur) (' ' :: l') hbang hc
          rw [content_blank_cons, body_cons_blank] at hcut
          have hp : ptoks (' ' :: l') = split (' ' :: body (content l')) := by
            simp [ptoks, hc, indented, content_blank_cons, body_cons_blank]
          refine ih (i + 1) (some (s, cutNew cur ++ ' ' :: l')) (some (acc ++ ptoks (' ' :: l'))) n ⟨?_, ?_, ?_⟩ hn
          · rw [hcut, split_append_blank, upperHead_append _ _ hne, hacc, hp]
          · rw [hcut]; intro c hm
            rcases List.mem_append.mp hm with h | h
            · exact hbang c h
            · rcases List.mem_cons.mp h with h | h
              · rw [h]; decide
              · exact stripComment_noBang l' c (mem_body _ c h)
          · rw [hcut, split_append_blank]; intro e
            exact hne (List.append_eq_nil_iff.mp e).1
        · simp only [hc, Bool.false_eq_true, ↓reduceIte] at hn ⊢
          cases hr : normAux none rest with
          | none => simp [hr] at hn
          | some n' =>
            simp only [hr, Option.map_some, Option.some.injEq] at hn
            have := ih (i + 1) none none n' trivial hr
            cases hrun : run mtNew cutNew (i + 1) none rest with
            | error e => simp [hrun, mapOk] at this
            | ok t =>
              simp only [hrun, mapOk, Except.ok.injEq] at this ⊢
              rw [← hn, List.map_cons, this]
              congr 1
              have hp : ptoks (' ' :: l') = split (' ' :: content l') := by
                simp [ptoks, hc, indented, content_blank_cons]
              show upperHead (split (stripComment (cutNew cur ++ ' ' :: l'))) = _
              rw [stripComment_append _ _ hbang]
              show upperHead (split (cutNew cur ++ content (' ' :: l'))) = _
              rw [content_blank_cons, split_append_blank, upperHead_append _ _ hne, hacc, hp]
      · simp [hi] at hn

/-- **glue_tokens** — for every file with a valid layout, what the (repaired) code's continuation loop hands to the
    rest of the parser, line by line, is the specification's list of logical token lines: the character-level
    gluing (`rpartition('=')` on the accumulated text, comment stripping afterwards, blanking of consumed lines)
    neither loses nor invents nor merges tokens, and never runs past the end of the file.
    `norm f = some n` is the decidable validity of the layout (continuation lines indented, no marker on the
    last line, no marker without instruction); outside it the real code raises IndexError or glues a token
    onto its neighbour (`C1=` + `C2`). -/
theorem glue_tokens (f : List Line) (n : List (List Token)) (h : norm f = some n) : modelTokens f = .ok n :=
  glue_aux f 0 none none n trivial h

example : norm ["dfix 1.5 c1 = ! x = y".toList, "   C2 =".toList, " C3".toList, "  ignored".toList, "rem a =".toList] =
    some [["DFIX".toList, "1.5".toList, "c1".toList, "C2".toList, "C3".toList], ["REM".toList, "a".toList, "=".toList]] := by
  decide


/-! ### layout steps -/

def noBang (a : List Char) : Prop := ∀ c ∈ a, c ≠ '!'
/-- blanks are the only white space (no tabs etc.) -/
def onlyBlanks (a : List Char) : Prop := ∀ c ∈ a, ws c = true → c = ' '

instance (a : List Char) : Decidable (noBang a) := by unfold noBang; infer_instance
instance (a : List Char) : Decidable (onlyBlanks a) := by unfold onlyBlanks; infer_instance

theorem content_append (a x : List Char) (h : noBang a) : content (a ++ x) = a ++ content x :=
  stripComment_append a x h

theorem content_noBang (a : List Char) (h : noBang a) : content a = a := by
  have := content_append a [] h
  simpa [content, stripComment] using this

theorem plainRem_indented (l : List Char) : plainRem (' ' :: l) = false := by
  have : (Char.toUpper ' ' == 'R') = false := by decide
  cases l with
  | nil => simp [plainRem, upper, this]
  | cons c l => cases l <;> simp [plainRem, upper, this]

theorem indented_cons_append (c : Char) (a x y : List Char) : indented (c :: a ++ x) = indented (c :: a ++ y) := by
  by_cases h : c = ' '
  · subst h; rfl
  · have : ∀ z, indented (c :: z) = false := by
      intro z; unfold indented; split
      · rename_i heq; injection heq with h1 _; exact absurd h1 h
      · rfl
    simp [this]

structure WrapHyp (a b : List Char) : Prop where
  noBang : noBang a
  notRem : plainRem (a ++ ' ' :: b) = false
  notRem1 : plainRem (a ++ [' ', '=']) = false
  token : split (content b) ≠ []
  blanks : onlyBlanks a

theorem wrap_facts (a b : List Char) (h : WrapHyp a b) (post : List Line) :
    ∀ st, normAux st ((a ++ ' ' :: b) :: post) = normAux st ((a ++ [' ', '=']) :: (' ' :: b) :: post) := by
  have hx : allWs (content b) = false := by
    cases hh : allWs (content b) with
    | false => rfl
    | true => exact absurd (split_allWs _ hh) h.token
  have hx' : allWs (' ' :: content b) = false := by rw [allWs_blank_cons]; exact hx
  have hcL : content (a ++ ' ' :: b) = a ++ ' ' :: content b := by
    rw [content_append a _ h.noBang, content_blank_cons]
  have hc1 : content (a ++ [' ', '=']) = a ++ [' ', '='] := by
    rw [content_append a _ h.noBang]; rfl
  have hmk : allWs [' ', '='] = false := by decide
  have hiL : isContLine (a ++ ' ' :: b) = trailingEq (content b) := by
    simp only [isContLine, hcL, h.notRem, trailingEq_append a _ hx', trailingEq_blank_cons]; simp
  have hi1 : isContLine (a ++ [' ', '=']) = true := by
    simp only [isContLine, hc1, h.notRem1, trailingEq_append a _ hmk]; decide
  have hi2 : isContLine (' ' :: b) = trailingEq (content b) := by
    simp only [isContLine, content_blank_cons, trailingEq_blank_cons, plainRem_indented]; simp
  -- tokens
  have hT1 : split (body (content (a ++ [' ', '=']))) = split a := by
    rw [hc1, body_append a _ hmk]
    have : body [' ', '='] = [' '] := by decide
    rw [this, split_append_blank, split_blank_cons]; simp [split]
  have hTL : split (if isContLine (a ++ ' ' :: b) then body (content (a ++ ' ' :: b)) else content (a ++ ' ' :: b)) =
      split a ++ split (if isContLine (' ' :: b) then body (content (' ' :: b)) else content (' ' :: b)) := by
    rw [hiL, hi2, hcL, content_blank_cons]
    cases trailingEq (content b) with
    | true =>
      simp only [↓reduceIte]
      rw [body_append a _ hx', body_cons_blank, split_append_blank]
    | false =>
      simp only [Bool.false_eq_true, ↓reduceIte]
      rw [split_append_blank]
  have hp2 : ptoks (' ' :: b) = split (if isContLine (' ' :: b) then body (content (' ' :: b)) else content (' ' :: b)) := by
    simp [ptoks, indented]
  apply normAux_wrap
  · -- indented l1 = indented L
    cases a with
    | nil => rfl
    | cons c a' => exact indented_cons_append c a' _ _
  · cases a <;> rfl
  · cases a <;> rfl
  · rfl
  · exact hi1
  · rw [hi2, hiL]
  · -- ptoks
    by_cases hind : indented (a ++ ' ' :: b) = true
    · have hind1 : indented (a ++ [' ', '=']) = true := by
        cases a with
        | nil => rfl
        | cons c a' => rw [← hind]; exact indented_cons_append c a' _ _
      rw [hp2]
      simp only [ptoks, hind, hind1, hi1, ↓reduceIte]
      rw [hTL, hT1]
    · have hind1 : indented (a ++ [' ', '=']) = false := by
        cases a with
        | nil => exact absurd rfl hind
        | cons c a' =>
          simp only [Bool.not_eq_true] at hind
          rw [← hind]; exact indented_cons_append c a' _ _
      have hne : split a ≠ [] := by
        cases a with
        | nil => exact absurd rfl hind
        | cons c a' =>
          apply split_ne_nil
          cases hw : ws c with
          | false => rfl
          | true =>
            have := h.blanks c (by simp) hw
            subst this; exact absurd rfl hind
      rw [hp2]
      simp only [ptoks, hind, hind1, hi1, Bool.false_eq_true, ↓reduceIte]
      rw [hTL, hT1, upperHead_append _ _ hne]
  · intro hind
    have hind1 : indented (a ++ [' ', '=']) = false := by
      cases a with
      | nil => simp [indented] at hind
      | cons c a' => rw [← hind]; exact indented_cons_append c a' _ _
    have hne : split a ≠ [] := by
      cases a with
      | nil => simp [indented] at hind
      | cons c a' =>
        apply split_ne_nil
        cases hw : ws c with
        | false => rfl
        | true =>
          have := h.blanks c (by simp) hw
          subst this; simp [indented] at hind
    simp only [ptoks, hind1, hi1, Bool.false_eq_true, ↓reduceIte]
    rw [hT1]
    cases hs : split a with
    | nil => exact absurd hs hne
    | cons t ts => rfl


/-- tokens of a physical line before keyword casing -/
def T (l : Line) : List Token := split (if isContLine l then body (content l) else content l)

theorem ptoks_eq (l : Line) : ptoks l = if indented l then T l else upperHead (T l) := rfl

theorem blanks_facts (a b : List Char) (hB : noBang a)
    (hr : plainRem (a ++ ' ' :: b) = false) (hr' : plainRem (a ++ ' ' :: ' ' :: b) = false) (post : List Line) :
    ∀ st, normAux st ((a ++ ' ' :: ' ' :: b) :: post) = normAux st ((a ++ ' ' :: b) :: post) := by
  have hc : content (a ++ ' ' :: b) = a ++ ' ' :: content b := by
    rw [content_append a _ hB, content_blank_cons]
  have hc' : content (a ++ ' ' :: ' ' :: b) = a ++ ' ' :: ' ' :: content b := by
    rw [content_append a _ hB, content_blank_cons, content_blank_cons]
  have hind : indented (a ++ ' ' :: ' ' :: b) = indented (a ++ ' ' :: b) := by
    cases a with
    | nil => rfl
    | cons c a' => exact indented_cons_append c a' _ _
  have key : isContLine (a ++ ' ' :: ' ' :: b) = isContLine (a ++ ' ' :: b) ∧ T (a ++ ' ' :: ' ' :: b) = T (a ++ ' ' :: b) := by
    simp only [T, isContLine, hc, hc', hr, hr']
    by_cases hx : allWs (content b) = true
    · have h1 : allWs (' ' :: content b) = true := by rw [allWs_blank_cons]; exact hx
      have h2 : allWs (' ' :: ' ' :: content b) = true := by rw [allWs_blank_cons]; exact h1
      rw [trailingEq_append_allWs a _ h1, trailingEq_append_allWs a _ h2]
      refine ⟨rfl, ?_⟩
      cases trailingEq a with
      | true => simp only [Bool.not_false, Bool.and_true, ↓reduceIte]
                rw [split_body_append_allWs a _ h1, split_body_append_allWs a _ h2]
      | false => simp only [Bool.not_false, Bool.and_true, Bool.false_eq_true, ↓reduceIte]
                 rw [split_append_allWs a _ h1, split_append_allWs a _ h2]
    · simp only [Bool.not_eq_true] at hx
      have h1 : allWs (' ' :: content b) = false := by rw [allWs_blank_cons]; exact hx
      have h2 : allWs (' ' :: ' ' :: content b) = false := by rw [allWs_blank_cons]; exact h1
      rw [trailingEq_append a _ h1, trailingEq_append a _ h2]
      simp only [trailingEq_blank_cons]
      refine ⟨by simp, ?_⟩
      cases trailingEq (content b) with
      | true => simp only [Bool.not_false, Bool.and_true, ↓reduceIte, body_append a _ h1, body_append a _ h2,
                  body_cons_blank, split_append_blank, split_blank_cons]
      | false => simp only [Bool.not_false, Bool.and_true, Bool.false_eq_true, ↓reduceIte, split_append_blank,
                  split_blank_cons]
  apply normAux_line_congr
  · exact hind
  · cases a <;> rfl
  · exact key.1
  · rw [ptoks_eq, ptoks_eq, hind, key.2]

theorem comment_facts (L t : List Char) (hne : L ≠ []) (hB : noBang L)
    (hr : plainRem L = false) (hr' : plainRem (L ++ ' ' :: '!' :: t) = false) (post : List Line) :
    ∀ st, normAux st ((L ++ ' ' :: '!' :: t) :: post) = normAux st (L :: post) := by
  have hc : content L = L := content_noBang L hB
  have hc' : content (L ++ ' ' :: '!' :: t) = L ++ [' '] := by
    rw [content_append L _ hB]; simp [content, stripComment]
  have hw : allWs [' '] = true := by decide
  have hind : indented (L ++ ' ' :: '!' :: t) = indented L := by
    cases L with
    | nil => exact absurd rfl hne
    | cons c r => have := indented_cons_append c r (' ' :: '!' :: t) []; simpa using this
  have h3 : isContLine (L ++ ' ' :: '!' :: t) = isContLine L := by
    simp only [isContLine, hc, hc', hr, hr', trailingEq_append_allWs L _ hw]
  have h4 : T (L ++ ' ' :: '!' :: t) = T L := by
    simp only [T, h3, hc, hc']
    cases isContLine L with
    | true => simp only [↓reduceIte]; exact split_body_append_allWs L _ hw
    | false => simp only [Bool.false_eq_true, ↓reduceIte]; exact split_append_allWs L _ hw
  apply normAux_line_congr
  · exact hind
  · cases L with
    | nil => exact absurd rfl hne
    | cons c r => rfl
  · exact h3
  · rw [ptoks_eq, ptoks_eq, hind, h4]

/-- characters a keyword is made of -/
def kwChars (k : List Char) : Prop := ∀ c ∈ k, ws c = false ∧ c ≠ '!' ∧ c ≠ '='

instance (k : List Char) : Decidable (kwChars k) := by unfold kwChars; infer_instance

theorem split_token (k : List Char) (hne : k ≠ []) (h : ∀ c ∈ k, ws c = false) : split k = [k] := by
  induction k with
  | nil => exact absurd rfl hne
  | cons c k ih =>
    cases k with
    | nil => exact split_single c (h c (by simp))
    | cons d k' =>
      rw [split_nws_nws c d k' (h c (by simp)) (h d (by simp)), ih (by simp) (fun x hx => h x (by simp [hx]))]
      rfl

theorem trailingEq_append_kw (k y : List Char) (h : ∀ c ∈ k, c ≠ '=') : trailingEq (k ++ y) = trailingEq y := by
  induction k with
  | nil => rfl
  | cons c k ih =>
    have hc : (c == '=') = false := by simpa using h c (by simp)
    simp [trailingEq, hc, ih (fun x hx => h x (by simp [hx]))]

theorem body_append_kw (k y : List Char) (h : ∀ c ∈ k, c ≠ '=') : body (k ++ y) = k ++ body y := by
  induction k with
  | nil => rfl
  | cons c k ih =>
    have hc : (c == '=') = false := by simpa using h c (by simp)
    simp [body, hc, ih (fun x hx => h x (by simp [hx]))]

theorem upper_append (a b : List Char) : upper (a ++ b) = upper a ++ upper b := by simp [upper]

theorem plainRem_upper (L L' : List Char) (h : upper L = upper L') : plainRem L = plainRem L' := by
  have h3 : upper (L.take 3) = upper (L'.take 3) := by
    simp only [upper] at h ⊢; rw [List.map_take, List.map_take, h]
  simp only [plainRem, dsrMatch, h, h3]

/-- the rest of a line after its first token: nothing, or it starts with white space -/
def restOk (r : List Char) : Prop := r = [] ∨ ∃ s r', r = s :: r' ∧ ws s = true

theorem T_kw (k r : List Char) (hne : k ≠ []) (hk : kwChars k) (hr : restOk r) :
    ∃ Z, ∀ k', k' ≠ [] → kwChars k' → isContLine (k' ++ r) = isContLine (k ++ r) → T (k' ++ r) = [k'] ++ Z := by
  have hcont : ∀ k', kwChars k' → content (k' ++ r) = k' ++ content r :=
    fun k' hk' => content_append k' r (fun c hc => (hk' c hc).2.1)
  rcases hr with rfl | ⟨s, r', rfl, hs⟩
  · refine ⟨[], fun k' hne' hk' _ => ?_⟩
    have hb : body k' = k' := by
      have := body_append_kw k' [] (fun c hc => (hk' c hc).2.2); simpa [body] using this
    have hcc : content k' = k' := content_noBang k' (fun c hc => (hk' c hc).2.1)
    simp only [T, List.append_nil, hcc, hb, ite_self]
    exact split_token k' hne' (fun c hc => (hk' c hc).1)
  · have hsb : s ≠ '!' := by intro e; rw [e] at hs; exact absurd hs (by decide)
    have hse : (s == '=') = false := by
      cases hh : s == '=' with
      | false => rfl
      | true => rw [beq_iff_eq.mp hh] at hs; exact absurd hs (by decide)
    have hcs : content (s :: r') = s :: content r' := by
      simp [content, stripComment, List.takeWhile_cons, hsb]
    have hbs : body (s :: content r') = s :: body (content r') := by simp [body, hse]
    refine ⟨split (if isContLine (k ++ s :: r') then s :: body (content r') else s :: content r'),
      fun k' hne' hk' hci => ?_⟩
    simp only [T, hci, hcont k' hk', hcs]
    cases isContLine (k ++ s :: r') with
    | true =>
      simp only [↓reduceIte]
      rw [body_append_kw k' _ (fun c hc => (hk' c hc).2.2), hbs, split_append_ws _ _ s hs,
        split_token k' hne' (fun c hc => (hk' c hc).1)]
    | false =>
      simp only [Bool.false_eq_true, ↓reduceIte]
      rw [split_append_ws _ _ s hs, split_token k' hne' (fun c hc => (hk' c hc).1)]

theorem case_facts (k k' r : List Char) (hne : k ≠ []) (hne' : k' ≠ []) (hk : kwChars k) (hk' : kwChars k')
    (hu : upper k = upper k') (hr : restOk r) (post : List Line) :
    ∀ st, normAux st ((k' ++ r) :: post) = normAux st ((k ++ r) :: post) := by
  have hnb : ∀ (k : List Char), k ≠ [] → kwChars k → indented (k ++ r) = false ∧ (k ++ r).isEmpty = false := by
    intro k hne hk
    cases k with
    | nil => exact absurd rfl hne
    | cons c k0 =>
      refine ⟨?_, rfl⟩
      have hc := (hk c (by simp)).1
      have : c ≠ ' ' := by intro e; rw [e] at hc; exact absurd hc (by decide)
      show indented (c :: (k0 ++ r)) = false
      unfold indented; split
      · rename_i heq; injection heq with h1 _; exact absurd h1 this
      · rfl
  have hpr : plainRem (k' ++ r) = plainRem (k ++ r) :=
    plainRem_upper _ _ (by rw [upper_append, upper_append, hu])
  have hci : isContLine (k' ++ r) = isContLine (k ++ r) := by
    simp only [isContLine, hpr, content_append k r (fun c hc => (hk c hc).2.1),
      content_append k' r (fun c hc => (hk' c hc).2.1),
      trailingEq_append_kw k _ (fun c hc => (hk c hc).2.2), trailingEq_append_kw k' _ (fun c hc => (hk' c hc).2.2)]
  obtain ⟨Z, hZ⟩ := T_kw k r hne hk hr
  apply normAux_line_congr
  · rw [(hnb k hne hk).1, (hnb k' hne' hk').1]
  · rw [(hnb k hne hk).2, (hnb k' hne' hk').2]
  · exact hci
  · rw [ptoks_eq, ptoks_eq, (hnb k hne hk).1, (hnb k' hne' hk').1, hZ k' hne' hk' hci, hZ k hne hk rfl]
    simp [upperHead, hu]


/-- One elementary change of layout, comment or keyword case (the relation is closed under symmetry and
    transitivity in `LayoutEq`). `pre`/`post` are the untouched lines before and after.
    Hypotheses, and what each excludes:
    * `noBang a` — the edit happens in the instruction part of the line, not inside an existing comment;
    * `plainRem … = false` — REM lines are free text: their blanks are content and they are never continued
      (`REM a b` wrapped into `REM a =` / ` b` *is* a different file; real code and spec agree on that);
    * `WrapHyp.token` — a wrap point has a token after it (otherwise the new ` =` would follow an old marker);
    * `WrapHyp.blanks` — blanks are the only white space in front of the wrap point (a line that starts with
      a tab is not "indented" for `line.startswith(' ')`);
    * `boundary pre` — blank lines / indented comment lines are added between instructions, not between a
      line carrying the marker and its continuation;
    * `kwChars`/`restOk` — `k` is exactly the first token of a non-indented line. -/
inductive LayoutStep : List Line → List Line → Prop
  | wrap (pre post : List Line) (a b : List Char) (h : WrapHyp a b) :
      LayoutStep (pre ++ (a ++ ' ' :: b) :: post) (pre ++ (a ++ [' ', '=']) :: (' ' :: b) :: post)
  | blanks (pre post : List Line) (a b : List Char) (hB : noBang a)
      (hr : plainRem (a ++ ' ' :: b) = false) (hr' : plainRem (a ++ ' ' :: ' ' :: b) = false) :
      LayoutStep (pre ++ (a ++ ' ' :: b) :: post) (pre ++ (a ++ ' ' :: ' ' :: b) :: post)
  | comment (pre post : List Line) (L t : List Char) (hne : L ≠ []) (hB : noBang L)
      (hr : plainRem L = false) (hr' : plainRem (L ++ ' ' :: '!' :: t) = false) :
      LayoutStep (pre ++ L :: post) (pre ++ (L ++ ' ' :: '!' :: t) :: post)
  | blankLine (pre post : List Line) (e : List Char) (he : ∀ c ∈ e, c = ' ') (hb : boundary pre) :
      LayoutStep (pre ++ post) (pre ++ e :: post)
  | commentLine (pre post : List Line) (t : List Char) (hb : boundary pre) :
      LayoutStep (pre ++ post) (pre ++ (' ' :: t) :: post)
  | kwCase (pre post : List Line) (k k' r : List Char) (hne : k ≠ []) (hne' : k' ≠ []) (hk : kwChars k)
      (hk' : kwChars k') (hu : upper k = upper k') (hr : restOk r) :
      LayoutStep (pre ++ (k ++ r) :: post) (pre ++ (k' ++ r) :: post)

/-- **layout_preserves_norm** — every elementary layout step leaves the normal form (validity included:
    `none = none` for files that are not valid) unchanged. -/
theorem layout_preserves_norm {f f' : List Line} (h : LayoutStep f f') : norm f = norm f' := by
  cases h with
  | wrap pre post a b h => exact normAux_pre_congr pre _ _ (wrap_facts a b h post) none
  | blanks pre post a b hB hr hr' => exact (normAux_pre_congr pre _ _ (blanks_facts a b hB hr hr' post) none).symm
  | comment pre post L t hne hB hr hr' =>
    exact (normAux_pre_congr pre _ _ (comment_facts L t hne hB hr hr' post) none).symm
  | blankLine pre post e he hb =>
    apply norm_insert e _ pre post hb
    cases e with
    | nil => rfl
    | cons c e' => rw [he c (by simp)]; rfl
  | commentLine pre post t hb => exact norm_insert _ rfl pre post hb
  | kwCase pre post k k' r hne hne' hk hk' hu hr =>
    exact (normAux_pre_congr pre _ _ (case_facts k k' r hne hne' hk hk' hu hr post) none).symm

/-- any sequence of layout steps, forwards or backwards -/
inductive LayoutEq : List Line → List Line → Prop
  | refl (f) : LayoutEq f f
  | step {f g h} : LayoutEq f g → LayoutStep g h → LayoutEq f h
  | back {f g h} : LayoutEq f g → LayoutStep h g → LayoutEq f h

theorem layoutEq_norm {f f' : List Line} (h : LayoutEq f f') : norm f = norm f' := by
  induction h with
  | refl => rfl
  | step _ s ih => exact ih.trans (layout_preserves_norm s)
  | back _ s ih => exact ih.trans (layout_preserves_norm s).symm

/-- **layout_invariance** — two files that differ only by layout steps, one of them a valid layout: the
    (repaired) code's continuation loop hands the same token lines (keyword upper-cased, everything else as
    written) to the rest of the parser for both, without raising. -/
theorem layout_invariance {f f' : List Line} (h : LayoutEq f f') (n : List (List Token)) (hv : norm f = some n) :
    modelTokens f = .ok n ∧ modelTokens f' = .ok n :=
  ⟨glue_tokens f n hv, glue_tokens f' n ((layoutEq_norm h).symm.trans hv)⟩

theorem LayoutStep.cast {f g f' g' : List Line} (h : LayoutStep f g) (e1 : f = f') (e2 : g = g') :
    LayoutStep f' g' := e1 ▸ e2 ▸ h

/-- a non-trivial instance: wrap after `1.5`, comment with '=' on the first part, keyword in lower case -/
example : LayoutEq ["DFIX 1.5 C1 C2".toList, "END".toList]
    ["dfix 1.5 = ! a = b".toList, " C1 C2".toList, "END".toList] := by
  have s1 : LayoutStep ["DFIX 1.5 C1 C2".toList, "END".toList] ["DFIX 1.5 =".toList, " C1 C2".toList, "END".toList] :=
    (LayoutStep.wrap [] ["END".toList] "DFIX 1.5".toList "C1 C2".toList
      ⟨by decide, by decide, by decide, by decide, by decide⟩).cast (by decide) (by decide)
  have s2 : LayoutStep ["DFIX 1.5 =".toList, " C1 C2".toList, "END".toList]
      ["DFIX 1.5 = ! a = b".toList, " C1 C2".toList, "END".toList] :=
    (LayoutStep.comment [] [" C1 C2".toList, "END".toList] "DFIX 1.5 =".toList " a = b".toList (by decide) (by decide)
      (by decide) (by decide)).cast (by decide) (by decide)
  have s3 : LayoutStep ["DFIX 1.5 = ! a = b".toList, " C1 C2".toList, "END".toList]
      ["dfix 1.5 = ! a = b".toList, " C1 C2".toList, "END".toList] :=
    (LayoutStep.kwCase [] [" C1 C2".toList, "END".toList] "DFIX".toList "dfix".toList " 1.5 = ! a = b".toList
      (by decide) (by decide) (by decide) (by decide) (by decide) (Or.inr ⟨' ', _, rfl, by decide⟩)).cast
      (by decide) (by decide)
  exact .step (.step (.step (.refl _) s1) s2) s3

/-! ### the code as it was (before fixes/C05_1, C05_2): the same statements fail, with witnesses -/

/-- `Except` made comparable -/
def okOf {α} : Except PyErr α → Option α
  | .ok a => some a
  | .error _ => none

/-- full-strength statement for a model `m` of the continuation loop -/
def GlueStatement (m : List Line → Except PyErr (List (List Token))) : Prop :=
  ∀ f n, norm f = some n → m f = .ok n

theorem glue_holds_repaired : GlueStatement modelTokens := glue_tokens

/-- a '!' comment that contains '=' swallows the next instruction -/
theorem old_fails_on_comment_with_eq : ¬ GlueStatement modelTokensOld := by
  intro h
  have := h ["TEMP -100 ! T = low".toList, "L.S. 10".toList]
    [["TEMP".toList, "-100".toList], ["L.S.".toList, "10".toList]] (by decide)
  have h2 := congrArg okOf this
  revert h2; decide

/-- `rem a = b` in lower case: the REM exemption was case-sensitive -/
theorem old_fails_on_lower_case_rem : ¬ GlueStatement modelTokensOld := by
  intro h
  have := h ["rem a = b".toList, "L.S. 10".toList]
    [["REM".toList, "a".toList, "=".toList, "b".toList], ["L.S.".toList, "10".toList]] (by decide)
  have h2 := congrArg okOf this
  revert h2; decide

/-- a wrapped line whose comment contains another '=': the text is cut inside the comment -/
theorem old_fails_on_comment_after_marker : ¬ GlueStatement modelTokensOld := by
  intro h
  have := h ["DFIX 1.5 C1 C2 = ! a = b".toList, "  C3 C4".toList]
    [["DFIX".toList, "1.5".toList, "C1".toList, "C2".toList, "C3".toList, "C4".toList]] (by decide)
  have h2 := congrArg okOf this
  revert h2; decide

/-- a '=' comment on the last line: the old loop reads past the end of the file (IndexError) -/
theorem old_raises_on_last_line : okOf (modelTokensOld ["END ! a=b".toList]) = none ∧
    okOf (modelTokens ["END ! a=b".toList]) = some [["END".toList]] := by decide

/-! ### residue classes behind the tokens -/

/-- **class_lookup_ci** — after fixes/C05_3 the residue numbers a restraint's class suffix resolves to do not
    depend on the letter case of the RESI classes or of the suffix -/
theorem class_lookup_ci (rs rs' : List (Token × Int)) (s s' : Token)
    (hr : rs.map (fun r => (upper r.1, r.2)) = rs'.map (fun r => (upper r.1, r.2))) (hs : upper s = upper s') :
    classNumbers keyNew rs s = classNumbers keyNew rs' s' := by
  have key : ∀ (rs rs' : List (Token × Int)), rs.map (fun r => (upper r.1, r.2)) = rs'.map (fun r => (upper r.1, r.2)) →
      (rs.filter fun r => keyNew r.1 (upper s)).map (·.2) = (rs'.filter fun r => keyNew r.1 (upper s')).map (·.2) := by
    intro rs
    induction rs with
    | nil => intro rs' h; cases rs' with
      | nil => rfl
      | cons _ _ => simp at h
    | cons r rs ih =>
      intro rs' h
      cases rs' with
      | nil => simp at h
      | cons r' rs' =>
        simp only [List.map_cons, List.cons.injEq, Prod.mk.injEq] at h
        obtain ⟨⟨h1, h2⟩, h3⟩ := h
        have := ih rs' h3
        have hk : keyNew r.1 (upper s) = keyNew r'.1 (upper s') := by simp only [keyNew, h1, hs]
        simp only [List.filter_cons, hk]
        cases keyNew r'.1 (upper s') with
        | true => simp only [↓reduceIte, List.map_cons, this, h2]
        | false => simpa using this
  simp only [classNumbers, key rs rs' hr]

/-- the code as it was: `RESI ccf 1` is not found by `SADI_ccf` (suffix upper-cased, dictionary key as written) -/
theorem class_lookup_old_fails :
    classNumbers keyOld [("ccf".toList, 1)] "ccf".toList = [0] ∧
    specClassNumbers [("ccf".toList, 1)] "ccf".toList = [1] ∧
    classNumbers keyNew [("ccf".toList, 1)] "ccf".toList = [1] := by decide

/-! ### letter case: upper-casing never touches the characters the layout is made of -/

/-- the characters that carry layout: white space, the comment sign, the continuation marker -/
def layoutChar (c : Char) : Bool := ws c || c == '!' || c == '='

theorem lower_is_ofNat (c : Char) (h : 'a'.val ≤ c.val ∧ c.val ≤ 'z'.val) :
    ∃ n : Fin 26, c = Char.ofNat (97 + n.val) := by
  have ha : 'a'.val.toNat = 97 := by decide
  have hz : 'z'.val.toNat = 122 := by decide
  have h1 : 97 ≤ c.toNat := by
    have := UInt32.le_iff_toNat_le.mp h.1
    rw [ha] at this; exact this
  have h2 : c.toNat ≤ 122 := by
    have := UInt32.le_iff_toNat_le.mp h.2
    rw [hz] at this; exact this
  refine ⟨⟨c.toNat - 97, by omega⟩, ?_⟩
  have : 97 + (c.toNat - 97) = c.toNat := by omega
  simp only [this, Char.ofNat_toNat]

theorem lower_table : ∀ n : Fin 26,
    layoutChar (Char.ofNat (97 + n.val)) = false ∧ layoutChar (Char.ofNat (97 + n.val)).toUpper = false ∧
    (Char.ofNat (97 + n.val)).toUpper.toUpper = (Char.ofNat (97 + n.val)).toUpper := by decide

theorem toUpper_spec (c : Char) :
    c.toUpper = c ∨ (layoutChar c = false ∧ layoutChar c.toUpper = false ∧ c.toUpper.toUpper = c.toUpper) := by
  by_cases h : 'a'.val ≤ c.val ∧ c.val ≤ 'z'.val
  · right
    obtain ⟨n, rfl⟩ := lower_is_ofNat c h
    exact lower_table n
  · left
    unfold Char.toUpper
    rw [dif_neg h]


theorem layout_of_not (c : Char) (h : layoutChar c = false) : ws c = false ∧ c ≠ '!' ∧ c ≠ '=' := by
  simp only [layoutChar, Bool.or_eq_false_iff, beq_eq_false_iff_ne] at h
  exact ⟨h.1.1, h.1.2, h.2⟩

theorem toUpper_ws (c : Char) : ws c.toUpper = ws c := by
  rcases toUpper_spec c with h | ⟨h1, h2, _⟩
  · rw [h]
  · rw [(layout_of_not _ h1).1, (layout_of_not _ h2).1]

theorem toUpper_bne_bang (c : Char) : (c.toUpper != '!') = (c != '!') := by
  rcases toUpper_spec c with h | ⟨h1, h2, _⟩
  · rw [h]
  · rw [bne_iff_ne.mpr (layout_of_not _ h1).2.1, bne_iff_ne.mpr (layout_of_not _ h2).2.1]

theorem toUpper_beq_eq (c : Char) : (c.toUpper == '=') = (c == '=') := by
  rcases toUpper_spec c with h | ⟨h1, h2, _⟩
  · rw [h]
  · rw [beq_eq_false_iff_ne.mpr (layout_of_not _ h1).2.2, beq_eq_false_iff_ne.mpr (layout_of_not _ h2).2.2]

theorem toUpper_beq_blank (c : Char) : (c.toUpper == ' ') = (c == ' ') := by
  rcases toUpper_spec c with h | ⟨h1, h2, _⟩
  · rw [h]
  · have a : c ≠ ' ' := by intro e; have := (layout_of_not _ h1).1; rw [e] at this; exact absurd this (by decide)
    have b : c.toUpper ≠ ' ' := by intro e; have := (layout_of_not _ h2).1; rw [e] at this; exact absurd this (by decide)
    rw [beq_eq_false_iff_ne.mpr a, beq_eq_false_iff_ne.mpr b]

theorem toUpper_idem (c : Char) : c.toUpper.toUpper = c.toUpper := by
  rcases toUpper_spec c with h | ⟨_, _, h3⟩
  · rw [h]; exact h
  · exact h3

theorem upper_cons (c : Char) (l : List Char) : upper (c :: l) = c.toUpper :: upper l := rfl

theorem upper_idem (l : List Char) : upper (upper l) = upper l := by
  induction l with
  | nil => rfl
  | cons c l ih => rw [upper_cons, upper_cons, toUpper_idem, ih]

theorem allWs_upper (l : List Char) : allWs (upper l) = allWs l := by
  induction l with
  | nil => rfl
  | cons c l ih =>
    simp only [allWs, List.all_cons, upper_cons, toUpper_ws] at ih ⊢
    rw [ih]

theorem stripComment_cons (c : Char) (l : List Char) :
    stripComment (c :: l) = if (c != '!') = true then c :: stripComment l else [] := by
  simp [stripComment, List.takeWhile_cons]

theorem stripComment_upper (l : List Char) : stripComment (upper l) = upper (stripComment l) := by
  induction l with
  | nil => rfl
  | cons c l ih =>
    rw [upper_cons, stripComment_cons, stripComment_cons, toUpper_bne_bang, ih]
    by_cases h : (c != '!') = true
    · simp only [h, ↓reduceIte, upper_cons]
    · simp only [h]; rfl

theorem startsWs_upper (l : List Char) : startsWs (upper l) = startsWs l := by
  cases l with
  | nil => rfl
  | cons c l => simp only [upper_cons, startsWs, toUpper_ws]

theorem consTok_upper (c : Char) (ts : List Token) : consTok c.toUpper (ts.map upper) = (consTok c ts).map upper := by
  cases ts <;> simp [consTok, upper]

theorem split_upper (l : List Char) : split (upper l) = (split l).map upper := by
  induction l with
  | nil => rfl
  | cons c cs ih =>
    rw [upper_cons, split.eq_2, split.eq_2, toUpper_ws, startsWs_upper, ih]
    by_cases h1 : ws c = true
    · simp only [h1, ↓reduceIte]
    · by_cases h2 : startsWs cs = true
      · simp [h1, h2, upper]
      · simp [h1, h2, consTok_upper]

theorem trailingEq_upper (l : List Char) : trailingEq (upper l) = trailingEq l := by
  induction l with
  | nil => rfl
  | cons c cs ih => simp only [upper_cons, trailingEq, toUpper_beq_eq, allWs_upper, ih]

theorem body_upper (l : List Char) : body (upper l) = upper (body l) := by
  induction l with
  | nil => rfl
  | cons c cs ih =>
    simp only [upper_cons, body, toUpper_beq_eq, allWs_upper, ih]
    cases (c == '=' && allWs cs) <;> simp [upper]

theorem indented_cons (c : Char) (l : List Char) : indented (c :: l) = (c == ' ') := by
  by_cases h : c = ' '
  · subst h; rfl
  · have : (c == ' ') = false := by simpa using h
    rw [this]; unfold indented; split
    · rename_i heq; injection heq with h1 _; exact absurd h1 h
    · rfl

theorem indented_upper (l : List Char) : indented (upper l) = indented l := by
  cases l with
  | nil => rfl
  | cons c l => rw [upper_cons, indented_cons, indented_cons, toUpper_beq_blank]

theorem skip_upper (l : List Char) : skip (upper l) = skip l := by
  simp only [skip, indented_upper]
  cases l <;> rfl

theorem plainRem_upper_self (l : List Char) : plainRem (upper l) = plainRem l :=
  plainRem_upper _ _ (upper_idem l)

theorem isContLine_upper (l : List Char) : isContLine (upper l) = isContLine l := by
  simp only [isContLine, content, stripComment_upper, trailingEq_upper, plainRem_upper_self]

theorem upperHead_map (t : List Token) : upperHead (t.map upper) = (upperHead t).map upper := by
  cases t <;> simp [upperHead]

theorem ptoks_upper (l : List Char) : ptoks (upper l) = (ptoks l).map upper := by
  simp only [ptoks, isContLine_upper, indented_upper, content, stripComment_upper]
  cases isContLine l <;> cases indented l <;> simp [body_upper, split_upper, upperHead_map]

/-- every letter of every token in capitals -/
def upAll (n : List (List Token)) : List (List Token) := n.map (·.map upper)

theorem normAux_upper (f : List Line) : ∀ st : Option (List Token),
    normAux (st.map (·.map upper)) (f.map upper) = (normAux st f).map upAll := by
  induction f with
  | nil => intro st; cases st <;> rfl
  | cons l rest ih =>
    intro st
    have ih0 := ih none
    simp only [Option.map_none] at ih0
    cases st with
    | none =>
      simp only [Option.map_none, List.map_cons, normAux, skip_upper, isContLine_upper, ptoks_upper, List.isEmpty_map]
      by_cases hs : skip l = true
      · simp only [hs, ↓reduceIte]; exact ih0
      · simp only [hs, Bool.false_eq_true, ↓reduceIte]
        by_cases hc : isContLine l = true
        · simp only [hc, ↓reduceIte]
          by_cases he : (ptoks l).isEmpty = true
          · simp [he]
          · simp only [he, Bool.false_eq_true, ↓reduceIte]
            have := ih (some (ptoks l))
            simpa using this
        · simp only [hc, Bool.false_eq_true, ↓reduceIte, ih0]
          cases normAux none rest <;> simp [upAll]
    | some acc =>
      simp only [Option.map_some, List.map_cons, normAux, indented_upper, isContLine_upper, ptoks_upper]
      by_cases hi : indented l = true
      · simp only [hi, Bool.not_true, Bool.false_eq_true, ↓reduceIte]
        by_cases hc : isContLine l = true
        · simp only [hc, ↓reduceIte]
          have := ih (some (acc ++ ptoks l))
          simpa using this
        · simp only [hc, Bool.false_eq_true, ↓reduceIte, ih0]
          cases normAux none rest <;> simp [upAll]
      · simp [hi]

/-- **norm_upper** — writing a whole file in capitals (every letter: keywords, the words of a DSR command, element
    symbols, atom names, residue classes, the text of comments) changes neither whether its layout is valid nor its
    logical lines, apart from the letter case of the tokens themselves. No hypothesis. -/
theorem norm_upper (f : List Line) : norm (f.map upper) = (norm f).map upAll := normAux_upper f none

/-- **case_invariance** — two files that differ only in letter case (anywhere) have the same logical token lines up
    to letter case; in particular the same lines are continued, the same text is comment, and `rem dsr put … =` is
    continued exactly when `REM DSR PUT … =` is. -/
theorem case_invariance (f f' : List Line) (h : f.map upper = f'.map upper) :
    (norm f).map upAll = (norm f').map upAll := by
  rw [← norm_upper, ← norm_upper, h]

/-- … and the (repaired) continuation loop hands the same tokens, up to letter case, to the rest of the parser -/
theorem case_invariance_model (f f' : List Line) (n : List (List Token)) (h : f.map upper = f'.map upper)
    (hv : norm f = some n) : ∃ n', modelTokens f' = .ok n' ∧ upAll n' = upAll n := by
  have := case_invariance f f' h
  rw [hv] at this
  cases hn : norm f' with
  | none => rw [hn] at this; simp at this
  | some n' =>
    rw [hn] at this
    refine ⟨n', glue_tokens f' n' hn, ?_⟩
    simpa using this.symm

example : (norm ["rem Dsr put CF3 with C1 c2 = ! d=1".toList, "  on c1 C2 =".toList, " part 2".toList, "end".toList]).map upAll =
    (norm ["REM DSR PUT CF3 WITH C1 C2 = ! D=1".toList, "  ON C1 C2 =".toList, " PART 2".toList, "END".toList]).map upAll :=
  case_invariance _ _ (by decide)

/-! ### include files: layout changes inside a spliced block (wave 4) -/

theorem normAux_append (y : List Line) : ∀ (x : List Line) (st : Option (List Token)) (a : List (List Token)),
    normAux st x = some a → normAux st (x ++ y) = (normAux none y).map (a ++ ·) := by
  intro x
  induction x with
  | nil =>
    intro st a h
    cases st with
    | none =>
      simp [normAux] at h
      subst h
      simp
    | some acc => simp [normAux] at h
  | cons l rest ih =>
    intro st a h
    cases st with
    | none =>
      simp only [List.cons_append, normAux] at h ⊢
      by_cases hs : skip l = true
      · simp only [hs, if_true] at h ⊢
        exact ih none a h
      · simp only [hs] at h ⊢
        by_cases hc : isContLine l = true
        · simp only [hc, if_true] at h ⊢
          by_cases he : (ptoks l).isEmpty = true
          · simp [he] at h
          · simp only [he] at h ⊢
            exact ih _ a h
        · simp only [hc] at h ⊢
          cases hr : normAux none rest with
          | none => simp [hr] at h
          | some a' =>
            simp [hr] at h
            subst h
            have := ih none a' hr
            simp [this]
            cases normAux none y <;> simp
    | some acc =>
      simp only [List.cons_append, normAux] at h ⊢
      by_cases hi : indented l = true
      · simp only [hi] at h ⊢
        by_cases hc : isContLine l = true
        · simp only [hc, if_true] at h ⊢
          simpa using ih _ a (by simpa using h)
        · simp only [hc] at h ⊢
          cases hr : normAux none rest with
          | none => simp [hr] at h
          | some a' =>
            simp [hr] at h
            subst h
            have := ih none a' hr
            simp [this]
            cases normAux none y <;> simp
      · simp [hi] at h

/-- `norm` of a spliced line list: a complete (valid) block in front contributes its logical lines, the rest is read as if
    it stood alone. -/
theorem norm_append (x y : List Line) (a : List (List Token)) (h : norm x = some a) :
    norm (x ++ y) = (norm y).map (a ++ ·) := normAux_append y x none a h

/-- INCLUDE FILES (`read_file`: the lines of a '+filename' include file are spliced into the line list behind the '+' line,
    `_find_included_files`). If the text in front of the include file is a valid layout (`hpre`: no instruction is left
    open where the '+' line stands - run on the real code: a '+' line behind a continuation marker is glued onto that
    instruction and is no include at all) and two versions of the include file are valid layouts with the same logical lines
    (`hinc`, `hinc'` - e.g. related by `LayoutStep`s, theorem `layout_preserves_norm`), then the two spliced files have the same
    logical lines, whatever follows. No bound on sizes; `post` need not be valid (then both sides are `none`). -/
theorem include_layout_invariance (pre inc inc' post : List Line) (p i : List (List Token))
    (hpre : norm pre = some p) (hinc : norm inc = some i) (hinc' : norm inc' = some i) :
    norm (pre ++ (inc ++ post)) = norm (pre ++ (inc' ++ post)) := by
  rw [norm_append pre _ p hpre, norm_append pre _ p hpre, norm_append inc post i hinc, norm_append inc' post i hinc']

/-- the hypotheses are met by a non-trivial input: an include file whose first line is an indented comment line that would
    parse as an instruction, and whose instruction is continued, against the plain one -/
example : norm ["+r.inc".toList] = some [["+R.INC".toList]] ∧
    norm ["   DFIX 1.43 0.02 O1 C1".toList, "SADI C1 C2 = ! a".toList, "  C1 C3".toList, "".toList] =
      some [["SADI".toList, "C1".toList, "C2".toList, "C1".toList, "C3".toList]] ∧
    norm ["SADI C1 C2 C1 C3".toList] = some [["SADI".toList, "C1".toList, "C2".toList, "C1".toList, "C3".toList]] := by
  decide

/-- `hpre` cannot be dropped: an open instruction in front swallows the first line of the block -/
theorem include_needs_complete_prefix :
    norm ("DFIX 1.5 C1 =".toList :: (["  C2".toList] ++ [])) ≠ norm ("DFIX 1.5 C1 =".toList :: ([" ".toList, "  C2".toList] ++ [])) := by
  decide


end Shelx.C05

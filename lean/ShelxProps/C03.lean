/-
  C03 — property theorems (model and specification: ShelxModel/C03.lean).

  Quantified over ALL files (lists of abstract lines, no bound on length, any interleaving of RESI / PART /
  AFIX / FRAG / FEND / HKLF / END / atom lines). The model keeps Python's shared PART/AFIX/RESI objects in a
  heap and reads every atom's attributes through its references AFTER the whole file was parsed; the
  specification has neither state nor heap: per atom it looks backwards for the instruction in force.
-/
import ShelxModel.C03

namespace Shelx.C03

/-! ### heap growth: objects are only ever added by `step`, never changed -/

structure Extends (s s' : State) : Prop where
  parts : ∃ x, s'.parts = s.parts ++ x
  afixes : ∃ x, s'.afixes = s.afixes ++ x
  resis : ∃ x, s'.resis = s.resis ++ x

theorem getElem?_append_some {α} (l m : List α) (i : Nat) (v : α) (h : l[i]? = some v) :
    (l ++ m)[i]? = some v := by
  have hi : i < l.length := by
    rcases List.getElem?_eq_some_iff.mp h with ⟨hi, _⟩
    exact hi
  rw [List.getElem?_append_left hi]; exact h

theorem getElem?_snoc_length {α} (l : List α) (x : α) : (l ++ [x])[l.length]? = some x := by
  simp

theorem afixMn_extends (l m : List AfixObj) (r : Option Nat) (v : Int) (h : afixMn l r = some v) :
    afixMn (l ++ m) r = some v := by
  cases r with
  | none => simpa [afixMn] using h
  | some i =>
    simp only [afixMn] at h ⊢
    cases hi : l[i]? with
    | none => simp [hi] at h
    | some a =>
      rw [getElem?_append_some l m i a hi]
      simpa [hi] using h

/-- an atom that could be read before can be read after the heap grew, with the same result -/
theorem observeAtom_extends (s s' : State) (a : AtomRec) (o : AtomObs) (hx : Extends s s')
    (h : observeAtom s a = some o) : observeAtom s' a = some o := by
  obtain ⟨⟨ps, hp⟩, ⟨as, ha⟩, ⟨rs, hr⟩⟩ := hx
  unfold observeAtom at h ⊢
  cases hpp : s.parts[a.part]? with
  | none => simp [hpp] at h
  | some p =>
    cases hrr : s.resis[a.resi]? with
    | none => simp [hpp, hrr] at h
    | some r =>
      cases haa : afixMn s.afixes a.afix with
      | none => simp [hpp, hrr, haa] at h
      | some mn =>
        rw [hp, hr, ha, getElem?_append_some _ _ _ _ hpp, getElem?_append_some _ _ _ _ hrr,
          afixMn_extends _ _ _ _ haa]
        simpa [hpp, hrr, haa] using h

theorem observe_extends (s s' : State) (acc : List AtomObs) (hx : Extends s s') (hat : s'.atoms = s.atoms)
    (h : observe s = acc.map some) : observe s' = acc.map some := by
  rw [← h]
  unfold observe
  rw [hat]
  apply List.map_congr_left
  intro a ha
  have hm : observeAtom s a ∈ acc.map some := by
    rw [← h]; exact List.mem_map.mpr ⟨a, ha, rfl⟩
  obtain ⟨o, _, ho⟩ := List.mem_map.mp hm
  rw [← ho]
  exact observeAtom_extends s s' a o hx ho.symm

/-! ### the specification's scan, one line further -/

theorem any_barrier (before : List Line) :
    before.any isBarrier = (before.any isHklf || before.any isFin) := by
  induction before with
  | nil => rfl
  | cons l ls ih =>
    simp only [List.any_cons, ih, isBarrier]
    cases isHklf l <;> cases isFin l <;> cases ls.any isHklf <;> cases ls.any isFin <;> rfl

/-! ### the fold invariant -/

/-- What holds of the parser state after the lines `before` (nearest first) were read, `acc` being the atoms
    the specification lists for them: every running reference points at an object that IS the instruction in
    force according to the backwards scan, the flags say what has been seen, and reading all atoms through
    their references gives `acc`. -/
structure Inv (s : State) (before : List Line) (acc : List AtomObs) : Prop where
  part : s.parts[s.part]? = some (specPart before)
  resi : s.resis[s.resi]? = some (specResi before)
  afix : afixMn s.afixes s.afix = some (specAfix before)
  frag : s.frag = inFrag before
  hklf : s.hklf = before.any isHklf
  ended : s.ended = before.any isFin
  obs : observe s = acc.map some

theorem inv_init : Inv init [] [] := by
  constructor <;> rfl

theorem pad6_eq_specU (u : List Rat) (h : u.length ≤ 6) : pad6 u = specU u := by
  simp only [pad6, specU]
  rw [List.take_of_length_le h]

/-- an atom created in a state that satisfies the invariant reads as the specification says -/
theorem observe_mkAtom (s : State) (before : List Line) (acc : List AtomObs) (a : AtomLine)
    (h : Inv s before acc) (hok : lineOK before (.atom a) = true) :
    observeAtom s (mkAtom s a) = some (specAtom before a) := by
  simp only [lineOK, Bool.and_eq_true, decide_eq_true_eq] at hok
  obtain ⟨hu, hq⟩ := hok
  have hq' : ((peakShaped (pad6 a.u) && s.hklf) || s.ended) = before.any isBarrier := by
    rw [any_barrier, h.hklf, h.ended]
    revert hq
    cases before.any isHklf <;> cases before.any isFin <;> cases peakShaped (pad6 a.u) <;> simp
  rw [pad6_eq_specU a.u hu] at hq'
  simp only [observeAtom, mkAtom, h.part, h.resi, h.afix, specAtom, pad6_eq_specU a.u hu, hq']

theorem step_inv (s : State) (before : List Line) (acc : List AtomObs) (l : Line)
    (h : Inv s before acc) (hok : lineOK before l = true) :
    Inv (step s l) (l :: before) (acc ++ contrib before l) := by
  have hpl : s.part < s.parts.length := (List.getElem?_eq_some_iff.mp h.part).1
  cases l with
  | resi c n =>
    have hx : Extends s (step s (.resi c n)) := ⟨⟨[], by simp [step]⟩, ⟨[], by simp [step]⟩, ⟨[_], rfl⟩⟩
    exact {
      part := by simpa [step, specPart, inForce, isBarrier, isHklf, isFin, selPart] using h.part
      resi := by simp [step, specResi, inForce, isBarrier, isHklf, isFin, selResi]
      afix := by simpa [step, specAfix, inForce, isBarrier, isHklf, isFin, selAfix] using h.afix
      frag := by simpa [step, inFrag] using h.frag
      hklf := by simpa [step, isHklf] using h.hklf
      ended := by simpa [step, isFin] using h.ended
      obs := by simpa [contrib] using observe_extends s _ acc hx rfl h.obs }
  | part n f =>
    have hx : Extends s (step s (.part n f)) := ⟨⟨[_], rfl⟩, ⟨[], by simp [step]⟩, ⟨[], by simp [step]⟩⟩
    exact {
      part := by simp [step, specPart, inForce, isBarrier, isHklf, isFin, selPart]
      resi := by simpa [step, specResi, inForce, isBarrier, isHklf, isFin, selResi] using h.resi
      afix := by simpa [step, specAfix, inForce, isBarrier, isHklf, isFin, selAfix] using h.afix
      frag := by simpa [step, inFrag] using h.frag
      hklf := by simpa [step, isHklf] using h.hklf
      ended := by simpa [step, isFin] using h.ended
      obs := by simpa [contrib] using observe_extends s _ acc hx rfl h.obs }
  | afix mn =>
    have hx : Extends s (step s (.afix mn)) := ⟨⟨[], by simp [step]⟩, ⟨[_], rfl⟩, ⟨[], by simp [step]⟩⟩
    exact {
      part := by simpa [step, specPart, inForce, isBarrier, isHklf, isFin, selPart] using h.part
      resi := by simpa [step, specResi, inForce, isBarrier, isHklf, isFin, selResi] using h.resi
      afix := by simp [step, afixMn, specAfix, inForce, isBarrier, isHklf, isFin, selAfix]
      frag := by simpa [step, inFrag] using h.frag
      hklf := by simpa [step, isHklf] using h.hklf
      ended := by simpa [step, isFin] using h.ended
      obs := by simpa [contrib] using observe_extends s _ acc hx rfl h.obs }
  | atom a =>
    have hctx : Inv s (.atom a :: before) acc := {
      part := by simpa [specPart, inForce, isBarrier, isHklf, isFin, selPart] using h.part
      resi := by simpa [specResi, inForce, isBarrier, isHklf, isFin, selResi] using h.resi
      afix := by simpa [specAfix, inForce, isBarrier, isHklf, isFin, selAfix] using h.afix
      frag := by simpa [inFrag] using h.frag
      hklf := by simpa [isHklf] using h.hklf
      ended := by simpa [isFin] using h.ended
      obs := h.obs }
    by_cases hf : s.frag = true
    · have hfi : inFrag before = true := by rw [← h.frag]; exact hf
      simpa [step, hf, contrib, hfi] using hctx
    · have hf' : s.frag = false := by simpa using hf
      have hfi : inFrag before = false := by rw [← h.frag]; exact hf'
      have hnew := observe_mkAtom s before acc a h hok
      have hstep : step s (.atom a) = { s with atoms := s.atoms ++ [mkAtom s a] } := by simp [step, hf']
      rw [hstep]
      exact {
        part := hctx.part
        resi := hctx.resi
        afix := hctx.afix
        frag := hctx.frag
        hklf := hctx.hklf
        ended := hctx.ended
        obs := by
          have ho := h.obs
          simp only [observe] at ho ⊢
          simp only [contrib, hfi, List.map_append, List.map_cons, List.map_nil]
          rw [← ho]
          congr 1
          simpa [observeAtom] using hnew }
  | frag =>
    have hx : Extends s (step s .frag) := ⟨⟨[], by simp [step]⟩, ⟨[], by simp [step]⟩, ⟨[], by simp [step]⟩⟩
    exact {
      part := by simpa [step, specPart, inForce, isBarrier, isHklf, isFin, selPart] using h.part
      resi := by simpa [step, specResi, inForce, isBarrier, isHklf, isFin, selResi] using h.resi
      afix := by simpa [step, specAfix, inForce, isBarrier, isHklf, isFin, selAfix] using h.afix
      frag := by simp [step, inFrag]
      hklf := by simpa [step, isHklf] using h.hklf
      ended := by simpa [step, isFin] using h.ended
      obs := by simpa [contrib] using observe_extends s _ acc hx rfl h.obs }
  | fend =>
    have hx : Extends s (step s .fend) := ⟨⟨[], by simp [step]⟩, ⟨[], by simp [step]⟩, ⟨[], by simp [step]⟩⟩
    exact {
      part := by simpa [step, specPart, inForce, isBarrier, isHklf, isFin, selPart] using h.part
      resi := by simpa [step, specResi, inForce, isBarrier, isHklf, isFin, selResi] using h.resi
      afix := by simpa [step, specAfix, inForce, isBarrier, isHklf, isFin, selAfix] using h.afix
      frag := by simp [step, inFrag]
      hklf := by simpa [step, isHklf] using h.hklf
      ended := by simpa [step, isFin] using h.ended
      obs := by simpa [contrib] using observe_extends s _ acc hx rfl h.obs }
  | hklf =>
    have hx : Extends s (step s .hklf) := ⟨⟨[_], rfl⟩, ⟨[_], rfl⟩, ⟨[_], rfl⟩⟩
    exact {
      part := by simp [step, resetCtx, specPart, inForce, isBarrier, isHklf]
      resi := by simp [step, resetCtx, specResi, inForce, isBarrier, isHklf]
      afix := by simp [step, resetCtx, afixMn, specAfix, inForce, isBarrier, isHklf]
      frag := by simpa [step, resetCtx, inFrag] using h.frag
      hklf := by simp [step, resetCtx, isHklf]
      ended := by simpa [step, resetCtx, isFin] using h.ended
      obs := by simpa [contrib] using observe_extends s _ acc hx rfl h.obs }
  | fin =>
    have hx : Extends s (step s .fin) := ⟨⟨[_], rfl⟩, ⟨[_], rfl⟩, ⟨[_], rfl⟩⟩
    exact {
      part := by simp [step, resetCtx, specPart, inForce, isBarrier, isFin]
      resi := by simp [step, resetCtx, specResi, inForce, isBarrier, isFin]
      afix := by simp [step, resetCtx, afixMn, specAfix, inForce, isBarrier, isFin]
      frag := by simpa [step, resetCtx, inFrag] using h.frag
      hklf := by simpa [step, resetCtx, isHklf] using h.hklf
      ended := by simp [step, resetCtx, isFin]
      obs := by simpa [contrib] using observe_extends s _ acc hx rfl h.obs }
  | other =>
    exact {
      part := by simpa [step, specPart, inForce, isBarrier, isHklf, isFin, selPart] using h.part
      resi := by simpa [step, specResi, inForce, isBarrier, isHklf, isFin, selResi] using h.resi
      afix := by simpa [step, specAfix, inForce, isBarrier, isHklf, isFin, selAfix] using h.afix
      frag := by simpa [step, inFrag] using h.frag
      hklf := by simpa [step, isHklf] using h.hklf
      ended := by simpa [step, isFin] using h.ended
      obs := by simpa [contrib, step] using h.obs }

/-- **context_invariant** — by induction over the lines: whatever state satisfies the invariant for the lines
    read so far satisfies it after any valid continuation, with the specification's atoms appended. -/
theorem context_invariant (rest : List Line) (s : State) (before : List Line) (acc : List AtomObs)
    (h : Inv s before acc) (hv : validFrom before rest = true) :
    Inv (rest.foldl step s) (rest.reverse ++ before) (acc ++ specFrom before rest) := by
  induction rest generalizing s before acc with
  | nil => simpa [specFrom] using h
  | cons l rest ih =>
    simp only [validFrom, Bool.and_eq_true] at hv
    have := ih (step s l) (l :: before) (acc ++ contrib before l) (step_inv s before acc l h hv.1) hv.2
    simpa [specFrom, List.append_assoc] using this

/-- **atoms_match_spec** — for every valid file, the atoms of the parsed file, each read through its PART /
    AFIX / RESI references after parsing finished, are exactly the specification's atoms, in file order
    (no atom lost, none added, no dangling reference). -/
theorem atoms_match_spec (file : List Line) (hv : valid file = true) :
    observe (run file) = (specAtoms file).map some := by
  have := (context_invariant file init [] [] inv_init hv).obs
  simpa [run, specAtoms] using this

/-- the running context after any valid prefix is the instruction in force at that point -/
theorem context_after_prefix (pre : List Line) (hv : valid pre = true) :
    (run pre).parts[(run pre).part]? = some (specPart pre.reverse) ∧
    (run pre).resis[(run pre).resi]? = some (specResi pre.reverse) ∧
    afixMn (run pre).afixes (run pre).afix = some (specAfix pre.reverse) := by
  have h := context_invariant pre init [] [] inv_init hv
  simp only [List.append_nil] at h
  exact ⟨h.part, h.resi, h.afix⟩

end Shelx.C03

/-
  C03 — property theorems (model and specification: ShelxModel/C03.lean).

  Quantified over ALL files (lists of abstract lines, no bound on length, any interleaving of RESI / PART /
  AFIX / FRAG / FEND / HKLF / END / atom lines). The model keeps Python's shared PART/AFIX/RESI objects in a
  heap and reads every atom's attributes through its references AFTER the whole file was parsed; the
  specification has neither state nor heap: per atom it looks backwards for the instruction in force.
-/
import ShelxModel.C03

namespace Shelx.C03

/-! ### heap growth: objects are only ever added by `step`, never changed -/

structure Extends (s s' : State) : Prop where
  parts : ∃ x, s'.parts = s.parts ++ x
  afixes : ∃ x, s'.afixes = s.afixes ++ x
  resis : ∃ x, s'.resis = s.resis ++ x

theorem getElem?_append_some {α} (l m : List α) (i : Nat) (v : α) (h : l[i]? = some v) :
    (l ++ m)[i]? = some v := by
  have hi : i < l.length := by
    rcases List.getElem?_eq_some_iff.mp h with ⟨hi, _⟩
    exact hi
  rw [List.getElem?_append_left hi]; exact h

theorem getElem?_snoc_length {α} (l : List α) (x : α) : (l ++ [x])[l.length]? = some x := by
  simp

theorem afixMn_extends (l m : List AfixObj) (r : Option Nat) (v : Int) (h : afixMn l r = some v) :
    afixMn (l ++ m) r = some v := by
  cases r with
  | none => simpa [afixMn] using h
  | some i =>
    simp only [afixMn] at h ⊢
    cases hi : l[i]? with
    | none => simp [hi] at h
    | some a =>
      rw [getElem?_append_some l m i a hi]
      simpa [hi] using h

/-- an atom that could be read before can be read after the heap grew, with the same result -/
theorem observeAtom_extends (s s' : State) (a : AtomRec) (o : AtomObs) (hx : Extends s s')
    (h : observeAtom s a = some o) : observeAtom s' a = some o := by
  obtain ⟨⟨ps, hp⟩, ⟨as, ha⟩, ⟨rs, hr⟩⟩ := hx
  unfold observeAtom at h ⊢
  cases hpp : s.parts[a.part]? with
  | none => simp [hpp] at h
  | some p =>
    cases hrr : s.resis[a.resi]? with
    | none => simp [hpp, hrr] at h
    | some r =>
      cases haa : afixMn s.afixes a.afix with
      | none => simp [hpp, hrr, haa] at h
      | some mn =>
        rw [hp, hr, ha, getElem?_append_some _ _ _ _ hpp, getElem?_append_some _ _ _ _ hrr,
          afixMn_extends _ _ _ _ haa]
        simpa [hpp, hrr, haa] using h

theorem observe_extends (s s' : State) (acc : List AtomObs) (hx : Extends s s') (hat : s'.atoms = s.atoms)
    (h : observe s = acc.map some) : observe s' = acc.map some := by
  rw [← h]
  unfold observe
  rw [hat]
  apply List.map_congr_left
  intro a ha
  have hm : observeAtom s a ∈ acc.map some := by
    rw [← h]; exact List.mem_map.mpr ⟨a, ha, rfl⟩
  obtain ⟨o, _, ho⟩ := List.mem_map.mp hm
  rw [← ho]
  exact observeAtom_extends s s' a o hx ho.symm

/-! ### the specification's scan, one line further -/

theorem any_barrier (before : List Line) :
    before.any isBarrier = (before.any isHklf || before.any isFin) := by
  induction before with
  | nil => rfl
  | cons l ls ih =>
    simp only [List.any_cons, ih, isBarrier]
    cases isHklf l <;> cases isFin l <;> cases ls.any isHklf <;> cases ls.any isFin <;> rfl

/-! ### the fold invariant -/

/-- What holds of the parser state after the lines `before` (nearest first) were read, `acc` being the atoms
    the specification lists for them: every running reference points at an object that IS the instruction in
    force according to the backwards scan, the flags say what has been seen, and reading all atoms through
    their references gives `acc`. -/
structure Inv (s : State) (before : List Line) (acc : List AtomObs) : Prop where
  part : s.parts[s.part]? = some (specPart before)
  resi : s.resis[s.resi]? = some (specResi before)
  afix : afixMn s.afixes s.afix = some (specAfix before)
  frag : optTruthy cmdTruthy s.frag = inFrag before
  hklf : optTruthy cmdTruthy s.hklf = before.any isHklf
  ended : s.ended = before.any isFin
  obs : observe s = acc.map some

theorem inv_init : Inv init [] [] := by
  constructor <;> rfl

theorem pad6_eq_specU (u : List Rat) (h : u.length ≤ 6) : pad6 u = specU u := by
  simp only [pad6, specU]
  rw [List.take_of_length_le h]

/-- an atom created in a state that satisfies the invariant reads as the specification says -/
theorem observe_mkAtom (s : State) (before : List Line) (acc : List AtomObs) (a : AtomLine)
    (h : Inv s before acc) (hok : lineOK before (.atom a) = true) :
    observeAtom s (mkAtom s a) = some (specAtom before a) := by
  simp only [lineOK, Bool.and_eq_true, decide_eq_true_eq] at hok
  obtain ⟨hu, hq⟩ := hok
  have hq' : ((peakShaped (pad6 a.u) && optTruthy cmdTruthy s.hklf) || s.ended) = before.any isBarrier := by
    rw [any_barrier, h.hklf, h.ended]
    revert hq
    cases before.any isHklf <;> cases before.any isFin <;> cases peakShaped (pad6 a.u) <;> simp
  rw [pad6_eq_specU a.u hu] at hq'
  simp only [observeAtom, mkAtom, mkAtomT, h.part, h.resi, h.afix, specAtom, pad6_eq_specU a.u hu, hq']

theorem step_inv (s : State) (before : List Line) (acc : List AtomObs) (l : Line)
    (h : Inv s before acc) (hok : lineOK before l = true) :
    Inv (step s l) (l :: before) (acc ++ contrib before l) := by
  have hpl : s.part < s.parts.length := (List.getElem?_eq_some_iff.mp h.part).1
  cases l with
  | resi c n =>
    have hx : Extends s (step s (.resi c n)) := ⟨⟨[], by simp [step, stepT]⟩, ⟨[], by simp [step, stepT]⟩, ⟨[_], rfl⟩⟩
    exact {
      part := by simpa [step, stepT, specPart, inForce, isBarrier, isHklf, isFin, selPart] using h.part
      resi := by simp [step, stepT, specResi, inForce, isBarrier, isHklf, isFin, selResi]
      afix := by simpa [step, stepT, specAfix, inForce, isBarrier, isHklf, isFin, selAfix] using h.afix
      frag := by simpa [step, stepT, inFrag] using h.frag
      hklf := by simpa [step, stepT, isHklf] using h.hklf
      ended := by simpa [step, stepT, isFin] using h.ended
      obs := by simpa [contrib] using observe_extends s _ acc hx rfl h.obs }
  | part n f =>
    have hx : Extends s (step s (.part n f)) := ⟨⟨[_], rfl⟩, ⟨[], by simp [step, stepT]⟩, ⟨[], by simp [step, stepT]⟩⟩
    exact {
      part := by simp [step, stepT, specPart, inForce, isBarrier, isHklf, isFin, selPart]
      resi := by simpa [step, stepT, specResi, inForce, isBarrier, isHklf, isFin, selResi] using h.resi
      afix := by simpa [step, stepT, specAfix, inForce, isBarrier, isHklf, isFin, selAfix] using h.afix
      frag := by simpa [step, stepT, inFrag] using h.frag
      hklf := by simpa [step, stepT, isHklf] using h.hklf
      ended := by simpa [step, stepT, isFin] using h.ended
      obs := by simpa [contrib] using observe_extends s _ acc hx rfl h.obs }
  | afix mn =>
    have hx : Extends s (step s (.afix mn)) := ⟨⟨[], by simp [step, stepT]⟩, ⟨[_], rfl⟩, ⟨[], by simp [step, stepT]⟩⟩
    exact {
      part := by simpa [step, stepT, specPart, inForce, isBarrier, isHklf, isFin, selPart] using h.part
      resi := by simpa [step, stepT, specResi, inForce, isBarrier, isHklf, isFin, selResi] using h.resi
      afix := by simp [step, stepT, afixMn, specAfix, inForce, isBarrier, isHklf, isFin, selAfix]
      frag := by simpa [step, stepT, inFrag] using h.frag
      hklf := by simpa [step, stepT, isHklf] using h.hklf
      ended := by simpa [step, stepT, isFin] using h.ended
      obs := by simpa [contrib] using observe_extends s _ acc hx rfl h.obs }
  | atom a =>
    have hctx : Inv s (.atom a :: before) acc := {
      part := by simpa [specPart, inForce, isBarrier, isHklf, isFin, selPart] using h.part
      resi := by simpa [specResi, inForce, isBarrier, isHklf, isFin, selResi] using h.resi
      afix := by simpa [specAfix, inForce, isBarrier, isHklf, isFin, selAfix] using h.afix
      frag := by simpa [inFrag] using h.frag
      hklf := by simpa [isHklf] using h.hklf
      ended := by simpa [isFin] using h.ended
      obs := h.obs }
    by_cases hf : optTruthy cmdTruthy s.frag = true
    · have hfi : inFrag before = true := by rw [← h.frag]; exact hf
      simpa [step, stepT, hf, contrib, hfi] using hctx
    · have hf' : optTruthy cmdTruthy s.frag = false := by simpa using hf
      have hfi : inFrag before = false := by rw [← h.frag]; exact hf'
      have hnew := observe_mkAtom s before acc a h hok
      have hstep : step s (.atom a) = { s with atoms := s.atoms ++ [mkAtom s a] } := by simp [step, stepT, hf', mkAtom]
      rw [hstep]
      exact {
        part := hctx.part
        resi := hctx.resi
        afix := hctx.afix
        frag := hctx.frag
        hklf := hctx.hklf
        ended := hctx.ended
        obs := by
          have ho := h.obs
          simp only [observe] at ho ⊢
          simp only [contrib, hfi, List.map_append, List.map_cons, List.map_nil]
          rw [← ho]
          congr 1
          simpa [observeAtom] using hnew }
  | frag np =>
    have hx : Extends s (step s (.frag np)) := ⟨⟨[], by simp [step, stepT]⟩, ⟨[], by simp [step, stepT]⟩, ⟨[], by simp [step, stepT]⟩⟩
    exact {
      part := by simpa [step, stepT, specPart, inForce, isBarrier, isHklf, isFin, selPart] using h.part
      resi := by simpa [step, stepT, specResi, inForce, isBarrier, isHklf, isFin, selResi] using h.resi
      afix := by simpa [step, stepT, specAfix, inForce, isBarrier, isHklf, isFin, selAfix] using h.afix
      frag := by simp [step, stepT, inFrag, optTruthy, cmdTruthy]
      hklf := by simpa [step, stepT, isHklf] using h.hklf
      ended := by simpa [step, stepT, isFin] using h.ended
      obs := by simpa [contrib] using observe_extends s _ acc hx rfl h.obs }
  | fend =>
    have hx : Extends s (step s .fend) := ⟨⟨[], by simp [step, stepT]⟩, ⟨[], by simp [step, stepT]⟩, ⟨[], by simp [step, stepT]⟩⟩
    exact {
      part := by simpa [step, stepT, specPart, inForce, isBarrier, isHklf, isFin, selPart] using h.part
      resi := by simpa [step, stepT, specResi, inForce, isBarrier, isHklf, isFin, selResi] using h.resi
      afix := by simpa [step, stepT, specAfix, inForce, isBarrier, isHklf, isFin, selAfix] using h.afix
      frag := by simp [step, stepT, inFrag, optTruthy]
      hklf := by simpa [step, stepT, isHklf] using h.hklf
      ended := by simpa [step, stepT, isFin] using h.ended
      obs := by simpa [contrib] using observe_extends s _ acc hx rfl h.obs }
  | hklf np =>
    have hx : Extends s (step s (.hklf np)) := ⟨⟨[_], rfl⟩, ⟨[_], rfl⟩, ⟨[_], rfl⟩⟩
    exact {
      part := by simp [step, stepT, resetCtx, specPart, inForce, isBarrier, isHklf]
      resi := by simp [step, stepT, resetCtx, specResi, inForce, isBarrier, isHklf]
      afix := by simp [step, stepT, resetCtx, afixMn, specAfix, inForce, isBarrier, isHklf]
      frag := by simpa [step, stepT, resetCtx, inFrag] using h.frag
      hklf := by simp [step, stepT, resetCtx, isHklf, optTruthy, cmdTruthy]
      ended := by simpa [step, stepT, resetCtx, isFin] using h.ended
      obs := by simpa [contrib] using observe_extends s _ acc hx rfl h.obs }
  | fin =>
    have hx : Extends s (step s .fin) := ⟨⟨[_], rfl⟩, ⟨[_], rfl⟩, ⟨[_], rfl⟩⟩
    exact {
      part := by simp [step, stepT, resetCtx, specPart, inForce, isBarrier, isFin]
      resi := by simp [step, stepT, resetCtx, specResi, inForce, isBarrier, isFin]
      afix := by simp [step, stepT, resetCtx, afixMn, specAfix, inForce, isBarrier, isFin]
      frag := by simpa [step, stepT, resetCtx, inFrag] using h.frag
      hklf := by simpa [step, stepT, resetCtx, isHklf] using h.hklf
      ended := by simp [step, stepT, resetCtx, isFin]
      obs := by simpa [contrib] using observe_extends s _ acc hx rfl h.obs }
  | other =>
    exact {
      part := by simpa [step, stepT, specPart, inForce, isBarrier, isHklf, isFin, selPart] using h.part
      resi := by simpa [step, stepT, specResi, inForce, isBarrier, isHklf, isFin, selResi] using h.resi
      afix := by simpa [step, stepT, specAfix, inForce, isBarrier, isHklf, isFin, selAfix] using h.afix
      frag := by simpa [step, stepT, inFrag] using h.frag
      hklf := by simpa [step, stepT, isHklf] using h.hklf
      ended := by simpa [step, stepT, isFin] using h.ended
      obs := by simpa [contrib, step, stepT] using h.obs }

/-- **context_invariant** — by induction over the lines: whatever state satisfies the invariant for the lines
    read so far satisfies it after any valid continuation, with the specification's atoms appended. -/
theorem context_invariant (rest : List Line) (s : State) (before : List Line) (acc : List AtomObs)
    (h : Inv s before acc) (hv : validFrom before rest = true) :
    Inv (rest.foldl step s) (rest.reverse ++ before) (acc ++ specFrom before rest) := by
  induction rest generalizing s before acc with
  | nil => simpa [specFrom] using h
  | cons l rest ih =>
    simp only [validFrom, Bool.and_eq_true] at hv
    have := ih (step s l) (l :: before) (acc ++ contrib before l) (step_inv s before acc l h hv.1) hv.2
    simpa [specFrom, List.append_assoc] using this

/-- **atoms_match_spec** — for every valid file, the atoms of the parsed file, each read through its PART /
    AFIX / RESI references after parsing finished, are exactly the specification's atoms, in file order
    (no atom lost, none added, no dangling reference). -/
theorem atoms_match_spec (file : List Line) (hv : valid file = true) :
    observe (run file) = (specAtoms file).map some := by
  have := (context_invariant file init [] [] inv_init hv).obs
  simpa [run, specAtoms] using this

/-- **last_read_only** — whatever files the same object read before (valid or not), the atoms after the last
    read are the specification's atoms of the last file alone -/
theorem last_read_only (earlier : List (List Line)) (file : List Line) (hv : valid file = true) :
    observe (readHistory (earlier ++ [file])) = (specAtoms file).map some := by
  simp only [readHistory, List.foldl_append, List.foldl_cons, List.foldl_nil]
  exact atoms_match_spec file hv

/-- the running context after any valid prefix is the instruction in force at that point -/
theorem context_after_prefix (pre : List Line) (hv : valid pre = true) :
    (run pre).parts[(run pre).part]? = some (specPart pre.reverse) ∧
    (run pre).resis[(run pre).resi]? = some (specResi pre.reverse) ∧
    afixMn (run pre).afixes (run pre).afix = some (specAfix pre.reverse) := by
  have h := context_invariant pre init [] [] inv_init hv
  simp only [List.append_nil] at h
  exact ⟨h.part, h.resi, h.afix⟩

/-! ### non-vacuity: a concrete file with every feature meets the hypothesis -/

/-- PART 2 with occupancy 31 left open at HKLF, a residue, a riding hydrogen, a FRAG block followed by an atom,
    a peak between HKLF and END and one after END -/
def demoFile : List Line :=
  [.part 2 31, .resi "TOL" 3, .atom ⟨0, 1, 11, [4/100]⟩, .afix 43, .atom ⟨1, 2, 11, [-12/10]⟩, .frag 7, .atom ⟨2, 1, 11, []⟩,
   .fend, .atom ⟨3, 3, 21/2, [2/100, 3/100, 4/100, -2/1000, 3/1000, -4/1000]⟩, .hklf 1, .atom ⟨4, 1, 11, [5/100, 3/2]⟩, .fin,
   .other, .atom ⟨5, 1, 11, [5/100, 6/5]⟩]

example : valid demoFile = true := by decide +kernel

example : specAtoms demoFile =
    [⟨0, 1, 31, [4/100, 0, 0, 0, 0, 0], 2, 0, 3, "TOL", false⟩,
     ⟨1, 2, 31, [-12/10, 0, 0, 0, 0, 0], 2, 43, 3, "TOL", false⟩,
     ⟨3, 3, 31, [2/100, 3/100, 4/100, -2/1000, 3/1000, -4/1000], 2, 43, 3, "TOL", false⟩,
     ⟨4, 1, 11, [5/100, 3/2, 0, 0, 0, 0], 0, 0, 0, "", true⟩,
     ⟨5, 1, 11, [5/100, 6/5, 0, 0, 0, 0], 0, 0, 0, "", true⟩] := by decide +kernel

example : observe (run demoFile) = (specAtoms demoFile).map some := atoms_match_spec demoFile (by decide +kernel)

/-- read after another file that leaves a PART and a residue open and ends without END -/
example : observe (readHistory ([[.resi "BNZ" 7, .part 1 41, .atom ⟨9, 3, 11, [4/100]⟩]] ++ [demoFile])) =
    (specAtoms demoFile).map some :=
  last_read_only _ demoFile (by decide +kernel)

/-- every instruction in its shortest form: bare `FRAG` (all seven parameters at their defaults), bare `HKLF`,
    `RESI` without class and number (back to residue 0), an atom line without occupation code and U -/
def bareFile : List Line :=
  [.resi "TOL" 3, .part 1 21, .atom ⟨0, 1, 11, []⟩, .frag 0, .atom ⟨1, 1, 11, []⟩, .atom ⟨2, 3, 11, []⟩, .fend,
   .atom ⟨3, 1, 21/2, []⟩, .resi "" 0, .atom ⟨4, 2, 11, [-3/2]⟩, .hklf 0, .atom ⟨5, 1, 11, [5/100, 3/2]⟩, .fin,
   .atom ⟨6, 1, 11, [5/100, 6/5]⟩]

example : valid bareFile = true := by decide +kernel

example : specAtoms bareFile =
    [⟨0, 1, 21, [0, 0, 0, 0, 0, 0], 1, 0, 3, "TOL", false⟩,
     ⟨3, 1, 21, [0, 0, 0, 0, 0, 0], 1, 0, 3, "TOL", false⟩,
     ⟨4, 2, 21, [-3/2, 0, 0, 0, 0, 0], 1, 0, 0, "", false⟩,
     ⟨5, 1, 11, [5/100, 3/2, 0, 0, 0, 0], 0, 0, 0, "", true⟩,
     ⟨6, 1, 11, [5/100, 6/5, 0, 0, 0, 0], 0, 0, 0, "", true⟩] := by decide +kernel

example : observe (run bareFile) = (specAtoms bareFile).map some := atoms_match_spec bareFile (by decide +kernel)

/-! ### what the property needs of the truth value of instruction objects

`atoms_match_spec` is a statement about `run = runT cmdTruthy`: the parser asks for the *truth value* of
`self.frag` / `self.hklf`, and in the code every FRAG / HKLF object is true. The two theorems below show that this is
not a detail: under ANY rule `t` that makes the object of some form `np` false, the property fails on a two-line
file with that form. (`lenTruthy` — a `Command.__len__` counting the parameters — is false for `np = 0`.) -/

/-- a FRAG object that is false lets its coordinate lines into the atom list -/
theorem truthiness_needed_frag (t : Nat → Bool) (np : Nat) (a : AtomLine) (h : t np = false) :
    observe (runT t [.frag np, .atom a]) ≠ (specAtoms [.frag np, .atom a]).map some := by
  simp [runT, stepT, init, optTruthy, h, observe, specAtoms, specFrom, contrib, inFrag]

/-- an HKLF object that is false leaves the peaks listed between HKLF and END unmarked -/
theorem truthiness_needed_hklf (t : Nat → Bool) (np : Nat) (a : AtomLine) (h : t np = false) :
    observe (runT t [.hklf np, .atom a]) ≠ (specAtoms [.hklf np, .atom a]).map some := by
  intro hc
  have h1 : (observe (runT t [.hklf np, .atom a])).map (Option.map (·.qpeak)) = [some false] := by
    simp [runT, stepT, init, resetCtx, optTruthy, h, observe, observeAtom, mkAtomT, afixMn]
  have h2 : ((specAtoms [.hklf np, .atom a]).map some).map (Option.map (·.qpeak)) = [some true] := by
    simp [specAtoms, specFrom, contrib, inFrag, specAtom, isBarrier, isHklf]
  rw [hc, h2] at h1
  simp at h1

/-- conversely, any rule under which every form is true parses as the code does -/
theorem truthy_rule_is_code (t : Nat → Bool) (ht : ∀ np, t np = true) (file : List Line) (hv : valid file = true) :
    observe (runT t file) = (specAtoms file).map some := by
  have : t = cmdTruthy := funext fun np => by simp [ht, cmdTruthy]
  subst this
  exact atoms_match_spec file hv

/-- the bare forms under `Command.__len__`-truthiness: both witnesses, concretely -/
theorem len_truthiness_fails_on :
    observe (runT lenTruthy [.frag 0, .atom ⟨0, 1, 11, []⟩]) ≠ (specAtoms [.frag 0, .atom ⟨0, 1, 11, []⟩]).map some ∧
    observe (runT lenTruthy [.hklf 0, .atom ⟨0, 1, 11, [5/100, 3/2]⟩]) ≠
      (specAtoms [.hklf 0, .atom ⟨0, 1, 11, [5/100, 3/2]⟩]).map some :=
  ⟨truthiness_needed_frag lenTruthy 0 _ (by decide), truthiness_needed_hklf lenTruthy 0 _ (by decide)⟩

/-- with at least one parameter written the same rule is harmless (why `FRAG 17 …` / `HKLF 4` never showed it) -/
example : observe (runT lenTruthy demoFile) = (specAtoms demoFile).map some := by decide +kernel

/-! ### the code before the fixes: the same statement is false -/

/-- the smallest witness: `PART 2 / atom / HKLF` — the code of commit e475fe2 sets `part.n = 0` on the object the
    atom refers to, so the atom reads PART 0 after parsing. (Replayed on the implementation by the harness: the
    bounded-exhaustive stream contains exactly this file.) -/
def witnessFile : List Line := [.part 2 11, .atom ⟨0, 1, 11, [4/100]⟩, .hklf 1]

theorem bug_witness : observe (runBug witnessFile) ≠ (specAtoms witnessFile).map some := by decide +kernel

/-- the same file through the repaired step -/
example : observe (run witnessFile) = (specAtoms witnessFile).map some := by decide +kernel

/-! ### one entry per atom line — whatever the lines say

    `AtomLine.tag` stands for name and position, and nothing above asks the tags (or any other column) of different
    atom lines to differ: atom names are unique only within a residue / PART, a valid file may hold the same line
    several times (a solvent molecule pasted twice as start model, the copies told apart by RESI number and PART). -/

def isAtomLine : Line → Bool | .atom _ => true | _ => false
def isFragLine : Line → Bool | .frag _ => true | _ => false

theorem inFrag_false_of_no_frag (before : List Line) (h : ∀ l ∈ before, isFragLine l = false) : inFrag before = false := by
  induction before with
  | nil => rfl
  | cons l ls ih =>
    have hl := h l (by simp)
    have := ih (fun x hx => h x (by simp [hx]))
    cases l <;> simp_all [inFrag, isFragLine]

theorem specFrom_length_no_frag (file before : List Line) (hb : ∀ l ∈ before, isFragLine l = false)
    (hf : ∀ l ∈ file, isFragLine l = false) : (specFrom before file).length = (file.filter isAtomLine).length := by
  induction file generalizing before with
  | nil => rfl
  | cons l rest ih =>
    have hl := hf l (by simp)
    have hb' : ∀ x ∈ l :: before, isFragLine x = false := by
      intro x hx
      rcases List.mem_cons.mp hx with h | h
      · rw [h]; exact hl
      · exact hb x h
    have hrest := ih (l :: before) hb' (fun x hx => hf x (by simp [hx]))
    have hin := inFrag_false_of_no_frag before hb
    cases l <;> simp_all [specFrom, contrib, isAtomLine, List.filter_cons]

/-- **one_entry_per_atom_line** — the atom list of a valid file has as many entries as the specification lists, and in a
    file without FRAG blocks that is the number of its atom lines: no line is merged with or taken for another one,
    whether or not their columns agree. -/
theorem one_entry_per_atom_line (file : List Line) (hv : valid file = true) :
    (run file).atoms.length = (specAtoms file).length ∧
    ((∀ l ∈ file, isFragLine l = false) → (run file).atoms.length = (file.filter isAtomLine).length) := by
  have h := congrArg List.length (atoms_match_spec file hv)
  simp only [observe, List.length_map] at h
  refine ⟨h, fun hf => ?_⟩
  rw [h]
  exact specFrom_length_no_frag file [] (by simp) hf

/-- the same two lines in `RESI 1 MEOH / PART 1` and in `RESI 2 MEOH / PART 2` (equal tags: same names, same positions),
    and once more an atom of that name in residue 0 -/
def twinFile : List Line :=
  [.atom ⟨1, 1, 11, [5/100]⟩, .resi "MEOH" 1, .part 1 11, .atom ⟨0, 3, 21/2, [4/100]⟩, .atom ⟨1, 1, 21/2, [4/100]⟩, .part 0 11,
   .resi "MEOH" 2, .part 2 11, .atom ⟨0, 3, 21/2, [4/100]⟩, .atom ⟨1, 1, 21/2, [4/100]⟩, .part 0 11, .resi "" 0, .hklf 1, .fin]

example : valid twinFile = true := by decide +kernel

example : (observe (run twinFile)).length = 5 ∧
    (specAtoms twinFile).map (fun o => (o.tag, o.resiNum, o.part)) = [(1, 0, 0), (0, 1, 1), (1, 1, 1), (0, 2, 2), (1, 2, 2)] := by
  decide +kernel

/-- **eq_guard_fails_on** — an `Atoms.append` that skips an atom equal (`Atom.__eq__`: the printed line) to one already in
    the list loses the copies in the second residue. -/
theorem eq_guard_fails_on : observe (runGuard twinFile) ≠ (specAtoms twinFile).map some := by decide +kernel

example : (runGuard twinFile).atoms.length = 3 := by decide +kernel

/-- second witness: an AFIX left open swallows HKLF (the `elif` chain is never entered), a peak listed between
    HKLF and END is then not a Q-peak, and the PART occupancy lands on it -/
theorem bug_witness_afix_hklf :
    observe (runBug [.part 1 21, .afix 43, .atom ⟨0, 2, 11, [-12/10]⟩, .hklf 1, .atom ⟨1, 1, 11, [5/100, 3/2]⟩]) ≠
      (specAtoms [.part 1 21, .afix 43, .atom ⟨0, 2, 11, [-12/10]⟩, .hklf 1, .atom ⟨1, 1, 11, [5/100, 3/2]⟩]).map some := by
  decide +kernel

/-- the hypothesis `valid` is needed (Q-peak rule): an ordinary atom line between HKLF and END is not flagged
    by the code (no peak height), while it is "listed after HKLF" -/
example : observe (run [.hklf 1, .atom ⟨0, 1, 11, [4/100]⟩]) ≠ (specAtoms [.hklf 1, .atom ⟨0, 1, 11, [4/100]⟩]).map some := by
  decide +kernel

/-! ### element lookup -/

/-- **element_lookup** — for a scattering-factor number inside the table, `Atom.element` is the entry at that
    (1-based) position -/
theorem element_lookup (table : List String) (n : Int) (h1 : 1 ≤ n) (h2 : n ≤ table.length) :
    some (sfac2elem table n) = specElement table n := by
  have hn0 : ¬ n = 0 := by omega
  have hneg : ¬ n < 0 := by omega
  have hi : ¬ n - 1 < 0 := by omega
  have hlt : (n - 1).toNat < table.length := by omega
  simp only [sfac2elem, specElement, hn0, hneg, hi, if_false, h1, if_true]
  rw [List.getElem?_eq_getElem hlt]

example : some (sfac2elem ["C", "H", "O"] 3) = specElement ["C", "H", "O"] 3 := element_lookup _ _ (by decide) (by decide)
/-- outside the table the code answers '' (0, too large) or counts from the end (negative) -/
example : sfac2elem ["C", "H", "O"] 4 = "" ∧ sfac2elem ["C", "H", "O"] 0 = "" ∧ sfac2elem ["C", "H", "O"] (-1) = "O" := by
  decide +kernel

/-! ### the SFAC table over several SFAC instructions -/

theorem foldl_snoc_eq_append (l t : List String) : l.foldl (fun t x => t ++ [x]) t = t ++ l := by
  induction l generalizing t with
  | nil => simp
  | cons x r ih => simp [List.foldl_cons, ih]

/-- **sfac_table_spec** — for any number of SFAC instructions of either form in any order, the table is the
    concatenation of their elements in file order -/
theorem sfac_table_spec (instrs : List SfacInstr) : sfacTable instrs = specSfacTable instrs := by
  suffices H : ∀ t, instrs.foldl sfacStep t = t ++ specSfacTable instrs by simpa [sfacTable] using H []
  induction instrs with
  | nil => intro t; simp [specSfacTable]
  | cons i r ih =>
    intro t
    rw [List.foldl_cons, ih]
    cases i with
    | elems l =>
      simp only [sfacStep]
      rw [foldl_snoc_eq_append]
      simp [specSfacTable, List.flatMap_cons, List.append_assoc]
    | explicit e => simp [sfacStep, specSfacTable, List.flatMap_cons]

/-- **element_of_atom** — scattering-factor number `n` names the `n`-th element counted over all SFAC
    instructions of the file -/
theorem element_of_atom (instrs : List SfacInstr) (n : Int) (h1 : 1 ≤ n) (h2 : n ≤ (specSfacTable instrs).length) :
    some (sfac2elem (sfacTable instrs) n) = specElement (specSfacTable instrs) n := by
  rw [sfac_table_spec]
  exact element_lookup _ n h1 h2

example : sfacTable [.elems ["O", "N"], .explicit "CU", .elems ["C", "H"]] = ["O", "N", "CU", "C", "H"] := by decide +kernel

/-! ### derived views -/

theorem observed_atoms (file : List Line) (hv : valid file = true) :
    (observe (run file)).filterMap id = specAtoms file := by
  rw [atoms_match_spec file hv]
  induction specAtoms file with
  | nil => rfl
  | cons a t ih => simp [ih]

/-- **derived_views** — hydrogen / Q-peak / riding lists, residue numbers and the atoms of a class, computed from
    the parsed atoms, are the corresponding filters of the specification's atom list -/
theorem derived_views (file : List Line) (hv : valid file = true) (table : List String) (c : String) :
    let got := viewAtoms table ((observe (run file)).filterMap id)
    let want := viewAtoms table (specAtoms file)
    View.hydrogenAtoms got = want.filter View.isHydrogen ∧
    View.qPeaks got = want.filter (·.obs.qpeak) ∧
    View.ridingAtoms got = (want.filter View.isHydrogen).filter (fun a => decide (a.obs.afix > 0)) ∧
    View.residues got = View.residues want ∧
    View.atomsInClass got c = View.atomsInClass want c := by
  rw [observed_atoms file hv]
  exact ⟨rfl, rfl, rfl, rfl, rfl⟩

theorem foldl_add_zero (l : List Rat) (h : ∀ x ∈ l, x = 0) (acc : Rat) : l.foldl (· + ·) acc = acc := by
  induction l generalizing acc with
  | nil => rfl
  | cons x t ih =>
    have hx : x = 0 := h x (by simp)
    rw [List.foldl_cons, hx, Rat.add_zero]
    exact ih (fun y hy => h y (by simp [hy])) acc

theorem tailSum_zero (u : List Rat) (h : View.hasAniso u = false) : View.tailSum u = 0 := by
  unfold View.tailSum
  apply foldl_add_zero
  intro x hx
  simp only [View.hasAniso] at h
  have := List.any_eq_false.mp h x hx
  simpa using this

/-- full-strength statement of the anisotropic count — FALSE for the code (known finding
    `C03|view|n_aniso|with-qpeaks`: peaks, whose second "displacement value" is the peak height, are counted) -/
def nAnisoStatement : Prop := ∀ l : List ViewAtom, View.nAniso l = View.specNAniso l

/-- **n_aniso_partial** — without Q-peaks in the list (and with anisotropic values whose sum exceeds the code's
    threshold 1e-5, true of every physically meaningful U) the count is the number of anisotropic atoms -/
theorem n_aniso_partial (l : List ViewAtom) (hq : ∀ a ∈ l, a.obs.qpeak = false)
    (hu : ∀ a ∈ l, View.hasAniso a.obs.uvals = true → View.tailSum a.obs.uvals > 1 / 100000) :
    View.nAniso l = View.specNAniso l := by
  unfold View.nAniso View.specNAniso
  congr 1
  apply List.filter_congr
  intro a ha
  rw [hq a ha]
  cases hh : View.hasAniso a.obs.uvals with
  | true => simpa using hu a ha hh
  | false =>
    rw [tailSum_zero _ hh]
    decide +kernel

theorem n_aniso_fails_on : ¬ nAnisoStatement := by
  intro h
  have := h [⟨⟨0, 1, 11, [5/100, 3/2, 0, 0, 0, 0], 0, 0, 0, "", true⟩, "C"⟩]
  revert this
  decide +kernel

/-- full-strength statement of the isotropic count — FALSE for the code (known finding
    `C03|view|n_iso|with-zero-height-peaks`) -/
def nIsoStatement : Prop := ∀ l : List ViewAtom, View.nIso l = View.specNIso l

/-- **n_iso_partial** — the isotropic count is the number of non-peak atoms with a single displacement value,
    provided peaks carry a height and anisotropic values do not sum to exactly zero -/
theorem n_iso_partial (l : List ViewAtom) (hq : ∀ a ∈ l, a.obs.qpeak = true → View.hasAniso a.obs.uvals = true)
    (hu : ∀ a ∈ l, View.hasAniso a.obs.uvals = true → View.tailSum a.obs.uvals ≠ 0) :
    View.nIso l = View.specNIso l := by
  unfold View.nIso View.specNIso
  congr 1
  apply List.filter_congr
  intro a ha
  cases hh : View.hasAniso a.obs.uvals with
  | true => simpa using hu a ha hh
  | false =>
    rw [tailSum_zero _ hh]
    cases hqq : a.obs.qpeak with
    | false => simp
    | true => rw [hq a ha hqq] at hh; cases hh

theorem n_iso_fails_on : ¬ nIsoStatement := by
  intro h
  have := h [⟨⟨0, 1, 11, [5/100, 0, 0, 0, 0, 0], 0, 0, 0, "", true⟩, "C"⟩]
  revert this
  decide +kernel

example : View.nAniso (viewAtoms ["C", "H", "O"] (specAtoms demoFile)) = 3 ∧
    View.specNAniso (viewAtoms ["C", "H", "O"] (specAtoms demoFile)) = 1 := by decide +kernel

/-! ### RESI decoding -/

/-- **resi_decode_spec** — for every form the syntax allows, with arbitrary class, number, alias and chain, the
    decoder returns class = the word, number = the first number (or the one behind `chain:`), alias = the second -/
theorem resi_decode_spec (toks : List RTok) (h : resiFormOK toks = true) : resiDecode toks = resiSpec toks := by
  unfold resiFormOK at h
  split at h <;> simp_all [resiDecode, resiSpec]

example : resiFormOK [.num 5, .word "TOL", .num 7] = true ∧
    resiDecode [.num 5, .word "TOL", .num 7] = { cls := "TOL", num := 5, alias := some 7, chain := none } := by
  decide +kernel
/-- outside the table of forms the decoder is order dependent: a non-positive number is overwritten by the "alias" -/
example : resiDecode [.num (-3), .word "X", .num 7] ≠ resiSpec [.num (-3), .word "X", .num 7] := by decide +kernel

/-! ### include files -/

theorem incNames_append (a b : List Item) : incNames (a ++ b) = incNames a ++ incNames b := by
  induction a with
  | nil => rfl
  | cons x t ih => cases x <;> simp [incNames, ih]

theorem expands_append (fs : FS) {xs o1 ys o2 : List Item} (h1 : Expands fs xs o1) (h2 : Expands fs ys o2) :
    Expands fs (xs ++ ys) (o1 ++ o2) := by
  induction h1 with
  | nil => simpa using h2
  | line t _ ih => exact Expands.line t ih
  | inc n hc _ _ ih2 =>
    rw [List.cons_append, List.cons_append, List.append_assoc]
    exact Expands.inc n hc ih2

theorem include_spliced (fs : FS) (fuel : Nat) : ∀ (seen : List String) (items out : List Item),
    Expands fs items out → (seen ++ incNames out).Nodup → out.length ≤ fuel →
    splice fs fuel seen items = some out := by
  induction fuel with
  | zero =>
    intro seen items out he _ hl
    cases he with
    | nil => simp [splice]
    | line t _ => simp at hl
    | inc n _ _ => simp at hl
  | succ fuel ih =>
    intro seen items out he hnd hl
    cases he with
    | nil => simp [splice]
    | line t hr =>
      simp only [splice]
      rw [ih seen _ _ hr (by simpa [incNames] using hnd) (by simp at hl; omega)]
      rfl
    | inc n hc hr =>
      rename_i rest o1 o2
      simp only [incNames, incNames_append] at hnd
      have hns : n ∉ seen := by
        intro hin
        have := (List.nodup_append.mp hnd).2.2 n hin n (by simp)
        exact this rfl
      have hnd' : ((n :: seen) ++ (incNames o1 ++ incNames o2)).Nodup := by
        have hp : (seen ++ n :: (incNames o1 ++ incNames o2)).Perm ((n :: seen) ++ (incNames o1 ++ incNames o2)) := by
          simp [List.perm_middle]
        exact hp.nodup_iff.mp hnd
      simp only [splice, hns, if_false]
      rw [ih (n :: seen) _ _ (expands_append fs hc hr) (by simpa [incNames_append] using hnd') (by simp at hl ⊢; omega)]
      rfl

theorem spliceSpec_expands (fs : FS) (d : Nat) : ∀ items : List Item, deepOK fs d items = true →
    Expands fs items (spliceSpec fs d items) := by
  induction d with
  | zero =>
    intro items
    induction items with
    | nil => intro _; simp only [spliceSpec]; exact Expands.nil
    | cons x rest ih =>
      intro h
      cases x with
      | line t =>
        simp only [deepOK] at h
        simp only [spliceSpec]
        exact Expands.line t (ih h)
      | inc n =>
        simp only [deepOK, Bool.and_eq_true, List.isEmpty_iff] at h
        simp only [spliceSpec]
        have hc : Expands fs ((fsGet fs n).getD []) [] := by rw [h.1]; exact Expands.nil
        simpa using Expands.inc n hc (ih h.2)
  | succ d ihd =>
    intro items
    induction items with
    | nil => intro _; simp only [spliceSpec]; exact Expands.nil
    | cons x rest ih =>
      intro h
      cases x with
      | line t =>
        simp only [deepOK] at h
        simp only [spliceSpec]
        exact Expands.line t (ih h)
      | inc n =>
        simp only [deepOK, Bool.and_eq_true] at h
        simp only [spliceSpec]
        exact Expands.inc n (ihd _ h.1) (ih h.2)


/-- **include_spliced_exec** — the executable specification (`spliceSpec`, nesting bound `d`): whenever the bound
    suffices and no file is included twice (Python raises ValueError on the second `+name`, see below), the
    parser's line list after `_find_included_files` is the specification's -/
theorem include_spliced_exec (fs : FS) (d fuel : Nat) (items : List Item) (hd : deepOK fs d items = true)
    (hnd : (incNames (spliceSpec fs d items)).Nodup) (hf : (spliceSpec fs d items).length ≤ fuel) :
    splice fs fuel [] items = some (spliceSpec fs d items) :=
  include_spliced fs fuel [] items _ (spliceSpec_expands fs d items hd) (by simpa using hnd) hf

def demoFS : FS := [("a.ins", [.line 10, .inc "b.ins", .line 11]), ("b.ins", [.line 20])]

example : splice demoFS 10 [] [.line 0, .inc "a.ins", .line 1] =
    some [.line 0, .inc "a.ins", .line 10, .inc "b.ins", .line 20, .line 11, .line 1] := by decide +kernel
example : deepOK demoFS 2 [.line 0, .inc "a.ins", .line 1] = true := by simp [deepOK, demoFS, fsGet]
/-- the hypothesis "no file twice" is needed: the code refuses the second include of the same file -/
example : splice demoFS 10 [] [.inc "b.ins", .inc "b.ins"] = none := by decide +kernel

end Shelx.C03

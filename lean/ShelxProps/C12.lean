import ShelxModel.C12
import Mathlib.Tactic.Ring
import Mathlib.Tactic.Linarith
import Mathlib.Tactic.FieldSimp
import Mathlib.Tactic.LinearCombination
import Mathlib.Tactic.NormNum
import Mathlib.Tactic.Positivity
import Mathlib.Data.Real.Basic
import Mathlib.Analysis.Real.Sqrt

namespace Shelx.C12

/-- all the theorems use of `math.sqrt`: on non-negative arguments it returns the non-negative root -/
def IsSqrt (sqrt : ℝ → ℝ) : Prop := ∀ t, 0 ≤ t → sqrt t * sqrt t = t ∧ 0 ≤ sqrt t

example : IsSqrt Real.sqrt := fun t ht => ⟨Real.mul_self_sqrt ht, Real.sqrt_nonneg t⟩

/-- a physically valid cell: positive lengths, `(cos, sin)` pairs of angles in (0°, 180°), positive volume radicand -/
structure ValidCell (c : Cell ℝ) : Prop where
  ha : 0 < c.a
  hb : 0 < c.b
  hc : 0 < c.c
  hsa : 0 < c.sa
  hsb : 0 < c.sb
  hsg : 0 < c.sg
  ea : c.sa * c.sa + c.ca * c.ca = 1
  eb : c.sb * c.sb + c.cb * c.cb = 1
  eg : c.sg * c.sg + c.cg * c.cg = 1
  hD : 0 < volRadicand c

theorem sqrt_unique {sqrt : ℝ → ℝ} (hs : IsSqrt sqrt) {t r : ℝ} (hr : 0 ≤ r) (h : r * r = t) : sqrt t = r := by
  have ht : 0 ≤ t := by rw [← h]; exact mul_self_nonneg r
  obtain ⟨h1, h2⟩ := hs t ht
  have : (sqrt t - r) * (sqrt t + r) = 0 := by ring_nf; nlinarith
  rcases mul_eq_zero.mp this with h3 | h3
  · linarith
  · have h4 : sqrt t = 0 := by linarith
    have h5 : r = 0 := by linarith
    rw [h4, h5]

theorem volume_sq {sqrt : ℝ → ℝ} (hs : IsSqrt sqrt) (c : Cell ℝ) (h : ValidCell c) :
    volume sqrt c * volume sqrt c = (c.a * c.b * c.c) * (c.a * c.b * c.c) * volRadicand c := by
  obtain ⟨h1, _⟩ := hs _ h.hD.le
  unfold volume
  linear_combination (c.a * c.b * c.c) * (c.a * c.b * c.c) * h1

theorem volume_pos {sqrt : ℝ → ℝ} (hs : IsSqrt sqrt) (c : Cell ℝ) (h : ValidCell c) : 0 < volume sqrt c := by
  obtain ⟨h1, h2⟩ := hs _ h.hD.le
  have h3 : 0 < sqrt (volRadicand c) := by
    rcases h2.lt_or_eq with h4 | h4
    · exact h4
    · rw [← h4] at h1; have := h.hD; linarith
  unfold volume
  have := h.ha; have := h.hb; have := h.hc
  positivity

/-! ### the orthogonalisation matrix -/

/-- **ortho_upper**: conventional setting — `M` is upper triangular with `M₀₀ = a` and positive diagonal, so the
    image of the a axis is `(a,0,0)`, the image of b lies in the xy plane with positive y, c has positive z -/
theorem ortho_upper {sqrt : ℝ → ℝ} (hs : IsSqrt sqrt) (c : Cell ℝ) (h : ValidCell c) :
    let m := orthoM sqrt c
    m.r1.x = 0 ∧ m.r2.x = 0 ∧ m.r2.y = 0 ∧ m.r0.x = c.a ∧ 0 < m.r1.y ∧ 0 < m.r2.z ∧
    mulVec m ⟨1, 0, 0⟩ = ⟨c.a, 0, 0⟩ ∧ (mulVec m ⟨0, 1, 0⟩).z = 0 ∧ 0 < (mulVec m ⟨0, 1, 0⟩).y := by
  have hV := volume_pos hs c h
  have := h.ha; have := h.hb; have := h.hsg
  refine ⟨rfl, rfl, rfl, rfl, ?_, ?_, ?_, ?_, ?_⟩ <;> simp only [orthoM, mulVec, dot]
  · positivity
  · positivity
  · simp
  · ring
  · simp; positivity

/-- **ortho_gram**: the code's `metric_matrix` (`Mᵀ·M`) is the metric tensor `G_ij = a_i·a_j` -/
theorem ortho_gram {sqrt : ℝ → ℝ} (hs : IsSqrt sqrt) (c : Cell ℝ) (h : ValidCell c) :
    metricCode sqrt c = metric c := by
  have hV2 := volume_sq hs c h
  have ha := h.ha.ne'; have hb := h.hb.ne'; have hsg := h.hsg.ne'
  have eg := h.eg
  simp only [metricCode, mulMM, mulRR, transpose, col0, col1, col2, orthoM, dot, metric, volRadicand] at *
  set V := volume sqrt c
  have e22 : c.c * c.cb * (c.c * c.cb) + c.c * (c.ca - c.cb * c.cg) / c.sg * (c.c * (c.ca - c.cb * c.cg) / c.sg)
      + V / (c.a * c.b * c.sg) * (V / (c.a * c.b * c.sg)) = c.c * c.c := by
    field_simp
    have : c.sg ^ 2 = 1 - c.cg ^ 2 := by linear_combination eg
    linear_combination hV2 + (c.a ^ 2 * c.b ^2 * c.c ^ 2 * (c.cb^2 - 1)) * this
  have e12 : c.b * c.cg * (c.c * c.cb) + c.b * c.sg * (c.c * (c.ca - c.cb * c.cg) / c.sg) = c.b * c.c * c.ca := by
    field_simp; ring
  have e11 : c.b * c.cg * (c.b * c.cg) + c.b * c.sg * (c.b * c.sg) = c.b * c.b := by
    linear_combination (c.b * c.b) * eg
  congr 1 <;> congr 1 <;>
    first | ring1 | linear_combination e11 | linear_combination e12 | linear_combination e22

/-- generic: `‖M x‖² = xᵀ (MᵀM) x` -/
theorem norm2_mulVec (m : M3 ℝ) (x : V3 ℝ) : norm2 (mulVec m x) = quad (mulMM (transpose m) m) x := by
  simp only [norm2, mulVec, quad, mulMM, mulRR, transpose, col0, col1, col2, dot]; ring

/-- **ortho_metric**: lengths from Cartesian coordinates equal lengths from the metric tensor, `‖M x‖² = xᵀ G x` -/
theorem ortho_metric {sqrt : ℝ → ℝ} (hs : IsSqrt sqrt) (c : Cell ℝ) (h : ValidCell c) (x : V3 ℝ) :
    norm2 (mulVec (orthoM sqrt c) x) = quad (metric c) x := by
  rw [norm2_mulVec, ← ortho_gram hs c h]; rfl

/-- **ortho_det**: `det M = V` (the code's `CELL.volume` / `vol_unitcell`) -/
theorem ortho_det {sqrt : ℝ → ℝ} (c : Cell ℝ) (h : ValidCell c) : det (orthoM sqrt c) = volume sqrt c := by
  have ha := h.ha.ne'; have hb := h.hb.ne'; have hsg := h.hsg.ne'
  simp only [det, orthoM]
  field_simp
  ring

/-- the volume is the root of the Gram determinant: `V² = det G`, `V > 0` -/
theorem volume_metric {sqrt : ℝ → ℝ} (hs : IsSqrt sqrt) (c : Cell ℝ) (h : ValidCell c) :
    volume sqrt c * volume sqrt c = gramDet (metric c) ∧ 0 < volume sqrt c := by
  refine ⟨?_, volume_pos hs c h⟩
  rw [volume_sq hs c h]
  simp only [gramDet, metric, volRadicand]; ring

theorem ortho_det_ne {sqrt : ℝ → ℝ} (hs : IsSqrt sqrt) (c : Cell ℝ) (h : ValidCell c) : det (orthoM sqrt c) ≠ 0 := by
  rw [ortho_det c h]; exact (volume_pos hs c h).ne'

/-! ### `Matrix.inversed` (generic 3×3 facts, then the cell) -/

theorem det_def (m : M3 ℝ) : det m = m.r0.x * (m.r1.y * m.r2.z - m.r2.y * m.r1.z)
    - m.r1.x * (m.r0.y * m.r2.z - m.r2.y * m.r0.z) + m.r2.x * (m.r0.y * m.r1.z - m.r1.y * m.r0.z) := rfl

/-- the cofactor formula as coded is a left inverse -/
theorem inversed_mul (m : M3 ℝ) (hd : det m ≠ 0) : mulMM (inversed m) m = one3 := by
  have e := det_def m
  simp only [mulMM, mulRR, transpose, col0, col1, col2, inversed, dot, one3]
  generalize det m = d at *
  congr 1 <;> congr 1 <;> (field_simp; first | ring1 | linear_combination e | linear_combination -e)

/-- … and a right inverse -/
theorem mul_inversed (m : M3 ℝ) (hd : det m ≠ 0) : mulMM m (inversed m) = one3 := by
  have e := det_def m
  simp only [mulMM, mulRR, transpose, col0, col1, col2, inversed, dot, one3]
  generalize det m = d at *
  congr 1 <;> congr 1 <;> (field_simp; first | ring1 | linear_combination e | linear_combination -e)

theorem mulVec_mulMM (a b : M3 ℝ) (x : V3 ℝ) : mulVec (mulMM a b) x = mulVec a (mulVec b x) := by
  simp only [mulVec, mulMM, mulRR, transpose, col0, col1, col2, dot]
  congr 1 <;> ring

theorem mulVec_one (x : V3 ℝ) : mulVec one3 x = x := by
  cases x; simp [mulVec, one3, dot]

/-- **ortho_inverse**: `M · inversed M = 1 = inversed M · M`, and `inversed M` maps Cartesian coordinates back -/
theorem ortho_inverse {sqrt : ℝ → ℝ} (hs : IsSqrt sqrt) (c : Cell ℝ) (h : ValidCell c) :
    mulMM (orthoM sqrt c) (inversed (orthoM sqrt c)) = one3 ∧
    mulMM (inversed (orthoM sqrt c)) (orthoM sqrt c) = one3 ∧
    (∀ x, mulVec (inversed (orthoM sqrt c)) (mulVec (orthoM sqrt c) x) = x) ∧
    (∀ y, mulVec (orthoM sqrt c) (mulVec (inversed (orthoM sqrt c)) y) = y) := by
  have hd := ortho_det_ne hs c h
  refine ⟨mul_inversed _ hd, inversed_mul _ hd, fun x => ?_, fun y => ?_⟩
  · rw [← mulVec_mulMM, inversed_mul _ hd, mulVec_one]
  · rw [← mulVec_mulMM, mul_inversed _ hd, mulVec_one]

end Shelx.C12

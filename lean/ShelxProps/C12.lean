/-
  C12 — property theorems (model and specification: ShelxModel/C12.lean).

  All theorems are over ℝ (exact arithmetic) and quantified over ALL cells that satisfy `ValidCell` (positive lengths,
  cos/sin pairs of angles strictly between 0° and 180°, positive volume radicand — `validCell_of_angles` shows that this
  is what real cosines and sines give), ALL coordinates, ALL symmetric U tensors; no bound on any magnitude.
  `math.sqrt` is a parameter with the hypothesis `IsSqrt` (met by `Real.sqrt`).

    ortho_upper, ortho_unique, ortho_is_cholesky   M is THE conventional setting (a along x, b in xy, right-handed)
    ortho_gram, ortho_metric                        MᵀM = G;  ‖M x‖² = xᵀ G x
    ortho_det, volume_metric                        det M = V = CELL.volume,  V² = det G
    ortho_inverse                                   M·inversed M = 1 = inversed M·M (cofactor formula as coded)
    frac_to_cart_agrees, cart_to_frac_agrees, cart_frac_inverse     the misc.py routines (cos α* route) agree with M / M⁻¹
    distance_agrees                                 atomic_distance = |M p1 − M p2| = sqrt(dᵀ G d)
    recip_spec                                      a*, b*, c* are the roots of the diagonal of G⁻¹
    ueq_is_third_trace                              Atom.ueq (repaired chain) = ⅓ Σ U_ij a*_i a*_j (a_i·a_j)
    ueq_old_value, ueq_old_fails_on, ucart_old_not_symmetric, ueq_old_right_if_orthogonal   the chain before fixes/C12_1
    iso_branch_only_iso, iso_branch_old_fails_on    the isotropic branch of set_ueq (fixes/C12_2)
    sylvester, posdef_congr, ucart_posdef_iff, is_npd_iff, npd_iff, principal_minors_iff, is_npd_principal_iff
                                                    Atom.is_npd (repaired: fixes/C12_3 leading minors, C12_5 all seven
                                                    principal minors) ⇔ U_cart not positive definite
                                                    ⇔ Sylvester's test fails on the six file values (the harness oracle, Rat)
    history_coherent, history_cart, frac_setter_old_fails_on
                                                    after ANY sequence of public edits of an atom (uvals assignment / item /
                                                    set_uvals / to_isotropic / frac_coords setter, fixes/C12_4) on a parsed or
                                                    add_atom-made atom, cart_coords belongs to the CURRENT position and the
                                                    tensor observables read the CURRENT U values
    file_history_coherent, file_history_cart, cell_set_old_fails_on
                                                    … and the same with in-place changes of the cell (shx.cell.set, fixes/C12_6)
                                                    anywhere in the history: Shelxfile.orthogonal_matrix and the atoms'
                                                    Cartesian coordinates belong to the CURRENT cell
    inverse_memo_coherent, inverse_after_history_maps_back, memo_kept_fails_on
                                                    … and with evaluations of cell.o.inversed (memoised on the matrix
                                                    object) anywhere in between: what it returns is the inverse of the
                                                    orthogonalisation matrix of the CURRENT cell and maps the atom's current
                                                    Cartesian coordinates back to its current fractional ones
    src_cellSetInversed, src_cellSetShxInversed, src_cellSetUeq      the traced source after read → ask → cell.set → ask
    src_atomUeqFlat5/7/10                           the traced Atom.ueq with U33, U23, U13, U12 tiny but not zero, on either
                                                    side of every magnitude the code compares U values against
  Not proved (stated, not hidden): rounding of IEEE doubles (every case of a run is compared at 1e-9), and the
  convergence of the QR iteration `misc.eigenvals`, which `is_npd` no longer uses after fixes/C12_3.
-/
import ShelxModel.C12
import ShelxModel.Extracted.C12Src
import Mathlib.Tactic.Ring
import Mathlib.Tactic.Linarith
import Mathlib.Tactic.FieldSimp
import Mathlib.Tactic.LinearCombination
import Mathlib.Tactic.NormNum
import Mathlib.Tactic.Positivity
import Mathlib.Data.Real.Basic
import Mathlib.Analysis.Real.Sqrt
import Mathlib.Analysis.SpecialFunctions.Trigonometric.Basic

namespace Shelx.C12

/-- all that the theorems use of `math.sqrt`: on non-negative arguments it returns the non-negative root -/
def IsSqrt (sqrt : ℝ → ℝ) : Prop := ∀ t, 0 ≤ t → sqrt t * sqrt t = t ∧ 0 ≤ sqrt t

example : IsSqrt Real.sqrt := fun t ht => ⟨Real.mul_self_sqrt ht, Real.sqrt_nonneg t⟩

/-- a physically valid cell: positive lengths, `(cos, sin)` pairs of angles in (0°, 180°), positive volume radicand -/
structure ValidCell (c : Cell ℝ) : Prop where
  ha : 0 < c.a
  hb : 0 < c.b
  hc : 0 < c.c
  hsa : 0 < c.sa
  hsb : 0 < c.sb
  hsg : 0 < c.sg
  ea : c.sa * c.sa + c.ca * c.ca = 1
  eb : c.sb * c.sb + c.cb * c.cb = 1
  eg : c.sg * c.sg + c.cg * c.cg = 1
  hD : 0 < volRadicand c

theorem sqrt_unique {sqrt : ℝ → ℝ} (hs : IsSqrt sqrt) {t r : ℝ} (hr : 0 ≤ r) (h : r * r = t) : sqrt t = r := by
  have ht : 0 ≤ t := by rw [← h]; exact mul_self_nonneg r
  obtain ⟨h1, h2⟩ := hs t ht
  have : (sqrt t - r) * (sqrt t + r) = 0 := by ring_nf; nlinarith
  rcases mul_eq_zero.mp this with h3 | h3
  · linarith
  · have h4 : sqrt t = 0 := by linarith
    have h5 : r = 0 := by linarith
    rw [h4, h5]

theorem volume_sq {sqrt : ℝ → ℝ} (hs : IsSqrt sqrt) (c : Cell ℝ) (h : ValidCell c) :
    volume sqrt c * volume sqrt c = (c.a * c.b * c.c) * (c.a * c.b * c.c) * volRadicand c := by
  obtain ⟨h1, _⟩ := hs _ h.hD.le
  unfold volume
  linear_combination (c.a * c.b * c.c) * (c.a * c.b * c.c) * h1

theorem volume_pos {sqrt : ℝ → ℝ} (hs : IsSqrt sqrt) (c : Cell ℝ) (h : ValidCell c) : 0 < volume sqrt c := by
  obtain ⟨h1, h2⟩ := hs _ h.hD.le
  have h3 : 0 < sqrt (volRadicand c) := by
    rcases h2.lt_or_eq with h4 | h4
    · exact h4
    · rw [← h4] at h1; have := h.hD; linarith
  unfold volume
  have := h.ha; have := h.hb; have := h.hc
  positivity

/-! ### the orthogonalisation matrix -/

/-- **ortho_upper**: conventional setting — `M` is upper triangular with `M₀₀ = a` and positive diagonal, so the
    image of the a axis is `(a,0,0)`, the image of b lies in the xy plane with positive y, c has positive z -/
theorem ortho_upper {sqrt : ℝ → ℝ} (hs : IsSqrt sqrt) (c : Cell ℝ) (h : ValidCell c) :
    let m := orthoM sqrt c
    m.r1.x = 0 ∧ m.r2.x = 0 ∧ m.r2.y = 0 ∧ m.r0.x = c.a ∧ 0 < m.r1.y ∧ 0 < m.r2.z ∧
    mulVec m ⟨1, 0, 0⟩ = ⟨c.a, 0, 0⟩ ∧ (mulVec m ⟨0, 1, 0⟩).z = 0 ∧ 0 < (mulVec m ⟨0, 1, 0⟩).y := by
  have hV := volume_pos hs c h
  have := h.ha; have := h.hb; have := h.hsg
  refine ⟨rfl, rfl, rfl, rfl, ?_, ?_, ?_, ?_, ?_⟩ <;> simp only [orthoM, mulVec, dot]
  · positivity
  · positivity
  · simp
  · ring
  · simp; positivity

/-- **ortho_gram**: the code's `metric_matrix` (`Mᵀ·M`) is the metric tensor `G_ij = a_i·a_j` -/
theorem ortho_gram {sqrt : ℝ → ℝ} (hs : IsSqrt sqrt) (c : Cell ℝ) (h : ValidCell c) :
    metricCode sqrt c = metric c := by
  have hV2 := volume_sq hs c h
  have ha := h.ha.ne'; have hb := h.hb.ne'; have hsg := h.hsg.ne'
  have eg := h.eg
  simp only [metricCode, mulMM, mulRR, transpose, col0, col1, col2, orthoM, dot, metric, volRadicand] at *
  set V := volume sqrt c
  have e22 : c.c * c.cb * (c.c * c.cb) + c.c * (c.ca - c.cb * c.cg) / c.sg * (c.c * (c.ca - c.cb * c.cg) / c.sg)
      + V / (c.a * c.b * c.sg) * (V / (c.a * c.b * c.sg)) = c.c * c.c := by
    field_simp
    have : c.sg ^ 2 = 1 - c.cg ^ 2 := by linear_combination eg
    linear_combination hV2 + (c.a ^ 2 * c.b ^2 * c.c ^ 2 * (c.cb^2 - 1)) * this
  have e12 : c.b * c.cg * (c.c * c.cb) + c.b * c.sg * (c.c * (c.ca - c.cb * c.cg) / c.sg) = c.b * c.c * c.ca := by
    field_simp; ring
  have e11 : c.b * c.cg * (c.b * c.cg) + c.b * c.sg * (c.b * c.sg) = c.b * c.b := by
    linear_combination (c.b * c.b) * eg
  congr 1 <;> congr 1 <;>
    first | ring1 | linear_combination e11 | linear_combination e12

/-- generic: `‖M x‖² = xᵀ (MᵀM) x` -/
theorem norm2_mulVec (m : M3 ℝ) (x : V3 ℝ) : norm2 (mulVec m x) = quad (mulMM (transpose m) m) x := by
  simp only [norm2, mulVec, quad, mulMM, mulRR, transpose, col0, col1, col2, dot]; ring

/-- **ortho_metric**: lengths from Cartesian coordinates equal lengths from the metric tensor, `‖M x‖² = xᵀ G x` -/
theorem ortho_metric {sqrt : ℝ → ℝ} (hs : IsSqrt sqrt) (c : Cell ℝ) (h : ValidCell c) (x : V3 ℝ) :
    norm2 (mulVec (orthoM sqrt c) x) = quad (metric c) x := by
  rw [norm2_mulVec, ← ortho_gram hs c h]; rfl

/-- **ortho_det**: `det M = V` (the code's `CELL.volume` / `vol_unitcell`) -/
theorem ortho_det {sqrt : ℝ → ℝ} (c : Cell ℝ) (h : ValidCell c) : det (orthoM sqrt c) = volume sqrt c := by
  have ha := h.ha.ne'; have hb := h.hb.ne'; have hsg := h.hsg.ne'
  simp only [det, orthoM]
  field_simp
  ring

/-- the volume is the root of the Gram determinant: `V² = det G`, `V > 0` -/
theorem volume_metric {sqrt : ℝ → ℝ} (hs : IsSqrt sqrt) (c : Cell ℝ) (h : ValidCell c) :
    volume sqrt c * volume sqrt c = gramDet (metric c) ∧ 0 < volume sqrt c := by
  refine ⟨?_, volume_pos hs c h⟩
  rw [volume_sq hs c h]
  simp only [gramDet, metric, volRadicand]; ring

theorem ortho_det_ne {sqrt : ℝ → ℝ} (hs : IsSqrt sqrt) (c : Cell ℝ) (h : ValidCell c) : det (orthoM sqrt c) ≠ 0 := by
  rw [ortho_det c h]; exact (volume_pos hs c h).ne'

/-! ### `Matrix.inversed` (generic 3×3 facts, then the cell) -/

theorem det_def (m : M3 ℝ) : det m = m.r0.x * (m.r1.y * m.r2.z - m.r2.y * m.r1.z)
    - m.r1.x * (m.r0.y * m.r2.z - m.r2.y * m.r0.z) + m.r2.x * (m.r0.y * m.r1.z - m.r1.y * m.r0.z) := rfl

/-- the cofactor formula as coded is a left inverse -/
theorem inversed_mul (m : M3 ℝ) (hd : det m ≠ 0) : mulMM (inversed m) m = one3 := by
  have e := det_def m
  simp only [mulMM, mulRR, transpose, col0, col1, col2, inversed, dot, one3]
  generalize det m = d at *
  congr 1 <;> congr 1 <;> (field_simp; first | ring1 | linear_combination e | linear_combination -e)

/-- … and a right inverse -/
theorem mul_inversed (m : M3 ℝ) (hd : det m ≠ 0) : mulMM m (inversed m) = one3 := by
  have e := det_def m
  simp only [mulMM, mulRR, transpose, col0, col1, col2, inversed, dot, one3]
  generalize det m = d at *
  congr 1 <;> congr 1 <;> (field_simp; first | ring1 | linear_combination e | linear_combination -e)

theorem mulVec_mulMM (a b : M3 ℝ) (x : V3 ℝ) : mulVec (mulMM a b) x = mulVec a (mulVec b x) := by
  simp only [mulVec, mulMM, mulRR, transpose, col0, col1, col2, dot]
  congr 1 <;> ring

theorem mulVec_one (x : V3 ℝ) : mulVec one3 x = x := by
  cases x; simp [mulVec, one3, dot]

/-- **ortho_inverse**: `M · inversed M = 1 = inversed M · M`, and `inversed M` maps Cartesian coordinates back -/
theorem ortho_inverse {sqrt : ℝ → ℝ} (hs : IsSqrt sqrt) (c : Cell ℝ) (h : ValidCell c) :
    mulMM (orthoM sqrt c) (inversed (orthoM sqrt c)) = one3 ∧
    mulMM (inversed (orthoM sqrt c)) (orthoM sqrt c) = one3 ∧
    (∀ x, mulVec (inversed (orthoM sqrt c)) (mulVec (orthoM sqrt c) x) = x) ∧
    (∀ y, mulVec (orthoM sqrt c) (mulVec (inversed (orthoM sqrt c)) y) = y) := by
  have hd := ortho_det_ne hs c h
  refine ⟨mul_inversed _ hd, inversed_mul _ hd, fun x => ?_, fun y => ?_⟩
  · rw [← mulVec_mulMM, inversed_mul _ hd, mulVec_one]
  · rw [← mulVec_mulMM, mul_inversed _ hd, mulVec_one]

/-- `sinastar` of misc.frac_to_cart: `sqrt(1 − cos²α*) = V / (a b c sinβ sinγ)` -/
theorem sinAstar_eq {sqrt : ℝ → ℝ} (hs : IsSqrt sqrt) (c : Cell ℝ) (h : ValidCell c) :
    sqrt (1 - cosAstar c * cosAstar c) = volume sqrt c / (c.a * c.b * c.c * c.sb * c.sg) := by
  have hV2 := volume_sq hs c h
  have hV := volume_pos hs c h
  have ha := h.ha; have hb := h.hb; have hc := h.hc; have hsb := h.hsb; have hsg := h.hsg
  apply sqrt_unique hs
  · positivity
  · simp only [cosAstar, volRadicand] at *
    have ha' := ha.ne'; have hb' := hb.ne'; have hc' := hc.ne'; have hsb' := hsb.ne'; have hsg' := hsg.ne'
    field_simp
    have e1 : c.sg ^ 2 = 1 - c.cg ^ 2 := by linear_combination h.eg
    have e2 : c.sb ^ 2 = 1 - c.cb ^ 2 := by linear_combination h.eb
    linear_combination hV2 - (c.a^2*c.b^2*c.c^2 * c.sb^2) * e1 - (c.a^2*c.b^2*c.c^2 * (1 - c.cg^2)) * e2

/-- **frac_to_cart_agrees**: the stand-alone conversion (route via cos α*) equals `M x` -/
theorem frac_to_cart_agrees {sqrt : ℝ → ℝ} (hs : IsSqrt sqrt) (c : Cell ℝ) (h : ValidCell c) (x : V3 ℝ) :
    fracToCartMisc sqrt c x = mulVec (orthoM sqrt c) x := by
  have hsin := sinAstar_eq hs c h
  have ha' := h.ha.ne'; have hb' := h.hb.ne'; have hc' := h.hc.ne'; have hsb' := h.hsb.ne'; have hsg' := h.hsg.ne'
  simp only [fracToCartMisc, mulVec, orthoM, dot]
  rw [hsin]
  simp only [cosAstar]
  congr 1 <;> first | ring1 | (field_simp; ring1)


/-- **cart_frac_inverse**: `misc.cart_to_frac` and `misc.frac_to_cart` are inverse to each other -/
theorem cart_frac_inverse {sqrt : ℝ → ℝ} (hs : IsSqrt sqrt) (c : Cell ℝ) (h : ValidCell c) :
    (∀ x, cartToFracMisc sqrt c (fracToCartMisc sqrt c x) = x) ∧
    (∀ q, fracToCartMisc sqrt c (cartToFracMisc sqrt c q) = q) := by
  have hsin := sinAstar_eq hs c h
  have hV := (volume_pos hs c h).ne'
  have ha' := h.ha.ne'; have hb' := h.hb.ne'; have hc' := h.hc.ne'; have hsb' := h.hsb.ne'; have hsg' := h.hsg.ne'
  constructor
  · intro x
    cases x
    simp only [fracToCartMisc, cartToFracMisc]
    rw [hsin]
    generalize volume sqrt c = V at *
    generalize cosAstar c = cA at *
    congr 1 <;> (field_simp; ring1)
  · intro q
    cases q
    simp only [fracToCartMisc, cartToFracMisc]
    rw [hsin]
    generalize volume sqrt c = V at *
    generalize cosAstar c = cA at *
    congr 1 <;> (field_simp; ring1)

/-- the cartesian-to-fractional routines agree as well: `misc.cart_to_frac q = inversed M · q` -/
theorem cart_to_frac_agrees {sqrt : ℝ → ℝ} (hs : IsSqrt sqrt) (c : Cell ℝ) (h : ValidCell c) (q : V3 ℝ) :
    cartToFracMisc sqrt c q = mulVec (inversed (orthoM sqrt c)) q := by
  obtain ⟨_, _, h3, _⟩ := ortho_inverse hs c h
  obtain ⟨_, h5⟩ := cart_frac_inverse hs c h
  conv_rhs => rw [← h5 q, frac_to_cart_agrees hs c h, h3]

theorem mulVec_vsub (m : M3 ℝ) (x y : V3 ℝ) : mulVec m (vsub x y) = vsub (mulVec m x) (mulVec m y) := by
  simp only [mulVec, vsub, dot]; congr 1 <;> ring

/-- `atomic_distance`'s radicand is the metric quadratic form of the difference vector -/
theorem atomicDistSq_eq_quad (c : Cell ℝ) (d : V3 ℝ) : atomicDistSq c d = quad (metric c) d := by
  simp only [atomicDistSq, quad, metric, mulVec, dot]; ring

/-- **distance_agrees**: `atomic_distance(p1, p2, cell)` is the Euclidean distance of the Cartesian images,
    and its square the metric form of the fractional difference -/
theorem distance_agrees {sqrt : ℝ → ℝ} (hs : IsSqrt sqrt) (c : Cell ℝ) (h : ValidCell c) (p1 p2 : V3 ℝ) :
    atomicDistance sqrt c p1 p2 = sqrt (norm2 (vsub (mulVec (orthoM sqrt c) p1) (mulVec (orthoM sqrt c) p2))) ∧
    atomicDistance sqrt c p1 p2 * atomicDistance sqrt c p1 p2 = quad (metric c) (vsub p1 p2) ∧
    0 ≤ atomicDistance sqrt c p1 p2 := by
  have e : atomicDistSq c (vsub p1 p2) = norm2 (mulVec (orthoM sqrt c) (vsub p1 p2)) := by
    rw [atomicDistSq_eq_quad, ortho_metric hs c h]
  have hnn : 0 ≤ atomicDistSq c (vsub p1 p2) := by
    rw [e]; simp only [norm2, dot]
    exact add_nonneg (add_nonneg (mul_self_nonneg _) (mul_self_nonneg _)) (mul_self_nonneg _)
  obtain ⟨h1, h2⟩ := hs _ hnn
  refine ⟨?_, ?_, h2⟩
  · unfold atomicDistance; rw [e, mulVec_vsub]
  · unfold atomicDistance; rw [h1, atomicDistSq_eq_quad]

/-! ### the conventional setting is the Cholesky factor of G -/

/-- an upper-triangular matrix with positive diagonal is determined by its Gram matrix -/
theorem upper_unique (t s : M3 ℝ)
    (ht : t.r1.x = 0 ∧ t.r2.x = 0 ∧ t.r2.y = 0 ∧ 0 < t.r0.x ∧ 0 < t.r1.y ∧ 0 < t.r2.z)
    (hsu : s.r1.x = 0 ∧ s.r2.x = 0 ∧ s.r2.y = 0 ∧ 0 < s.r0.x ∧ 0 < s.r1.y ∧ 0 < s.r2.z)
    (hg : mulMM (transpose t) t = mulMM (transpose s) s) : t = s := by
  obtain ⟨⟨t00, t01, t02⟩, ⟨t10, t11, t12⟩, ⟨t20, t21, t22⟩⟩ := t
  obtain ⟨⟨s00, s01, s02⟩, ⟨s10, s11, s12⟩, ⟨s20, s21, s22⟩⟩ := s
  simp only at ht hsu
  obtain ⟨rfl, rfl, rfl, p0, p1, p2⟩ := ht
  obtain ⟨rfl, rfl, rfl, q0, q1, q2⟩ := hsu
  simp only [mulMM, mulRR, transpose, col0, col1, col2, dot, M3.mk.injEq, V3.mk.injEq] at hg
  obtain ⟨⟨g00, g01, g02⟩, ⟨-, g11, g12⟩, ⟨-, -, g22⟩⟩ := hg
  have e00 : t00 = s00 := by nlinarith
  subst e00
  have e01 : t01 = s01 := by
    have : t00 * (t01 - s01) = 0 := by linear_combination g01
    rcases mul_eq_zero.mp this with h | h
    · linarith
    · linarith
  subst e01
  have e02 : t02 = s02 := by
    have : t00 * (t02 - s02) = 0 := by linear_combination g02
    rcases mul_eq_zero.mp this with h | h
    · linarith
    · linarith
  subst e02
  have e11 : t11 = s11 := by nlinarith
  subst e11
  have e12 : t12 = s12 := by
    have : t11 * (t12 - s12) = 0 := by linear_combination g12
    rcases mul_eq_zero.mp this with h | h
    · linarith
    · linarith
  subst e12
  have e22 : t22 = s22 := by nlinarith
  subst e22
  rfl

/-- **ortho_unique**: `M` is THE matrix of the conventional setting — any upper-triangular matrix with positive
    diagonal (a along x, b in the xy plane with positive y, right-handed) that reproduces the metric tensor is `M` -/
theorem ortho_unique {sqrt : ℝ → ℝ} (hs : IsSqrt sqrt) (c : Cell ℝ) (h : ValidCell c) (t : M3 ℝ)
    (ht : t.r1.x = 0 ∧ t.r2.x = 0 ∧ t.r2.y = 0 ∧ 0 < t.r0.x ∧ 0 < t.r1.y ∧ 0 < t.r2.z)
    (hg : mulMM (transpose t) t = metric c) : t = orthoM sqrt c := by
  obtain ⟨u1, u2, u3, u4, u5, u6, -⟩ := ortho_upper hs c h
  apply upper_unique t _ ht ⟨u1, u2, u3, by rw [u4]; exact h.ha, u5, u6⟩
  rw [hg, ← ortho_gram hs c h]; rfl

/-- the Cholesky recipe on `G` (the driver's oracle for Cartesian coordinates) gives `M` -/
theorem ortho_is_cholesky {sqrt : ℝ → ℝ} (hs : IsSqrt sqrt) (c : Cell ℝ) (h : ValidCell c) :
    cholUpper sqrt (metric c) = orthoM sqrt c := by
  have hV2 := volume_sq hs c h
  have hV := volume_pos hs c h
  have ha := h.ha; have hb := h.hb; have hc := h.hc; have hsg := h.hsg
  have ha' := ha.ne'; have hb' := hb.ne'; have hsg' := hsg.ne'
  have g11 := congrArg (fun m : M3 ℝ => m.r1.y) (ortho_gram hs c h)
  have g22 := congrArg (fun m : M3 ℝ => m.r2.z) (ortho_gram hs c h)
  simp only [metricCode, mulMM, mulRR, transpose, col0, col1, col2, orthoM, dot, metric] at g11 g22
  have q1 : c.a * c.b * c.cg / c.a = c.b * c.cg := by field_simp
  have q2 : c.a * c.c * c.cb / c.a = c.c * c.cb := by field_simp
  have q3 : (c.b * c.c * c.ca - c.b * c.cg * (c.c * c.cb)) / (c.b * c.sg) = c.c * (c.ca - c.cb * c.cg) / c.sg := by
    field_simp
  have h00 : sqrt (c.a * c.a) = c.a := sqrt_unique hs ha.le rfl
  have h11 : sqrt (c.b * c.b - c.b * c.cg * (c.b * c.cg)) = c.b * c.sg := by
    apply sqrt_unique hs (by positivity)
    linear_combination g11
  have h22 : sqrt (c.c * c.c - c.c * c.cb * (c.c * c.cb)
      - c.c * (c.ca - c.cb * c.cg) / c.sg * (c.c * (c.ca - c.cb * c.cg) / c.sg))
      = volume sqrt c / (c.a * c.b * c.sg) := by
    apply sqrt_unique hs (by positivity)
    linear_combination g22
  simp only [cholUpper, metric, orthoM]
  rw [h00, q1, q2, h11, q3, h22]

/-! ### reciprocal axis lengths -/

/-- `CELL.astar, bstar, cstar` are the positive roots of the diagonal of `G⁻¹` -/
theorem recip_spec {sqrt : ℝ → ℝ} (hs : IsSqrt sqrt) (c : Cell ℝ) (h : ValidCell c) :
    let n := recip sqrt c
    let q := recipSqSpec (metric c)
    n.x * n.x = q.x ∧ n.y * n.y = q.y ∧ n.z * n.z = q.z ∧ 0 < n.x ∧ 0 < n.y ∧ 0 < n.z := by
  obtain ⟨hV2, hV⟩ := volume_metric hs c h
  have ha := h.ha; have hb := h.hb; have hc := h.hc; have hsa := h.hsa; have hsb := h.hsb; have hsg := h.hsg
  have hV' := hV.ne'
  have hG : gramDet (metric c) ≠ 0 := by rw [← hV2]; positivity
  simp only [recip, recipSqSpec]
  rw [← hV2] at *
  refine ⟨?_, ?_, ?_, by positivity, by positivity, by positivity⟩
  · simp only [metric]; field_simp; linear_combination h.ea
  · simp only [metric]; field_simp; linear_combination h.eb
  · simp only [metric]; field_simp; linear_combination h.eg

/-! ### the displacement-tensor chain -/

/-- generic: the repaired chain computes `(MN) U (MN)ᵀ`, whose trace is `Σ U_ij n_i n_j (MᵀM)_ij` -/
theorem ueq_generic (m : M3 ℝ) (n : V3 ℝ) (u : U6 ℝ) :
    trace (ucart m (diag n) (ucif u)) / 3 = ueqSpec (mulMM (transpose m) m) n u := by
  simp only [trace, ucart, ustar, diag, ucif, mulMM, mulRR, transpose, col0, col1, col2, dot, ueqSpec]
  ring

/-- **ueq_is_third_trace** (repaired chain `U_cart = M N U N Mᵀ`): `Atom.ueq` of an anisotropic atom, one third of
    the trace of the Cartesian tensor, is the IUCr `Ueq = ⅓ Σ_ij U_ij a*_i a*_j (a_i·a_j)` -/
theorem ueq_is_third_trace {sqrt : ℝ → ℝ} (hs : IsSqrt sqrt) (c : Cell ℝ) (h : ValidCell c) (u : U6 ℝ) :
    ueqAniso sqrt c u = ueqSpec (metric c) (recip sqrt c) u := by
  rw [← ortho_gram hs c h]
  exact ueq_generic _ _ _

/-- the repaired `u_cart` is a symmetric tensor -/
theorem ucart_symm (m : M3 ℝ) (n : V3 ℝ) (u : U6 ℝ) :
    transpose (ucart m (diag n) (ucif u)) = ucart m (diag n) (ucif u) := by
  simp only [ucart, ustar, diag, ucif, mulMM, mulRR, transpose, col0, col1, col2, dot]
  congr 1 <;> congr 1 <;> ring1

/-- what the code before the repair computed: `U·N²·MᵀM` -/
theorem ueq_old_generic (m : M3 ℝ) (n : V3 ℝ) (u : U6 ℝ) :
    trace (ucartOld m (diag n) (ucif u)) / 3 = ueqOldFormula (mulMM (transpose m) m) n u := by
  simp only [trace, ucartOld, ustarOld, diag, ucif, mulMM, mulRR, transpose, col0, col1, col2, dot, ueqOldFormula]
  ring

/-- **ueq_old_value**: the value `Atom.ueq` had before the repair, and its distance from the IUCr value:
    every mixed term `U_ij (a_i·a_j)` is weighted with `(a*_i² + a*_j²)/2` instead of `a*_i a*_j` -/
theorem ueq_old_value {sqrt : ℝ → ℝ} (hs : IsSqrt sqrt) (c : Cell ℝ) (h : ValidCell c) (u : U6 ℝ) :
    let n := recip sqrt c
    let g := metric c
    ueqAnisoOld sqrt c u = ueqOldFormula g n u ∧
    ueqAnisoOld sqrt c u - ueqSpec g n u =
      (u.u23 * g.r1.z * ((n.y - n.z) * (n.y - n.z)) + u.u13 * g.r0.z * ((n.x - n.z) * (n.x - n.z))
        + u.u12 * g.r0.y * ((n.x - n.y) * (n.x - n.y))) / 3 := by
  have e : ueqAnisoOld sqrt c u = ueqOldFormula (metric c) (recip sqrt c) u := by
    rw [← ortho_gram hs c h]; exact ueq_old_generic _ _ _
  refine ⟨e, ?_⟩
  rw [e]; simp only [ueqOldFormula, ueqSpec]; ring

/-- so the old value was right for orthogonal cells (all `a_i·a_j = 0`, i ≠ j) -/
theorem ueq_old_right_if_orthogonal {sqrt : ℝ → ℝ} (hs : IsSqrt sqrt) (c : Cell ℝ) (h : ValidCell c) (u : U6 ℝ)
    (ho : c.ca = 0 ∧ c.cb = 0 ∧ c.cg = 0) : ueqAnisoOld sqrt c u = ueqSpec (metric c) (recip sqrt c) u := by
  obtain ⟨_, h2⟩ := ueq_old_value hs c h u
  obtain ⟨o1, o2, o3⟩ := ho
  have : ueqAnisoOld sqrt c u - ueqSpec (metric c) (recip sqrt c) u = 0 := by
    rw [h2]; simp only [metric, o1, o2, o3]; ring
  linarith

/-! ### positive definiteness -/

/-- the quadratic form of the matrix is positive on every non-zero vector -/
def PosDef (m : M3 ℝ) : Prop := ∀ x : V3 ℝ, x ≠ ⟨0, 0, 0⟩ → 0 < quad m x

theorem pos_right_of_mul_pos {a b : ℝ} (h : 0 < a * b) (ha : 0 < a) : 0 < b := by
  by_contra hb
  have := mul_nonpos_of_nonneg_of_nonpos ha.le (not_lt.mp hb)
  linarith

theorem quad_congr (a u : M3 ℝ) (x : V3 ℝ) :
    quad (mulMM (mulMM a u) (transpose a)) x = quad u (mulVec (transpose a) x) := by
  simp only [quad, mulMM, mulRR, mulVec, transpose, col0, col1, col2, dot]; ring

theorem det_transpose (a : M3 ℝ) : det (transpose a) = det a := by
  simp only [det, transpose, col0, col1, col2]; ring

theorem mulVec_zero (a : M3 ℝ) : mulVec a ⟨0, 0, 0⟩ = ⟨0, 0, 0⟩ := by
  simp [mulVec, dot]

/-- **posdef_congr**: a congruence with a non-singular matrix keeps positive definiteness, both ways -/
theorem posdef_congr (a u : M3 ℝ) (hd : det a ≠ 0) : PosDef u ↔ PosDef (mulMM (mulMM a u) (transpose a)) := by
  have hdt : det (transpose a) ≠ 0 := by rw [det_transpose]; exact hd
  have hl := inversed_mul (transpose a) hdt
  have hr := mul_inversed (transpose a) hdt
  constructor
  · intro hp x hx
    rw [quad_congr]
    apply hp
    intro h0
    apply hx
    have : mulVec (inversed (transpose a)) (mulVec (transpose a) x) = x := by
      rw [← mulVec_mulMM, hl, mulVec_one]
    rw [← this, h0, mulVec_zero]
  · intro hp y hy
    have e : mulVec (transpose a) (mulVec (inversed (transpose a)) y) = y := by
      rw [← mulVec_mulMM, hr, mulVec_one]
    have := hp (mulVec (inversed (transpose a)) y) (by
      intro h0; apply hy; rw [← e, h0, mulVec_zero])
    rw [quad_congr, e] at this
    exact this

/-- **sylvester**: a symmetric 3×3 tensor is positive definite iff its three leading minors are positive -/
theorem sylvester (u : U6 ℝ) :
    PosDef (ucif u) ↔ 0 < (minors u).x ∧ 0 < (minors u).y ∧ 0 < (minors u).z := by
  obtain ⟨u11, u22, u33, u23, u13, u12⟩ := u
  simp only [minors]
  constructor
  · intro hp
    have h1 : 0 < u11 := by
      have := hp ⟨1, 0, 0⟩ (by simp)
      simp only [quad, ucif, mulVec, dot] at this
      linarith
    have h2 : 0 < u11 * u22 - u12 * u12 := by
      have := hp ⟨-u12, u11, 0⟩ (by intro h0; simp only [V3.mk.injEq] at h0; linarith [h0.2.1])
      simp only [quad, ucif, mulVec, dot] at this
      have e : -u12 * (u11 * -u12 + u12 * u11 + u13 * 0) + u11 * (u12 * -u12 + u22 * u11 + u23 * 0)
          + 0 * (u13 * -u12 + u23 * u11 + u33 * 0) = u11 * (u11 * u22 - u12 * u12) := by ring
      rw [e] at this
      exact pos_right_of_mul_pos this h1
    refine ⟨h1, h2, ?_⟩
    have := hp ⟨u12 * u23 - u13 * u22, u12 * u13 - u11 * u23, u11 * u22 - u12 * u12⟩
      (by intro h0; simp only [V3.mk.injEq] at h0; linarith [h0.2.2])
    simp only [quad, ucif, mulVec, dot] at this
    have e : (u12 * u23 - u13 * u22) * (u11 * (u12 * u23 - u13 * u22) + u12 * (u12 * u13 - u11 * u23) + u13 * (u11 * u22 - u12 * u12))
        + (u12 * u13 - u11 * u23) * (u12 * (u12 * u23 - u13 * u22) + u22 * (u12 * u13 - u11 * u23) + u23 * (u11 * u22 - u12 * u12))
        + (u11 * u22 - u12 * u12) * (u13 * (u12 * u23 - u13 * u22) + u23 * (u12 * u13 - u11 * u23) + u33 * (u11 * u22 - u12 * u12))
        = (u11 * u22 - u12 * u12) * (u11 * (u22 * u33 - u23 * u23) - u12 * (u12 * u33 - u23 * u13) + u13 * (u12 * u23 - u22 * u13)) := by
      ring
    rw [e] at this
    exact pos_right_of_mul_pos this h2
  · rintro ⟨h1, h2, h3⟩ ⟨x, y, z⟩ hx
    simp only [quad, ucif, mulVec, dot]
    set d2 := u11 * u22 - u12 * u12 with hd2
    set d3 := u11 * (u22 * u33 - u23 * u23) - u12 * (u12 * u33 - u23 * u13) + u13 * (u12 * u23 - u22 * u13) with hd3
    -- completing the squares:  u11·d2·q = d2·L1² + L2² + u11·d3·z²
    have key : u11 * d2 * (x * (u11 * x + u12 * y + u13 * z) + y * (u12 * x + u22 * y + u23 * z) + z * (u13 * x + u23 * y + u33 * z))
        = d2 * ((u11 * x + u12 * y + u13 * z) * (u11 * x + u12 * y + u13 * z))
          + (d2 * y + (u11 * u23 - u12 * u13) * z) * (d2 * y + (u11 * u23 - u12 * u13) * z) + u11 * d3 * (z * z) := by
      rw [hd2, hd3]; ring
    have hpos : 0 < d2 * ((u11 * x + u12 * y + u13 * z) * (u11 * x + u12 * y + u13 * z))
          + (d2 * y + (u11 * u23 - u12 * u13) * z) * (d2 * y + (u11 * u23 - u12 * u13) * z) + u11 * d3 * (z * z) := by
      have t1 : 0 ≤ d2 * ((u11 * x + u12 * y + u13 * z) * (u11 * x + u12 * y + u13 * z)) :=
        mul_nonneg h2.le (mul_self_nonneg _)
      have t2 : 0 ≤ (d2 * y + (u11 * u23 - u12 * u13) * z) * (d2 * y + (u11 * u23 - u12 * u13) * z) := mul_self_nonneg _
      have t3 : 0 ≤ u11 * d3 * (z * z) := mul_nonneg (mul_pos h1 h3).le (mul_self_nonneg _)
      by_cases hz : z = 0
      · subst hz
        by_cases hy : y = 0
        · subst hy
          have hx0 : x ≠ 0 := by intro h0; apply hx; rw [h0]
          have : 0 < d2 * ((u11 * x + u12 * 0 + u13 * 0) * (u11 * x + u12 * 0 + u13 * 0)) := by
            have : 0 < (u11 * x) * (u11 * x) := mul_self_pos.mpr (mul_ne_zero h1.ne' hx0)
            have e : (u11 * x + u12 * 0 + u13 * 0) = u11 * x := by ring
            rw [e]; exact mul_pos h2 this
          linarith
        · have : 0 < (d2 * y + (u11 * u23 - u12 * u13) * 0) * (d2 * y + (u11 * u23 - u12 * u13) * 0) := by
            have e : d2 * y + (u11 * u23 - u12 * u13) * 0 = d2 * y := by ring
            rw [e]; exact mul_self_pos.mpr (mul_ne_zero h2.ne' hy)
          linarith
      · have : 0 < u11 * d3 * (z * z) := mul_pos (mul_pos h1 h3) (mul_self_pos.mpr hz)
        linarith
    rw [← key] at hpos
    exact pos_right_of_mul_pos hpos (mul_pos h1 h2)

theorem det_mulMM (a b : M3 ℝ) : det (mulMM a b) = det a * det b := by
  simp only [det, mulMM, mulRR, transpose, col0, col1, col2, dot]; ring

theorem det_diag (n : V3 ℝ) : det (diag n) = n.x * n.y * n.z := by
  simp only [det, diag]; ring

/-- the repaired chain is ONE congruence `A U Aᵀ` with `A = M·N` -/
theorem ucart_assoc (m n u : M3 ℝ) :
    ucart m n u = mulMM (mulMM (mulMM m n) u) (transpose (mulMM m n)) := by
  simp only [ucart, ustar, mulMM, mulRR, transpose, col0, col1, col2, dot]
  congr 1 <;> congr 1 <;> ring1

/-- **ucart_posdef_iff**: "U_cart is positive definite" is a statement about the six file values alone —
    for every valid cell it holds iff the three leading minors of U_cif are positive -/
theorem ucart_posdef_iff {sqrt : ℝ → ℝ} (hs : IsSqrt sqrt) (c : Cell ℝ) (h : ValidCell c) (u : U6 ℝ) :
    PosDef (ucart (orthoM sqrt c) (nMat sqrt c) (ucif u)) ↔
      0 < (minors u).x ∧ 0 < (minors u).y ∧ 0 < (minors u).z := by
  rw [← sylvester, ucart_assoc]
  symm
  apply posdef_congr
  rw [det_mulMM, nMat, det_diag]
  obtain ⟨_, _, _, n1, n2, n3⟩ := recip_spec hs c h
  exact mul_ne_zero (ortho_det_ne hs c h) (by positivity)

/-- the file values (decimal numbers) as reals -/
def castU (u : U6 ℚ) : U6 ℝ := ⟨u.u11, u.u22, u.u33, u.u23, u.u13, u.u12⟩

/-- **npd_iff**: the exact decision the harness uses as oracle (`sylvesterPD`, computed by the driver in `Rat` on
    the decimal file values) is false exactly when the atom's Cartesian U tensor is not positive definite -/
theorem npd_iff {sqrt : ℝ → ℝ} (hs : IsSqrt sqrt) (c : Cell ℝ) (h : ValidCell c) (u : U6 ℚ) :
    sylvesterPD u = false ↔ ¬ PosDef (ucart (orthoM sqrt c) (nMat sqrt c) (ucif (castU u))) := by
  rw [ucart_posdef_iff hs c h]
  have e1 : (minors (castU u)).x = (((minors u).x : ℚ) : ℝ) := by simp only [minors, castU]
  have e2 : (minors (castU u)).y = (((minors u).y : ℚ) : ℝ) := by simp only [minors, castU]; push_cast; ring
  have e3 : (minors (castU u)).z = (((minors u).z : ℚ) : ℝ) := by simp only [minors, castU]; push_cast; ring
  rw [e1, e2, e3]
  simp only [sylvesterPD, Rat.cast_pos]
  constructor
  · intro hf hp
    simp [hp.1, hp.2.1, hp.2.2] at hf
  · intro hn
    by_contra hf
    apply hn
    simp only [Bool.not_eq_false, Bool.and_eq_true, decide_eq_true_eq] at hf
    exact ⟨hf.1.1, hf.1.2, hf.2⟩

/-! ### the hypotheses are satisfiable: a concrete triclinic cell (all cosines rational) -/

/-- a = 5, b = 6, c = 7, cos α = 3/5, cos β = 4/5, cos γ = 12/13; radicand 144/4225 = (12/65)² -/
def cellW : Cell ℚ := ⟨5, 6, 7, 3/5, 4/5, 12/13, 4/5, 3/5, 5/13⟩
def sqrtW : ℚ → ℚ := fun t => if t = 144/4225 then 12/65 else 0
def uW : U6 ℚ := ⟨3/100, 4/100, 5/100, 1/100, -12/1000, 8/1000⟩

example : ValidCell ⟨5, 6, 7, 3/5, 4/5, 12/13, 4/5, 3/5, 5/13⟩ := by
  constructor <;> norm_num [volRadicand]

example : volRadicand cellW = 144/4225 ∧ volume sqrtW cellW = 504/13 := by decide +kernel

/-! ### the code before the repair (fixes/C12_1_*.patch): disproof with a witness -/

/-- full-strength statement that failed for the old chain -/
def UeqOldStatement : Prop :=
  ∀ u : U6 ℚ, ueqAnisoOld sqrtW cellW u = ueqSpec (metric cellW) (recip sqrtW cellW) u

/-- **ueq_old_fails_on**: with `ustar = ucif * N * N.T`, `u_cart = ustar * o * o.T` (rows×rows products) the trace/3
    is NOT the IUCr Ueq on the triclinic witness, while the repaired chain is -/
theorem ueq_old_fails_on : ¬ UeqOldStatement := by
  intro hst
  have := hst uW
  revert this
  decide +kernel

theorem ueq_repaired_on_witness : ueqAniso sqrtW cellW uW = ueqSpec (metric cellW) (recip sqrtW cellW) uW := by
  decide +kernel

/-- the old `u_cart` of the witness is not even a symmetric tensor (entry 01 ≠ entry 10), so `is_npd` asked for the
    eigenvalues of a matrix that is no displacement tensor -/
theorem ucart_old_not_symmetric :
    (ucartOld (orthoM sqrtW cellW) (nMat sqrtW cellW) (ucif uW)).r0.y ≠
    (ucartOld (orthoM sqrtW cellW) (nMat sqrtW cellW) (ucif uW)).r1.x := by
  decide +kernel

/-! ### the isotropic/Q-peak branch of `set_ueq` (fixes/C12_2_*.patch) -/

/-- the repaired branch `uvals[0] > 0 and not any(uvals[2:])` never takes an anisotropically written atom -/
theorem iso_branch_only_iso (u : U6 ℚ) (ha : anisoWritten u = true) : isoBranch u = false := by
  simp only [anisoWritten, Bool.not_eq_true'] at ha
  simp [isoBranch, ha]

/-- before the repair (`not sum(uvals[2:])`) it did: U33 + U23 + U13 + U12 = 0 with six values written -/
theorem iso_branch_old_fails_on :
    ¬ (∀ u : U6 ℚ, anisoWritten u = true → isoBranchOld u = false) := by
  intro hst
  have := hst ⟨5/100, 5/100, 2/100, -1/100, -1/100, 0⟩ (by decide +kernel)
  revert this
  decide +kernel

/-- Sylvester's criterion for a symmetric matrix, with the three minors exactly as the repaired `Atom.is_npd`
    computes them from `u_cart.values` -/
theorem sylvester_sym (m : M3 ℝ) (hsym : transpose m = m) :
    PosDef m ↔ 0 < (npdMinors m).x ∧ 0 < (npdMinors m).y ∧ 0 < (npdMinors m).z := by
  obtain ⟨⟨m00, m01, m02⟩, ⟨m10, m11, m12⟩, ⟨m20, m21, m22⟩⟩ := m
  simp only [transpose, col0, col1, col2, M3.mk.injEq, V3.mk.injEq] at hsym
  obtain ⟨⟨-, e1, e2⟩, ⟨-, -, e3⟩, -⟩ := hsym
  subst e1 e2 e3
  have hs := sylvester ⟨m00, m11, m22, m21, m20, m10⟩
  simp only [ucif, minors] at hs
  rw [hs]
  have e3 : m00 * (m11 * m22 - m21 * m21) - m10 * (m10 * m22 - m21 * m20) + m20 * (m10 * m21 - m11 * m20)
      = det ⟨⟨m00, m10, m20⟩, ⟨m10, m11, m21⟩, ⟨m20, m21, m22⟩⟩ := by
    rfl
  simp only [npdMinors]
  rw [e3]

/-- **is_npd_iff** (repaired `Atom.is_npd`, exact arithmetic): for every valid cell and every symmetric tensor given by
    its six values, the atom is reported non-positive-definite exactly when its Cartesian U tensor is not positive
    definite — and that is exactly when Sylvester's test fails on the six file values themselves -/
theorem is_npd_iff {sqrt : ℝ → ℝ} (hs : IsSqrt sqrt) (c : Cell ℝ) (h : ValidCell c) (u : U6 ℝ) :
    let mn := npdMinors (ucart (orthoM sqrt c) (nMat sqrt c) (ucif u))
    ((¬ (0 < mn.x ∧ 0 < mn.y ∧ 0 < mn.z)) ↔ ¬ PosDef (ucart (orthoM sqrt c) (nMat sqrt c) (ucif u))) ∧
    ((¬ (0 < mn.x ∧ 0 < mn.y ∧ 0 < mn.z)) ↔ ¬ PosDef (ucif u)) ∧
    ((¬ (0 < mn.x ∧ 0 < mn.y ∧ 0 < mn.z)) ↔ ¬ (0 < (minors u).x ∧ 0 < (minors u).y ∧ 0 < (minors u).z)) := by
  have hsym := ucart_symm (orthoM sqrt c) (recip sqrt c) u
  have e1 := sylvester_sym _ hsym
  have e2 := ucart_posdef_iff hs c h u
  have e3 := sylvester u
  simp only [nMat] at *
  refine ⟨not_congr e1.symm, ?_, ?_⟩
  · rw [← e1, e2, ← e3]
  · rw [← e1, e2]

/-- the cell the code builds from the six CELL numbers (angles in radians here) -/
noncomputable def cellOfAngles (a b c al be ga : ℝ) : Cell ℝ :=
  ⟨a, b, c, Real.cos al, Real.cos be, Real.cos ga, Real.sin al, Real.sin be, Real.sin ga⟩

/-- the hypotheses `ValidCell` are what real cosines and sines give: positive lengths, angles strictly between 0 and π,
    and a positive volume radicand (the only condition that restricts the three angles jointly) -/
theorem validCell_of_angles (a b c al be ga : ℝ) (ha : 0 < a) (hb : 0 < b) (hc : 0 < c)
    (hal : 0 < al ∧ al < Real.pi) (hbe : 0 < be ∧ be < Real.pi) (hga : 0 < ga ∧ ga < Real.pi)
    (hD : 0 < volRadicand (cellOfAngles a b c al be ga)) : ValidCell (cellOfAngles a b c al be ga) where
  ha := ha
  hb := hb
  hc := hc
  hsa := Real.sin_pos_of_pos_of_lt_pi hal.1 hal.2
  hsb := Real.sin_pos_of_pos_of_lt_pi hbe.1 hbe.2
  hsg := Real.sin_pos_of_pos_of_lt_pi hga.1 hga.2
  ea := by have := Real.sin_sq_add_cos_sq al; simp only [cellOfAngles]; nlinarith
  eb := by have := Real.sin_sq_add_cos_sq be; simp only [cellOfAngles]; nlinarith
  eg := by have := Real.sin_sq_add_cos_sq ga; simp only [cellOfAngles]; nlinarith
  hD := hD

/-- for a symmetric matrix: positive definite ⇔ ALL seven principal minors (as the repaired `Atom.is_npd` computes
    them) are positive.  (⇐ is Sylvester on the three leading ones; ⇒ says the four extra tests never reject a
    positive definite tensor.) -/
theorem principal_minors_iff (m : M3 ℝ) (hsym : transpose m = m) :
    PosDef m ↔ ∀ x ∈ principalMinors m, 0 < x := by
  constructor
  · intro hp
    obtain ⟨h1, h2, h3⟩ := (sylvester_sym m hsym).mp hp
    obtain ⟨⟨m00, m01, m02⟩, ⟨m10, m11, m12⟩, ⟨m20, m21, m22⟩⟩ := m
    simp only [transpose, col0, col1, col2, M3.mk.injEq, V3.mk.injEq] at hsym
    obtain ⟨⟨-, e1, e2⟩, ⟨-, -, e3⟩, -⟩ := hsym
    subst e1 e2 e3
    simp only [npdMinors] at h1 h2 h3
    have q1 := hp ⟨0, 1, 0⟩ (by simp)
    have q2 := hp ⟨0, 0, 1⟩ (by simp)
    have q3 := hp ⟨-m20, 0, m00⟩ (by intro h0; simp only [V3.mk.injEq] at h0; linarith [h0.2.2])
    have q4 := hp ⟨0, -m21, m11⟩ (by
      intro h0; simp only [V3.mk.injEq] at h0
      have : (0:ℝ) < m11 := by simp only [quad, mulVec, dot] at q1; linarith
      linarith [h0.2.2])
    simp only [quad, mulVec, dot] at q1 q2 q3 q4
    have p11 : 0 < m11 := by linarith
    have p22 : 0 < m22 := by linarith
    have p13 : 0 < m00 * (m00 * m22 - m20 * m20) := by linarith
    have p23 : 0 < m11 * (m11 * m22 - m21 * m21) := by linarith
    have p13' := pos_right_of_mul_pos p13 h1
    have p23' := pos_right_of_mul_pos p23 p11
    intro x hx
    simp only [principalMinors, List.mem_cons, List.mem_nil_iff, or_false] at hx
    rcases hx with rfl | rfl | rfl | rfl | rfl | rfl | rfl
    · exact h1
    · exact p11
    · exact p22
    · exact h2
    · linarith
    · linarith
    · exact h3
  · intro hall
    apply (sylvester_sym m hsym).mpr
    simp only [npdMinors]
    refine ⟨hall _ ?_, hall _ ?_, hall _ ?_⟩ <;> simp [principalMinors]

/-- **is_npd_iff** for `Atom.is_npd` as it is now (all principal minors of the repaired `u_cart`) -/
theorem is_npd_principal_iff {sqrt : ℝ → ℝ} (hs : IsSqrt sqrt) (c : Cell ℝ) (h : ValidCell c) (u : U6 ℝ) :
    let uc := ucart (orthoM sqrt c) (nMat sqrt c) (ucif u)
    ((¬ ∀ x ∈ principalMinors uc, 0 < x) ↔ ¬ PosDef uc) ∧
    ((¬ ∀ x ∈ principalMinors uc, 0 < x) ↔ ¬ (0 < (minors u).x ∧ 0 < (minors u).y ∧ 0 < (minors u).z)) := by
  have hsym := ucart_symm (orthoM sqrt c) (recip sqrt c) u
  have e1 := principal_minors_iff _ hsym
  have e2 := ucart_posdef_iff hs c h u
  simp only [nMat] at *
  exact ⟨not_congr e1.symm, by rw [← e1, e2]⟩

/-! ### histories of edits on one Atom object -/

/-- **history_coherent**: after ANY sequence of the public edits, on an atom that was parsed or created with
    `add_atom`, the cached Cartesian coordinates are those of the CURRENT fractional coordinates, and the position and
    the U values every observable reads are the ones the history assigned last -/
theorem history_coherent (m : M3 ℝ) (s : AtomSt ℝ) (es : List (Edit ℝ)) (h0 : s.cart = mulVec m s.frac) :
    (history m s es).cart = mulVec m (history m s es).frac ∧
    (history m s es).frac = specFrac s.frac es ∧ (history m s es).uvals = specUvals s.uvals es := by
  induction es generalizing s with
  | nil => exact ⟨h0, rfl, rfl⟩
  | cons e es ih =>
    have hstep : (applyEdit m s e).cart = mulVec m (applyEdit m s e).frac := by
      cases e <;> simp only [applyEdit] <;> exact h0
    have := ih (applyEdit m s e) hstep
    simp only [history, List.foldl_cons] at this ⊢
    refine ⟨this.1, ?_, ?_⟩
    · rw [this.2.1]; cases e <;> rfl
    · rw [this.2.2]; cases e <;> rfl

/-- … so for every valid cell `Atom.cart_coords` after any history is the conventional-setting image of the atom's
    current position, for parsed atoms and for atoms made by `Shelxfile.add_atom` alike -/
theorem history_cart {sqrt : ℝ → ℝ} (hs : IsSqrt sqrt) (c : Cell ℝ) (h : ValidCell c) (p : V3 ℝ) (u : U6 ℝ)
    (es : List (Edit ℝ)) :
    (history (orthoM sqrt c) (parseAtom (orthoM sqrt c) p u) es).cart
      = mulVec (cholUpper sqrt (metric c)) (specFrac p es) ∧
    (history (orthoM sqrt c) (newAtom sqrt c p u) es).cart
      = mulVec (cholUpper sqrt (metric c)) (specFrac p es) := by
  rw [ortho_is_cholesky hs c h]
  constructor
  · obtain ⟨h1, h2, _⟩ := history_coherent (orthoM sqrt c) (parseAtom (orthoM sqrt c) p u) es rfl
    rw [h1, h2]; rfl
  · obtain ⟨h1, h2, _⟩ := history_coherent (orthoM sqrt c) (newAtom sqrt c p u) es
      (by simp only [newAtom]; exact frac_to_cart_agrees hs c h p)
    rw [h1, h2]; rfl

/-- the setter before fixes/C12_4 broke exactly this: one `atom.frac_coords = …` leaves the old Cartesian coordinates -/
theorem frac_setter_old_fails_on :
    ¬ (∀ (p q : V3 ℚ), (historyOld (orthoM sqrtW cellW) (parseAtom (orthoM sqrtW cellW) p uW) [.setFrac q]).cart
        = mulVec (orthoM sqrtW cellW) q) := by
  intro hst
  have := congrArg V3.x (hst ⟨0, 0, 0⟩ ⟨1, 0, 0⟩)
  revert this
  decide +kernel

/-! ### the atoms of a file body with other instructions between them -/

theorem parse_body_atoms (m : M3 ℝ) (ls : List (BodyLine ℝ)) (s : ParseSt ℝ) :
    (ls.foldl (parseLine m) s).atoms = s.atoms ++ (specBody ls).map (fun pu => parseAtom m pu.1 pu.2) := by
  induction ls generalizing s with
  | nil => simp [specBody]
  | cons l ls ih =>
    rw [List.foldl_cons, ih]
    cases l <;> simp [parseLine, specBody]

/-- **parse_body_coherent**: whatever instructions stand between the atoms of a file (MOVE with any number of parameters,
    PART, RESI, AFIX, restraints, comments - ANY list of lines), the atoms the parser makes are, in order, the atoms
    written in the file; each reports the position and U values of its own line, and its cached Cartesian coordinates are
    the orthogonalisation of the position it reports.  (A parser that reads `shx.move` when it fills the Cartesian cache
    only - seeded change C12-w4m1 - is not this model: the correspondence run tells them apart.) -/
theorem parse_body_coherent (m : M3 ℝ) (ls : List (BodyLine ℝ)) :
    (parseBody m ls).atoms.map (fun a => (a.frac, a.cart, a.uvals))
      = (specBody ls).map (fun pu => (pu.1, mulVec m pu.1, pu.2)) := by
  rw [parseBody, parse_body_atoms]
  simp [parseAtom, Function.comp_def]

/-- … so for every valid cell, every atom of the file has `cart_coords` = conventional-setting image of its `frac_coords`,
    and the inverse orthogonalisation maps it back -/
theorem parse_body_cart {sqrt : ℝ → ℝ} (hs : IsSqrt sqrt) (c : Cell ℝ) (h : ValidCell c) (ls : List (BodyLine ℝ)) :
    ∀ a ∈ (parseBody (orthoM sqrt c) ls).atoms, a.cart = mulVec (cholUpper sqrt (metric c)) a.frac := by
  intro a ha
  rw [parseBody, parse_body_atoms] at ha
  simp only [List.nil_append, List.mem_map] at ha
  obtain ⟨pu, _, rfl⟩ := ha
  rw [← ortho_is_cholesky hs c h]; rfl

/-- a body that meets the description: two MOVE lines (four and two parameters), another instruction, three atoms -/
example : ((parseBody (orthoM sqrtW cellW)
      [.atom ⟨1/2, 1/3, 1/4⟩ uW, .move [1/2, 1/4, -1/8, -1], .atom ⟨1/5, 1/7, 1/9⟩ uW, .other, .move [1, 2],
       .atom ⟨-1, 2, 1/2⟩ uW]).atoms.map (fun a => (a.frac.x, a.frac.y, a.frac.z))) = [(1/2, 1/3, 1/4), (1/5, 1/7, 1/9), (-1, 2, 1/2)] ∧
    ((parseBody (orthoM sqrtW cellW) [.move [1/2, 1/4, -1/8, -1], .other, .move [1, 2]]).move.map (fun mv => mv.2)) = some none ∧
    (moveOf [(1/2 : ℚ), 1/4, -1/8, -1]).2 = some (-1) ∧ (moveOf [(1/2 : ℚ), 1/4, -1/8, -1]).1.map V3.z = some (-1/8) := by
  decide +kernel

/-- **file_history_coherent**: on one Shelxfile object, after ANY sequence of atom edits and in-place changes of the
    cell (`shx.cell.set`), what is kept outside the CELL object belongs to the CURRENT cell: `Shelxfile.orthogonal_matrix`
    is the orthogonalisation matrix of the current cell and the atom's Cartesian coordinates are its image of the
    current position; cell, position and U values are the ones assigned last -/
theorem file_history_coherent (sqrt : ℝ → ℝ) (s : FileSt ℝ) (es : List (FEdit ℝ))
    (h0 : s.om = orthoM sqrt s.cell ∧ s.atom.cart = mulVec (orthoM sqrt s.cell) s.atom.frac) :
    let t := fileHistory sqrt s es
    t.om = orthoM sqrt t.cell ∧ t.atom.cart = mulVec (orthoM sqrt t.cell) t.atom.frac ∧
    t.cell = specCell s.cell es ∧ t.atom.frac = specFrac s.atom.frac (atomEdits es) ∧
    t.atom.uvals = specUvals s.atom.uvals (atomEdits es) := by
  induction es generalizing s with
  | nil => exact ⟨h0.1, h0.2, rfl, rfl, rfl⟩
  | cons e es ih =>
    have hstep : (applyF sqrt s e).om = orthoM sqrt (applyF sqrt s e).cell ∧
        (applyF sqrt s e).atom.cart = mulVec (orthoM sqrt (applyF sqrt s e).cell) (applyF sqrt s e).atom.frac := by
      cases e with
      | atomEdit a => cases a <;> simp only [applyF, applyEdit] <;> first | exact h0 | exact ⟨h0.1, trivial⟩
      | setCell c => exact ⟨rfl, rfl⟩
    have := ih (applyF sqrt s e) hstep
    simp only [fileHistory, List.foldl_cons] at this ⊢
    refine ⟨this.1, this.2.1, ?_, ?_, ?_⟩
    · rw [this.2.2.1]; cases e <;> rfl
    · rw [this.2.2.2.1]; cases e with
      | atomEdit a => cases a <;> rfl
      | setCell c => rfl
    · rw [this.2.2.2.2]; cases e with
      | atomEdit a => cases a <;> rfl
      | setCell c => rfl

/-- so, if the cell the history leaves is valid, `Atom.cart_coords` and `Shelxfile.frac_to_cart` of the atom's position
    are the conventional-setting image for the CURRENT cell, whatever was queried or changed before -/
theorem file_history_cart {sqrt : ℝ → ℝ} (hs : IsSqrt sqrt) (c : Cell ℝ) (p : V3 ℝ) (u : U6 ℝ) (es : List (FEdit ℝ))
    (h : ValidCell (specCell c es)) :
    let t := fileHistory sqrt (readFile sqrt c (parseAtom (orthoM sqrt c) p u)) es
    t.atom.cart = mulVec (cholUpper sqrt (metric (specCell c es))) (specFrac p (atomEdits es)) ∧
    mulVec t.om t.atom.frac = mulVec (cholUpper sqrt (metric (specCell c es))) (specFrac p (atomEdits es)) := by
  obtain ⟨h1, h2, h3, h4, _⟩ := file_history_coherent sqrt (readFile sqrt c (parseAtom (orthoM sqrt c) p u)) es ⟨rfl, rfl⟩
  simp only at h1 h2 h3 h4 ⊢
  have e3 : (fileHistory sqrt (readFile sqrt c (parseAtom (orthoM sqrt c) p u)) es).cell = specCell c es := h3
  have e4 : (fileHistory sqrt (readFile sqrt c (parseAtom (orthoM sqrt c) p u)) es).atom.frac = specFrac p (atomEdits es) := h4
  rw [ortho_is_cholesky hs _ h, h2, h1, e3, e4]
  exact ⟨rfl, rfl⟩

/-- `Command.set` before fixes/C12_6 broke it: one `shx.cell.set(…)` leaves the Cartesian coordinates of the old cell -/
theorem cell_set_old_fails_on :
    ¬ (∀ (d : Cell ℚ) (p : V3 ℚ),
        (fileHistoryOld sqrtW (readFile sqrtW cellW (parseAtom (orthoM sqrtW cellW) p uW)) [.setCell d]).atom.cart
          = mulVec (orthoM sqrtW d) p) := by
  intro hst
  have := congrArg V3.x (hst { cellW with a := 9 } ⟨1, 0, 0⟩)
  revert this
  decide +kernel

/-! ### histories that also ask for the inverse: the memo of `OrthogonalMatrix.inversed` -/

/-- the memo slot, if filled, holds the inverse of the orthogonalisation matrix of the CURRENT cell -/
def MemoOk (sqrt : ℝ → ℝ) (s : MemoSt ℝ) : Prop := ∀ i, s.memo = some i → i = inversed (orthoM sqrt s.file.cell)

/-- **inverse_memo_coherent**: on one Shelxfile object, after ANY sequence of atom edits, in-place changes of the cell
    and evaluations of `cell.o.inversed` (in any order, any number of times), `cell.o.inversed` returns the cofactor
    inverse of the orthogonalisation matrix of the CURRENT cell — whatever was asked before the cell was changed —
    and the questions change nothing else: the rest of the object is as after the edits alone -/
theorem inverse_memo_coherent (sqrt : ℝ → ℝ) (s : MemoSt ℝ) (es : List (Step ℝ)) (h0 : MemoOk sqrt s) :
    let t := stepHistory sqrt s es
    MemoOk sqrt t ∧ answerInverse sqrt t = inversed (orthoM sqrt t.file.cell) ∧
    t.file = fileHistory sqrt s.file (stepEdits es) := by
  induction es generalizing s with
  | nil =>
    refine ⟨h0, ?_, rfl⟩
    simp only [stepHistory, List.foldl_nil, answerInverse]
    cases hm : s.memo with
    | none => rfl
    | some i => exact h0 i hm
  | cons e es ih =>
    have hans : answerInverse sqrt s = inversed (orthoM sqrt s.file.cell) := by
      simp only [answerInverse]
      cases hm : s.memo with
      | none => rfl
      | some i => exact h0 i hm
    have hstep : MemoOk sqrt (applyStep sqrt s e) := by
      cases e with
      | askInverse =>
        intro i hi
        simp only [applyStep, Option.some.injEq] at hi
        show i = inversed (orthoM sqrt s.file.cell)
        rw [← hi, hans]
      | edit f =>
        cases f with
        | atomEdit a => intro i hi; exact h0 i hi
        | setCell c => intro i hi; simp [applyStep] at hi
    have hfile : (applyStep sqrt s e).file = (stepEdits [e]).foldl (applyF sqrt) s.file := by
      cases e with
      | askInverse => rfl
      | edit f => cases f <;> rfl
    have := ih (applyStep sqrt s e) hstep
    simp only [stepHistory, List.foldl_cons] at this ⊢
    refine ⟨this.1, this.2.1, ?_⟩
    rw [this.2.2, hfile]
    cases e with
    | askInverse => rfl
    | edit f => rfl

/-- … so for a file that was read, whatever is asked and edited afterwards, if the cell the history leaves is valid:
    `cell.o.inversed` is a two-sided inverse of the current `cell.o.m`, and it maps the atom's current
    `cart_coords` back to its current fractional coordinates -/
theorem inverse_after_history_maps_back {sqrt : ℝ → ℝ} (hs : IsSqrt sqrt) (c : Cell ℝ) (p : V3 ℝ) (u : U6 ℝ)
    (es : List (Step ℝ)) (h : ValidCell (specCell c (stepEdits es))) :
    let t := stepHistory sqrt (readFresh sqrt c (parseAtom (orthoM sqrt c) p u)) es
    let cur := specCell c (stepEdits es)
    mulMM (answerInverse sqrt t) (orthoM sqrt cur) = one3 ∧ mulMM (orthoM sqrt cur) (answerInverse sqrt t) = one3 ∧
    mulVec (answerInverse sqrt t) t.file.atom.cart = specFrac p (atomEdits (stepEdits es)) ∧
    (∀ q, mulVec (answerInverse sqrt t) q = cartToFracMisc sqrt cur q) := by
  obtain ⟨-, h2, h3⟩ := inverse_memo_coherent sqrt (readFresh sqrt c (parseAtom (orthoM sqrt c) p u)) es
    (by intro i hi; simp [readFresh] at hi)
  obtain ⟨-, f2, f3, f4, -⟩ := file_history_coherent sqrt (readFile sqrt c (parseAtom (orthoM sqrt c) p u)) (stepEdits es) ⟨rfl, rfl⟩
  simp only at h2 h3 f2 f3 f4 ⊢
  have e3 : (fileHistory sqrt (readFile sqrt c (parseAtom (orthoM sqrt c) p u)) (stepEdits es)).cell = specCell c (stepEdits es) := f3
  have e4 : (fileHistory sqrt (readFile sqrt c (parseAtom (orthoM sqrt c) p u)) (stepEdits es)).atom.frac
      = specFrac p (atomEdits (stepEdits es)) := f4
  have hfile : (readFresh sqrt c (parseAtom (orthoM sqrt c) p u)).file = readFile sqrt c (parseAtom (orthoM sqrt c) p u) := rfl
  rw [hfile] at h3
  rw [h2, h3, e3, f2, e3, e4]
  obtain ⟨i1, i2, i3, -⟩ := ortho_inverse hs _ h
  exact ⟨i2, i1, i3 _, fun q => (cart_to_frac_agrees hs _ h q).symm⟩

/-- the theorem hangs on `CELL.set` building a fresh matrix object: if the object were kept and recalculated in place
    with its memo, one question before one `cell.set` would leave the inverse of the OLD cell -/
theorem memo_kept_fails_on :
    ¬ (∀ (d : Cell ℚ) (p : V3 ℚ),
        answerInverse sqrtW (stepHistoryKeep sqrtW (readFresh sqrtW cellW (parseAtom (orthoM sqrtW cellW) p uW))
          [.askInverse, .edit (.setCell d)]) = inversed (orthoM sqrtW d)) := by
  intro hst
  have := congrArg (fun m : M3 ℚ => m.r0.x) (hst { cellW with a := 9 } ⟨0, 0, 0⟩)
  revert this
  decide +kernel

example : (answerInverse sqrtW (stepHistory sqrtW (readFresh sqrtW cellW (parseAtom (orthoM sqrtW cellW) ⟨0, 0, 0⟩ uW))
    [.askInverse, .edit (.setCell { cellW with a := 9 }), .askInverse])).r0.x = 1 / 9 ∧
    (answerInverse sqrtW (stepHistoryKeep sqrtW (readFresh sqrtW cellW (parseAtom (orthoM sqrtW cellW) ⟨0, 0, 0⟩ uW))
    [.askInverse, .edit (.setCell { cellW with a := 9 }), .askInverse])).r0.x = 1 / 5 := by
  decide +kernel

/-! ## the tie to the traced source (`ShelxModel/Extracted/C12Src.lean`, regenerated on every run)

  `extract/trace_c12.py` runs the repository's own code on symbolic numbers (`extract/symtrace.py`): the helper classes
  (`Matrix`, `Array`, `OrthogonalMatrix`), the free functions of misc.py/dsrmath.py and — through
  `Shelxfile.read_string` on a file whose numbers are placeholders — the observables of the parsed `CELL` and `Atom`
  objects. What CPython computed is written out as straight-line definitions `Src.…`. Each `src_…` theorem says: for ALL
  real inputs that straight-line program IS the hand-written model function the property theorems above are about. A
  change of the arithmetic in the repository changes `Src.…` and the theorem fails on the next run (ring normalisation
  absorbs re-association, reordering and renamed temporaries). What is outside these theorems: the branch events listed
  in the docstrings of `Src.…` (magnitude tests of the parser on the sample values) and rounding.
-/

def flatV {K : Type} (v : V3 K) : List K := [v.x, v.y, v.z]
def flatM {K : Type} (m : M3 K) : List K := [m.r0.x, m.r0.y, m.r0.z, m.r1.x, m.r1.y, m.r1.z, m.r2.x, m.r2.y, m.r2.z]
def ofRows {K : Type} (m00 m01 m02 m10 m11 m12 m20 m21 m22 : K) : M3 K := ⟨⟨m00, m01, m02⟩, ⟨m10, m11, m12⟩, ⟨m20, m21, m22⟩⟩

/-- unfold the traced definition and the model, then let `ring_nf` decide (it normalises inside `sqrt` too) -/
syntax "src_tie" "[" Lean.Parser.Tactic.simpLemma,* "]" : tactic
macro_rules
  | `(tactic| src_tie [$ls,*]) => `(tactic| (simp only [$ls,*] <;> try ring_nf))

theorem src_volUnitcell (sqrt : ℝ → ℝ) (c : Cell ℝ) :
    Src.volUnitcell sqrt c.a c.b c.c c.ca c.cb c.cg = volume sqrt c := by
  src_tie [Src.volUnitcell, volume, volRadicand]

theorem src_cellVolume (sqrt : ℝ → ℝ) (c : Cell ℝ) :
    Src.cellVolume sqrt c.a c.b c.c c.ca c.cb c.cg = volume sqrt c := by
  src_tie [Src.cellVolume, volume, volRadicand]

theorem src_orthoM (sqrt : ℝ → ℝ) (c : Cell ℝ) :
    Src.orthoM sqrt c.a c.b c.c c.ca c.cb c.cg c.sg = flatM (orthoM sqrt c) := by
  src_tie [Src.orthoM, orthoM, flatM, volume, volRadicand]

theorem src_orthoMulVec (sqrt : ℝ → ℝ) (c : Cell ℝ) (p : V3 ℝ) :
    Src.orthoMulVec sqrt c.a c.b c.c c.ca c.cb c.cg c.sg p.x p.y p.z = flatV (mulVec (orthoM sqrt c) p) := by
  src_tie [Src.orthoMulVec, orthoM, flatV, mulVec, dot, volume, volRadicand]

theorem src_atomCart (sqrt : ℝ → ℝ) (c : Cell ℝ) (p : V3 ℝ) :
    Src.atomCart sqrt c.a c.b c.c c.ca c.cb c.cg c.sg p.x p.y p.z = flatV (mulVec (orthoM sqrt c) p) := by
  src_tie [Src.atomCart, orthoM, flatV, mulVec, dot, volume, volRadicand]

theorem src_shxFracToCart (sqrt : ℝ → ℝ) (c : Cell ℝ) (p : V3 ℝ) :
    Src.shxFracToCart sqrt c.a c.b c.c c.ca c.cb c.cg c.sg p.x p.y p.z = flatV (mulVec (orthoM sqrt c) p) := by
  src_tie [Src.shxFracToCart, orthoM, flatV, mulVec, dot, volume, volRadicand]

theorem src_metricMatrix (sqrt : ℝ → ℝ) (c : Cell ℝ) :
    Src.metricMatrix sqrt c.a c.b c.c c.ca c.cb c.cg c.sg = flatM (metricCode sqrt c) := by
  src_tie [Src.metricMatrix, metricCode, mulMM, mulRR, transpose, col0, col1, col2, orthoM, flatM, dot, volume, volRadicand]

theorem src_matDet (m : M3 ℝ) :
    Src.matDet m.r0.x m.r0.y m.r0.z m.r1.x m.r1.y m.r1.z m.r2.x m.r2.y m.r2.z = det m := by
  src_tie [Src.matDet, det]

theorem src_matInversed (m : M3 ℝ) :
    Src.matInversed m.r0.x m.r0.y m.r0.z m.r1.x m.r1.y m.r1.z m.r2.x m.r2.y m.r2.z = flatM (inversed m) := by
  src_tie [Src.matInversed, inversed, det, flatM]

theorem src_matTransposed (m : M3 ℝ) :
    Src.matTransposed m.r0.x m.r0.y m.r0.z m.r1.x m.r1.y m.r1.z m.r2.x m.r2.y m.r2.z = flatM (transpose m) := by
  src_tie [Src.matTransposed, transpose, col0, col1, col2, flatM]

theorem src_matMulStar (m n : M3 ℝ) :
    Src.matMulStar m.r0.x m.r0.y m.r0.z m.r1.x m.r1.y m.r1.z m.r2.x m.r2.y m.r2.z
        n.r0.x n.r0.y n.r0.z n.r1.x n.r1.y n.r1.z n.r2.x n.r2.y n.r2.z = flatM (mulRR m n) := by
  src_tie [Src.matMulStar, mulRR, dot, flatM]

theorem src_matDot (m n : M3 ℝ) :
    Src.matDot m.r0.x m.r0.y m.r0.z m.r1.x m.r1.y m.r1.z m.r2.x m.r2.y m.r2.z
        n.r0.x n.r0.y n.r0.z n.r1.x n.r1.y n.r1.z n.r2.x n.r2.y n.r2.z = flatM (mulMM m n) := by
  src_tie [Src.matDot, mulMM, mulRR, transpose, col0, col1, col2, dot, flatM]

theorem src_matMulVec (m : M3 ℝ) (v : V3 ℝ) :
    Src.matMulVec m.r0.x m.r0.y m.r0.z m.r1.x m.r1.y m.r1.z m.r2.x m.r2.y m.r2.z v.x v.y v.z = flatV (mulVec m v) := by
  src_tie [Src.matMulVec, mulVec, dot, flatV]

theorem src_matTrace (m : M3 ℝ) :
    Src.matTrace m.r0.x m.r0.y m.r0.z m.r1.x m.r1.y m.r1.z m.r2.x m.r2.y m.r2.z = trace m := by
  src_tie [Src.matTrace, trace]

theorem src_fracToCartMisc (sqrt : ℝ → ℝ) (c : Cell ℝ) (p : V3 ℝ) :
    Src.fracToCartMisc sqrt c.a c.b c.c c.ca c.cb c.cg c.sb c.sg p.x p.y p.z = flatV (fracToCartMisc sqrt c p) := by
  src_tie [Src.fracToCartMisc, fracToCartMisc, cosAstar, flatV]

theorem src_cartToFracMisc (sqrt : ℝ → ℝ) (c : Cell ℝ) (q : V3 ℝ) :
    Src.cartToFracMisc sqrt c.a c.b c.c c.ca c.cb c.cg c.sb c.sg q.x q.y q.z = flatV (cartToFracMisc sqrt c q) := by
  src_tie [Src.cartToFracMisc, cartToFracMisc, cosAstar, flatV]

theorem src_atomicDistance (sqrt : ℝ → ℝ) (c : Cell ℝ) (p1 p2 : V3 ℝ) :
    Src.atomicDistance sqrt c.a c.b c.c c.ca c.cb c.cg p1.x p1.y p1.z p2.x p2.y p2.z = atomicDistance sqrt c p1 p2 := by
  src_tie [Src.atomicDistance, atomicDistance, atomicDistSq, vsub]

theorem src_cellRecip (sqrt : ℝ → ℝ) (c : Cell ℝ) :
    Src.cellRecip sqrt c.a c.b c.c c.ca c.cb c.cg c.sa c.sb c.sg = flatV (recip sqrt c) := by
  src_tie [Src.cellRecip, recip, volume, volRadicand, flatV]

theorem src_cellN (sqrt : ℝ → ℝ) (c : Cell ℝ) :
    Src.cellN sqrt c.a c.b c.c c.ca c.cb c.cg c.sa c.sb c.sg = flatM (nMat sqrt c) := by
  src_tie [Src.cellN, nMat, diag, recip, volume, volRadicand, flatM]

theorem src_atomUcif (u : U6 ℝ) :
    Src.atomUcif u.u11 u.u22 u.u33 u.u23 u.u13 u.u12 = flatM (ucif u) := by
  src_tie [Src.atomUcif, ucif, flatM]

theorem src_atomUstar (sqrt : ℝ → ℝ) (c : Cell ℝ) (u : U6 ℝ) :
    Src.atomUstar sqrt c.a c.b c.c c.ca c.cb c.cg c.sa c.sb c.sg u.u11 u.u22 u.u33 u.u23 u.u13 u.u12
      = flatM (ustar (nMat sqrt c) (ucif u)) := by
  src_tie [Src.atomUstar, ustar, mulMM, mulRR, transpose, col0, col1, col2, dot, nMat, diag, recip, volume, volRadicand, ucif, flatM]

theorem src_atomUcart (sqrt : ℝ → ℝ) (c : Cell ℝ) (u : U6 ℝ) :
    Src.atomUcart sqrt c.a c.b c.c c.ca c.cb c.cg c.sa c.sb c.sg u.u11 u.u22 u.u33 u.u23 u.u13 u.u12
      = flatM (ucart (orthoM sqrt c) (nMat sqrt c) (ucif u)) := by
  src_tie [Src.atomUcart, ucart, ustar, mulMM, mulRR, transpose, col0, col1, col2, dot, orthoM, nMat, diag, recip, volume, volRadicand, ucif, flatM]

theorem src_atomUeq (sqrt : ℝ → ℝ) (c : Cell ℝ) (u : U6 ℝ) :
    Src.atomUeq sqrt c.a c.b c.c c.ca c.cb c.cg c.sa c.sb c.sg u.u11 u.u22 u.u33 u.u23 u.u13 u.u12
      = ueqAniso sqrt c u := by
  src_tie [Src.atomUeq, ueqAniso, trace, ucart, ustar, mulMM, mulRR, transpose, col0, col1, col2, dot, orthoM, nMat, diag, recip, volume, volRadicand, ucif]

/-! ### traced histories and traced thresholds

  `cellSetInversed`, `cellSetShxInversed`, `cellSetUeq`: the file is read with one cell, the observables (and
  `cell.o.inversed`) are ASKED, the cell is changed with `shx.cell.set`, and the observable is asked again. The traced
  result is a function of the SECOND cell's numbers only (a result that still mentioned the first cell could not even be
  written out with this signature), and it is the model function of the second cell.
  `atomUeqFlat5/7/10`: the same atom with U33, U23, U13, U12 tiny but not zero (sums of absolute values 1e-5, 7e-7,
  1e-10: on either side of each magnitude the code compares U values against — the branch events in the docstrings of
  `Src.…` name the constants 1e-06 of `set_uvals`/`parse_line`). On every one of these paths `Atom.ueq` is the SAME
  straight-line program, one third of the trace of the Cartesian tensor. -/

theorem src_cellSetInversed (sqrt : ℝ → ℝ) (c : Cell ℝ) :
    Src.cellSetInversed sqrt c.a c.b c.c c.ca c.cb c.cg c.sg = flatM (inversed (orthoM sqrt c)) := by
  src_tie [Src.cellSetInversed, inversed, det, orthoM, flatM, volume, volRadicand]

theorem src_cellSetShxInversed (sqrt : ℝ → ℝ) (c : Cell ℝ) :
    Src.cellSetShxInversed sqrt c.a c.b c.c c.ca c.cb c.cg c.sg = flatM (inversed (orthoM sqrt c)) := by
  src_tie [Src.cellSetShxInversed, inversed, det, orthoM, flatM, volume, volRadicand]

theorem src_cellSetUeq (sqrt : ℝ → ℝ) (c : Cell ℝ) (u : U6 ℝ) :
    Src.cellSetUeq sqrt c.a c.b c.c c.ca c.cb c.cg c.sa c.sb c.sg u.u11 u.u22 u.u33 u.u23 u.u13 u.u12
      = ueqAniso sqrt c u := by
  src_tie [Src.cellSetUeq, ueqAniso, trace, ucart, ustar, mulMM, mulRR, transpose, col0, col1, col2, dot, orthoM, nMat, diag, recip, volume, volRadicand, ucif]

theorem src_atomUeqFlat5 (sqrt : ℝ → ℝ) (c : Cell ℝ) (u : U6 ℝ) :
    Src.atomUeqFlat5 sqrt c.a c.b c.c c.ca c.cb c.cg c.sa c.sb c.sg u.u11 u.u22 u.u33 u.u23 u.u13 u.u12
      = ueqAniso sqrt c u := by
  src_tie [Src.atomUeqFlat5, ueqAniso, trace, ucart, ustar, mulMM, mulRR, transpose, col0, col1, col2, dot, orthoM, nMat, diag, recip, volume, volRadicand, ucif]

theorem src_atomUeqFlat7 (sqrt : ℝ → ℝ) (c : Cell ℝ) (u : U6 ℝ) :
    Src.atomUeqFlat7 sqrt c.a c.b c.c c.ca c.cb c.cg c.sa c.sb c.sg u.u11 u.u22 u.u33 u.u23 u.u13 u.u12
      = ueqAniso sqrt c u := by
  src_tie [Src.atomUeqFlat7, ueqAniso, trace, ucart, ustar, mulMM, mulRR, transpose, col0, col1, col2, dot, orthoM, nMat, diag, recip, volume, volRadicand, ucif]

theorem src_atomUeqFlat10 (sqrt : ℝ → ℝ) (c : Cell ℝ) (u : U6 ℝ) :
    Src.atomUeqFlat10 sqrt c.a c.b c.c c.ca c.cb c.cg c.sa c.sb c.sg u.u11 u.u22 u.u33 u.u23 u.u13 u.u12
      = ueqAniso sqrt c u := by
  src_tie [Src.atomUeqFlat10, ueqAniso, trace, ucart, ustar, mulMM, mulRR, transpose, col0, col1, col2, dot, orthoM, nMat, diag, recip, volume, volRadicand, ucif]

end Shelx.C12

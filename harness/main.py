"""
./check <ID> [--tier quick|thorough] [--replay <file>]      (DESIGN.md section 4)

exit 0  property held on everything explored (KNOWN-FINDING lines possible)
exit 1  VIOLATION property=<ID> replay=<path> [no-failing-input-found]
exit 2  infrastructure error / timeout (never a verdict about the code)
"""
import argparse
import importlib
import json
import os
import re
import sys
import time
import traceback

from . import core

NO_ESCALATE = {'C01', 'C03', 'C04', 'C08', 'C13', 'C14'}


def main(argv=None):
    ap = argparse.ArgumentParser()
    ap.add_argument('prop')
    ap.add_argument('--tier', default=os.environ.get('VERIF_TIER', 'quick'), choices=['quick', 'thorough'])
    ap.add_argument('--replay')
    ap.add_argument('--no-build', action='store_true', help='skip lake build/audit (development only)')
    a = ap.parse_args(argv)
    prop = a.prop.upper()
    seed = int(os.environ.get('VERIF_SEED', '0') or 0)
    ctx = core.Ctx(prop, a.tier, seed)
    try:
        mod = importlib.import_module(f'harness.props.{prop.lower()}')
    except ModuleNotFoundError:
        print(f'no check for {prop}', file=sys.stderr)
        return 2
    try:
        core.import_repo()
    except Exception as e:
        # the package under test does not even import: nothing the model says applies any more
        ctx.broken.append(f'import: shelxfile does not import: {e!r}')
        return ctx.finish()

    # 1. translator: regenerate the extracted tables from the working tree ------------------------
    model_ok = True
    try:
        ex = core.run_extract()
        mapped = ex.get('changed', {})
        # properties whose thorough exploration takes many minutes keep their quick budget on edited code
        if any(prop in props for props in mapped.values()) and prop not in NO_ESCALATE:
            ctx.escalated = True
            ctx.note('mirrored source changed since the model was written: ' +
                     ', '.join(q for q, props in mapped.items() if prop in props))
        for msg in ex.get('lost', []):
            if prop in msg.get('props', []):
                ctx.broken.append('extract: ' + msg['what'])
    except Exception as e:
        traceback.print_exc()
        ctx.broken.append(f'extract: translator failed: {e!r}')

    # 2./3. build + audit ----------------------------------------------------------------------------
    if not a.no_build:
        with core.BuildLock():
            rc, out = core.lake_build(['driver'])
            if rc != 0:
                model_ok = False
                ctx.broken.append('build: model/driver does not build against the regenerated tables')
                ctx.note(out[-4000:])
                print(out[-4000:], file=sys.stderr)
            rc, out = core.lake_build([f'ShelxProps.{prop}'])
            props_ok = rc == 0
            if not props_ok:
                errs = re.findall(r'error: ([^\n]*\.lean:\d+:\d+:[^\n]*)', out)
                for e in errs[:10] or ['(see build log)']:
                    ctx.broken.append(f'theorem: ShelxProps.{prop} no longer checks: {e}')
                ctx.note(out[-4000:])
                print(out[-6000:], file=sys.stderr)
            hits = core.grep_forbidden([p for p in core.LEAN.rglob('*.lean') if '.lake' not in p.parts])
            if hits:
                print('forbidden constructs in Lean sources:\n' + '\n'.join(hits), file=sys.stderr)
                return 2
            if props_ok:
                try:
                    ctx.theorems = core.audit(prop)
                except core.LeanError as e:
                    print(e, file=sys.stderr)
                    return 2
                bad = {t: [x for x in axs if x not in core.ALLOWED_AXIOMS] for t, axs in ctx.theorems.items()}
                bad = {t: v for t, v in bad.items() if v}
                if bad:
                    print(f'non-standard axioms: {bad}', file=sys.stderr)
                    return 2
                if not ctx.theorems:
                    print(f'ShelxProps.{prop} contains no theorem', file=sys.stderr)
                    return 2
                if a.tier == 'thorough' and not a.replay:
                    rc, out = core._run(['lake', 'env', 'leanchecker', f'ShelxProps.{prop}'])
                    ctx.extra['leanchecker'] = 'ok' if rc == 0 else out[-500:]
                    if rc != 0:
                        print('leanchecker rejected the compiled module:\n' + out[-3000:], file=sys.stderr)
                        return 2
    ctx.model_ok = model_ok

    # 4. correspondence + direct property run (or replay of one stored case) -------------------------
    try:
        if a.replay:
            body = json.loads(open(a.replay).read())
            if 'case' not in body:
                print(f'replay file names broken obligations only: {body.get("broken")}')
            else:
                mod.evaluate(ctx, [body['case']], stream=body.get('stream'))
                if not ctx.failures:
                    print(f'replay: case no longer fails')
        else:
            mod.run(ctx)
    except core.EnoughFailures:
        ctx.note('exploration stopped early: enough failing inputs recorded')
    except core.LeanError as e:
        print(f'driver problem: {e}', file=sys.stderr)
        if model_ok:
            return 2
    except Exception:
        traceback.print_exc()
        return 2
    return ctx.finish()


if __name__ == '__main__':
    sys.exit(main())

"""
Shared plumbing of every check (DESIGN.md section 4): context, counters, the Lean build/audit steps,
the driver process (line protocol), known findings, replay files, evidence, verdict.

Run with /venv/bin/python (the interpreter the repository's own test-suite uses). Stdlib only.
"""
from __future__ import annotations

import fcntl
import hashlib
import json
import os
import random
import re
import struct
import subprocess
import sys
import time
from collections import Counter
from fractions import Fraction
from pathlib import Path

VERIF = Path(__file__).resolve().parent.parent
LEAN = VERIF / 'lean'
REPO = Path(os.environ.get('SHELXFILE_REPO', '/repo')).resolve()
ALLOWED_AXIOMS = {'propext', 'Classical.choice', 'Quot.sound'}
FORBIDDEN = re.compile(r'\b(sorry|admit|native_decide|bv_decide|implemented_by|unsafe)\b|^\s*axiom\s|maxHeartbeats\s+0\b')


def import_repo():
    """make `import shelxfile` resolve to the tree under test (default /repo, live working tree)"""
    p = str(REPO)
    if p in sys.path:
        sys.path.remove(p)
    sys.path.insert(0, p)
    for m in [m for m in sys.modules if m == 'shelxfile' or m.startswith('shelxfile.')]:
        del sys.modules[m]
    import shelxfile  # noqa
    got = Path(shelxfile.__file__).resolve()
    if REPO not in got.parents:
        raise RuntimeError(f'shelxfile imported from {got}, expected under {REPO}')


# ------------------------------------------------------------------------------------------------
# numbers on the wire

def f64_of_bits(n: int) -> float:
    return struct.unpack('<d', struct.pack('<Q', n))[0]


def dec(j):
    """decode driver JSON: {"f64": bits} -> float, {"num","den"} -> Fraction, recursively"""
    if isinstance(j, dict):
        if set(j) == {'f64'}:
            return f64_of_bits(j['f64'])
        if set(j) == {'num', 'den'}:
            return Fraction(int(j['num']), int(j['den']))
        return {k: dec(v) for k, v in j.items()}
    if isinstance(j, list):
        return [dec(x) for x in j]
    return j


def close(a, b, tol=1e-9, rel=1e-9) -> bool:
    """numeric agreement used for observations (never bit patterns: a harmless re-association of a float
    expression must not break the tie); None/NaN handled explicitly"""
    if a is None or b is None:
        return a is None and b is None
    a = float(a)
    b = float(b)
    if a != a or b != b:
        return (a != a) and (b != b)
    if a in (float('inf'), float('-inf')) or b in (float('inf'), float('-inf')):
        return a == b
    return abs(a - b) <= tol + rel * max(abs(a), abs(b))


def jnum(x: float):
    """a float as it goes to the driver: JSON number with Python's shortest repr (exact round trip)"""
    return float(x)


class RawJSONFloatEncoder(json.JSONEncoder):
    pass


# ------------------------------------------------------------------------------------------------
# Lean side

class LeanError(Exception):
    pass


class EnoughFailures(Exception):
    """raised by Ctx.fail once the number of recorded failures makes further exploration pointless"""


def _run(cmd, cwd=LEAN, timeout=3600):
    env = dict(os.environ)
    p = subprocess.run(cmd, cwd=cwd, env=env, stdout=subprocess.PIPE, stderr=subprocess.STDOUT, text=True, timeout=timeout)
    return p.returncode, p.stdout


class BuildLock:
    def __enter__(self):
        (LEAN / '.lake').mkdir(exist_ok=True)
        self.f = open(LEAN / '.lake' / 'verif.lock', 'w')
        fcntl.flock(self.f, fcntl.LOCK_EX)
        return self

    def __exit__(self, *a):
        fcntl.flock(self.f, fcntl.LOCK_UN)
        self.f.close()


def run_extract():
    """regenerate lean/ShelxModel/Extracted/*.lean from the working tree of REPO (DESIGN 3.1)"""
    sys.path.insert(0, str(VERIF / 'extract'))
    import extract  # type: ignore
    return extract.main(REPO, LEAN / 'ShelxModel' / 'Extracted')


def lake_build(targets):
    rc, out = _run(['lake', 'build'] + list(targets))
    return rc, out


def grep_forbidden(files):
    hits = []
    for f in files:
        in_block = 0
        for i, line in enumerate(Path(f).read_text().splitlines(), 1):
            # strip comments (line comments and /- -/ blocks, nested counting kept simple)
            s = line
            out = ''
            j = 0
            while j < len(s):
                if s.startswith('/-', j):
                    in_block += 1
                    j += 2
                elif s.startswith('-/', j) and in_block:
                    in_block -= 1
                    j += 2
                elif in_block:
                    j += 1
                elif s.startswith('--', j):
                    break
                else:
                    out += s[j]
                    j += 1
            if FORBIDDEN.search(out):
                hits.append(f'{f}:{i}: {line.strip()}')
    return hits


AUDIT_TEMPLATE = '''import Lean
import ShelxProps.{mod}
open Lean Elab Command
run_cmd do
  let env ← getEnv
  let some idx := env.getModuleIdx? `ShelxProps.{mod} | throwError "module not found"
  for n in env.header.moduleData[idx]!.constNames do
    match env.find? n with
    | some (.thmInfo _) =>
      if !n.isInternalDetail && !(n.toString.splitOn ".eq_").length > 1 && !(n.toString.splitOn ".match_").length > 1 then
        let axs ← Lean.collectAxioms n
        logInfo m!"AUDIT {{n}} {{axs.toList}}"
    | _ => pure ()
'''


def audit(mod: str):
    """#print axioms over every theorem of ShelxProps.<mod>; returns {theorem: [axioms]}"""
    f = LEAN / f'Audit_{mod}.lean'
    f.write_text(AUDIT_TEMPLATE.format(mod=mod))
    rc, out = _run(['lake', 'env', 'lean', f.name])
    res = {}
    for m in re.finditer(r'AUDIT (\S+) \[(.*?)\]', out):
        res[m.group(1)] = [a.strip() for a in m.group(2).split(',') if a.strip()]
    try:
        f.unlink()
    except OSError:
        pass
    if rc != 0:
        raise LeanError('audit failed:\n' + out[-3000:])
    return res


class Driver:
    """the compiled model driver; one JSON request per line, one JSON answer per line"""

    def __init__(self):
        exe = LEAN / '.lake' / 'build' / 'bin' / 'driver'
        if not exe.exists():
            raise LeanError(f'driver executable missing: {exe}')
        self.exe = str(exe)
        self.lines = 0

    def batch(self, reqs, chunk=20000):
        """send all requests, return decoded answers in order (raises LeanError on protocol problems)"""
        out = []
        for i in range(0, len(reqs), chunk):
            part = reqs[i:i + chunk]
            data = '\n'.join(json.dumps(r, separators=(',', ':')) for r in part) + '\n'
            p = subprocess.run([self.exe], input=data, stdout=subprocess.PIPE, stderr=subprocess.PIPE, text=True)
            if p.returncode != 0:
                raise LeanError(f'driver exit {p.returncode}: {p.stderr[-2000:]}')
            lines = p.stdout.splitlines()
            if len(lines) != len(part):
                raise LeanError(f'driver answered {len(lines)} lines for {len(part)} requests; stderr: {p.stderr[-2000:]}')
            for ln, rq in zip(lines, part):
                j = json.loads(ln)
                if isinstance(j, dict) and 'driver_error' in j:
                    raise LeanError(f'driver error {j["driver_error"]} on request {json.dumps(rq)[:500]}')
                out.append(dec(j))
            self.lines += len(part)
        return out

    def one(self, req):
        return self.batch([req])[0]


# ------------------------------------------------------------------------------------------------
# known findings

def load_known(prop):
    """known_findings.jsonl: {"property","signature","what"} (open findings) and {"fixed": "..."} lines"""
    known = {}
    f = VERIF / 'known_findings.jsonl'
    if f.exists():
        for line in f.read_text().splitlines():
            line = line.strip()
            if not line or line.startswith('#'):
                continue
            j = json.loads(line)
            if 'fixed' in j:
                continue  # a fixed entry suppresses nothing
            if j.get('property') == prop:
                known[j['signature']] = j
    return known


# ------------------------------------------------------------------------------------------------
# context

class Ctx:
    def __init__(self, prop: str, tier: str, seed: int):
        self.prop = prop
        self.tier = tier
        self.seed = seed
        self.rng = random.Random(f'{prop}:{seed}')
        self.t0 = time.time()
        self.evaluations = 0
        self._distinct = set()
        self.nontrivial = 0
        self.samples = []
        self.dist = Counter()
        self.failures = []          # dict(signature, what, kind, payload)
        self.broken = []            # names of theorems / correspondence streams that no longer check
        self.theorems = {}          # name -> axioms
        self.streams = []           # names of correspondence streams that ran
        self.notes = []
        self.known = load_known(prop)
        self.rule = ''
        self.assumptions = []
        self.extra = {}
        self.escalated = False      # a mirrored function's digest changed: quick uses the thorough budget
        self._driver = None
        self.exhaustive = False

    # budgets ------------------------------------------------------------------------------------
    def budget(self, quick: int, thorough: int) -> int:
        if self.tier == 'thorough' or self.escalated:
            return thorough
        return quick

    @property
    def driver(self) -> Driver:
        if self._driver is None:
            self._driver = Driver()
        return self._driver

    # bookkeeping --------------------------------------------------------------------------------
    def count(self, key, nontrivial=True, sample=None, tags=()):
        """one explored case; `key` identifies the input canonically (distinctness)"""
        self.evaluations += 1
        h = hashlib.sha1(json.dumps(key, sort_keys=True, default=str).encode()).digest()[:10]
        if h not in self._distinct:
            self._distinct.add(h)
            if nontrivial:
                self.nontrivial += 1
        for t in tags:
            self.dist[t] += 1
        if sample is not None and len(self.samples) < 6:
            self.samples.append(sample)

    def fail(self, signature: str, what: str, payload: dict, kind: str = 'property'):
        """kind: 'property' (impl differs from the theorem's right-hand side: a failing input),
                 'correspondence' (impl differs from the model on the property's observables)"""
        self.failures.append(dict(signature=signature, what=what, kind=kind, payload=payload))
        # a broken tree can fail on thousands of cases: the verdict is settled long before, stop exploring
        unknown = [f for f in self.failures if f['signature'] not in self.known]
        if self.broken:
            # the tie is broken: differences from the MODEL are expected in bulk and are not failing inputs (see finish);
            # the search goes on until failing inputs of the PROPERTY are found
            unknown = [f for f in unknown if f['kind'] != 'correspondence']
        if len(unknown) >= 400 or len({f['signature'] for f in unknown}) >= 40:
            raise EnoughFailures()

    def stream(self, name):
        if name not in self.streams:
            self.streams.append(name)

    def note(self, s):
        self.notes.append(s)

    # verdict ------------------------------------------------------------------------------------
    def finish(self) -> int:
        prop = self.prop
        exit_code = 0
        printed_known = set()
        new = {}
        for f in self.failures:
            sig = f['signature']
            if sig in self.known:
                if sig not in printed_known:
                    printed_known.add(sig)
                    print(f'KNOWN-FINDING: property={prop} {self.known[sig].get("what", f["what"])} [{sig}]')
                continue
            new.setdefault(sig, f)
        rdir = VERIF / 'replays' / prop
        # A difference between implementation and MODEL is a failing input of the property only while the model is the
        # one the theorems are about. Once an obligation is broken (a regenerated table no longer fits, a theorem no
        # longer checks) the model may simply have followed a misread table: such differences then say "the tie is
        # broken", they are listed in the obligation file, and only implementation-vs-SPECIFICATION failures are
        # reported as failing inputs.
        demoted = {}
        if self.broken:
            demoted = {sig: f for sig, f in new.items() if f['kind'] == 'correspondence'}
            new = {sig: f for sig, f in new.items() if f['kind'] != 'correspondence'}
        for sig, f in new.items():
            rdir.mkdir(parents=True, exist_ok=True)
            name = re.sub(r'[^A-Za-z0-9_.=-]+', '_', sig)[:120]
            path = rdir / f'{name}.json'
            body = dict(property=prop, signature=sig, kind=f['kind'], what=f['what'], seed=self.seed, tier=self.tier,
                        broken_obligations=self.broken, replay_cmd=f'./check {prop} --replay {path.relative_to(VERIF)}',
                        **f['payload'])
            path.write_text(json.dumps(body, indent=1, default=str) + '\n')
            print(f'VIOLATION property={prop} replay={path.relative_to(VERIF)}')
            print(f'  {f["kind"]}: {f["what"]}')
            exit_code = 1
        if self.broken and not new:
            # a proof obligation or the correspondence no longer checks, and the search exhibited no failing input
            rdir.mkdir(parents=True, exist_ok=True)
            path = rdir / 'broken-obligation.json'
            path.write_text(json.dumps(dict(property=prop, kind='obligation', no_failing_input_found=True,
                                            broken=self.broken, seed=self.seed, tier=self.tier,
                                            searched=dict(evaluations=self.evaluations, distinct_nontrivial=self.nontrivial),
                                            model_differs_on=[dict(signature=sig, what=f['what'], case=f['payload'].get('case'))
                                                              for sig, f in list(demoted.items())[:10]],
                                            notes=self.notes), indent=1, default=str) + '\n')
            print(f'VIOLATION property={prop} replay={path.relative_to(VERIF)} no-failing-input-found')
            for b in self.broken:
                print(f'  no longer checks: {b}')
            for sig, f in list(demoted.items())[:5]:
                print(f'  model differs (tie broken, the property itself holds on this input): {f["what"][:200]}')
            exit_code = 1
        for sig, k in self.known.items():
            if sig not in printed_known:
                print(f'note: known finding not reproduced in this run: property={prop} [{sig}]')
        self.write_evidence(len(new) + (1 if (self.broken and not new) else 0))
        return exit_code

    def write_evidence(self, nviol):
        n_thm = len(self.theorems)
        # obligations = theorems of the property file (each audited) + one per correspondence stream + whatever broke
        unknown = [f for f in self.failures if f['signature'] not in self.known]
        bad_streams = {f['payload'].get('stream') or '?' for f in unknown}
        obligations = n_thm + len(self.streams) + len(self.broken)
        discharged = max(0, n_thm + len(self.streams) - min(len(bad_streams), len(self.streams)))
        ev = dict(
            property_id=self.prop, tier=self.tier, seed=self.seed, level='proof',
            coverage=dict(
                obligations=max(obligations, 0), discharged=max(discharged, 0),
                checker_cmd=f'cd lean && lake build ShelxProps.{self.prop} driver && lake env lean Audit_{self.prop}.lean  (generated: #print axioms over every theorem of ShelxProps.{self.prop})',
                trusted_base=['Lean 4.33.0 kernel', 'axioms: ' + ', '.join(sorted({a for v in self.theorems.values() for a in v}) or ['none']),
                              'extract/extract.py + tables_*.py (ast translator of table-like code)',
                              'extract/symtrace.py + trace_*.py (tracing translator: arithmetic code executed on symbolic numbers)',
                              'harness correspondence check (sampled; see evaluations/rule)',
                              'CPython, libm (modelled, validated by the stream only)'],
                theorems=sorted(self.theorems), correspondence_streams=self.streams,
                evaluations=self.evaluations, distinct_nontrivial=self.nontrivial, rule=self.rule,
                samples=self.samples[:6] or ['(no generated cases in this run)'],
                input_distribution=dict(self.dist.most_common(60)), exhaustive=self.exhaustive,
                driver_lines=(self._driver.lines if self._driver else 0), escalated_budget=self.escalated,
                known_findings_seen=sorted({f['signature'] for f in self.failures if f['signature'] in self.known}),
                unlisted_failures=sorted({f['signature'] for f in unknown})[:20], broken_obligations=self.broken[:20],
                **self.extra),
            assumptions=self.assumptions, wall_s=round(time.time() - self.t0, 2), violations=nviol)
        # evidence/ describes /repo itself; a run against a scratch tree (SHELXFILE_REPO=…, seeded / harmless validation)
        # must not overwrite it
        edir = VERIF / 'evidence' if REPO == Path('/repo') else VERIF / 'replays' / 'scratch-evidence'
        edir.mkdir(parents=True, exist_ok=True)
        (edir / f'{self.prop}.json').write_text(json.dumps(ev, indent=1, default=str) + '\n')

"""
Grammar-directed generators shared by the checks (DESIGN.md 3.2/1). Every random choice comes from the
`random.Random` handed in (ctx.rng), so a run replays from VERIF_SEED.

The central object is a *by-construction description* of a SHELXL file (`FileSpec`): the generator decides
the content first (cell, symmetry, SFAC, FVAR, atoms with their context ...) and only then renders text,
so every check has the expected model without reading it back from the code under test.
"""
from __future__ import annotations

import random
from dataclasses import dataclass, field
from typing import List, Optional

ELEMENTS = ['C', 'H', 'N', 'O', 'F', 'Si', 'P', 'S', 'Cl', 'Br', 'Fe', 'Cu', 'Al', 'Na', 'B', 'I', 'Zn', 'Se']


def fmt(x: float, nd: int = 6) -> str:
    return f'{x:.{nd}f}'


@dataclass
class AtomSpec:
    name: str
    sfac: int                      # 1-based SFAC number
    xyz: tuple
    sof: float                     # the code written in the atom's own column
    u: tuple                       # 1 or 6 values
    part: int = 0
    part_sof: Optional[float] = None
    afix: int = 0
    resi_num: int = 0
    resi_class: str = ''
    qpeak: bool = False

    def line(self) -> str:
        us = '  '.join(fmt(v, 5) for v in self.u)
        return f'{self.name:<5}{self.sfac:>2}  {fmt(self.xyz[0])}  {fmt(self.xyz[1])}  {fmt(self.xyz[2])}  {fmt(self.sof, 5)}  {us}'


@dataclass
class FileSpec:
    titl: str = 'verif in P1'
    cell: tuple = (0.71073, 10.0, 11.0, 12.0, 90.0, 95.0, 90.0)
    zerr: tuple = (4, 0.001, 0.001, 0.001, 0.0, 0.01, 0.0)
    latt: int = -1
    symm: List[str] = field(default_factory=list)
    sfac: List[str] = field(default_factory=lambda: ['C', 'H', 'O'])
    unit: List[float] = field(default_factory=lambda: [8, 16, 4])
    header: List[str] = field(default_factory=list)      # instruction lines between UNIT and FVAR
    fvars: List[float] = field(default_factory=lambda: [0.5])     # including the overall scale factor
    body: List[object] = field(default_factory=list)    # AtomSpec or raw instruction strings, in order
    hklf: str = 'HKLF 4'
    tail: List[object] = field(default_factory=list)     # after END (WGHT suggestion, Q-peaks ...)
    fvar_per_line: int = 7

    def lines(self) -> List[str]:
        out = [f'TITL {self.titl}',
               'CELL ' + ' '.join(str(v) for v in self.cell),
               'ZERR ' + ' '.join(str(v) for v in self.zerr),
               f'LATT {self.latt}']
        out += [f'SYMM {s}' for s in self.symm]
        out.append('SFAC ' + ' '.join(self.sfac))
        out.append('UNIT ' + ' '.join(f'{v:g}' for v in self.unit))
        out += self.header
        fv = [fmt(v, 5) for v in self.fvars]
        for i in range(0, len(fv), self.fvar_per_line):
            out.append('FVAR ' + ' '.join(fv[i:i + self.fvar_per_line]))
        for b in self.body:
            out.append(b.line() if isinstance(b, AtomSpec) else str(b))
        if self.hklf:
            out.append(self.hklf)
        out.append('END')
        for b in self.tail:
            out.append(b.line() if isinstance(b, AtomSpec) else str(b))
        return out

    def text(self) -> str:
        return '\n'.join(self.lines()) + '\n'

    @property
    def atoms(self) -> List[AtomSpec]:
        return [b for b in list(self.body) + list(self.tail) if isinstance(b, AtomSpec)]


def rand_cell(rng: random.Random):
    kind = rng.choice(['tric', 'mono', 'ortho', 'hex', 'cubic', 'tric'])
    a, b, c = (round(rng.uniform(4, 30), 3) for _ in range(3))
    if kind == 'tric':
        al, be, ga = (round(rng.uniform(70, 110), 2) for _ in range(3))
    elif kind == 'mono':
        al, be, ga = 90.0, round(rng.uniform(91, 120), 2), 90.0
    elif kind == 'ortho':
        al = be = ga = 90.0
    elif kind == 'hex':
        b = a
        al, be, ga = 90.0, 90.0, 120.0
    else:
        b = c = a
        al = be = ga = 90.0
    return (rng.choice([0.71073, 1.54178, 0.56086]), a, b, c, al, be, ga)


def atom_name(rng: random.Random, el: str, used: set) -> str:
    for _ in range(100):
        n = el.upper() + str(rng.randint(1, 99)) + rng.choice(['', '', 'A', 'B'])
        n = n[:4]
        if n not in used:
            used.add(n)
            return n
    raise RuntimeError('no free atom name')


# ================================================================================================
# C01 (additive): generator over the whole grammar — every instruction keyword in every
# optional-parameter prefix form (DESIGN.md Appendix A), explicit SFAC entries, several FVAR lines,
# RESI/PART/AFIX blocks, legal line wrapping. Everything is produced as *text lines*; the checks lex
# them with their own reader.

SYMM_OPS = ['-X, 1/2+Y, 1/2-Z', '-x, -y, z', 'Y, X, -Z+ 0.50000', '-X+Y, -X, Z', '1/2+X, 1/2-Y, -Z',
            '-Y, X-Y, Z+1/3', 'x+1/2, -y+1/2, z+0.25', '-X, -Y, 0.5+Z', 'X+1/2,Y+1/2,Z', '-Y,  X,  3/4+Z']

# keyword -> kinds of the leading numeric parameters ('i' integer, 'n' real); every prefix is a form
NUMERIC_SYNTAX = [
    ('L.S.', 'iii'), ('CGLS', 'iii'), ('ABIN', 'nn'), ('DAMP', 'ni'), ('FMAP', 'iii'), ('GRID', 'nnnnnn'),
    ('MERG', 'i'), ('MORE', 'i'), ('MOVE', 'nnni'), ('PLAN', 'inn'), ('PRIG', 'n'), ('SHEL', 'nn'),
    ('SIZE', 'nnn'), ('SPEC', 'n'), ('STIR', 'nn'), ('SWAT', 'nn'), ('TWST', 'i'), ('WGHT', 'nnnnnn'),
    ('WIGL', 'nn'), ('WPDB', 'i'), ('XNPD', 'n'), ('DEFS', 'nnnnn'), ('BUMP', 'n'), ('LIST', 'ii'),
    ('TEMP', 'n'), ('EXTI', 'n'), ('ANSR', 'n'), ('ACTA', 'n'), ('HTAB', 'n'), ('TIME', 'n'), ('OMIT', 'nn'),
    ('BASF', 'nnnn'), ('SUMP', 'nnnini'), ('ANSC', 'nnnnnn'), ('ANIS', 'i'), ('BIND', 'ii'), ('MOLE', 'i'),
    ('CONN', 'in'),
]
# keyword -> (kinds of optional leading numbers, minimal number of atom names, pairs?)
ATOMLIST_SYNTAX = [
    ('DFIX', 'nn', 2, True), ('DANG', 'nn', 2, True), ('SADI', 'n', 4, True), ('SAME', 'nn', 2, False),
    ('FLAT', 'n', 4, False), ('CHIV', 'nn', 1, False), ('DELU', 'nn', 2, False), ('SIMU', 'nnn', 2, False),
    ('RIGU', 'nn', 2, False), ('ISOR', 'nn', 1, False), ('NCSY', 'inn', 2, False), ('EADP', '', 2, False),
    ('EXYZ', '', 2, False), ('ANIS', '', 1, False), ('BIND', '', 2, False), ('BLOC', 'ii', 1, False),
    ('BOND', '', 1, False), ('CONF', '', 4, False), ('CONN', 'in', 1, False), ('FREE', '', 2, False),
    ('HFIX', 'i', 1, False), ('HTAB', '', 2, False), ('MPLA', 'i', 3, False), ('RTAB', '', 2, False),
    ('OMIT', '', 1, False),
]
# SHELXL defaults per keyword (a value equal to one of them is never generated)
_DEFAULTS = {0, 1, 2, 0.7, 15, 53, 20, 0.2, 0.01, 0.1, 0.33333, -0.001, 0.02, 0.04, 0.08, 0.004, 1.9, 170, 12,
             0.05, 11, 10.08, 17, 90, 180, -2, -1}


# number of mandatory leading numeric parameters (a form ends after a mandatory or any optional parameter)
MIN_PARAMS = {'STIR': 1, 'SIZE': 1, 'ABIN': 1, 'BASF': 1, 'SUMP': 4, 'ANSC': 1, 'DFIX': 1, 'DANG': 1, 'NCSY': 1,
              'MPLA': 1, 'HFIX': 1, 'BLOC': 2}


def rnd_num(rng: random.Random, kind: str, used: set) -> str:
    """a numeric token, different from every SHELXL default and from the other values of the same line"""
    for _ in range(200):
        if kind == 'i':
            v = rng.choice([3, 4, 5, 6, 7, 8, 9, 13, 14, 16, 18, 19, 21, 23, -3, -4, 1200])
            t = str(v)
        else:
            v = round(rng.uniform(0.011, 0.97) * rng.choice([1, 1, 1, 10, -1, 100]), rng.choice([2, 3, 4, 5]))
            t = rng.choice(['{}', '{:.5f}', '{:.4f}', '{}', '{:.5f}', '{:.4f}', '{:.3e}', '{:.2E}']).format(v)
            if rng.random() < 0.04:
                t = rng.choice(['0.00001', '0.000123', '12345.678', '1e-4'])
            v = float(t)
        if v not in _DEFAULTS and v not in used and v != 0:
            used.add(v)
            return t
    raise RuntimeError('no value')


def instruction_forms(rng: random.Random, names: List[str]) -> list:
    """[(keyword, form, text line)] — every keyword in every prefix form, values distinct and non-default.
    `names` are atom names that exist in the file (restraints refer to them)."""
    out = []
    for kw, kinds in NUMERIC_SYNTAX:
        for k in range(MIN_PARAMS.get(kw, 0), len(kinds) + 1):
            used = set()
            toks = [rnd_num(rng, kinds[j], used) for j in range(k)]
            out.append((kw, f'num{k}', ' '.join([kw] + toks)))
    out.append(('ACTA', 'nohkl', 'ACTA NOHKL'))
    out.append(('ACTA', 'num1+nohkl', f'ACTA {rnd_num(rng, "n", set())} NOHKL'))
    for kw, kinds, natoms, pairs in ATOMLIST_SYNTAX:
        for k in range(MIN_PARAMS.get(kw, 0) if kinds else 0, len(kinds) + 1):
            used = set()
            toks = [rnd_num(rng, kinds[j], used) for j in range(k)]
            n = natoms + (rng.choice([0, 2, 4]) if names and len(names) >= natoms + 4 else 0)
            pool = list(names) if len(names) >= n else [f'C{i + 1}' for i in range(n)]
            at = rng.sample(pool, n)
            suffix = ''
            if kw not in ('ANIS', 'BIND', 'BLOC', 'BOND', 'CONF', 'CONN', 'FREE', 'HFIX', 'HTAB', 'MPLA', 'RTAB',
                          'OMIT') and rng.random() < 0.25:
                suffix = rng.choice(['_TOL', '_2', '_*'])
            out.append((kw, f'num{k}+atoms', ' '.join([kw + suffix] + toks + at)))
    out.append(('CONF', 'atoms+num2', 'CONF ' + ' '.join((names + ['C1', 'C2', 'C3', 'C4'])[:4]) + ' 1.7 155'))
    out.append(('HFIX', 'mn+U+d', 'HFIX 43 -1.3 0.96 ' + (names[0] if names else 'C1')))
    out.append(('BOND', '$H', 'BOND $H'))
    out.append(('OMIT', 'hkl', 'OMIT 3 -4 5'))
    out.append(('EQIV', 'op', 'EQIV $1 -x+1, y+1/2, -z+3/2'))
    out.append(('RTAB', 'eqiv', 'RTAB Dist ' + (names[0] if names else 'C1') + ' ' + (names[-1] if names else 'C2') + '_$1'))
    out.append(('TWIN', 'bare', 'TWIN'))
    out.append(('TWIN', 'matrix', 'TWIN 0 1 0 1 0 0 0 0 -1'))
    out.append(('TWIN', 'matrix+n', 'TWIN 0 1 0 1 0 0 0 0 -1 -4'))
    out.append(('LAUE', 'E', 'LAUE Fe'))
    out.append(('NEUT', 'bare', 'NEUT'))
    out.append(('REM', 'text', 'REM R1 is 0.0345 for 1234 data, text  with   blanks'))
    out.append(('HOPE', 'bare', 'HOPE'))
    out.append(('SADI', 'bare', 'SADI'))
    out.append(('TEMP', 'esd', 'TEMP -173.15'))
    return out


def long_instructions(rng: random.Random, n: int) -> list:
    """atom-list instructions whose text is 60..260 characters long: around the column where the writer has to wrap
    (79/80) and beyond two physical lines"""
    out = []
    for _ in range(n):
        kw = rng.choice(['SADI', 'SIMU', 'DELU', 'RIGU', 'FLAT', 'EADP', 'EXYZ', 'SAME', 'ISOR', 'OMIT', 'BOND', 'CONF',
                         'MPLA 4', 'DFIX 1.54', 'DANG 2.51', 'RTAB Ring', 'HFIX 43', 'BLOC 1 2', 'CHIV'])
        target = rng.choice([rng.randint(60, 100), rng.randint(72, 84), rng.randint(150, 260)])
        toks = [kw]
        ln = kw
        while len(ln) < target or (len(toks) - 1) % 2:
            t = rng.choice(['C', 'N', 'O', 'Cl', 'Fe']) + str(rng.randint(1, 99)) + rng.choice(['', '', 'A', "'", '_2', '_12'])
            toks.append(t)
            ln = ' '.join(toks)
        out.append((kw.split()[0], 'long', ln))
    return out


def hklf_forms(rng: random.Random) -> list:
    m = '0 1 0 -1 0 0 0 0 1'
    return [('HKLF', 'N', 'HKLF 4'), ('HKLF', 'N S', 'HKLF 5 0.5'), ('HKLF', 'N S matrix', f'HKLF 4 0.7 {m}'),
            ('HKLF', 'N S matrix sm', f'HKLF 4 0.7 {m} 1.5'), ('HKLF', 'N S matrix sm m', f'HKLF 4 0.7 {m} 1.5 3'),
            ('HKLF', 'bare', 'HKLF')]


def wrap_legal(rng: random.Random, line: str, width: int = 79) -> List[str]:
    """legal SHELXL wrapping: break between two tokens, ' =' ends the physical line, the continuation starts
    with blanks. Lines longer than `width` are always wrapped; shorter ones sometimes."""
    toks = line.split()
    if len(toks) < 4 or line.upper().startswith(('TITL', 'REM')):
        return [line]
    if len(line) <= width and rng.random() > 0.15:
        return [line]
    out = []
    cur = toks[0]
    first = True
    limit = rng.choice([40, 60, 76]) if len(line) <= width else 76
    for t in toks[1:]:
        if len(cur) + 1 + len(t) > limit and not first:
            out.append(cur + ' =')
            cur = ' ' * rng.choice([1, 3, 5]) + t
        else:
            cur += ' ' * rng.choice([1, 1, 2]) + t
        first = False
    out.append(cur)
    return out

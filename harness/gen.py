"""
Grammar-directed generators shared by the checks (DESIGN.md 3.2/1). Every random choice comes from the
`random.Random` handed in (ctx.rng), so a run replays from VERIF_SEED.

The central object is a *by-construction description* of a SHELXL file (`FileSpec`): the generator decides
the content first (cell, symmetry, SFAC, FVAR, atoms with their context ...) and only then renders text,
so every check has the expected model without reading it back from the code under test.
"""
from __future__ import annotations

import random
from dataclasses import dataclass, field
from typing import List, Optional

ELEMENTS = ['C', 'H', 'N', 'O', 'F', 'Si', 'P', 'S', 'Cl', 'Br', 'Fe', 'Cu', 'Al', 'Na', 'B', 'I', 'Zn', 'Se']


def fmt(x: float, nd: int = 6) -> str:
    return f'{x:.{nd}f}'


@dataclass
class AtomSpec:
    name: str
    sfac: int                      # 1-based SFAC number
    xyz: tuple
    sof: float                     # the code written in the atom's own column
    u: tuple                       # 1 or 6 values
    part: int = 0
    part_sof: Optional[float] = None
    afix: int = 0
    resi_num: int = 0
    resi_class: str = ''
    qpeak: bool = False

    def line(self) -> str:
        us = '  '.join(fmt(v, 5) for v in self.u)
        return f'{self.name:<5}{self.sfac:>2}  {fmt(self.xyz[0])}  {fmt(self.xyz[1])}  {fmt(self.xyz[2])}  {fmt(self.sof, 5)}  {us}'


@dataclass
class FileSpec:
    titl: str = 'verif in P1'
    cell: tuple = (0.71073, 10.0, 11.0, 12.0, 90.0, 95.0, 90.0)
    zerr: tuple = (4, 0.001, 0.001, 0.001, 0.0, 0.01, 0.0)
    latt: int = -1
    symm: List[str] = field(default_factory=list)
    sfac: List[str] = field(default_factory=lambda: ['C', 'H', 'O'])
    unit: List[float] = field(default_factory=lambda: [8, 16, 4])
    header: List[str] = field(default_factory=list)      # instruction lines between UNIT and FVAR
    fvars: List[float] = field(default_factory=lambda: [0.5])     # including the overall scale factor
    body: List[object] = field(default_factory=list)    # AtomSpec or raw instruction strings, in order
    hklf: str = 'HKLF 4'
    tail: List[object] = field(default_factory=list)     # after END (WGHT suggestion, Q-peaks ...)
    fvar_per_line: int = 7

    def lines(self) -> List[str]:
        out = [f'TITL {self.titl}',
               'CELL ' + ' '.join(str(v) for v in self.cell),
               'ZERR ' + ' '.join(str(v) for v in self.zerr),
               f'LATT {self.latt}']
        out += [f'SYMM {s}' for s in self.symm]
        out.append('SFAC ' + ' '.join(self.sfac))
        out.append('UNIT ' + ' '.join(f'{v:g}' for v in self.unit))
        out += self.header
        fv = [fmt(v, 5) for v in self.fvars]
        for i in range(0, len(fv), self.fvar_per_line):
            out.append('FVAR ' + ' '.join(fv[i:i + self.fvar_per_line]))
        for b in self.body:
            out.append(b.line() if isinstance(b, AtomSpec) else str(b))
        if self.hklf:
            out.append(self.hklf)
        out.append('END')
        for b in self.tail:
            out.append(b.line() if isinstance(b, AtomSpec) else str(b))
        return out

    def text(self) -> str:
        return '\n'.join(self.lines()) + '\n'

    @property
    def atoms(self) -> List[AtomSpec]:
        return [b for b in list(self.body) + list(self.tail) if isinstance(b, AtomSpec)]


def rand_cell(rng: random.Random):
    kind = rng.choice(['tric', 'mono', 'ortho', 'hex', 'cubic', 'tric'])
    a, b, c = (round(rng.uniform(4, 30), 3) for _ in range(3))
    if kind == 'tric':
        al, be, ga = (round(rng.uniform(70, 110), 2) for _ in range(3))
    elif kind == 'mono':
        al, be, ga = 90.0, round(rng.uniform(91, 120), 2), 90.0
    elif kind == 'ortho':
        al = be = ga = 90.0
    elif kind == 'hex':
        b = a
        al, be, ga = 90.0, 90.0, 120.0
    else:
        b = c = a
        al = be = ga = 90.0
    return (rng.choice([0.71073, 1.54178, 0.56086]), a, b, c, al, be, ga)


def atom_name(rng: random.Random, el: str, used: set) -> str:
    for _ in range(100):
        n = el.upper() + str(rng.randint(1, 99)) + rng.choice(['', '', 'A', 'B'])
        n = n[:4]
        if n not in used:
            used.add(n)
            return n
    raise RuntimeError('no free atom name')

"""
C03 — every atom carries exactly the attributes the SHELXL rules assign to it.

A *case* is a by-construction description of a file: SFAC list (any order, any case), a list of items
(PART / AFIX / RESI instructions in their syntactic forms, atoms, FRAG…FEND blocks, '+file' includes, HKLF,
END, harmless other lines) and the content of the include files. From the case the harness derives
  * the text (written to a temporary directory when include files are involved, else read_string),
  * the abstracted line list the Lean driver gets (`Line` of ShelxModel/C03.lean),
  * its own expected atom list (`expected`, a forward pass that knows the context of every atom it emits).
Streams (DESIGN 3.2):
  atoms   Shelxfile.atoms read AFTER parsing: (name, sfac_num, element, xyz, sof, uvals, part.n, afix.mn,
          resinum, resiclass, qpeak) vs spec `specAtoms` (theorem atoms_match_spec) and vs model `observe ∘ run`
  views   hydrogen_atoms, riding_atoms, q_peaks, residues, atoms_in_class, n_anisotropic/n_isotropic
          vs the filters of the same atom list (theorem derived_views)
  resi    RESI(...) decoding of class / number / alias / chain in either order vs `resiSpec` / `resiDecode`
  include _find_included_files + parse: the spliced line order vs `spliceSpec` / `splice`
Only what the property names is observed. `afix` is observed as 0 for an atom that has no AFIX object at all.

Forms. Every instruction the atom rules depend on is written in every prefix of its optional parameters
(`FRAG code[17] a[1] b[1] c[1] al[90] be[90] ga[90]`: 0..7 parameters; `HKLF n[0] s[1] r11..r33 sm[1] m[0]`: bare to 13
parameters; `AFIX mn d[#] sof[11] U[10.08]`; `PART n sof[11]`; `RESI class[ ] number[0] alias`, bare `RESI` = back to
residue 0; atom lines `name sfac x y z sof[11] U[0.05] ...` with 5, 6, 7 or 12 columns) — `form_cases` enumerates them
systematically (quick tier, first), the random stream mixes them. The driver is told how many parameters FRAG and
HKLF carry (`Line.frag np`, `Line.hklf np`: theorems `truthiness_needed_frag/_hklf`).
Configurations: the file is read by a quiet (default), verbose or debug `Shelxfile` (`case['cfg']`); what the library
prints is not looked at.
Atoms need not be pairwise distinct: names are unique only within a residue / PART. `twin_cases` (systematic) and
`rand_twins` (random stream) repeat a molecule in further residues / PARTs with the same names, the same names and
positions, or the very same lines (theorems one_entry_per_atom_line, eq_guard_fails_on).
"""
import contextlib
import io
import itertools
import multiprocessing
import os
import shutil
import zlib
import tempfile
from pathlib import Path

from .. import core, gen

HEADER = ['TITL verif C03', 'CELL 0.71073 10.5 11.25 12.75 90 95.5 90', 'ZERR 4 0.001 0.001 0.001 0 0.01 0', 'LATT -1']
OTHERS = ['REM a remark', 'BOND $H', 'MOLE 1', '', 'WGHT 0.05 0.1', 'CONF', 'HTAB', 'REM PART 5 is only a remark',
          'SIMU 0.04 0.08 1.7', 'RIGU']
CLASSES = ['TOL', 'CCF3', 'BNZ', 'X', '4BZ', 'Thf']


# ------------------------------------------------------------------------------------------------
# rendering

def f5(x):
    return f'{x:.5f}'


EXPLICIT = '13.338 3.5828 7.1676 0.247 5.6158 11.3966 1.6735 64.8126 1.191 0.3201 1.2651 47.3486 1.28 63.546'.split()
HKLF_FORMS = ['HKLF 4', 'HKLF 5', 'HKLF 4 1 1 0 0 0 1 0 0 0 1', 'HKLF 3', 'HKLF 4 1',
              # (appended: indices of older replays stay valid) every prefix class of `HKLF n[0] s[1] r11..r33 sm[1] m[0]`
              'HKLF', 'HKLF 4 1 0 1 0 1 0 0 0 0 -1 1', 'HKLF 4 1 1 0 0 0 1 0 0 0 1 1 0', 'HKLF 0', 'HKLF 2 0.5']
FRAG_CELLS = ['1 1 1 90 90 90', '10.5 11.25 12.75 90 95.5 90']


def hklf_form(it):
    return HKLF_FORMS[it[1]] if len(it) > 1 else 'HKLF 4'


def frag_np(it):
    """how many of FRAG's seven parameters are written (items of older replays: all seven)"""
    return it[3] if len(it) > 3 else 7


def resi_cls(it):
    return '' if it[3] in ('n', 'bare') else it[1]


def resi_num(it):
    return 0 if it[3] in ('c', 'bare') else it[2]


def pick(it, n, salt=0):
    """a deterministic choice 0..n-1 that depends on the item only (stable under shrinking)"""
    return zlib.crc32((repr(it) + str(salt)).encode()) % n


def kw(word, it, st):
    """keywords are case-insensitive"""
    if not st or not st.get('kw'):
        return word
    if st['kw'] in ('lower', 'title'):       # forced (systematic enumeration)
        return word.lower() if st['kw'] == 'lower' else word.capitalize()
    return [word, word.lower(), word.capitalize(), word][pick(it, 4, 1)]


def num(x, it, st, salt=0):
    """the same number in another legal spelling (5 decimals / shortest / exponent)"""
    if not st or not st.get('num'):
        return f5(x)
    v = float(f5(x))
    return [f5(v), f'{v:g}' if float(f'{v:g}') == v else f5(v), f'{v:.6e}'][pick(it, 3, 2 + salt)]


def cmt(line, it, st):
    if st and st.get('cmt') and pick(it, 4, 3) == 0:
        return line + '  ! remark 7 on ' + line.split()[0].lower()
    return line


def atom_text(it, st=None):
    """['atom', name, sfac, [x,y,z], sof, [u…], wrap] -> one or two physical lines"""
    _, name, sfac, xyz, sof, u, wrap = it
    head = f'{name:<5}{sfac:>2}  ' + '  '.join(f'{v:.6f}' for v in xyz)
    if sof is None:       # name sfac x y z: sof[11] and U[0.05] omitted
        if u:
            raise RuntimeError('harness: an atom line without sof cannot carry U values')
        return [cmt(head, it, st)]
    head += f'  {num(sof, it, st)}'
    if not u:             # name sfac x y z sof
        return [cmt(head, it, st)]
    us = [num(v, it, st, 1 + j) for j, v in enumerate(u)]
    if wrap and len(us) == 6:
        return [head + '  ' + '  '.join(us[:2]) + ' =', '     ' + '  '.join(us[2:])]
    return [cmt(head + '  ' + '  '.join(us), it, st)]


def resi_tokens(it):
    """['resi', cls, num, form, alias, chain]"""
    _, cls, num_, form, alias, chain = it
    n = f'{chain}:{num_}' if chain else str(num_)
    toks = {'cn': [cls, n], 'nc': [n, cls], 'n': [n], 'c': [cls], 'cna': [cls, n, str(alias)], 'nca': [n, cls, str(alias)],
            'nac': [n, str(alias), cls], 'bare': []}[form]
    return toks


def item_text(it, st=None):
    k = it[0]
    if k == 'part':
        return [cmt(kw('PART', it, st) + ' ' + str(it[1]) + ('' if it[2] is None else ' ' + num(it[2], it, st)), it, st)]
    if k == 'afix':
        return [cmt(kw('AFIX', it, st) + ' ' + ' '.join(str(v) for v in it[1:]), it, st)]
    if k == 'resi':
        return [cmt(' '.join([kw('RESI', it, st)] + resi_tokens(it)), it, st)]
    if k == 'atom':
        return atom_text(it, st)
    if k == 'frag':
        # ['frag', code, names, np, variant]: np of the seven parameters written; variant 1 = a block as DSR writes it
        # (real cell, Cartesian coordinates beyond 0..1 and negative, lines with sof and U, a remark and a blank line)
        variant = it[4] if len(it) > 4 else 0
        params = ([str(it[1])] + FRAG_CELLS[variant % 2].split())[:frag_np(it)]
        out = [cmt(' '.join([kw('FRAG', it, st)] + params), it, st)]
        for ln in frag_lines(it):
            out.append(ln[1])
        return out + [kw('FEND', it, st)]
    if k == 'hklf':
        return [cmt(kw('HKLF', it, st) + hklf_form(it)[4:], it, st)]
    if k == 'end':
        return [cmt(kw('END', it, st), it, st)]
    if k == 'other':
        return [it[1]]
    if k == 'inc':
        return ['+' + it[1]]
    raise ValueError(k)


def frag_lines(it):
    """the lines between FRAG and FEND: [(kind, text, sfac, sof, [u])…], kind 'atom' | 'other'"""
    variant = it[4] if len(it) > 4 else 0
    out = []
    for j, nm in enumerate(it[2]):
        if variant == 0:
            out.append(('atom', f'{nm:<5}{1:>2}  {0.1 + 0.11 * j:.5f}  {0.2 + 0.07 * j:.5f}  {0.3 - 0.05 * j:.5f}', 1, 11.0, []))
        else:
            xyz = f'{1.2 - 1.1 * j:.5f}  {-0.7 * j:.5f}  {2.35 - 0.9 * j:.5f}'
            sf = 1
            if j % 2:
                out.append(('atom', f'{nm:<5}{sf:>2}  {xyz}  11.00000  0.05000', sf, 11.0, [0.05]))
                out.append(('other', 'REM inside the fragment', None, None, None))
            else:
                out.append(('atom', f'{nm:<5}{sf:>2}  {xyz}', sf, 11.0, []))
                if j:
                    out.append(('other', '', None, None, None))
    return out


def sfac_lines(case):
    """the SFAC instructions of the case: [['elems', [el…]] | ['explicit', el, wrap]…]; `case['sfac']` is the
    resulting table (scattering-factor number -> element) by construction"""
    return case.get('sfac_lines') or [['elems', list(case['sfac'])]]


def sfac_text(case):
    st = case.get('style')
    out = []
    for ins in sfac_lines(case):
        word = kw('SFAC', ins, st)
        if ins[0] == 'elems':
            out.append(word + ' ' + ' '.join(ins[1]))
        elif len(ins) > 2 and ins[2]:
            out += [word + ' ' + ins[1] + ' ' + ' '.join(EXPLICIT[:9]) + ' =', '  ' + ' '.join(EXPLICIT[9:])]
        else:
            out.append(word + ' ' + ins[1] + ' ' + ' '.join(EXPLICIT))
    return out


def file_text(case, items, main):
    out = []
    st = case.get('style')
    if main:
        flat = [e for ins in sfac_lines(case) for e in (ins[1] if ins[0] == 'elems' else [ins[1]])]
        if flat != list(case['sfac']):
            raise RuntimeError(f'harness: sfac_lines {sfac_lines(case)} do not spell the table {case["sfac"]}')
        out += HEADER + sfac_text(case) + ['UNIT ' + ' '.join('8' for _ in case['sfac']), 'FVAR 0.5 0.6 0.7 0.4']
    for it in items:
        out += item_text(it, st)
    return '\n'.join(out) + '\n' if out else ''


# ------------------------------------------------------------------------------------------------
# abstraction + expected (by construction)

def expand(case):
    """main items with every include replaced by [inc-line] + content (recursively) — how SHELXL reads it"""
    def go(items, depth):
        for it in items:
            yield it
            if it[0] == 'inc' and depth < 8:
                yield from go(case.get('includes', {}).get(it[1], []), depth + 1)
    return list(go(case['body'], 0))


def abstract(case):
    """-> (lines for the driver, info per tag)"""
    lines = []
    info = []
    for it in expand(case):
        k = it[0]
        if k == 'part':
            lines.append(['part', it[1], 11.0 if it[2] is None else float(f5(it[2]))])
        elif k == 'afix':
            lines.append(['afix', it[1]])
        elif k == 'resi':
            lines.append(['resi', resi_cls(it), resi_num(it)])
        elif k == 'atom':
            lines.append(['atom', len(info), it[2], 11.0 if it[4] is None else float(f5(it[4])), [float(f5(v)) for v in it[5]]])
            info.append(dict(name=it[1], xyz=[float(f'{v:.6f}') for v in it[3]], no_u=not it[5]))
        elif k == 'frag':
            lines.append(['frag', frag_np(it)])
            names = iter(it[2])
            for kind, _, sf, sof, u in frag_lines(it):
                if kind == 'atom':
                    lines.append(['atom', len(info), sf, sof, u])
                    info.append(dict(name=next(names), xyz=None))
                else:
                    lines.append(['other'])
            lines.append(['fend'])
        elif k == 'hklf':
            lines.append(['hklf', len(hklf_form(it).split()) - 1])
        elif k == 'end':
            lines.append([k])
        else:
            lines.append(['other'])
    return lines, info


def expected(case):
    """the generator's own statement of what every atom is (forward pass that knows each atom's context)"""
    part, psof, afix, rnum, rcls, after = 0, 11.0, 0, 0, '', False
    out = []
    tag = 0
    for it in expand(case):
        k = it[0]
        if k == 'part':
            part, psof = it[1], (11.0 if it[2] is None else float(f5(it[2])))
        elif k == 'afix':
            afix = it[1]
        elif k == 'resi':
            rcls, rnum = resi_cls(it), resi_num(it)
        elif k in ('hklf', 'end'):
            part, psof, afix, rnum, rcls, after = 0, 11.0, 0, 0, '', True
        elif k == 'frag':
            tag += len(it[2])
        elif k == 'atom':
            u = [float(f5(v)) for v in it[5]]
            out.append(dict(tag=tag, sfac=it[2], sof=psof if psof != 11.0 else (11.0 if it[4] is None else float(f5(it[4]))), u=u + [0.0] * (6 - len(u)),
                            part=part, afix=afix, rnum=rnum, rcls=rcls, q=after))
            tag += 1
    return out


# ------------------------------------------------------------------------------------------------
# implementation side

# where the files of a case are written: memory-backed if the machine has it (sixteen workers creating and removing a
# directory per case serialise on the journal of a disk file system)
SCRATCH = '/dev/shm' if os.path.isdir('/dev/shm') and os.access('/dev/shm', os.W_OK) else None

def afix_of(a):
    af = a.afix
    if af is None:
        return 0
    return af.mn or 0


def write_files(case, d, pad=False):
    """`pad`: a debug-mode Shelxfile leaves the interpreter (sys.exit) in read_file() when the file has fewer than 20
    lines ("Not a SHELXL file"); that strictness is not C03's subject, so such files get remarks in front of the body"""
    d.mkdir(parents=True, exist_ok=True)
    for name, items in case.get('includes', {}).items():
        (d / name).write_text(file_text(case, items, False))
    main = d / 'main.res'
    text = file_text(case, case['body'], True)
    n = len(text.splitlines())
    if pad and n < 24:
        head = len(HEADER) + len(sfac_text(case)) + 2
        lines = text.splitlines()
        text = '\n'.join(lines[:head] + [f'REM padding {i}' for i in range(24 - n)] + lines[head:]) + '\n'
    main.write_text(text)
    return main


def needs_disk(case):
    return bool(case.get('includes')) or case.get('mode') == 'file'


def new_shx(cfg=None):
    """a Shelxfile in one of its three configurations (quiet is the default)"""
    from shelxfile import Shelxfile
    if cfg == 'debug':
        return Shelxfile(debug=True)
    if cfg == 'verbose':
        return Shelxfile(verbose=True)
    return Shelxfile()


def do_read(shx, case, d):
    """one read through the public API; -> error text or None. What the library prints is swallowed."""
    try:
        with contextlib.redirect_stdout(io.StringIO()):
            if needs_disk(case):
                shx.read_file(write_files(case, d, pad=shx.debug))
            else:
                shx.read_string(file_text(case, case['body'], True))
    except (Exception, SystemExit) as e:
        return f'{"read_file" if needs_disk(case) else "read_string"} raised {type(e).__name__}'
    return None


def read_obs(shx, case, with_order):
    """everything C03 observes, read AFTER the parse finished"""
    atoms = []
    for a in shx.atoms:
        try:
            atoms.append(dict(name=a.name, sfac=a.sfac_num, el=a.element, xyz=[a.x, a.y, a.z], sof=a.sof, u=list(a.uvals),
                              part=a.part.n, afix=afix_of(a), rnum=a.resinum, rcls=a.resiclass, q=bool(a.qpeak)))
        except Exception as e:
            atoms.append(dict(name=getattr(a, 'name', '?'), error=type(e).__name__))
    views = {}
    at = shx.atoms
    for key, fn in [('hydrogens', lambda: [x.name for x in at.hydrogen_atoms]), ('qpeaks', lambda: [x.name for x in at.q_peaks]),
                    ('riding', lambda: [x.name for x in at.riding_atoms]), ('residues', lambda: sorted(at.residues)),
                    ('n_aniso', lambda: at.n_anisotropic_atoms), ('n_iso', lambda: at.n_isotropic_atoms),
                    ('in_class', lambda: [list(at.atoms_in_class(c)) for c in case_classes(case)])]:
        try:
            views[key] = fn()
        except Exception as e:
            views[key] = f'raise {type(e).__name__}'
    order = None
    if with_order:
        # the instruction sequence the parser ended up with (include lines, blank and continuation lines skipped)
        order = []
        for x in shx._reslist:
            try:
                s_ = str(x)
            except Exception:   # printing an object is not what C03 is about (e.g. SFAC table with an element twice)
                s_ = type(x).__name__.upper().replace('TABLE', '')
            if not s_.strip() or s_.startswith('+') or (isinstance(x, str) and x.startswith(' ')) or s_.startswith('REM padding'):
                continue
            order.append(s_.split()[0].upper())
    return dict(atoms=atoms, views=views, order=order)


def observe_impl(case):
    """Runs the read history of the case and observes the atoms of the LAST read.
    case['history'] = [{'on': 'same' | 'other', 'file': <file case>}…]: earlier reads, on the same Shelxfile object
    (read_string / read_file re-initialise it) or on another object (module/class level state); after each of them
    every observable is queried once, so that whatever the library caches is filled. case['final'] == 'reload': the
    last file replaces the previous one on disk and is read with reload()."""
    shx = new_shx(case.get('cfg'))
    hist = case.get('history') or []
    reload_ = case.get('final') == 'reload'
    tmp = None
    try:
        if needs_disk(case) or reload_ or any(needs_disk(s['file']) for s in hist):
            tmp = Path(tempfile.mkdtemp(prefix='verif_c03_', dir=SCRATCH))
        for i, step in enumerate(hist):
            obj = shx if step['on'] == 'same' else new_shx(step['file'].get('cfg'))
            if do_read(obj, step['file'], tmp / f'h{i}' if tmp else None) is None:
                read_obs(obj, step['file'], False)
        if reload_:
            first = hist[-1]['file'] if hist else dict(sfac=['C'], body=[['hklf'], ['end']])
            d = tmp / 'reload'
            try:
                with contextlib.redirect_stdout(io.StringIO()):
                    shx.read_file(write_files(first, d, pad=shx.debug))
                    read_obs(shx, first, False)
                    for f in d.iterdir():
                        f.unlink()
                    write_files(case, d, pad=shx.debug)
                    shx.reload()
            except (Exception, SystemExit) as e:
                return dict(error=f'reload raised {type(e).__name__}')
        else:
            err = do_read(shx, case, tmp / 'final' if tmp else None)
            if err:
                return dict(error=err)
        return read_obs(shx, case, tmp is not None and bool(case.get('includes')))
    finally:
        if tmp is not None:
            shutil.rmtree(tmp, ignore_errors=True)


def case_classes(case):
    cl = []
    for it in expand(case):
        if it[0] == 'resi' and it[3] not in ('n', 'bare') and it[1] not in cl:
            cl.append(it[1])
    return cl + ['']


# ------------------------------------------------------------------------------------------------
# comparison

ATTRS = ['sfac', 'el', 'sof', 'u', 'part', 'afix', 'rnum', 'rcls', 'q']


def same(attr, got, want):
    if attr in ('sof',):
        return core.close(got, want, 1e-9, 1e-9)
    if attr == 'u':
        return len(got) == len(want) and all(core.close(g, w, 1e-9, 1e-9) for g, w in zip(got, want))
    return got == want


def features(case):
    f = set()
    ex = expand(case)
    sl = sfac_lines(case)
    if len(sl) > 1:
        f.add('sfac-several-instructions')
    if any(ins[0] == 'explicit' for ins in sl):
        f.add('sfac-explicit')
    if case.get('history') or case.get('final') == 'reload':
        f.add('after-earlier-read')
    if case.get('style'):
        f.add('style:' + '+'.join(k for k, v in sorted(case['style'].items()) if v))
    if case.get('cfg'):
        f.add('cfg:' + case['cfg'])
    texts, names_ = set(), set()
    for it in ex:
        if it[0] == 'atom':
            t = ' '.join(atom_text(it)).split()
            t = (t[0].upper(),) + tuple(float(v) for v in t[1:] if v != '=')
            if t in texts:
                f.add('same-text-atoms')
            elif it[1].upper() in names_:
                f.add('same-name-atoms')
            texts.add(t)
            names_.add(it[1].upper())
    opened = dict(part=False, afix=False, resi=False)
    seen_barrier = False
    for it in ex:
        k = it[0]
        if k == 'part':
            opened['part'] = it[1] != 0
        elif k == 'afix':
            opened['afix'] = it[1] != 0
        elif k == 'resi':
            opened['resi'] = not (resi_num(it) == 0 and resi_cls(it) == '')
            if it[3] == 'bare':
                f.add('resi-bare')
        elif k in ('hklf', 'end') and not seen_barrier:
            seen_barrier = True
            for kk, v in opened.items():
                if v:
                    f.add(f'{kk}-open-at-hklf')
            if k == 'hklf':
                f.add(f'hklf-params={len(hklf_form(it).split()) - 1}')
        elif k == 'frag':
            f.add('frag')
            f.add(f'frag-params={frag_np(it)}')
        elif k == 'inc':
            f.add('include')
        elif k == 'atom':
            if seen_barrier:
                f.add('peaks')
            if len(it[5]) == 6:
                f.add('aniso')
            if not it[5]:
                f.add('atom-5-columns' if it[4] is None else 'atom-6-columns')
    return f


def compare_atoms(case, info, impl_atoms, ref, el_key):
    """-> list of (attr, where, message); ref = list of obs dicts (spec or model), in order"""
    diffs = []
    names = [a.get('name') for a in impl_atoms]
    want_names = [info[o['tag']]['name'] for o in ref]
    if names != want_names:
        return [('atomlist', 'list', f'atom list {names} but the file has the atom lines {want_names}')]
    for a, o in zip(impl_atoms, ref):
        pos = 'after-hklf' if o['q'] else 'before-hklf'
        if 'error' in a:
            diffs.append(('raise', pos, f'reading the attributes of {a["name"]} raised {a["error"]}'))
            continue
        xyz = info[o['tag']]['xyz']
        if not all(core.close(g, w, 1e-9, 1e-9) for g, w in zip(a['xyz'], xyz)):
            diffs.append(('xyz', pos, f'{a["name"]}: coordinates {a["xyz"]}, line says {xyz}'))
        for attr in ATTRS:
            if attr == 'u' and el_key == 'el_spec' and info[o['tag']].get('no_u'):
                continue    # no displacement value on the line: the property does not say what the atom then carries
            want = o[el_key] if attr == 'el' else o[attr]
            if attr == 'el' and want is not None:
                want = want.capitalize()
            if attr in ('sof',):
                want = float(want)
            if attr == 'u':
                want = [float(v) for v in want]
            if not same(attr, a[attr], want):
                diffs.append((attr, pos, f'{a["name"]}: {attr} = {a[attr]!r}, expected {want!r}'))
    return diffs


def first_by_name(names):
    """`atoms_in_class` lists NAMES, each once. The driver works on tags (one per atom line, standing for name and
    coordinates) and keeps the first occurrence of each tag; where several atom lines carry the same name (the same
    molecule in several residues) the step from tags to names is made here."""
    out = []
    for n in names:
        if n not in out:
            out.append(n)
    return out


def view_expect(case, info, ref):
    """the derived views as filters of the atom list `ref`"""
    nm = lambda o: info[o['tag']]['name']
    el = lambda o: (o['el_spec'] or '').capitalize()
    hyd = [o for o in ref if el(o) in ('H', 'D', 'T')]
    res = dict(hydrogens=[nm(o) for o in hyd], qpeaks=[nm(o) for o in ref if o['q']], riding=[nm(o) for o in hyd if o['afix'] > 0],
               residues=sorted({o['rnum'] for o in ref}),
               n_aniso=len([o for o in ref if not o['q'] and any(float(v) != 0 for v in o['u'][1:])]),
               n_iso=len([o for o in ref if not o['q'] and all(float(v) == 0 for v in o['u'][1:])]))
    inc = []
    for c in case_classes(case):
        l = []
        for o in ref:
            if o['rcls'] == c and nm(o) not in l:
                l.append(nm(o))
        inc.append(l)
    res['in_class'] = inc
    return res


def history_text(case):
    if not (case.get('history') or case.get('final') == 'reload'):
        return ''
    steps = [('same object' if s['on'] == 'same' else 'another object') + ' read [' + ' / '.join(sfac_text(s['file'])) + ' …]'
             for s in case.get('history', [])]
    return '   {after: ' + '; '.join(steps) + ('; last read by reload()' if case.get('final') == 'reload' else '') + '}'


def signature(case, attr, pos):
    feats = sorted(features(case))
    rel = [f for f in feats if (attr in ('part', 'sof') and f.startswith('part-open')) or (attr == 'afix' and f.startswith('afix-open'))
           or (attr in ('rnum', 'rcls') and f.startswith('resi-open')) or (attr == 'atomlist' and f in ('frag', 'include', 'same-text-atoms', 'same-name-atoms'))
           or (attr == 'q' and f.endswith('open-at-hklf')) or (attr == 'el' and f.startswith('sfac-'))
           or (attr == 'atomlist' and f.startswith('frag-params=')) or (attr == 'q' and f.startswith('hklf-params='))
           or f.startswith('cfg:')]
    if 'after-earlier-read' in feats:
        rel.append('after-earlier-read')
    return f'C03|{attr}|{pos}|' + ('+'.join(rel) if rel else 'plain')


def request(case, brief=False):
    """`brief`: the driver leaves out the model of the code before the fixes (only shown in failure payloads)"""
    lines, info = abstract(case)
    sl = [[ins[0], [e.capitalize() for e in ins[1]]] if ins[0] == 'elems' else ['explicit', ins[1].capitalize()] for ins in sfac_lines(case)]
    rq = dict(p='C03', op='file', lines=lines, sfac_lines=sl, classes=case_classes(case))
    if brief:
        rq['brief'] = True
    return rq, info


def check_impl(case):
    """implementation vs the generator's own expectation only (used while shrinking; no driver involved)"""
    lines, info = abstract(case)
    obs = observe_impl(case)
    if 'error' in obs:
        return [('raise', 'read', obs['error'])]
    exp = [dict(o, el=case['sfac'][o['sfac'] - 1] if 1 <= o['sfac'] <= len(case['sfac']) else None) for o in expected(case)]
    return compare_atoms(case, info, obs['atoms'], exp, 'el')


def py_valid(case):
    """the domain predicate `valid` of ShelxModel/C03.lean (cross-checked against the driver's answer in evaluate)"""
    hk = en = fr = False
    for it in expand(case):
        k = it[0]
        if k == 'hklf':
            hk = True
        elif k == 'end':
            en = True
        elif k == 'atom':
            u = [float(f5(v)) for v in it[5]] + [0.0] * 6
            if len(it[5]) > 6 or (hk and not en and not (abs(u[1]) > 0 and abs(u[2]) < 1e-6)):
                return False
    return True


def names_ok(case):
    """structure atoms are told apart by (name, residue number, PART): the minimised file must stay a valid one"""
    _, info = abstract(case)
    keys = [(info[o['tag']]['name'].upper(), o['rnum'], o['part']) for o in expected(case) if not o['q']]
    return len(keys) == len(set(keys))


def shrink(case, attr, pos, budget=120):
    """greedy one-item removal while a failure of the same attribute remains"""
    ok0 = names_ok(case)

    def fails(c):
        try:
            return py_valid(c) and (names_ok(c) or not ok0) and any(d[0] == attr for d in check_impl(c))
        except Exception:
            return False
    cur = case
    for simpler in (lambda c: {k: v for k, v in c.items() if k not in ('history', 'final')},
                    lambda c: dict(c, history=c['history'][-1:]) if len(c.get('history') or []) > 1 else c,
                    lambda c: {k: v for k, v in c.items() if k != 'style'},
                    lambda c: {k: v for k, v in c.items() if k != 'cfg'},
                    lambda c: {k: v for k, v in c.items() if k != 'mode'},
                    lambda c: {k: v for k, v in c.items() if k != 'sfac_lines'},
                    lambda c: dict(c, sfac_lines=[ins[:2] for ins in sfac_lines(c)])):
        c2 = simpler(cur)
        if c2 != cur and fails(c2):
            cur = c2
    changed = True
    while changed and budget > 0:
        changed = False
        for where in ['body'] + list(cur.get('includes', {})):
            items = cur['body'] if where == 'body' else cur['includes'][where]
            i = len(items) - 1
            while i >= 0 and budget > 0:
                budget -= 1
                new_items = items[:i] + items[i + 1:]
                c2 = dict(cur)
                if where == 'body':
                    c2['body'] = new_items
                else:
                    c2['includes'] = dict(cur['includes'], **{where: new_items})
                if fails(c2):
                    cur, items, changed = c2, new_items, True
                i -= 1
    return cur


def report(ctx, sig, what, payload, kind='property'):
    """ctx.fail, except that a KNOWN finding is recorded at most three times per context: every file with a Q-peak
    reproduces the two recorded findings of the counts, and ctx.fail walks the whole list of failures on each call
    (two hundred thousand peaks files made the thorough tier quadratic — an hour instead of minutes)"""
    if sig in ctx.known:
        seen = ctx.__dict__.setdefault('_c03_known_seen', {})
        if seen.get(sig, 0) >= 3:
            return
        seen[sig] = seen.get(sig, 0) + 1
    ctx.fail(sig, what, payload, kind)


def evaluate(ctx, cases, stream=None):
    if stream == 'resi':
        return evaluate_resi(ctx, cases)
    ctx.stream('atoms')
    ctx.stream('views')
    reqs, infos = [], []
    for case in cases:
        r, info = request(case, brief=stream is None)
        reqs.append(r)
        infos.append(info)
    answers = ctx.driver.batch(reqs)
    seen_obs = {}
    for idx, (case, info, ans) in enumerate(zip(cases, infos, answers)):
        exp = expected(case)
        spec = ans['spec']
        # the generator's own expectation and the specification must agree (both are "the rule"); if they do not
        # the harness is wrong, not the code
        if ans['valid']:
            es = [(o['tag'], o['sfac'], float(o['sof']), [float(v) for v in o['u']], o['part'], o['afix'], o['rnum'], o['rcls'], o['q']) for o in spec]
            ee = [(o['tag'], o['sfac'], o['sof'], o['u'], o['part'], o['afix'], o['rnum'], o['rcls'], o['q']) for o in exp]
            if es != ee:
                raise RuntimeError(f'harness: by-construction expectation differs from the Lean specification for {case}: {ee} vs {es}')
            if ans['model'] != ans['spec'] or ans['model_views'] != ans['spec_views']:
                raise RuntimeError(f'harness: model differs from spec inside the theorem\'s domain for {case}')
        if ans['valid'] != py_valid(case):
            raise RuntimeError(f'harness: py_valid differs from the Lean predicate `valid` for {case}')
        feats = features(case)
        obs = observe_impl(case)
        if case.get('includes'):
            seen_obs[idx] = obs
        n_atoms = len(spec)
        ctx.count(['atoms', sfac_lines(case), case.get('style'), case['body'], case.get('includes'), case.get('history'), case.get('final'), case.get('cfg'), case.get('mode')], nontrivial=n_atoms > 0 and len(feats) > 0,
                  tags=['valid' if ans['valid'] else 'outside-domain', f'atoms={min(n_atoms, 10)}'] + sorted(feats),
                  sample=dict(stream='atoms', text=file_text(case, case['body'], True).splitlines()[6:18],
                              impl=[[a.get('name'), a.get('part'), a.get('afix'), a.get('rnum'), a.get('rcls'), a.get('sof'), a.get('q')]
                                    for a in obs.get('atoms', [])][:6]) if feats else None)
        if 'error' in obs:
            ctx.fail('C03|raise|read|' + ('+'.join(sorted(feats & {'frag', 'include'})) or 'plain'), f'{obs["error"]} on a valid file',
                     dict(case=case, stream='atoms', actual=obs, expected=spec))
            continue
        model = [m for m in ans['model'] if m is not None]
        done = set()
        if ans['valid']:
            for attr, pos, msg in compare_atoms(case, info, obs['atoms'], spec, 'el_spec'):
                if (attr, pos) in done:
                    continue
                done.add((attr, pos))
                small, sm_msg, sm_ans, sm_obs = case, msg, ans, obs
                pre = signature(case, attr, pos)
                memo = ctx.__dict__.setdefault('_c03_shrunk', {})     # class of failing files -> [times minimised, first signature]
                if stream is None and memo.get(pre, [0])[0] >= 3:
                    # the verdict on this class is settled: no further minimisation (a broken tree fails on hundreds of files)
                    ctx.fail(memo[pre][1], msg, dict(case=case, stream='atoms', expected=spec, actual=obs.get('atoms'), model=ans['model']))
                    continue
                if stream is None:      # not a replay: minimise, then describe the minimal file
                    small = shrink(case, attr, pos)
                    sm_req, sm_info = request(small)
                    sm_ans = ctx.driver.one(sm_req)
                    sm_obs = observe_impl(small)
                    sm_msg = next((m for a_, p_, m in compare_atoms(small, sm_info, sm_obs.get('atoms', []), sm_ans['spec'], 'el_spec') if a_ == attr), msg)
                if stream is None:
                    memo.setdefault(pre, [0, signature(small, attr, pos)])[0] += 1
                ctx.fail(signature(small, attr, pos), sm_msg + history_text(small) + '   [' + ('' if len(sfac_lines(small)) == 1 and sfac_lines(small)[0][0] == 'elems' else ' / '.join(sfac_text(small)) + ' ... ') + 'body: ' + ' / '.join(file_text(small, small['body'], False).splitlines()) + ']',
                         dict(case=small, stream='atoms', expected=sm_ans['spec'], actual=sm_obs.get('atoms'), model=sm_ans['model'],
                              model_of_code_before_fixes=sm_ans['before_fix']))
        for attr, pos, msg in compare_atoms(case, info, obs['atoms'], model, 'el'):
            if (attr, pos) in done:
                continue
            done.add((attr, pos))
            ctx.fail(signature(case, attr, pos) + '|model', 'implementation differs from the model: ' + msg,
                     dict(case=case, stream='atoms', expected=spec, actual=obs['atoms'], model=ans['model']), kind='correspondence')
        if done:
            continue
        # derived views ---------------------------------------------------------------------------
        if not ans['valid']:
            continue
        want = view_expect(case, info, spec)
        nm = lambda t: info[t]['name']
        def named(v):
            return dict(hydrogens=[nm(t) for t in v['hydrogens']], qpeaks=[nm(t) for t in v['qpeaks']], riding=[nm(t) for t in v['riding']],
                        residues=sorted(v['residues']), in_class=[first_by_name([nm(t) for t in l]) for l in v['in_class']])
        model_views = dict(named(ans['model_views']), n_aniso=ans['model_views']['n_aniso'], n_iso=ans['model_views']['n_iso'])
        spec_views = dict(named(ans['spec_views']), n_aniso=ans['spec_views']['n_aniso_spec'], n_iso=ans['spec_views']['n_iso_spec'])
        if spec_views != want:
            raise RuntimeError(f'harness: by-construction views differ from the Lean specification for {case}: {want} vs {spec_views}')
        ctx.count(['views', sfac_lines(case), case.get('style'), case['body'], case.get('includes')], nontrivial=bool(want['hydrogens'] or want['qpeaks'] or len(want['residues']) > 1),
                  tags=['views'])
        for key, w in want.items():
            got = obs['views'][key]
            qp = 'with-qpeaks' if want['qpeaks'] else 'no-qpeaks'
            if key == 'n_iso' and any(o['q'] and float(o['u'][1]) == 0 for o in spec):
                qp = 'with-zero-height-peaks'
            payload = dict(case=case, stream='views', expected=want, actual=obs['views'], model=model_views)
            if got != w:
                report(ctx, f'C03|view|{key}|{qp}', f'{key} = {got!r}, the atom list filtered by the rule gives {w!r}', payload)
            if got != model_views[key]:
                ctx.fail(f'C03|view|{key}|{qp}|model', f'{key} = {got!r}, model {model_views[key]!r}', payload, kind='correspondence')
    inc = [i for i, c in enumerate(cases) if c.get('includes')]
    evaluate_include(ctx, [cases[i] for i in inc], [seen_obs.get(i) for i in inc])


# ------------------------------------------------------------------------------------------------
# include splicing: order of lines

def evaluate_include(ctx, cases, observed=None):
    """the instruction sequence the parser ends up with (first word of every non-blank entry of the line list; the
    '+file' lines themselves and continuation lines are not looked at) against the spliced file"""
    if not cases:
        return
    ctx.stream('include')
    reqs, maps = [], []
    for case in cases:
        first = {}

        def items_of(items):
            out = []
            for it in items:
                if it[0] == 'inc':
                    out.append(['i', it[1]])
                else:
                    for ln in item_text(it, case.get('style')):
                        out.append(['l', len(first)])
                        first[len(first)] = None if (not ln.strip() or ln.startswith(' ')) else ln.split()[0].upper()
            return out
        body = items_of(case['body'])
        head = HEADER + [ln for ln in sfac_text(case)] + ['UNIT', 'FVAR']
        for i, ln in enumerate(head):
            first[10 ** 6 + i] = None if ln.startswith(' ') else ln.split()[0].upper()
        main = [['l', 10 ** 6 + i] for i in range(len(head))] + body
        fs = [dict(name=n, items=items_of(its)) for n, its in case['includes'].items()]
        reqs.append(dict(p='C03', op='splice', main=main, fs=fs))
        maps.append(first)
    answers = ctx.driver.batch(reqs)
    for k, (case, first, ans) in enumerate(zip(cases, maps, answers)):
        obs = observed[k] if observed and observed[k] is not None else observe_impl(case)
        ctx.count(['include', case['body'], case['includes']], nontrivial=True,
                  tags=['include', f'files={len(case["includes"])}', 'include-in-domain' if ans['in_domain'] else 'include-outside'])
        if 'error' in obs or obs.get('order') is None:
            continue  # reported by the atoms stream
        head_words = {'TITL', 'CELL', 'ZERR', 'LATT', 'SFAC', 'UNIT', 'FVAR'}   # several SFAC/FVAR lines may be kept as one object
        got = [w for w in obs['order'] if w not in head_words]
        words = lambda items: [first[x[1]] for x in items if x[0] == 'l' and first[x[1]] is not None and first[x[1]] not in head_words]
        spec = words(ans['spec'])
        model = None if ans['model'] is None else words(ans['model'])
        payload = dict(case=case, stream='atoms', expected=spec, actual=got, model=model)
        if ans['in_domain'] and got != spec:
            ctx.fail('C03|include|order', f'instructions after splicing {got}, SHELXL reads {spec}', payload)
        elif got != model:
            ctx.fail('C03|include|order|model', f'instructions after splicing {got}, model {model}', payload, kind='correspondence')


# ------------------------------------------------------------------------------------------------
# RESI decoding

def evaluate_resi(ctx, cases):
    from shelxfile import Shelxfile
    from shelxfile.shelx.cards import RESI
    ctx.stream('resi')
    answers = ctx.driver.batch([dict(p='C03', op='resi', toks=c['toks']) for c in cases])
    shx = Shelxfile()
    for case, ans in zip(cases, answers):
        try:
            r = RESI(shx, ['RESI'] + case['toks'])
            got = dict(cls=r.residue_class, num=r.residue_number, alias=r.alias, chain=r.chain_id)
        except Exception as e:
            got = f'raise {type(e).__name__}'
        ctx.count(['resi', case['toks']], nontrivial=len(case['toks']) > 1, tags=['resi', 'form-ok' if ans['form_ok'] else 'form-outside'],
                  sample=dict(stream='resi', toks=case['toks'], impl=got) if len(case['toks']) > 2 else None)
        form = '+'.join('w' if any(ch.isalpha() for ch in t) and ':' not in t else 'c' if ':' in t else 'n' for t in case['toks'])
        payload = dict(case=case, stream='resi', expected=ans['spec'], actual=got, model=ans['model'])
        if ans['form_ok'] and got != ans['spec']:
            ctx.fail(f'C03|resi|form={form}', f'RESI {" ".join(case["toks"])} decoded as {got}, the syntax says {ans["spec"]}', payload)
        elif got != ans['model']:
            ctx.fail(f'C03|resi|form={form}|model', f'RESI {" ".join(case["toks"])} decoded as {got}, model {ans["model"]}', payload, kind='correspondence')


# ------------------------------------------------------------------------------------------------
# generators

def rand_sof(rng):
    return rng.choice([11.0, 11.0, 10.5, 21.0, -21.0, 31.0, -31.0, 10.25, 20.5, 41.0, 1.0, 0.5, 30.75])


class Builder:
    def __init__(self, rng, sfac):
        self.rng = rng
        self.sfac = sfac
        self.used = set()
        self.k = 0
        self.after = False
        self.ended = False

    def name(self, el):
        return gen.atom_name(self.rng, el, self.used)

    def atom(self, hydrogen=None, name=None):
        """`name`: (name, sfac number) to use — the structure atom that carries the name of a FRAG line"""
        rng = self.rng
        self.k += 1
        k = self.k
        xyz = [round(0.013 * k % 1 + 0.001, 6), round(0.5 - 0.0071 * k, 6), round(0.029 * k % 0.9 + 0.05, 6)]
        hidx = [i for i, e in enumerate(self.sfac) if e.upper() in ('H', 'D')]
        if self.after:
            # after END a peak may carry the height 0.00 (only the END rule marks it); between HKLF and END that
            # would leave the domain `valid`
            height = 0.0 if self.ended and self.rng.random() < 0.15 else round(3.0 - 0.07 * k, 2)
            return ['atom', f'Q{k}', 1, xyz, 11.0, [0.05, height], False]
        if hydrogen is None:
            hydrogen = bool(hidx) and rng.random() < 0.3 and name is None
        if name is not None:
            r = rng.random()
            if r < 0.25:        # name sfac x y z
                return ['atom', name[0], name[1], xyz, None, [], False]
            if r < 0.4:         # name sfac x y z sof
                return ['atom', name[0], name[1], xyz, rand_sof(rng), [], False]
            return ['atom', name[0], name[1], xyz, rand_sof(rng) if rng.random() < 0.4 else 11.0, [round(0.02 + 0.0007 * k, 5)], False]
        if not hydrogen and rng.random() < 0.08:
            s = rng.choice([i for i in range(len(self.sfac)) if i not in hidx] or [0]) + 1
            short = rng.random() < 0.5
            return ['atom', self.name(self.sfac[s - 1]), s, xyz, None if short else rand_sof(rng), [], False]
        if hydrogen and hidx:
            s = rng.choice(hidx) + 1
            u = [rng.choice([-1.2, -1.5, 0.05 + 0.001 * k])]
        else:
            s = rng.choice([i for i in range(len(self.sfac)) if i not in hidx] or [0]) + 1
            if rng.random() < 0.5:
                u = [round(0.02 + 0.0007 * k, 5)]
            else:
                u = [round(0.02 + 0.001 * k, 5), round(0.03 + 0.0011 * k, 5), round(0.04 + 0.0013 * k, 5),
                     round(-0.002 - 0.0001 * k, 5), round(0.003 + 0.0001 * k, 5), round(-0.004 - 0.0002 * k, 5)]
        return ['atom', self.name(self.sfac[s - 1]), s, xyz, rand_sof(rng) if rng.random() < 0.4 else 11.0, u, rng.random() < 0.6]

    def context(self):
        rng = self.rng
        r = rng.random()
        if r < 0.35:
            n = rng.choice([1, 2, 3, -1, -2, 0, 0])
            return ['part', n, rng.choice([None, None, 21.0, -21.0, 31.0, 10.5, -31.0, 11.0]) if n != 0 else None]
        if r < 0.65:
            mn = rng.choice([43, 23, 137, 13, 66, 33, 147, 0, 0, 0])
            # AFIX mn d[#] sof[11] U[10.08]: every prefix (sof and U of AFIX are for generated hydrogens only)
            extra = [0.98, rng.choice([21.0, 10.5, 11.0, -31.0]), rng.choice([-1.2, 10.08, 0.05])][:rng.choice([0, 0, 0, 1, 2, 3])]
            return ['afix', mn] + (extra if mn else [])
        num = rng.choice([1, 2, 3, 7, 12, 250, 9999, 0, 0, -3])
        if num == 0 and rng.random() < 0.4:
            return ['resi', '', 0, 'bare', 0, None]
        form = rng.choice(['cn', 'nc', 'n', 'cn', 'nc', 'cna', 'nca', 'nac']) if num > 0 else rng.choice(['n', 'cn', 'nc'])
        chain = rng.choice(['A', 'b']) if num > 0 and form in ('cn', 'nc') and rng.random() < 0.15 else None
        return ['resi', rng.choice(CLASSES), num, form, rng.choice([5, 17, 301]), chain]


def make_case(rng):
    """a file, in a quarter of the cases read after one or two other files (same object / another object / reload)"""
    case = make_file(rng)
    if rng.random() < 0.25:
        hist = []
        for _ in range(rng.choice([1, 1, 2])):
            sf = None
            if len(case['sfac']) >= 2 and rng.random() < 0.6:     # the same elements in another order
                sf = list(case['sfac'])
                while sf == case['sfac'] and len(set(sf)) > 1:
                    rng.shuffle(sf)
            hist.append(dict(on=rng.choice(['same', 'same', 'same', 'other']), file=make_file(rng, sf, small=True)))
        case['history'] = hist
        if rng.random() < 0.3:
            case['final'] = 'reload'
    return case


def make_file(rng, sfac=None, small=False):
    if sfac is None:
        nel = rng.randint(1, 5)
        sfac = rng.sample(gen.ELEMENTS, nel)
        if rng.random() < 0.7 and 'H' not in sfac:
            sfac[rng.randrange(nel)] = rng.choice(['H', 'H', 'D'])
        sfac = [rng.choice([e, e.upper(), e.lower()]) for e in sfac]
        if nel >= 2 and rng.random() < 0.1:          # the same element twice (two scattering factors for one element)
            sfac[rng.randrange(1, nel)] = sfac[0]
    nel = len(sfac)
    b = Builder(rng, sfac)
    body = []
    includes = {}

    def block(n, depth=0):
        items = []
        for _ in range(n):
            r = rng.random()
            if r < 0.45:
                items.append(b.atom())
            elif r < 0.85:
                items.append(b.context())
            elif r < 0.9:
                items.append(['other', rng.choice(OTHERS)])
            elif r < 0.95 and not b.after:
                # FRAG code[17] a[1] b[1] c[1] al[90] be[90] ga[90] in every prefix; half of the blocks as DSR writes
                # them, followed by structure atoms that carry the names of the FRAG lines
                heavy = [i for i, e in enumerate(sfac) if e.upper() not in ('H', 'D')] or [0]
                targets = [rng.choice(heavy) for _ in range(rng.randint(1, 3))]
                names = [b.name(sfac[t]) for t in targets]
                items.append(['frag', rng.choice([17, 176]), names, rng.choice([0, 0, 1, 1, 2, 4, 7, 7, 3, 5, 6]), rng.randrange(2)])
                r2 = rng.random()
                if r2 < 0.4:
                    for nm, t in zip(names, targets):
                        items.append(b.atom(name=(nm, t + 1)))
                elif r2 < 0.8:
                    items.append(b.atom())
            elif depth < 2 and len(includes) < 3 and not b.after:
                name = f'inc{len(includes) + 1}.ins'
                includes[name] = None
                items.append(['inc', name])
                includes[name] = block(rng.randint(1, 5), depth + 1)
        return items

    body += block(rng.randint(2, 5 if small else 12))
    if rng.random() < 0.2:
        body += rand_twins(rng, body)
    closing = rng.random()
    if closing < 0.5:      # close everything before HKLF, as SHELXL writes it
        body += [['afix', 0], ['part', 0, None], ['resi', '', 0, rng.choice(['n', 'n', 'bare']), 0, None]][:rng.randint(0, 3)]
    if rng.random() < 0.9:
        body.append(['hklf'])
        b.after = True
        for _ in range(rng.choice([0, 0, 1, 2])):
            body.append(b.atom())
        if rng.random() < 0.03:
            # the point excluded by `valid`: an ordinary atom line (no peak height) between HKLF and END.
            # Only implementation vs model is compared there.
            b.after = False
            body.append(b.atom(hydrogen=False))
            b.after = True
        if rng.random() < 0.9:
            if rng.random() < 0.3:
                body.append(['other', 'REM between'])
            body.append(['end'])
            b.ended = True
            if rng.random() < 0.6:
                body.append(['other', 'WGHT 0.0411 0.3112'])
                for _ in range(rng.randint(0, 4)):
                    body.append(b.atom())
                    if rng.random() < 0.1:
                        body.append(b.context())
    case = dict(sfac=sfac, body=body)
    if rng.random() < 0.5:
        case['sfac_lines'] = rand_sfac_lines(rng, sfac)
    if rng.random() < 0.4:
        case['style'] = dict(kw=rng.random() < 0.6, num=rng.random() < 0.6, cmt=rng.random() < 0.5)
    for it in body:
        if it[0] == 'hklf' and rng.random() < 0.4:
            it.append(rng.randrange(len(HKLF_FORMS)))
    if includes:
        case['includes'] = includes
    elif rng.random() < 0.1:
        case['mode'] = 'file'
    r = rng.random()
    if r < 0.24:
        case['cfg'] = 'verbose' if r < 0.12 else 'debug'
    return case


def rand_sfac_lines(rng, sfac):
    """the table `sfac` spelled with several SFAC instructions of both forms, in table order"""
    out = []
    i = 0
    while i < len(sfac):
        if rng.random() < 0.35:
            out.append(['explicit', sfac[i], rng.random() < 0.5])
            i += 1
        else:
            n = rng.randint(1, 3)
            out.append(['elems', sfac[i:i + n]])
            i += n
    return out


ALPHABET = [['part', 2, 31.0], ['part', 0, None], ['afix', 43], ['afix', 0], ['resi', 'TOL', 3, 'cn', 0, None],
            ['resi', '', 0, 'n', 0, None], ['hklf']]


# read before a third of the enumerated files: other SFAC order, everything left open
EARLIER = dict(sfac=['O', 'H', 'C'], body=[['resi', 'BNZ', 7, 'cn', 0, None], ['part', 1, 41.0], ['afix', 137],
                                           ['atom', 'O9', 1, [0.3, 0.3, 0.3], 11.0, [0.05], False], ['atom', 'H9', 2, [0.4, 0.3, 0.3], 11.0, [-1.5], False],
                                           ['atom', 'C9', 3, [0.5, 0.3, 0.3], 11.0, [0.04], False], ['hklf'], ['end']])


def enum_case(seq, gaps):
    """seq: tuple of alphabet indices, gaps: sorted positions (0..len(seq)) of the three atoms"""
    body = []
    after = False
    names = ['C1', 'H2', 'O3']
    a = 0
    for pos in range(len(seq) + 1):
        while a < 3 and gaps[a] == pos:
            xyz = [0.1 + 0.1 * a, 0.2, 0.3 + 0.05 * a]
            if after:
                body.append(['atom', f'Q{a + 1}', 1, xyz, 11.0, [0.05, 1.5 - 0.1 * a], False])
            else:
                body.append(['atom', names[a], a + 1, xyz, [11.0, 10.5, 11.0][a], [[0.03], [-1.2], [0.02, 0.03, 0.04, -0.002, 0.003, -0.004]][a], False])
            a += 1
        if pos < len(seq):
            it = list(ALPHABET[seq[pos]])
            after = after or it[0] == 'hklf'
            # the same instruction in its shortest spelling: bare `RESI` for `RESI 0`, bare `HKLF`
            if it[0] == 'resi' and it[3] == 'n' and (sum(seq) + pos) % 2:
                it[3] = 'bare'
            if it[0] == 'hklf' and (sum(gaps) + pos) % 3 == 0:
                it = ['hklf', 5]
            body.append(it)
    if not after:
        body.append(['hklf'])
    body.append(['end'])
    layout = [None, [['elems', ['C']], ['elems', ['H', 'O']]], [['explicit', 'C', True], ['elems', ['H']], ['explicit', 'O', False]],
              [['elems', ['C', 'H']], ['explicit', 'O', False]]][(sum(seq) + len(seq) + sum(gaps)) % 4]
    case = dict(sfac=['C', 'H', 'O'], body=body)
    if layout:
        case['sfac_lines'] = layout
    if (sum(seq) + 2 * sum(gaps)) % 5 == 0:
        case['style'] = dict(kw=True, num=True, cmt=True)
    if (len(seq) + sum(seq) + sum(gaps)) % 3 == 0:
        case['history'] = [dict(on='same', file=EARLIER)]
        if sum(gaps) % 2:
            case['final'] = 'reload'
    cfg = [None, None, 'verbose', 'debug'][(len(seq) + 2 * sum(seq) + sum(gaps)) % 4]
    if cfg:
        case['cfg'] = cfg
    return case


# ------------------------------------------------------------------------------------------------
# systematic: every instruction the atom rules depend on, in every prefix of its optional parameters

OPEN_CTX = [['resi', 'TOL', 3, 'cn', 0, None], ['part', 2, 31.0], ['afix', 66]]
CLOSE_CTX = [['afix', 0], ['part', 0, None], ['resi', '', 0, 'bare', 0, None]]
CFGS = [None, 'verbose', 'debug']


def _at(name, sfac, k, sof=11.0, u=(0.04,), wrap=False):
    return ['atom', name, sfac, [round(0.05 + 0.07 * k, 6), round(0.9 - 0.06 * k, 6), round(0.11 * k % 0.9 + 0.03, 6)], sof, list(u), wrap]


def _peak(k):
    return ['atom', f'Q{k}', 1, [round(0.3 + 0.01 * k, 6), 0.25, round(0.6 - 0.02 * k, 6)], 11.0, [0.05, round(2.5 - 0.3 * k, 2)], False]


ANISO = (0.021, 0.032, 0.043, -0.002, 0.003, -0.004)


def form_cases():
    """A small file per (instruction, form, surrounding context, keyword case); the three configurations and the two
    entry points rotate. SFAC C H O N throughout; every atom is distinct in name, element and coordinates; every
    context value differs from its default."""
    out = []

    def add(body, **kw_):
        i = len(out)
        case = dict(sfac=['C', 'H', 'O', 'N'], body=body)
        if CFGS[i % 3]:
            case['cfg'] = CFGS[i % 3]
        if (i // 3) % 2:
            case['mode'] = 'file'
        case.update(kw_)
        out.append(case)

    tail = lambda n, end=True: [['hklf', n], _peak(1)] + ([['end'], _peak(2)] if end else [])
    # FRAG code[17] a[1] b[1] c[1] al[90] be[90] ga[90]: 0..7 parameters x block style x context open / closed around it
    for np in range(8):
        for variant in (0, 1):
            for ctx in (0, 1, 2):
                for style in (None, dict(kw='lower')):
                    if style and (np + variant + ctx) % 3:
                        continue
                    frag = ['frag', [17, 176][np % 2], ['C2', 'O3', 'N4'][:1 + (np + ctx) % 3], np, variant]
                    after = [_at('C2', 1, 2, None, ()), _at('O3', 3, 3, 10.5, ()), _at('N4', 4, 4, 11.0, ANISO, True)]
                    body = ([] if ctx == 0 else OPEN_CTX) + [_at('C1', 1, 1)] + [frag] + after[:1 + (np + variant) % 3] + \
                           (CLOSE_CTX if ctx == 2 else []) + [_at('H5', 2, 5, 11.0, (-1.2,))] + tail((np + variant) % len(HKLF_FORMS))
                    add(body, **(dict(style=style) if style else {}))
    # two blocks in one file, the bare form first / last; a block in an include file
    for a, b_ in ((0, 7), (7, 0), (1, 0), (0, 0)):
        add([_at('C1', 1, 1), ['frag', 17, ['C2'], a, 0], _at('C2', 1, 2), ['part', 1, 21.0], ['frag', 176, ['O3', 'N4'], b_, 1],
             _at('O3', 3, 3), _at('N4', 4, 4, 10.5), ['part', 0, None], _at('H5', 2, 5, 11.0, (-1.5,))] + tail(0))
    for np in (0, 1, 7):
        add([_at('C1', 1, 1), ['inc', 'frag.ins'], ['resi', 'BNZ', 7, 'nc', 0, None], _at('C2', 1, 2), _at('O3', 3, 3, None, ())] + tail(5),
            includes={'frag.ins': [['frag', 17, ['C2', 'O3'], np, 1]]})
    # HKLF n[0] s[1] r11..r33 sm[1] m[0]: every form x context open / closed x END present or not
    for n in range(len(HKLF_FORMS)):
        for ctx in (0, 1, 2):
            for end in (True, False):
                for style in (None, dict(kw='lower'), dict(kw='title')):
                    if style and (n + ctx + end) % 2:
                        continue
                    body = ([] if ctx == 0 else OPEN_CTX) + [_at('C1', 1, 1, 10.5), _at('H2', 2, 2, 11.0, (-1.2,)), _at('O3', 3, 3, 11.0, ANISO, n % 2 == 0)] + \
                           (CLOSE_CTX if ctx == 2 else []) + tail(n, end)
                    add(body, **(dict(style=style) if style else {}))
    # AFIX mn d[#] sof[11] U[10.08] x atoms with / without own occupation code x PART with / without one
    for extra in ([], [0.98], [0.98, 21.0], [0.98, 21.0, -1.2], [0.98, 11.0, 10.08]):
        for part in (None, ['part', 1, None], ['part', -2, 31.0]):
            body = ([part] if part else []) + [_at('C1', 1, 1), ['afix', 43] + extra, _at('H2', 2, 2, 10.5, (-1.2,)), _at('H3', 2, 3, 11.0, (-1.5,)),
                                                 _at('O4', 3, 4, None, ()), ['afix', 0], _at('N5', 4, 5, 20.5, ANISO)] + tail(len(extra))
            add(body)
    # RESI class[ ] number[0] alias in every token order, ended by the bare RESI / RESI 0 / HKLF
    for form, num_, chain in (('cn', 3, None), ('nc', 3, None), ('n', 4, None), ('c', 0, None), ('cna', 5, None), ('nca', 5, None), ('nac', 5, None),
                              ('cn', -3, None), ('cn', 6, 'A'), ('nc', 6, 'b'), ('bare', 0, None)):
        for close in ('bare', 'n', None):
            body = [_at('C1', 1, 1), ['resi', 'TOL', num_, form, 17, chain], _at('C2', 1, 2), _at('H3', 2, 3, 11.0, (-1.2,))] + \
                   ([['resi', '', 0, close, 0, None]] if close else []) + [_at('O4', 3, 4, 10.5)] + tail(5 if close == 'bare' else 0)
            add(body)
    # atom lines with 5, 6, 7 and 12 columns (wrapped or not) under no PART / PART n / PART n sof, inside AFIX with sof
    shapes = [(None, ()), (10.5, ()), (10.5, (0.04,)), (11.0, (0.04,)), (10.5, ANISO), (11.0, ANISO)]
    for j, (sof, u) in enumerate(shapes):
        for part in (None, ['part', 2, None], ['part', -1, 21.0]):
            for wrap in ((False, True) if len(u) == 6 else (False,)):
                body = [_at('C1', 1, 1)] + ([part] if part else []) + [['afix', 66, 1.39, 31.0], _at('C2', 1, 2, sof, u, wrap), ['afix', 0], _at('O3', 3, 3, sof, u, wrap)] + \
                       ([['part', 0, None]] if part and j % 2 else []) + [_at('N4', 4, 4, sof, u, wrap)] + tail(j)
                add(body)
    return out


# ------------------------------------------------------------------------------------------------
# systematic: the same molecule several times. Atom names are unique only within a residue / PART: a valid file may
# hold atom lines that agree in the name, in name and position, or in the whole text (a solvent molecule pasted twice
# as start model) and are told apart only by the RESI number and / or the PART they stand in.

TWIN_HOW = ['resi', 'resi-class', 'part', 'part-sof', 'part-sof-diff', 'resi+part']
TWIN_SAME = ['text', 'coords', 'names']


def twin_copy(mol, j, same):
    """copy number j (1, 2, …) of the atom items `mol`: 'text' = the lines again, unchanged; 'coords' = same names and
    positions, other occupation code / U; 'names' = same names at another position"""
    out = []
    for it in mol:
        it = [it[0], it[1], it[2], list(it[3]), it[4], list(it[5]), it[6]]
        if same == 'coords':
            if it[4] is not None:
                it[4] = [10.5, 20.5, 30.75, 10.25][j % 4] if it[4] == 11.0 or j > 1 else 11.0
            it[5] = [v if v < 0 else round(v + 0.003 * j, 5) for v in it[5]]
        elif same == 'names':
            it[3] = [round((v + 0.137 * j) % 0.95 + 0.01, 6) for v in it[3]]
        out.append(it)
    return out


def twin_open(how, j):
    part = {'part': ['part', [1, 2, -1][(j - 1) % 3], None], 'part-sof': ['part', j, 21.0], 'part-sof-diff': ['part', j, [21.0, -21.0, 31.0][(j - 1) % 3]],
            'resi+part': ['part', j, None]}.get(how)
    resi = {'resi': ['resi', 'TOL', j, ['cn', 'nc'][j % 2], 0, None], 'resi-class': ['resi', CLASSES[j], j, 'cn', 0, None],
            'resi+part': ['resi', 'Thf', 10 + j, 'nc', 0, None]}.get(how)
    return ([resi] if resi else []) + ([part] if part else [])


def twin_cases():
    out = []

    def add(body, **kw_):
        i = len(out)
        case = dict(sfac=['C', 'H', 'O', 'N'], body=body)
        if CFGS[i % 3]:
            case['cfg'] = CFGS[i % 3]
        if (i // 3) % 2:
            case['mode'] = 'file'
        case.update(kw_)
        out.append(case)

    tail = [['hklf'], _peak(1), ['end'], _peak(2)]
    for hi, how in enumerate(TWIN_HOW):
        for si, same in enumerate(TWIN_SAME):
            for copies in (2, 3):
                for closed in (True, False):
                    k = hi + si + copies + closed
                    mol = [_at('O1', 3, 2, [11.0, 10.5][k % 2]), _at('C1', 1, 3, [11.0, 10.5][k % 2], ANISO, k % 3 == 0)]
                    if k % 2:       # a riding hydrogen inside the molecule
                        mol += [['afix', 137], _at('H1', 2, 4, [11.0, 10.5][k % 2], (-1.5,)), ['afix', 0]]
                    if k % 4 == 0:
                        mol += [_at('N2', 4, 5, None, ())]
                    body = [_at('C1', 1, 1)]        # the name once more in residue 0 / PART 0
                    for j in range(1, copies + 1):
                        body += twin_open(how, j)
                        body += [it if it[0] != 'atom' else twin_copy([it], j - 1, same)[0] for it in mol]
                        if closed and 'part' in how:
                            body.append(['part', 0, None])
                    if closed and 'resi' in how:
                        body.append(['resi', '', 0, ['n', 'bare'][k % 2], 0, None])
                    body += ([_at('C9', 1, 9)] if closed else []) + tail
                    add(body)
    # the second copy comes from an include file
    mol = [_at('O1', 3, 2, 10.5), _at('C1', 1, 3, 10.5, ANISO, True)]
    for how in ('resi', 'part', 'resi+part'):
        for same in TWIN_SAME:
            add([_at('C1', 1, 1)] + twin_open(how, 1) + mol + twin_open(how, 2) + [['inc', 'mol.ins']] +
                [['part', 0, None], ['resi', '', 0, 'n', 0, None], _at('C9', 1, 9)] + tail,
                includes={'mol.ins': twin_copy(mol, 1 if same != 'text' else 0, same)})
    return out


def rand_twins(rng, body):
    """one or two more copies of a run of atoms of `body`, each in a residue of its own (numbers 41, 42: not used by
    Builder.context) and optionally a PART"""
    atoms = [it for it in body if it[0] == 'atom']
    if not atoms:
        return []
    k = rng.randint(1, min(3, len(atoms)))
    i = rng.randrange(len(atoms) - k + 1)
    same = rng.choice(['text', 'text', 'coords', 'names'])
    out = []
    for j in range(1, rng.choice([1, 1, 2]) + 1):
        out.append(['resi', rng.choice(CLASSES), 40 + j, rng.choice(['cn', 'nc', 'n']), 5, None])
        if rng.random() < 0.5:
            out.append(['part', rng.choice([1, 2, -1]), rng.choice([None, None, 21.0, 10.5])])
        out += twin_copy(atoms[i:i + k], j if same != 'text' else 0, same)
        if rng.random() < 0.5:
            out.append(['part', 0, None])
    return out


def resi_cases(rng, n):
    out = []
    words = ['TOL', 'Thf', '4BZ', 'C6', 'x']
    nums = ['1', '23', '9999', '0', '-4', '500']
    for w in words[:3]:
        for a in nums[:4]:
            out += [dict(toks=[w, a]), dict(toks=[a, w]), dict(toks=[a]), dict(toks=[w, a, '77']), dict(toks=[a, w, '77']), dict(toks=[a, '77', w]),
                    dict(toks=[w, 'A:' + a]), dict(toks=['b:' + a, w]), dict(toks=[w, 'A:' + a, '77'])]
    for _ in range(n):
        k = rng.randint(1, 4)
        toks = []
        for _ in range(k):
            r = rng.random()
            toks.append(rng.choice(words) if r < 0.35 else rng.choice(nums) if r < 0.85 else rng.choice(['A', 'b', 'Xy']) + ':' + rng.choice(nums))
        out.append(dict(toks=toks))
    return out


# ------------------------------------------------------------------------------------------------
# thorough tier: the same evaluation, spread over worker processes (case chunks are independent)

class _Recorder:
    """a view on the set of case hashes that remembers the one hash `Ctx.count` adds"""

    def __init__(self, base):
        self.base, self.added = base, None

    def __contains__(self, h):
        return h in self.base

    def add(self, h):
        self.added = h
        self.base.add(h)


class SubCtx(core.Ctx):
    """the context of one worker: records per distinct case whether it was non-trivial, so that the parent can merge"""

    def __init__(self, *a):
        super().__init__(*a)
        self.nt = {}

    def count(self, key, nontrivial=True, sample=None, tags=()):
        n0 = len(self._distinct)
        self._distinct, mine = _Recorder(self._distinct), self._distinct
        try:
            super().count(key, nontrivial, sample, tags)
            added = self._distinct.added
        finally:
            self._distinct = mine
        if added is not None and len(mine) != n0:
            self.nt[added] = bool(nontrivial)


def _worker(task):
    kind, payload, tier, seed = task
    sub = SubCtx('C03', tier, seed)
    enough = False
    try:
        if kind == 'enum':
            evaluate(sub, [enum_case(seq, gaps) for seq, gaps in payload])
        elif kind == 'resi':
            evaluate(sub, payload, stream='resi')
        else:
            evaluate(sub, payload)
    except core.EnoughFailures:
        enough = True
    return dict(evals=sub.evaluations, nt=sub.nt, dist=dict(sub.dist), samples=sub.samples, failures=sub.failures,
                streams=sub.streams, lines=sub._driver.lines if sub._driver else 0, enough=enough)


def _merge(ctx, r):
    ctx.evaluations += r['evals']
    for h, nt in r['nt'].items():
        if h not in ctx._distinct:
            ctx._distinct.add(h)
            ctx.nontrivial += 1 if nt else 0
    ctx.dist.update(r['dist'])
    ctx.samples += r['samples'][:max(0, 6 - len(ctx.samples))]
    for st in r['streams']:
        ctx.stream(st)
    ctx.driver.lines += r['lines']
    for f in r['failures']:
        report(ctx, f['signature'], f['what'], f['payload'], f['kind'])     # may raise EnoughFailures: the pool is torn down


def jobs(ctx):
    """worker processes: VERIF_JOBS, else 1 for the quick budget (a few seconds of work) and up to 16 for the thorough one"""
    env = os.environ.get('VERIF_JOBS')
    if env:
        return max(1, int(env))
    return min(16, os.cpu_count() or 1) if (ctx.tier == 'thorough' or ctx.escalated) else 1


def evaluate_tasks(ctx, tasks):
    """tasks: iterable of (kind, payload) with kind 'cases' | 'enum' | 'resi'; results are merged in task order, so the
    verdict and the replay files do not depend on scheduling"""
    n = jobs(ctx)
    if n <= 1:
        for kind, payload in tasks:
            if kind == 'enum':
                evaluate(ctx, [enum_case(seq, gaps) for seq, gaps in payload])
            elif kind == 'resi':
                evaluate(ctx, payload, stream='resi')
            else:
                evaluate(ctx, payload)
        return
    # No Pool.terminate() (it can dead-lock while the feeder thread holds a task): when enough failures are recorded the
    # feed stops, the few tasks already handed out finish, the pool is closed and joined, then the signal is passed on.
    stop = []

    def feed():
        for k, p in tasks:
            if stop:
                return
            yield (k, p, ctx.tier, ctx.seed)
    pool = multiprocessing.get_context('fork').Pool(n)
    enough = None
    try:
        for r in pool.imap(_worker, feed()):
            if enough is None:
                try:
                    _merge(ctx, r)
                    if r['enough']:
                        raise core.EnoughFailures()
                except core.EnoughFailures as e:
                    enough = e
                    stop.append(1)
    except BaseException:
        stop.append(1)
        raise
    finally:
        pool.close()
        pool.join()
    if enough is not None:
        raise enough


def run(ctx):
    ctx.rule = ('generated files: SFAC table of 1..5 elements in any order and case, spelled with one or several SFAC instructions of both forms (element list / explicit coefficients, wrapped or not), optionally an element twice; keywords in upper/lower/title case, numbers as 5 decimals / shortest / exponent, trailing ! comments; every instruction the atom rules depend on in every prefix of its optional parameters '
                '(FRAG with 0..7 parameters, ten HKLF forms from the bare HKLF to all 13 parameters, AFIX mn [d [sof [U]]], PART n [sof], RESI in seven token orders and bare, atom lines with 5 / 6 / 7 / 12 columns): first a systematic enumeration (form_cases: each form under no / open / closed PART+AFIX+RESI context), then random files of 2..12 body items drawn from atoms (iso / aniso wrapped or not / '
                'riding hydrogens, own occupation code or 11 or none), context instructions, FRAG..FEND blocks (plain or as DSR writes them: Cartesian coordinates, lines with sof and U, remark and blank line inside; followed by structure atoms that carry the names of the FRAG lines), '
                '+include files (nested up to 2, on disk), other instructions; a fifth of the files repeats a run of its atoms in one or two further residues (optionally in a PART) with the same names / names and positions / whole lines, after a systematic enumeration of such twins (twin_cases: told apart by RESI number, RESI class, PART, PART with occupation code, RESI+PART; 2 or 3 copies; closed or open; from an include file); contexts closed or left open at HKLF; peaks between HKLF and END '
                'and after END (+WGHT); a quarter of the files is the LAST of a read history (1-2 earlier files with the same elements in another SFAC order or an unrelated file, read by the same object or another one, every observable queried in between; last read by read_string / read_file / reload() after the file changed on disk); a quarter of the files is read by a verbose or debug Shelxfile (printed text ignored); distinct by (SFAC, items); non-trivial = at least one atom and at least one of: context left open at HKLF, '
                'FRAG block, include, peaks, anisotropic atom. Thorough: every sequence of <= 4 context instructions from a 7-letter alphabet '
                '(PART 2 31 / PART 0 / AFIX 43 / AFIX 0 / RESI TOL 3 / RESI 0 / HKLF) with 3 atoms in every gap placement, and every sequence of 5 and 6 '
                'with the atoms spread.')
    ctx.assumptions = ['valid(file): an atom line between HKLF and END is peak shaped, <= 6 displacement values, FEND closes a FRAG (hypothesis of atoms_match_spec)',
                       'atom names unique within a residue and PART (the same name, position or whole line may recur in another residue / PART); scattering-factor numbers within the SFAC table',
                       '`PART n 11` is the same as `PART n` (11 is the documented default of the sof parameter)',
                       'include files contain no END line and are not included twice',
                       'PART and AFIX carry their first parameter (n, mn have no documented default; the bare words are not generated)',
                       'a file handed to read_file() of a debug-mode Shelxfile has at least 20 lines (REM padding): below that the library calls sys.exit ("Not a SHELXL file")',
                       'an atom line without U: nothing is compared for its displacement values against the specification (the property speaks of "its one or six" values)']
    fc = form_cases()
    if ctx.tier == 'thorough' or ctx.escalated:     # every form under every configuration and entry point (quick: rotating)
        fc = [dict({k: v for k, v in c.items() if k not in ('cfg', 'mode')}, **dict([('cfg', cfg)] if cfg else []), **dict([('mode', mode)] if mode else []))
              for c in fc for cfg in CFGS for mode in (None, 'file')]
    evaluate(ctx, fc)       # in this process: the first failing form is reported before anything else runs
    tw = twin_cases()
    if ctx.tier == 'thorough' or ctx.escalated:
        tw = [dict({k: v for k, v in c.items() if k not in ('cfg', 'mode')}, **dict([('cfg', cfg)] if cfg else []), **dict([('mode', mode)] if mode else []))
              for c in tw for cfg in CFGS for mode in ((None, 'file') if not c.get('includes') else (None,))]
    evaluate(ctx, tw)
    ctx.extra['twins'] = f'{len(tw)} files: a molecule of 2..4 atoms 2 or 3 times, the copies equal in name / name and position / the whole line, told apart by RESI number, RESI class, PART, PART with occupation code, or both; contexts closed or left open; second copy in an include file'
    ctx.extra['forms'] = f'{len(fc)} files: FRAG with 0..7 parameters, {len(HKLF_FORMS)} HKLF forms, AFIX with 1..4, RESI in 8 forms, atom lines with 5/6/7/12 columns, each under open / closed / no context, quiet / verbose / debug'
    n = ctx.budget(1500, 30000)
    cases = [make_case(ctx.rng) for _ in range(n)]
    resi = resi_cases(ctx.rng, ctx.budget(300, 5000))
    # bounded-exhaustive interleavings
    kmax_full = 4 if (ctx.tier == 'thorough' or ctx.escalated) else 2
    enum = []
    for k in range(0, kmax_full + 1):
        for seq in itertools.product(range(len(ALPHABET)), repeat=k):
            for gaps in itertools.combinations_with_replacement(range(k + 1), 3):
                enum.append((seq, gaps))
    if ctx.tier == 'thorough' or ctx.escalated:
        for k in (5, 6):
            for seq in itertools.product(range(len(ALPHABET)), repeat=k):
                enum.append((seq, (1, k // 2 + 1, k)))
    total = len(enum)
    step_r, step_e = (500, 2000) if jobs(ctx) > 1 else (1000, 2000)
    tasks = [('cases', cases[i:i + step_r]) for i in range(0, len(cases), step_r)] + [('resi', resi)] + \
            [('enum', enum[i:i + step_e]) for i in range(0, len(enum), step_e)]
    evaluate_tasks(ctx, tasks)
    ctx.extra['jobs'] = jobs(ctx)
    ctx.extra['bounded_exhaustive'] = f'{total} files: all sequences of <= {kmax_full} context instructions x all placements of 3 atoms' + \
        (', all sequences of 5 and 6 with atoms after instruction 1, k/2+1, k' if kmax_full == 4 else '')
    ctx.exhaustive = False

"""
C03 — every atom carries exactly the attributes the SHELXL rules assign to it.

A *case* is a by-construction description of a file: SFAC list (any order, any case), a list of items
(PART / AFIX / RESI instructions in their syntactic forms, atoms, FRAG…FEND blocks, '+file' includes, HKLF,
END, harmless other lines) and the content of the include files. From the case the harness derives
  * the text (written to a temporary directory when include files are involved, else read_string),
  * the abstracted line list the Lean driver gets (`Line` of ShelxModel/C03.lean),
  * its own expected atom list (`expected`, a forward pass that knows the context of every atom it emits).
Streams (DESIGN 3.2):
  atoms   Shelxfile.atoms read AFTER parsing: (name, sfac_num, element, xyz, sof, uvals, part.n, afix.mn,
          resinum, resiclass, qpeak) vs spec `specAtoms` (theorem atoms_match_spec) and vs model `observe ∘ run`
  views   hydrogen_atoms, riding_atoms, q_peaks, residues, atoms_in_class, n_anisotropic/n_isotropic
          vs the filters of the same atom list (theorem derived_views)
  resi    RESI(...) decoding of class / number / alias / chain in either order vs `resiSpec` / `resiDecode`
  include _find_included_files + parse: the spliced line order vs `spliceSpec` / `splice`
Only what the property names is observed. `afix` is observed as 0 for an atom that has no AFIX object at all.
"""
import itertools
import shutil
import zlib
import tempfile
from pathlib import Path

from .. import core, gen

HEADER = ['TITL verif C03', 'CELL 0.71073 10.5 11.25 12.75 90 95.5 90', 'ZERR 4 0.001 0.001 0.001 0 0.01 0', 'LATT -1']
OTHERS = ['REM a remark', 'BOND $H', 'MOLE 1', '', 'WGHT 0.05 0.1', 'CONF', 'HTAB', 'REM PART 5 is only a remark',
          'SIMU 0.04 0.08 1.7', 'RIGU']
CLASSES = ['TOL', 'CCF3', 'BNZ', 'X', '4BZ', 'Thf']


# ------------------------------------------------------------------------------------------------
# rendering

def f5(x):
    return f'{x:.5f}'


EXPLICIT = '13.338 3.5828 7.1676 0.247 5.6158 11.3966 1.6735 64.8126 1.191 0.3201 1.2651 47.3486 1.28 63.546'.split()
HKLF_FORMS = ['HKLF 4', 'HKLF 5', 'HKLF 4 1 1 0 0 0 1 0 0 0 1', 'HKLF 3', 'HKLF 4 1']


def pick(it, n, salt=0):
    """a deterministic choice 0..n-1 that depends on the item only (stable under shrinking)"""
    return zlib.crc32((repr(it) + str(salt)).encode()) % n


def kw(word, it, st):
    """keywords are case-insensitive"""
    if not st or not st.get('kw'):
        return word
    return [word, word.lower(), word.capitalize(), word][pick(it, 4, 1)]


def num(x, it, st, salt=0):
    """the same number in another legal spelling (5 decimals / shortest / exponent)"""
    if not st or not st.get('num'):
        return f5(x)
    v = float(f5(x))
    return [f5(v), f'{v:g}' if float(f'{v:g}') == v else f5(v), f'{v:.6e}'][pick(it, 3, 2 + salt)]


def cmt(line, it, st):
    if st and st.get('cmt') and pick(it, 4, 3) == 0:
        return line + '  ! remark 7 on ' + line.split()[0].lower()
    return line


def atom_text(it, st=None):
    """['atom', name, sfac, [x,y,z], sof, [u…], wrap] -> one or two physical lines"""
    _, name, sfac, xyz, sof, u, wrap = it
    head = f'{name:<5}{sfac:>2}  ' + '  '.join(f'{v:.6f}' for v in xyz) + f'  {num(sof, it, st)}'
    us = [num(v, it, st, 1 + j) for j, v in enumerate(u)]
    if wrap and len(us) == 6:
        return [head + '  ' + '  '.join(us[:2]) + ' =', '     ' + '  '.join(us[2:])]
    return [cmt(head + '  ' + '  '.join(us), it, st)]


def resi_tokens(it):
    """['resi', cls, num, form, alias, chain]"""
    _, cls, num_, form, alias, chain = it
    n = f'{chain}:{num_}' if chain else str(num_)
    toks = {'cn': [cls, n], 'nc': [n, cls], 'n': [n], 'c': [cls], 'cna': [cls, n, str(alias)], 'nca': [n, cls, str(alias)],
            'nac': [n, str(alias), cls]}[form]
    return toks


def item_text(it, st=None):
    k = it[0]
    if k == 'part':
        return [cmt(kw('PART', it, st) + ' ' + str(it[1]) + ('' if it[2] is None else ' ' + num(it[2], it, st)), it, st)]
    if k == 'afix':
        return [cmt(kw('AFIX', it, st) + ' ' + ' '.join(str(v) for v in it[1:]), it, st)]
    if k == 'resi':
        return [cmt(kw('RESI', it, st) + ' ' + ' '.join(resi_tokens(it)), it, st)]
    if k == 'atom':
        return atom_text(it, st)
    if k == 'frag':
        out = [kw('FRAG', it, st) + f' {it[1]} 1 1 1 90 90 90']
        for j, nm in enumerate(it[2]):
            out.append(f'{nm:<5}{1:>2}  {0.1 + 0.11 * j:.5f}  {0.2 + 0.07 * j:.5f}  {0.3 - 0.05 * j:.5f}')
        return out + [kw('FEND', it, st)]
    if k == 'hklf':
        form = HKLF_FORMS[it[1]] if len(it) > 1 else 'HKLF 4'
        return [cmt(kw('HKLF', it, st) + form[4:], it, st)]
    if k == 'end':
        return [cmt(kw('END', it, st), it, st)]
    if k == 'other':
        return [it[1]]
    if k == 'inc':
        return ['+' + it[1]]
    raise ValueError(k)


def sfac_lines(case):
    """the SFAC instructions of the case: [['elems', [el…]] | ['explicit', el, wrap]…]; `case['sfac']` is the
    resulting table (scattering-factor number -> element) by construction"""
    return case.get('sfac_lines') or [['elems', list(case['sfac'])]]


def sfac_text(case):
    st = case.get('style')
    out = []
    for ins in sfac_lines(case):
        word = kw('SFAC', ins, st)
        if ins[0] == 'elems':
            out.append(word + ' ' + ' '.join(ins[1]))
        elif len(ins) > 2 and ins[2]:
            out += [word + ' ' + ins[1] + ' ' + ' '.join(EXPLICIT[:9]) + ' =', '  ' + ' '.join(EXPLICIT[9:])]
        else:
            out.append(word + ' ' + ins[1] + ' ' + ' '.join(EXPLICIT))
    return out


def file_text(case, items, main):
    out = []
    st = case.get('style')
    if main:
        flat = [e for ins in sfac_lines(case) for e in (ins[1] if ins[0] == 'elems' else [ins[1]])]
        if flat != list(case['sfac']):
            raise RuntimeError(f'harness: sfac_lines {sfac_lines(case)} do not spell the table {case["sfac"]}')
        out += HEADER + sfac_text(case) + ['UNIT ' + ' '.join('8' for _ in case['sfac']), 'FVAR 0.5 0.6 0.7 0.4']
    for it in items:
        out += item_text(it, st)
    return '\n'.join(out) + '\n' if out else ''


# ------------------------------------------------------------------------------------------------
# abstraction + expected (by construction)

def expand(case):
    """main items with every include replaced by [inc-line] + content (recursively) — how SHELXL reads it"""
    def go(items, depth):
        for it in items:
            yield it
            if it[0] == 'inc' and depth < 8:
                yield from go(case.get('includes', {}).get(it[1], []), depth + 1)
    return list(go(case['body'], 0))


def abstract(case):
    """-> (lines for the driver, info per tag)"""
    lines = []
    info = []
    for it in expand(case):
        k = it[0]
        if k == 'part':
            lines.append(['part', it[1], 11.0 if it[2] is None else float(f5(it[2]))])
        elif k == 'afix':
            lines.append(['afix', it[1]])
        elif k == 'resi':
            lines.append(['resi', it[1] if it[3] != 'n' else '', it[2] if it[3] != 'c' else 0])
        elif k == 'atom':
            lines.append(['atom', len(info), it[2], float(f5(it[4])), [float(f5(v)) for v in it[5]]])
            info.append(dict(name=it[1], xyz=[float(f'{v:.6f}') for v in it[3]]))
        elif k == 'frag':
            lines.append(['frag'])
            for nm in it[2]:
                lines.append(['atom', len(info), 1, 11.0, []])
                info.append(dict(name=nm, xyz=None))
            lines.append(['fend'])
        elif k in ('hklf', 'end'):
            lines.append([k])
        else:
            lines.append(['other'])
    return lines, info


def expected(case):
    """the generator's own statement of what every atom is (forward pass that knows each atom's context)"""
    part, psof, afix, rnum, rcls, after = 0, 11.0, 0, 0, '', False
    out = []
    tag = 0
    for it in expand(case):
        k = it[0]
        if k == 'part':
            part, psof = it[1], (11.0 if it[2] is None else float(f5(it[2])))
        elif k == 'afix':
            afix = it[1]
        elif k == 'resi':
            rcls, rnum = (it[1] if it[3] != 'n' else ''), (it[2] if it[3] != 'c' else 0)
        elif k in ('hklf', 'end'):
            part, psof, afix, rnum, rcls, after = 0, 11.0, 0, 0, '', True
        elif k == 'frag':
            tag += len(it[2])
        elif k == 'atom':
            u = [float(f5(v)) for v in it[5]]
            out.append(dict(tag=tag, sfac=it[2], sof=psof if psof != 11.0 else float(f5(it[4])), u=u + [0.0] * (6 - len(u)),
                            part=part, afix=afix, rnum=rnum, rcls=rcls, q=after))
            tag += 1
    return out


# ------------------------------------------------------------------------------------------------
# implementation side

def afix_of(a):
    af = a.afix
    if af is None:
        return 0
    return af.mn or 0


def write_files(case, d):
    d.mkdir(parents=True, exist_ok=True)
    for name, items in case.get('includes', {}).items():
        (d / name).write_text(file_text(case, items, False))
    main = d / 'main.res'
    main.write_text(file_text(case, case['body'], True))
    return main


def needs_disk(case):
    return bool(case.get('includes')) or case.get('mode') == 'file'


def do_read(shx, case, d):
    """one read through the public API; -> error text or None"""
    try:
        if needs_disk(case):
            shx.read_file(write_files(case, d))
        else:
            shx.read_string(file_text(case, case['body'], True))
    except Exception as e:
        return f'{"read_file" if needs_disk(case) else "read_string"} raised {type(e).__name__}'
    return None


def read_obs(shx, case, with_order):
    """everything C03 observes, read AFTER the parse finished"""
    atoms = []
    for a in shx.atoms:
        try:
            atoms.append(dict(name=a.name, sfac=a.sfac_num, el=a.element, xyz=[a.x, a.y, a.z], sof=a.sof, u=list(a.uvals),
                              part=a.part.n, afix=afix_of(a), rnum=a.resinum, rcls=a.resiclass, q=bool(a.qpeak)))
        except Exception as e:
            atoms.append(dict(name=getattr(a, 'name', '?'), error=type(e).__name__))
    views = {}
    at = shx.atoms
    for key, fn in [('hydrogens', lambda: [x.name for x in at.hydrogen_atoms]), ('qpeaks', lambda: [x.name for x in at.q_peaks]),
                    ('riding', lambda: [x.name for x in at.riding_atoms]), ('residues', lambda: sorted(at.residues)),
                    ('n_aniso', lambda: at.n_anisotropic_atoms), ('n_iso', lambda: at.n_isotropic_atoms),
                    ('in_class', lambda: [list(at.atoms_in_class(c)) for c in case_classes(case)])]:
        try:
            views[key] = fn()
        except Exception as e:
            views[key] = f'raise {type(e).__name__}'
    order = None
    if with_order:
        # the instruction sequence the parser ended up with (include lines, blank and continuation lines skipped)
        order = []
        for x in shx._reslist:
            try:
                s_ = str(x)
            except Exception:   # printing an object is not what C03 is about (e.g. SFAC table with an element twice)
                s_ = type(x).__name__.upper().replace('TABLE', '')
            if not s_.strip() or s_.startswith('+') or (isinstance(x, str) and x.startswith(' ')):
                continue
            order.append(s_.split()[0].upper())
    return dict(atoms=atoms, views=views, order=order)


def observe_impl(case):
    """Runs the read history of the case and observes the atoms of the LAST read.
    case['history'] = [{'on': 'same' | 'other', 'file': <file case>}…]: earlier reads, on the same Shelxfile object
    (read_string / read_file re-initialise it) or on another object (module/class level state); after each of them
    every observable is queried once, so that whatever the library caches is filled. case['final'] == 'reload': the
    last file replaces the previous one on disk and is read with reload()."""
    from shelxfile import Shelxfile
    shx = Shelxfile()
    hist = case.get('history') or []
    reload_ = case.get('final') == 'reload'
    tmp = None
    try:
        if needs_disk(case) or reload_ or any(needs_disk(s['file']) for s in hist):
            tmp = Path(tempfile.mkdtemp(prefix='verif_c03_'))
        for i, step in enumerate(hist):
            obj = shx if step['on'] == 'same' else Shelxfile()
            if do_read(obj, step['file'], tmp / f'h{i}' if tmp else None) is None:
                read_obs(obj, step['file'], False)
        if reload_:
            first = hist[-1]['file'] if hist else dict(sfac=['C'], body=[['hklf'], ['end']])
            d = tmp / 'reload'
            try:
                shx.read_file(write_files(first, d))
                read_obs(shx, first, False)
                for f in d.iterdir():
                    f.unlink()
                write_files(case, d)
                shx.reload()
            except Exception as e:
                return dict(error=f'reload raised {type(e).__name__}')
        else:
            err = do_read(shx, case, tmp / 'final' if tmp else None)
            if err:
                return dict(error=err)
        return read_obs(shx, case, tmp is not None and bool(case.get('includes')))
    finally:
        if tmp is not None:
            shutil.rmtree(tmp, ignore_errors=True)


def case_classes(case):
    cl = []
    for it in expand(case):
        if it[0] == 'resi' and it[3] != 'n' and it[1] not in cl:
            cl.append(it[1])
    return cl + ['']


# ------------------------------------------------------------------------------------------------
# comparison

ATTRS = ['sfac', 'el', 'sof', 'u', 'part', 'afix', 'rnum', 'rcls', 'q']


def same(attr, got, want):
    if attr in ('sof',):
        return core.close(got, want, 1e-9, 1e-9)
    if attr == 'u':
        return len(got) == len(want) and all(core.close(g, w, 1e-9, 1e-9) for g, w in zip(got, want))
    return got == want


def features(case):
    f = set()
    ex = expand(case)
    sl = sfac_lines(case)
    if len(sl) > 1:
        f.add('sfac-several-instructions')
    if any(ins[0] == 'explicit' for ins in sl):
        f.add('sfac-explicit')
    if case.get('history') or case.get('final') == 'reload':
        f.add('after-earlier-read')
    if case.get('style'):
        f.add('style:' + '+'.join(k for k, v in sorted(case['style'].items()) if v))
    opened = dict(part=False, afix=False, resi=False)
    seen_barrier = False
    for it in ex:
        k = it[0]
        if k == 'part':
            opened['part'] = it[1] != 0
        elif k == 'afix':
            opened['afix'] = it[1] != 0
        elif k == 'resi':
            opened['resi'] = not (it[3] == 'n' and it[2] == 0)
        elif k in ('hklf', 'end') and not seen_barrier:
            seen_barrier = True
            for kk, v in opened.items():
                if v:
                    f.add(f'{kk}-open-at-hklf')
        elif k == 'frag':
            f.add('frag')
        elif k == 'inc':
            f.add('include')
        elif k == 'atom':
            if seen_barrier:
                f.add('peaks')
            if len(it[5]) == 6:
                f.add('aniso')
    return f


def compare_atoms(case, info, impl_atoms, ref, el_key):
    """-> list of (attr, where, message); ref = list of obs dicts (spec or model), in order"""
    diffs = []
    names = [a.get('name') for a in impl_atoms]
    want_names = [info[o['tag']]['name'] for o in ref]
    if names != want_names:
        return [('atomlist', 'list', f'atom list {names} but the file has the atom lines {want_names}')]
    for a, o in zip(impl_atoms, ref):
        pos = 'after-hklf' if o['q'] else 'before-hklf'
        if 'error' in a:
            diffs.append(('raise', pos, f'reading the attributes of {a["name"]} raised {a["error"]}'))
            continue
        xyz = info[o['tag']]['xyz']
        if not all(core.close(g, w, 1e-9, 1e-9) for g, w in zip(a['xyz'], xyz)):
            diffs.append(('xyz', pos, f'{a["name"]}: coordinates {a["xyz"]}, line says {xyz}'))
        for attr in ATTRS:
            want = o[el_key] if attr == 'el' else o[attr]
            if attr == 'el' and want is not None:
                want = want.capitalize()
            if attr in ('sof',):
                want = float(want)
            if attr == 'u':
                want = [float(v) for v in want]
            if not same(attr, a[attr], want):
                diffs.append((attr, pos, f'{a["name"]}: {attr} = {a[attr]!r}, expected {want!r}'))
    return diffs


def view_expect(case, info, ref):
    """the derived views as filters of the atom list `ref`"""
    nm = lambda o: info[o['tag']]['name']
    el = lambda o: (o['el_spec'] or '').capitalize()
    hyd = [o for o in ref if el(o) in ('H', 'D', 'T')]
    res = dict(hydrogens=[nm(o) for o in hyd], qpeaks=[nm(o) for o in ref if o['q']], riding=[nm(o) for o in hyd if o['afix'] > 0],
               residues=sorted({o['rnum'] for o in ref}),
               n_aniso=len([o for o in ref if not o['q'] and any(float(v) != 0 for v in o['u'][1:])]),
               n_iso=len([o for o in ref if not o['q'] and all(float(v) == 0 for v in o['u'][1:])]))
    inc = []
    for c in case_classes(case):
        l = []
        for o in ref:
            if o['rcls'] == c and nm(o) not in l:
                l.append(nm(o))
        inc.append(l)
    res['in_class'] = inc
    return res


def history_text(case):
    if not (case.get('history') or case.get('final') == 'reload'):
        return ''
    steps = [('same object' if s['on'] == 'same' else 'another object') + ' read [' + ' / '.join(sfac_text(s['file'])) + ' …]'
             for s in case.get('history', [])]
    return '   {after: ' + '; '.join(steps) + ('; last read by reload()' if case.get('final') == 'reload' else '') + '}'


def signature(case, attr, pos):
    feats = sorted(features(case))
    rel = [f for f in feats if (attr in ('part', 'sof') and f.startswith('part-open')) or (attr == 'afix' and f.startswith('afix-open'))
           or (attr in ('rnum', 'rcls') and f.startswith('resi-open')) or (attr == 'atomlist' and f in ('frag', 'include'))
           or (attr == 'q' and f.endswith('open-at-hklf')) or (attr == 'el' and f.startswith('sfac-'))]
    if 'after-earlier-read' in feats:
        rel.append('after-earlier-read')
    return f'C03|{attr}|{pos}|' + ('+'.join(rel) if rel else 'plain')


def request(case):
    lines, info = abstract(case)
    sl = [[ins[0], [e.capitalize() for e in ins[1]]] if ins[0] == 'elems' else ['explicit', ins[1].capitalize()] for ins in sfac_lines(case)]
    return dict(p='C03', op='file', lines=lines, sfac_lines=sl, classes=case_classes(case)), info


def check_impl(case):
    """implementation vs the generator's own expectation only (used while shrinking; no driver involved)"""
    lines, info = abstract(case)
    obs = observe_impl(case)
    if 'error' in obs:
        return [('raise', 'read', obs['error'])]
    exp = [dict(o, el=case['sfac'][o['sfac'] - 1] if 1 <= o['sfac'] <= len(case['sfac']) else None) for o in expected(case)]
    return compare_atoms(case, info, obs['atoms'], exp, 'el')


def py_valid(case):
    """the domain predicate `valid` of ShelxModel/C03.lean (cross-checked against the driver's answer in evaluate)"""
    hk = en = fr = False
    for it in expand(case):
        k = it[0]
        if k == 'hklf':
            hk = True
        elif k == 'end':
            en = True
        elif k == 'atom':
            u = [float(f5(v)) for v in it[5]] + [0.0] * 6
            if len(it[5]) > 6 or (hk and not en and not (abs(u[1]) > 0 and abs(u[2]) < 1e-6)):
                return False
    return True


def shrink(case, attr, pos, budget=120):
    """greedy one-item removal while a failure of the same attribute remains"""
    def fails(c):
        try:
            return py_valid(c) and any(d[0] == attr for d in check_impl(c))
        except Exception:
            return False
    cur = case
    for simpler in (lambda c: {k: v for k, v in c.items() if k not in ('history', 'final')},
                    lambda c: dict(c, history=c['history'][-1:]) if len(c.get('history') or []) > 1 else c,
                    lambda c: {k: v for k, v in c.items() if k != 'style'},
                    lambda c: {k: v for k, v in c.items() if k != 'sfac_lines'},
                    lambda c: dict(c, sfac_lines=[ins[:2] for ins in sfac_lines(c)])):
        c2 = simpler(cur)
        if c2 != cur and fails(c2):
            cur = c2
    changed = True
    while changed and budget > 0:
        changed = False
        for where in ['body'] + list(cur.get('includes', {})):
            items = cur['body'] if where == 'body' else cur['includes'][where]
            i = len(items) - 1
            while i >= 0 and budget > 0:
                budget -= 1
                new_items = items[:i] + items[i + 1:]
                c2 = dict(cur)
                if where == 'body':
                    c2['body'] = new_items
                else:
                    c2['includes'] = dict(cur['includes'], **{where: new_items})
                if fails(c2):
                    cur, items, changed = c2, new_items, True
                i -= 1
    return cur


def evaluate(ctx, cases, stream=None):
    if stream == 'resi':
        return evaluate_resi(ctx, cases)
    ctx.stream('atoms')
    ctx.stream('views')
    reqs, infos = [], []
    for case in cases:
        r, info = request(case)
        reqs.append(r)
        infos.append(info)
    answers = ctx.driver.batch(reqs)
    for case, info, ans in zip(cases, infos, answers):
        exp = expected(case)
        spec = ans['spec']
        # the generator's own expectation and the specification must agree (both are "the rule"); if they do not
        # the harness is wrong, not the code
        if ans['valid']:
            es = [(o['tag'], o['sfac'], float(o['sof']), [float(v) for v in o['u']], o['part'], o['afix'], o['rnum'], o['rcls'], o['q']) for o in spec]
            ee = [(o['tag'], o['sfac'], o['sof'], o['u'], o['part'], o['afix'], o['rnum'], o['rcls'], o['q']) for o in exp]
            if es != ee:
                raise RuntimeError(f'harness: by-construction expectation differs from the Lean specification for {case}: {ee} vs {es}')
            if ans['model'] != ans['spec'] or ans['model_views'] != ans['spec_views']:
                raise RuntimeError(f'harness: model differs from spec inside the theorem\'s domain for {case}')
        if ans['valid'] != py_valid(case):
            raise RuntimeError(f'harness: py_valid differs from the Lean predicate `valid` for {case}')
        feats = features(case)
        obs = observe_impl(case)
        n_atoms = len(spec)
        ctx.count(['atoms', sfac_lines(case), case.get('style'), case['body'], case.get('includes'), case.get('history'), case.get('final')], nontrivial=n_atoms > 0 and len(feats) > 0,
                  tags=['valid' if ans['valid'] else 'outside-domain', f'atoms={min(n_atoms, 10)}'] + sorted(feats),
                  sample=dict(stream='atoms', text=file_text(case, case['body'], True).splitlines()[6:18],
                              impl=[[a.get('name'), a.get('part'), a.get('afix'), a.get('rnum'), a.get('rcls'), a.get('sof'), a.get('q')]
                                    for a in obs.get('atoms', [])][:6]) if feats else None)
        if 'error' in obs:
            ctx.fail('C03|raise|read|' + ('+'.join(sorted(feats & {'frag', 'include'})) or 'plain'), f'{obs["error"]} on a valid file',
                     dict(case=case, stream='atoms', actual=obs, expected=spec))
            continue
        model = [m for m in ans['model'] if m is not None]
        done = set()
        if ans['valid']:
            for attr, pos, msg in compare_atoms(case, info, obs['atoms'], spec, 'el_spec'):
                if (attr, pos) in done:
                    continue
                done.add((attr, pos))
                small, sm_msg, sm_ans, sm_obs = case, msg, ans, obs
                if stream is None:      # not a replay: minimise, then describe the minimal file
                    small = shrink(case, attr, pos)
                    sm_req, sm_info = request(small)
                    sm_ans = ctx.driver.one(sm_req)
                    sm_obs = observe_impl(small)
                    sm_msg = next((m for a_, p_, m in compare_atoms(small, sm_info, sm_obs.get('atoms', []), sm_ans['spec'], 'el_spec') if a_ == attr), msg)
                ctx.fail(signature(small, attr, pos), sm_msg + history_text(small) + '   [' + ('' if len(sfac_lines(small)) == 1 and sfac_lines(small)[0][0] == 'elems' else ' / '.join(sfac_text(small)) + ' ... ') + 'body: ' + ' / '.join(file_text(small, small['body'], False).splitlines()) + ']',
                         dict(case=small, stream='atoms', expected=sm_ans['spec'], actual=sm_obs.get('atoms'), model=sm_ans['model'],
                              model_of_code_before_fixes=sm_ans['before_fix']))
        for attr, pos, msg in compare_atoms(case, info, obs['atoms'], model, 'el'):
            if (attr, pos) in done:
                continue
            done.add((attr, pos))
            ctx.fail(signature(case, attr, pos) + '|model', 'implementation differs from the model: ' + msg,
                     dict(case=case, stream='atoms', expected=spec, actual=obs['atoms'], model=ans['model']), kind='correspondence')
        if done:
            continue
        # derived views ---------------------------------------------------------------------------
        if not ans['valid']:
            continue
        want = view_expect(case, info, spec)
        nm = lambda t: info[t]['name']
        def named(v):
            return dict(hydrogens=[nm(t) for t in v['hydrogens']], qpeaks=[nm(t) for t in v['qpeaks']], riding=[nm(t) for t in v['riding']],
                        residues=sorted(v['residues']), in_class=[[nm(t) for t in l] for l in v['in_class']])
        model_views = dict(named(ans['model_views']), n_aniso=ans['model_views']['n_aniso'], n_iso=ans['model_views']['n_iso'])
        spec_views = dict(named(ans['spec_views']), n_aniso=ans['spec_views']['n_aniso_spec'], n_iso=ans['spec_views']['n_iso_spec'])
        if spec_views != want:
            raise RuntimeError(f'harness: by-construction views differ from the Lean specification for {case}: {want} vs {spec_views}')
        ctx.count(['views', sfac_lines(case), case.get('style'), case['body'], case.get('includes')], nontrivial=bool(want['hydrogens'] or want['qpeaks'] or len(want['residues']) > 1),
                  tags=['views'])
        for key, w in want.items():
            got = obs['views'][key]
            qp = 'with-qpeaks' if want['qpeaks'] else 'no-qpeaks'
            if key == 'n_iso' and any(o['q'] and float(o['u'][1]) == 0 for o in spec):
                qp = 'with-zero-height-peaks'
            payload = dict(case=case, stream='views', expected=want, actual=obs['views'], model=model_views)
            if got != w:
                ctx.fail(f'C03|view|{key}|{qp}', f'{key} = {got!r}, the atom list filtered by the rule gives {w!r}', payload)
            if got != model_views[key]:
                ctx.fail(f'C03|view|{key}|{qp}|model', f'{key} = {got!r}, model {model_views[key]!r}', payload, kind='correspondence')
    evaluate_include(ctx, [c for c in cases if c.get('includes')])


# ------------------------------------------------------------------------------------------------
# include splicing: order of lines

def evaluate_include(ctx, cases):
    """the instruction sequence the parser ends up with (first word of every non-blank entry of the line list; the
    '+file' lines themselves and continuation lines are not looked at) against the spliced file"""
    if not cases:
        return
    ctx.stream('include')
    reqs, maps = [], []
    for case in cases:
        first = {}

        def items_of(items):
            out = []
            for it in items:
                if it[0] == 'inc':
                    out.append(['i', it[1]])
                else:
                    for ln in item_text(it, case.get('style')):
                        out.append(['l', len(first)])
                        first[len(first)] = None if (not ln.strip() or ln.startswith(' ')) else ln.split()[0].upper()
            return out
        body = items_of(case['body'])
        head = HEADER + [ln for ln in sfac_text(case)] + ['UNIT', 'FVAR']
        for i, ln in enumerate(head):
            first[10 ** 6 + i] = None if ln.startswith(' ') else ln.split()[0].upper()
        main = [['l', 10 ** 6 + i] for i in range(len(head))] + body
        fs = [dict(name=n, items=items_of(its)) for n, its in case['includes'].items()]
        reqs.append(dict(p='C03', op='splice', main=main, fs=fs))
        maps.append(first)
    answers = ctx.driver.batch(reqs)
    for case, first, ans in zip(cases, maps, answers):
        obs = observe_impl(case)
        ctx.count(['include', case['body'], case['includes']], nontrivial=True,
                  tags=['include', f'files={len(case["includes"])}', 'include-in-domain' if ans['in_domain'] else 'include-outside'])
        if 'error' in obs or obs.get('order') is None:
            continue  # reported by the atoms stream
        head_words = {'TITL', 'CELL', 'ZERR', 'LATT', 'SFAC', 'UNIT', 'FVAR'}   # several SFAC/FVAR lines may be kept as one object
        got = [w for w in obs['order'] if w not in head_words]
        words = lambda items: [first[x[1]] for x in items if x[0] == 'l' and first[x[1]] is not None and first[x[1]] not in head_words]
        spec = words(ans['spec'])
        model = None if ans['model'] is None else words(ans['model'])
        payload = dict(case=case, stream='atoms', expected=spec, actual=got, model=model)
        if ans['in_domain'] and got != spec:
            ctx.fail('C03|include|order', f'instructions after splicing {got}, SHELXL reads {spec}', payload)
        elif got != model:
            ctx.fail('C03|include|order|model', f'instructions after splicing {got}, model {model}', payload, kind='correspondence')


# ------------------------------------------------------------------------------------------------
# RESI decoding

def evaluate_resi(ctx, cases):
    from shelxfile import Shelxfile
    from shelxfile.shelx.cards import RESI
    ctx.stream('resi')
    answers = ctx.driver.batch([dict(p='C03', op='resi', toks=c['toks']) for c in cases])
    shx = Shelxfile()
    for case, ans in zip(cases, answers):
        try:
            r = RESI(shx, ['RESI'] + case['toks'])
            got = dict(cls=r.residue_class, num=r.residue_number, alias=r.alias, chain=r.chain_id)
        except Exception as e:
            got = f'raise {type(e).__name__}'
        ctx.count(['resi', case['toks']], nontrivial=len(case['toks']) > 1, tags=['resi', 'form-ok' if ans['form_ok'] else 'form-outside'],
                  sample=dict(stream='resi', toks=case['toks'], impl=got) if len(case['toks']) > 2 else None)
        form = '+'.join('w' if any(ch.isalpha() for ch in t) and ':' not in t else 'c' if ':' in t else 'n' for t in case['toks'])
        payload = dict(case=case, stream='resi', expected=ans['spec'], actual=got, model=ans['model'])
        if ans['form_ok'] and got != ans['spec']:
            ctx.fail(f'C03|resi|form={form}', f'RESI {" ".join(case["toks"])} decoded as {got}, the syntax says {ans["spec"]}', payload)
        elif got != ans['model']:
            ctx.fail(f'C03|resi|form={form}|model', f'RESI {" ".join(case["toks"])} decoded as {got}, model {ans["model"]}', payload, kind='correspondence')


# ------------------------------------------------------------------------------------------------
# generators

def rand_sof(rng):
    return rng.choice([11.0, 11.0, 10.5, 21.0, -21.0, 31.0, -31.0, 10.25, 20.5, 41.0, 1.0, 0.5, 30.75])


class Builder:
    def __init__(self, rng, sfac):
        self.rng = rng
        self.sfac = sfac
        self.used = set()
        self.k = 0
        self.after = False
        self.ended = False

    def name(self, el):
        return gen.atom_name(self.rng, el, self.used)

    def atom(self, hydrogen=None):
        rng = self.rng
        self.k += 1
        k = self.k
        xyz = [round(0.013 * k % 1 + 0.001, 6), round(0.5 - 0.0071 * k, 6), round(0.029 * k % 0.9 + 0.05, 6)]
        hidx = [i for i, e in enumerate(self.sfac) if e.upper() in ('H', 'D')]
        if self.after:
            # after END a peak may carry the height 0.00 (only the END rule marks it); between HKLF and END that
            # would leave the domain `valid`
            height = 0.0 if self.ended and self.rng.random() < 0.15 else round(3.0 - 0.07 * k, 2)
            return ['atom', f'Q{k}', 1, xyz, 11.0, [0.05, height], False]
        if hydrogen is None:
            hydrogen = bool(hidx) and rng.random() < 0.3
        if hydrogen and hidx:
            s = rng.choice(hidx) + 1
            u = [rng.choice([-1.2, -1.5, 0.05 + 0.001 * k])]
        else:
            s = rng.choice([i for i in range(len(self.sfac)) if i not in hidx] or [0]) + 1
            if rng.random() < 0.5:
                u = [round(0.02 + 0.0007 * k, 5)]
            else:
                u = [round(0.02 + 0.001 * k, 5), round(0.03 + 0.0011 * k, 5), round(0.04 + 0.0013 * k, 5),
                     round(-0.002 - 0.0001 * k, 5), round(0.003 + 0.0001 * k, 5), round(-0.004 - 0.0002 * k, 5)]
        return ['atom', self.name(self.sfac[s - 1]), s, xyz, rand_sof(rng) if rng.random() < 0.4 else 11.0, u, rng.random() < 0.6]

    def context(self):
        rng = self.rng
        r = rng.random()
        if r < 0.35:
            n = rng.choice([1, 2, 3, -1, -2, 0, 0])
            return ['part', n, rng.choice([None, None, 21.0, -21.0, 31.0, 10.5, -31.0, 11.0]) if n != 0 else None]
        if r < 0.65:
            mn = rng.choice([43, 23, 137, 13, 66, 33, 147, 0, 0, 0])
            return ['afix', mn] + ([0.98] if mn and rng.random() < 0.2 else [])
        num = rng.choice([1, 2, 3, 7, 12, 250, 9999, 0, 0, -3])
        form = rng.choice(['cn', 'nc', 'n', 'cn', 'nc', 'cna', 'nca', 'nac']) if num > 0 else rng.choice(['n', 'cn', 'nc'])
        chain = rng.choice(['A', 'b']) if num > 0 and form in ('cn', 'nc') and rng.random() < 0.15 else None
        return ['resi', rng.choice(CLASSES), num, form, rng.choice([5, 17, 301]), chain]


def make_case(rng):
    """a file, in a quarter of the cases read after one or two other files (same object / another object / reload)"""
    case = make_file(rng)
    if rng.random() < 0.25:
        hist = []
        for _ in range(rng.choice([1, 1, 2])):
            sf = None
            if len(case['sfac']) >= 2 and rng.random() < 0.6:     # the same elements in another order
                sf = list(case['sfac'])
                while sf == case['sfac'] and len(set(sf)) > 1:
                    rng.shuffle(sf)
            hist.append(dict(on=rng.choice(['same', 'same', 'same', 'other']), file=make_file(rng, sf, small=True)))
        case['history'] = hist
        if rng.random() < 0.3:
            case['final'] = 'reload'
    return case


def make_file(rng, sfac=None, small=False):
    if sfac is None:
        nel = rng.randint(1, 5)
        sfac = rng.sample(gen.ELEMENTS, nel)
        if rng.random() < 0.7 and 'H' not in sfac:
            sfac[rng.randrange(nel)] = rng.choice(['H', 'H', 'D'])
        sfac = [rng.choice([e, e.upper(), e.lower()]) for e in sfac]
        if nel >= 2 and rng.random() < 0.1:          # the same element twice (two scattering factors for one element)
            sfac[rng.randrange(1, nel)] = sfac[0]
    nel = len(sfac)
    b = Builder(rng, sfac)
    body = []
    includes = {}

    def block(n, depth=0):
        items = []
        for _ in range(n):
            r = rng.random()
            if r < 0.45:
                items.append(b.atom())
            elif r < 0.85:
                items.append(b.context())
            elif r < 0.9:
                items.append(['other', rng.choice(OTHERS)])
            elif r < 0.95 and not b.after:
                items.append(['frag', rng.choice([17, 176]), [b.name('C') for _ in range(rng.randint(1, 3))]])
                if rng.random() < 0.7:
                    items.append(b.atom())
            elif depth < 2 and len(includes) < 3 and not b.after:
                name = f'inc{len(includes) + 1}.ins'
                includes[name] = None
                items.append(['inc', name])
                includes[name] = block(rng.randint(1, 5), depth + 1)
        return items

    body += block(rng.randint(2, 5 if small else 12))
    closing = rng.random()
    if closing < 0.5:      # close everything before HKLF, as SHELXL writes it
        body += [['afix', 0], ['part', 0, None], ['resi', '', 0, 'n', 0, None]][:rng.randint(0, 3)]
    if rng.random() < 0.9:
        body.append(['hklf'])
        b.after = True
        for _ in range(rng.choice([0, 0, 1, 2])):
            body.append(b.atom())
        if rng.random() < 0.03:
            # the point excluded by `valid`: an ordinary atom line (no peak height) between HKLF and END.
            # Only implementation vs model is compared there.
            b.after = False
            body.append(b.atom(hydrogen=False))
            b.after = True
        if rng.random() < 0.9:
            if rng.random() < 0.3:
                body.append(['other', 'REM between'])
            body.append(['end'])
            b.ended = True
            if rng.random() < 0.6:
                body.append(['other', 'WGHT 0.0411 0.3112'])
                for _ in range(rng.randint(0, 4)):
                    body.append(b.atom())
                    if rng.random() < 0.1:
                        body.append(b.context())
    case = dict(sfac=sfac, body=body)
    if rng.random() < 0.5:
        case['sfac_lines'] = rand_sfac_lines(rng, sfac)
    if rng.random() < 0.4:
        case['style'] = dict(kw=rng.random() < 0.6, num=rng.random() < 0.6, cmt=rng.random() < 0.5)
    for it in body:
        if it[0] == 'hklf' and rng.random() < 0.4:
            it.append(rng.randrange(len(HKLF_FORMS)))
    if includes:
        case['includes'] = includes
    elif rng.random() < 0.1:
        case['mode'] = 'file'
    return case


def rand_sfac_lines(rng, sfac):
    """the table `sfac` spelled with several SFAC instructions of both forms, in table order"""
    out = []
    i = 0
    while i < len(sfac):
        if rng.random() < 0.35:
            out.append(['explicit', sfac[i], rng.random() < 0.5])
            i += 1
        else:
            n = rng.randint(1, 3)
            out.append(['elems', sfac[i:i + n]])
            i += n
    return out


ALPHABET = [['part', 2, 31.0], ['part', 0, None], ['afix', 43], ['afix', 0], ['resi', 'TOL', 3, 'cn', 0, None],
            ['resi', '', 0, 'n', 0, None], ['hklf']]


# read before a third of the enumerated files: other SFAC order, everything left open
EARLIER = dict(sfac=['O', 'H', 'C'], body=[['resi', 'BNZ', 7, 'cn', 0, None], ['part', 1, 41.0], ['afix', 137],
                                           ['atom', 'O9', 1, [0.3, 0.3, 0.3], 11.0, [0.05], False], ['atom', 'H9', 2, [0.4, 0.3, 0.3], 11.0, [-1.5], False],
                                           ['atom', 'C9', 3, [0.5, 0.3, 0.3], 11.0, [0.04], False], ['hklf'], ['end']])


def enum_case(seq, gaps):
    """seq: tuple of alphabet indices, gaps: sorted positions (0..len(seq)) of the three atoms"""
    body = []
    after = False
    names = ['C1', 'H2', 'O3']
    a = 0
    for pos in range(len(seq) + 1):
        while a < 3 and gaps[a] == pos:
            xyz = [0.1 + 0.1 * a, 0.2, 0.3 + 0.05 * a]
            if after:
                body.append(['atom', f'Q{a + 1}', 1, xyz, 11.0, [0.05, 1.5 - 0.1 * a], False])
            else:
                body.append(['atom', names[a], a + 1, xyz, [11.0, 10.5, 11.0][a], [[0.03], [-1.2], [0.02, 0.03, 0.04, -0.002, 0.003, -0.004]][a], False])
            a += 1
        if pos < len(seq):
            it = ALPHABET[seq[pos]]
            after = after or it[0] == 'hklf'
            body.append(list(it))
    if not after:
        body.append(['hklf'])
    body.append(['end'])
    layout = [None, [['elems', ['C']], ['elems', ['H', 'O']]], [['explicit', 'C', True], ['elems', ['H']], ['explicit', 'O', False]],
              [['elems', ['C', 'H']], ['explicit', 'O', False]]][(sum(seq) + len(seq) + sum(gaps)) % 4]
    case = dict(sfac=['C', 'H', 'O'], body=body)
    if layout:
        case['sfac_lines'] = layout
    if (sum(seq) + 2 * sum(gaps)) % 5 == 0:
        case['style'] = dict(kw=True, num=True, cmt=True)
    if (len(seq) + sum(seq) + sum(gaps)) % 3 == 0:
        case['history'] = [dict(on='same', file=EARLIER)]
        if sum(gaps) % 2:
            case['final'] = 'reload'
    return case


def resi_cases(rng, n):
    out = []
    words = ['TOL', 'Thf', '4BZ', 'C6', 'x']
    nums = ['1', '23', '9999', '0', '-4', '500']
    for w in words[:3]:
        for a in nums[:4]:
            out += [dict(toks=[w, a]), dict(toks=[a, w]), dict(toks=[a]), dict(toks=[w, a, '77']), dict(toks=[a, w, '77']), dict(toks=[a, '77', w]),
                    dict(toks=[w, 'A:' + a]), dict(toks=['b:' + a, w]), dict(toks=[w, 'A:' + a, '77'])]
    for _ in range(n):
        k = rng.randint(1, 4)
        toks = []
        for _ in range(k):
            r = rng.random()
            toks.append(rng.choice(words) if r < 0.35 else rng.choice(nums) if r < 0.85 else rng.choice(['A', 'b', 'Xy']) + ':' + rng.choice(nums))
        out.append(dict(toks=toks))
    return out


def run(ctx):
    ctx.rule = ('generated files: SFAC table of 1..5 elements in any order and case, spelled with one or several SFAC instructions of both forms (element list / explicit coefficients, wrapped or not), optionally an element twice; keywords in upper/lower/title case, numbers as 5 decimals / shortest / exponent, trailing ! comments, five HKLF forms; 2..12 body items drawn from atoms (iso / aniso wrapped or not / '
                'riding hydrogens, own occupation code or 11), PART n [sof], AFIX mn, RESI in seven token orders, FRAG..FEND blocks, '
                '+include files (nested up to 2, on disk), other instructions; contexts closed or left open at HKLF; peaks between HKLF and END '
                'and after END (+WGHT); a quarter of the files is the LAST of a read history (1-2 earlier files with the same elements in another SFAC order or an unrelated file, read by the same object or another one, every observable queried in between; last read by read_string / read_file / reload() after the file changed on disk); distinct by (SFAC, items); non-trivial = at least one atom and at least one of: context left open at HKLF, '
                'FRAG block, include, peaks, anisotropic atom. Thorough: every sequence of <= 4 context instructions from a 7-letter alphabet '
                '(PART 2 31 / PART 0 / AFIX 43 / AFIX 0 / RESI TOL 3 / RESI 0 / HKLF) with 3 atoms in every gap placement, and every sequence of 5 and 6 '
                'with the atoms spread.')
    ctx.assumptions = ['valid(file): an atom line between HKLF and END is peak shaped, <= 6 displacement values, FEND closes a FRAG (hypothesis of atoms_match_spec)',
                       'atom names unique per file; scattering-factor numbers within the SFAC table',
                       '`PART n 11` is the same as `PART n` (11 is the documented default of the sof parameter)',
                       'include files contain no END line and are not included twice']
    n = ctx.budget(1500, 30000)
    cases = [make_case(ctx.rng) for _ in range(n)]
    for i in range(0, len(cases), 1000):
        evaluate(ctx, cases[i:i + 1000])
    evaluate(ctx, resi_cases(ctx.rng, ctx.budget(300, 5000)), stream='resi')
    # bounded-exhaustive interleavings
    kmax_full = 4 if (ctx.tier == 'thorough' or ctx.escalated) else 2
    batch = []
    total = 0

    def flush():
        nonlocal batch
        if batch:
            evaluate(ctx, batch)
            batch = []
    for k in range(0, kmax_full + 1):
        for seq in itertools.product(range(len(ALPHABET)), repeat=k):
            for gaps in itertools.combinations_with_replacement(range(k + 1), 3):
                batch.append(enum_case(seq, gaps))
                total += 1
                if len(batch) >= 2000:
                    flush()
    if ctx.tier == 'thorough' or ctx.escalated:
        for k in (5, 6):
            for seq in itertools.product(range(len(ALPHABET)), repeat=k):
                batch.append(enum_case(seq, (1, k // 2 + 1, k)))
                total += 1
                if len(batch) >= 2000:
                    flush()
    flush()
    ctx.extra['bounded_exhaustive'] = f'{total} files: all sequences of <= {kmax_full} context instructions x all placements of 3 atoms' + \
        (', all sequences of 5 and 6 with atoms after instruction 1, k/2+1, k' if kmax_full == 4 else '')
    ctx.exhaustive = False

"""
C14 — grow() returns the asymmetric unit plus exact, bonded symmetry images.   (PARTIAL)

Real code:      Shelxfile.grow(with_qpeaks)  ==  SDM.calc_sdm() (-> collect_needed_symmetry) + SDM.packer()
Oracle (spec):  computed here, from the LATT/SYMM lines of the generated file, in exact Fractions
                (operators, images) and a float metric tensor (distances):
   prefix     the grown list starts with the original atoms (Q-peaks only if requested), unchanged
   image      every added atom is R x + t + (h,k,l), (h,k,l) in Z^3, of an original non-Q atom, same
              element / PART / occupation code / U values (coordinates at 1e-6), flagged symmgen, and belongs to
              the image g(F) of a fragment F (connected component of the bond graph of the asymmetric unit)
              that is bonded to the asymmetric unit
   coincide   no two atoms of the same PART closer than 0.2 A
   complete   every fragment image g(F) (g over operators x all translations that can reach) that is
              directly bonded to the asymmetric unit is present (an image atom that falls within 0.2 A of a
              present atom of the same PART >= 0 counts as present: duplicate suppression)
History:        1-3 calls of grow() / grow(with_qpeaks=True) in any order on ONE Shelxfile object, optionally with edits
                through the API between the calls - edits that change the bond graph without touching names or
                coordinates (atom.element = ..., a new PART object, a new CELL) and edits that do (frac_coords = ...,
                delete(), add_atom()).  Before every call the CURRENT structure is read off the object (atoms.all_atoms,
                cell) and the four clauses are checked against the oracle for that structure; without an edit in
                between, two calls must return the same atoms; no call may change shx.atoms (also after the caller has
                changed the returned list).  Whether an edit does what it says is not C14's business: only what the
                object holds at the time of the call counts.  The Lean model is a pure
                function of its inputs; that the implementation is one too is checked here, not proved.
Model (Lean):   `collectNeeded` on the implementation's own SDM items, `packer` on the implementation's own list
                of needed operations, both in doubles; compared on need list (as a set) and grown atom list.

Bonding rule used by the oracle (the library's): d < 1.2 (r1 + r2), PART compatible (equal, or one of them 0;
H only inside its own PART), never H...H; a contact below 0.2 A is the same site, not a bond. Q-peaks are not atoms: they never bond.
"""
import contextlib
import io
import math
from fractions import Fraction as Fr

from .. import core, gen

# ---------------------------------------------------------------------------------------------------------
# |LATT| values the generator draws settings from (P, I, R, F, A, B, C).  Centred lattices are on since the C11
# repair (complete operator list); restrict this tuple to (1,) to go back to primitive settings only.
LATTICE_TYPES = (1, 2, 3, 4, 5, 6, 7)
# ---------------------------------------------------------------------------------------------------------

SETTINGS = [
    # name, LATT, SYMM lines, cell kind
    ('P1', -1, [], 'tric'),
    ('P-1', 1, [], 'tric'),
    ('P2', -1, ['-X, Y, -Z'], 'mono'),
    ('P21', -1, ['-X, 1/2+Y, -Z'], 'mono'),
    ('Pm', -1, ['X, -Y, Z'], 'mono'),
    ('Pc', -1, ['X, -Y, 1/2+Z'], 'mono'),
    ('P2/m', 1, ['-X, Y, -Z'], 'mono'),
    ('P21/c', 1, ['-X, 1/2+Y, 1/2-Z'], 'mono'),
    ('P21/n', 1, ['1/2-X, 1/2+Y, 1/2-Z'], 'mono'),
    ('P222', -1, ['-X, -Y, Z', '-X, Y, -Z', 'X, -Y, -Z'], 'ortho'),
    ('P212121', -1, ['1/2-X, -Y, 1/2+Z', '-X, 1/2+Y, 1/2-Z', '1/2+X, 1/2-Y, -Z'], 'ortho'),
    ('Pmmm', 1, ['-X, -Y, Z', '-X, Y, -Z', 'X, -Y, -Z'], 'ortho'),
    ('Pnma', 1, ['1/2-X, -Y, 1/2+Z', '-X, 1/2+Y, -Z', '1/2+X, 1/2-Y, 1/2-Z'], 'ortho'),
    ('Pbca', 1, ['1/2-X, -Y, 1/2+Z', '-X, 1/2+Y, 1/2-Z', '1/2+X, 1/2-Y, -Z'], 'ortho'),
    ('P4', -1, ['-Y, X, Z', '-X, -Y, Z', 'Y, -X, Z'], 'tetr'),
    ('P-4', -1, ['Y, -X, -Z', '-X, -Y, Z', '-Y, X, -Z'], 'tetr'),
    ('P4/m', 1, ['-Y, X, Z', '-X, -Y, Z', 'Y, -X, Z'], 'tetr'),
    ('P3', -1, ['-Y, X-Y, Z', '-X+Y, -X, Z'], 'hex'),
    ('P31', -1, ['-Y, X-Y, 1/3+Z', '-X+Y, -X, 2/3+Z'], 'hex'),
    ('P-3', 1, ['-Y, X-Y, Z', '-X+Y, -X, Z'], 'hex'),
    ('P-31c', 1, ['-Y, X-Y, Z', '-X+Y, -X, Z', '-Y, -X, 1/2-Z', '-X+Y, Y, 1/2-Z', 'X, X-Y, 1/2-Z'], 'hex'),
    ('P6', -1, ['-Y, X-Y, Z', '-X+Y, -X, Z', '-X, -Y, Z', 'Y, -X+Y, Z', 'X-Y, X, Z'], 'hex'),
    ('P63/m', 1, ['-Y, X-Y, Z', '-X+Y, -X, Z', '-X, -Y, 1/2+Z', 'Y, -X+Y, 1/2+Z', 'X-Y, X, 1/2+Z'], 'hex'),
    ('P23', -1, ['-X, -Y, Z', '-X, Y, -Z', 'X, -Y, -Z', 'Z, X, Y', 'Z, -X, -Y', '-Z, -X, Y', '-Z, X, -Y',
                 'Y, Z, X', '-Y, Z, -X', 'Y, -Z, -X', '-Y, -Z, X'], 'cubic'),
    # centred settings (used only when their |LATT| is in LATTICE_TYPES)
    ('C2', -7, ['-X, Y, -Z'], 'mono'),
    ('C2/c', 7, ['-X, Y, 1/2-Z'], 'mono'),
    ('C2/m', 7, ['-X, Y, -Z'], 'mono'),
    ('I-4', -2, ['Y, -X, -Z', '-X, -Y, Z', '-Y, X, -Z'], 'tetr'),
    ('Fdd2', -4, ['-X, -Y, Z', '1/4+X, 1/4-Y, 1/4+Z', '1/4-X, 1/4+Y, 1/4+Z'], 'ortho'),
    ('R-3', 3, ['-Y, X-Y, Z', '-X+Y, -X, Z'], 'hex'),
    ('Aea2', -5, ['-X, -Y, Z', '1/2+X, -Y, 1/2+Z', '1/2-X, Y, 1/2+Z'], 'ortho'),
    ('Bmab', 6, ['-X, -Y, Z', '-X, 1/2+Y, 1/2-Z', 'X, 1/2-Y, 1/2-Z'], 'ortho'),
]
CENTRING = {1: [], 2: [(Fr(1, 2), Fr(1, 2), Fr(1, 2))], 3: [(Fr(2, 3), Fr(1, 3), Fr(1, 3)), (Fr(1, 3), Fr(2, 3), Fr(2, 3))],
            4: [(0, Fr(1, 2), Fr(1, 2)), (Fr(1, 2), 0, Fr(1, 2)), (Fr(1, 2), Fr(1, 2), 0)], 5: [(0, Fr(1, 2), Fr(1, 2))],
            6: [(Fr(1, 2), 0, Fr(1, 2))], 7: [(Fr(1, 2), Fr(1, 2), 0)]}

RADII = {'C': 0.77, 'H': 0.45, 'N': 0.75, 'O': 0.73, 'S': 1.02, 'Cl': 0.99, 'F': 0.72, 'P': 1.06}   # cross-checked against the library below
SFAC = ['C', 'H', 'N', 'O', 'S', 'Cl']
DUP = 0.2          # the property's coincidence distance
BAND = 2e-3        # generated cases keep every decisive distance this far from a threshold (no float-flaky verdicts)


# ---------------------------------------------------------------------------------------------------------
# exact symmetry (harness-owned parser of SYMM lines; independent of the library)

def parse_symm(s):
    rows, trans = [], []
    for comp in s.upper().replace(' ', '').split(','):
        row = [0, 0, 0]
        t = Fr(0)
        i = 0
        sign = 1
        num = ''
        while i <= len(comp):
            ch = comp[i] if i < len(comp) else '+'
            if ch in '+-':
                if num:
                    t += sign * Fr(num)
                    num = ''
                sign = 1 if ch == '+' else -1
            elif ch in 'XYZ':
                row['XYZ'.index(ch)] += sign
            else:
                num += ch
            i += 1
        rows.append(tuple(row))
        trans.append(t)
    return tuple(rows), tuple(trans)


def full_group(latt, symm):
    """operators of the space group modulo lattice translations: (id + SYMM) x centring x (inversion if LATT > 0)"""
    base = [parse_symm('X, Y, Z')] + [parse_symm(s) for s in symm]
    ops = []
    for R, t in base:
        for c in [(0, 0, 0)] + CENTRING[abs(latt)]:
            tc = tuple(Fr(a) + Fr(b) for a, b in zip(t, c))
            ops.append((R, tc))
            if latt > 0:
                ops.append((tuple(tuple(-v for v in row) for row in R), tuple(-v for v in tc)))
    return ops


def apply(op, x):
    R, t = op
    return tuple(R[i][0] * x[0] + R[i][1] * x[1] + R[i][2] * x[2] + t[i] for i in range(3))


def matmul(A, B):
    return tuple(tuple(sum(A[i][k] * B[k][j] for k in range(3)) for j in range(3)) for i in range(3))


IDENT = ((1, 0, 0), (0, 1, 0), (0, 0, 1))


# ---------------------------------------------------------------------------------------------------------
# geometry (floats)

def metric(cell):
    a, b, c, al, be, ga = cell
    ca, cb, cg = (math.cos(math.radians(v)) for v in (al, be, ga))
    return ((a * a, a * b * cg, a * c * cb), (a * b * cg, b * b, b * c * ca), (a * c * cb, b * c * ca, c * c))


def ortho(cell):
    a, b, c, al, be, ga = cell
    ca, cb, cg = (math.cos(math.radians(v)) for v in (al, be, ga))
    sg = math.sin(math.radians(ga))
    v = math.sqrt(1 - ca * ca - cb * cb - cg * cg + 2 * ca * cb * cg)
    return ((a, b * cg, c * cb), (0.0, b * sg, c * (ca - cb * cg) / sg), (0.0, 0.0, c * v / sg))


def inv3(m):
    (a, b, c), (d, e, f), (g, h, i) = m
    det = a * (e * i - f * h) - b * (d * i - f * g) + c * (d * h - e * g)
    return (((e * i - f * h) / det, (c * h - b * i) / det, (b * f - c * e) / det),
            ((f * g - d * i) / det, (a * i - c * g) / det, (c * d - a * f) / det),
            ((d * h - e * g) / det, (b * g - a * h) / det, (a * e - b * d) / det))


def length(G, v):
    x, y, z = (float(t) for t in v)
    s = x * x * G[0][0] + y * y * G[1][1] + z * z * G[2][2] + 2 * (x * y * G[0][1] + x * z * G[0][2] + y * z * G[1][2])
    return math.sqrt(max(s, 0.0))


def compatible(a, b):
    """the bonding rule's non-metric part: PARTs compatible, never H...H"""
    if a['el'] == 'H' and b['el'] == 'H':
        return False
    if a['el'] == 'H' or b['el'] == 'H':
        return a['part'] == b['part']       # the library bonds H only inside its own PART (sdm.py:104-106)
    return a['part'] == b['part'] or a['part'] * b['part'] == 0


def limit(a, b):
    return 1.2 * (RADII[a['el']] + RADII[b['el']])


# ---------------------------------------------------------------------------------------------------------
# the case

def fx(x):
    return Fr(f'{x:.6f}')


def atoms_of(case):
    """asymmetric unit in file order (atoms, then Q-peaks) with exact coordinates"""
    out = []
    if 'asu' in case:      # a state of an edit history: the atom list as it stands (atoms.all_atoms order)
        return [dict(a, pos=tuple(fx(v) for v in a['xyz']), el=case['sfac'][a['sfac'] - 1]) for a in case['asu']]
    for a in case['atoms']:
        out.append(dict(a, pos=tuple(fx(v) for v in a['xyz']), el=case['sfac'][a['sfac'] - 1], q=False))
    for k, qp in enumerate(case['qpeaks']):
        out.append(dict(name=f'Q{k + 1}', sfac=1, xyz=qp['xyz'], pos=tuple(fx(v) for v in qp['xyz']), el=case['sfac'][0], q=True,
                        part=0, sof=11.0, u=[0.05], height=qp['height']))
    return out


def calls_of(case):
    """the history of grow() calls on one object: list of with_qpeaks flags (older replay files have one call)"""
    return list(case.get('calls') or [case['with_q']])


def steps_of(case):
    """the history on one object: {'grow': flag} and {'edit': kind, ...} steps"""
    return list(case.get('steps') or [dict(grow=f) for f in calls_of(case)])


def initial_state(case):
    asu = [dict(name=a['name'], sfac=a['sfac'], xyz=list(a['xyz']), part=a['part'], sof=a['sof'], u=(list(a['u']) + [0.0] * 6)[:6], q=False)
           for a in case['atoms']]
    asu += [dict(name=f'Q{k + 1}', sfac=1, xyz=list(qp['xyz']), part=0, sof=11.0, u=[0.05, qp['height'], 0.0, 0.0, 0.0, 0.0], q=True,
                 height=qp['height']) for k, qp in enumerate(case['qpeaks'])]
    return dict(case, asu=asu)


def edit_sim(state, e):
    """what the edit means (used by the generator only, to keep every state of a history clear of the thresholds)"""
    asu = [dict(a) for a in state['asu']]
    cell = list(state['cell'])
    k = next((i for i, a in enumerate(asu) if a['name'] == e.get('name')), None)
    if e['edit'] == 'element':
        asu[k]['sfac'] = state['sfac'].index(e['el']) + 1
    elif e['edit'] == 'part':
        asu[k]['part'] = e['part']
    elif e['edit'] == 'move':
        asu[k]['xyz'] = list(e['xyz'])
    elif e['edit'] == 'delete':
        del asu[k]
    elif e['edit'] == 'add':
        asu.append(dict(name=e['name'], sfac=state['sfac'].index(e['el']) + 1, xyz=list(e['xyz']), part=0, sof=11.0,
                        u=[0.05, 0.0, 0.0, 0.0, 0.0, 0.0], q=False))
    elif e['edit'] == 'cell':
        cell = list(e['cell'])
    return dict(state, asu=asu, cell=cell)


def edit_impl(shx, e):
    """the same edit through the library's API"""
    from shelxfile.shelx.cards import CELL, PART
    if e['edit'] == 'add':
        shx.add_atom(name=e['name'], coordinates=list(e['xyz']), element=e['el'], uvals=[0.05, 0.0, 0.0, 0.0, 0.0, 0.0], part=0, sof=11.0)
        return
    if e['edit'] == 'cell':
        shx.cell = CELL(shx, ['CELL', '0.71073'] + [str(v) for v in e['cell']])
        return
    at = shx.atoms.get_atom_by_name(e['name'])
    if e['edit'] == 'element':
        at.element = e['el']
    elif e['edit'] == 'part':
        at.part = PART(shx, ['PART', str(e['part'])])
    elif e['edit'] == 'move':
        at.frac_coords = tuple(e['xyz'])
    elif e['edit'] == 'delete':
        at.delete()


def rand_edit(rng, state, used):
    real = [a for a in state['asu'] if not a['q']]
    kind = rng.choices(['element', 'part', 'cell', 'move', 'delete', 'add'], [3, 3, 2, 2, 1, 2])[0]
    if kind == 'delete' and len(real) < 2:
        kind = 'element'
    a = rng.choice(real)
    Oinv = inv3(ortho(state['cell']))
    if kind == 'element':
        cur = state['sfac'][a['sfac'] - 1]
        return dict(edit='element', name=a['name'], el=rng.choice([e for e in ['C', 'N', 'O', 'S', 'Cl', 'H'] if e != cur]))
    if kind == 'part':
        return dict(edit='part', name=a['name'], part=rng.choice([p for p in [0, 1, 2, -1] if p != a['part']]))
    if kind == 'cell':
        f = rng.choice([0.85, 0.93, 1.1, 1.2])
        return dict(edit='cell', cell=[round(v * f, 3) for v in state['cell'][:3]] + list(state['cell'][3:]))
    if kind == 'delete':
        return dict(edit='delete', name=a['name'])
    d = rand_dir(rng)
    L = rng.uniform(0.3, 1.0) if kind == 'move' else rng.uniform(1.3, 1.55)
    xyz = [round(a['xyz'][i] + sum(Oinv[i][k] * L * d[k] for k in range(3)), 6) for i in range(3)]
    if kind == 'move':
        return dict(edit='move', name=a['name'], xyz=xyz)
    el = rng.choice(['C', 'N', 'O', 'S'])
    return dict(edit='add', name=gen.atom_name(rng, el, used), el=el, xyz=xyz)


def render(case):
    fs = gen.FileSpec(titl='c14 ' + case['sg'], cell=tuple([0.71073] + list(case['cell'])), latt=case['latt'], symm=list(case['symm']),
                      sfac=list(case['sfac']), unit=[4] * len(case['sfac']), fvars=[0.5, 0.6])
    body = []
    part = 0
    for a in case['atoms']:
        if a['part'] != part:
            part = a['part']
            body.append(f'PART {part}')
        body.append(gen.AtomSpec(a['name'], a['sfac'], tuple(a['xyz']), a['sof'], tuple(a['u'])))
    if part != 0:
        body.append('PART 0')
    fs.body = body
    for k, qp in enumerate(case['qpeaks']):
        fs.tail.append(gen.AtomSpec(f'Q{k + 1}', 1, tuple(qp['xyz']), 11.0, (0.05, qp['height'])))
    return fs.text()


def contacts(case, asu, ops, G, dmax=3.6):
    """every (op index, T, i, j, d): image op(atom i) + T within dmax of atom j of the asymmetric unit
    (all translations that can reach; the atom itself under the identity is left out)"""
    Ginv = inv3(G)
    bound = [dmax * math.sqrt(Ginv[i][i]) for i in range(3)]
    out = []
    for n, op in enumerate(ops):
        for i, a in enumerate(asu):
            p = apply(op, a['pos'])
            for j, b in enumerate(asu):
                cand = []
                for c in range(3):
                    d = b['pos'][c] - p[c]
                    r = round(d)
                    cand.append([t for t in range(r - 2, r + 3) if abs(float(p[c] + t - b['pos'][c])) <= bound[c]])
                for t0 in cand[0]:
                    for t1 in cand[1]:
                        for t2 in cand[2]:
                            if n == 0 and i == j and (t0, t1, t2) == (0, 0, 0):
                                continue
                            d = length(G, (p[0] + t0 - b['pos'][0], p[1] + t1 - b['pos'][1], p[2] + t2 - b['pos'][2]))
                            if d <= dmax:
                                out.append((n, (t0, t1, t2), i, j, d))
    return out


def analyse(case):
    """the oracle's view of a case: fragments, bonded fragment images, borderline flags"""
    asu = atoms_of(case)
    ops = full_group(case['latt'], case['symm'])
    G = metric(case['cell'])
    con = contacts(case, asu, ops, G)
    n = len(asu)
    real = [i for i in range(n) if not asu[i]['q']]
    borderline = []

    def bonded(i, j, d):
        if asu[i]['q'] or asu[j]['q'] or not compatible(asu[i], asu[j]):
            return False
        return DUP <= d < limit(asu[i], asu[j])

    for (g, T, i, j, d) in con:
        if asu[i]['q'] or asu[j]['q']:
            continue
        if compatible(asu[i], asu[j]) and abs(d - limit(asu[i], asu[j])) < BAND:
            borderline.append('bond-limit')
        if (compatible(asu[i], asu[j]) or asu[i]['part'] == asu[j]['part']) and d < 0.6 and (i != j or d > 1e-4):
            borderline.append('too-close')
        if asu[i]['el'] == 'H' and asu[j]['el'] == 'H' and 1e-4 < d < 1.2:
            # the library calls H...H below 1.08 A covalent (one molecule number) although it never grows through it;
            # such a clash is unphysical, keep generated structures away from it
            borderline.append('hh-clash')
    # fragments = connected components of the bond graph of the asymmetric unit (identity, no translation)
    comp = {i: i for i in real}

    def root(i):
        while comp[i] != i:
            i = comp[i]
        return i
    for (g, T, i, j, d) in con:
        if g == 0 and T == (0, 0, 0) and bonded(i, j, d):
            comp[root(i)] = root(j)
    frag = {}
    for i in real:
        frag.setdefault(root(i), []).append(i)
    frags = sorted(frag.values())
    fragof = {i: k for k, f in enumerate(frags) for i in f}
    # shortest image contact per ordered pair (the library's SDM distance, for classification only)
    dmin = {}
    for (g, T, i, j, d) in con:
        if d > 0.01 and d < dmin.get((i, j), 1e9):
            dmin[(i, j)] = d
    # bonded fragment images
    images = {}
    for (g, T, i, j, d) in con:
        if g == 0 and T == (0, 0, 0):
            continue
        if bonded(i, j, d):
            key = (g, T, fragof[i])
            images.setdefault(key, []).append((i, j, d))
            w = dmin[(i, j)] + 0.2
            if abs(d - w) < BAND:
                borderline.append('window')
    # classification aids (never part of the verdict): what the library's molecule numbering merges
    def groups(with_q):
        par = {i: i for i in range(n) if with_q or not asu[i]['q']}

        def rt(i):
            while par[i] != i:
                i = par[i]
            return i

        def bq(i, j, d):
            if not with_q:
                return bonded(i, j, d)
            return compatible(asu[i], asu[j]) and 0.01 < d < limit(asu[i], asu[j])
        for (g, T, i, j, d) in con:
            if i in par and j in par and bq(i, j, d):
                par[rt(i)] = rt(j)
        img = set()
        for (g, T, i, j, d) in con:
            if i in par and j in par and not (g == 0 and T == (0, 0, 0)) and bq(i, j, d):
                img.add((g, T, rt(i)))
        return rt, img
    if case.get('profile') == 'many' and any(g == 0 and fragof.get(i) != fragof.get(j) and d < 2.3 for (g, T, i, j, d) in con
                                             if not asu[i]['q'] and not asu[j]['q']):
        borderline.append('fragments-clash')     # many small fragments thrown into one cell: keep them apart
    return dict(asu=asu, ops=ops, G=G, con=con, frags=frags, fragof=fragof, dmin=dmin, images=images, borderline=borderline, real=real,
                groups=groups)


# ---------------------------------------------------------------------------------------------------------
# generator

def rand_cell(rng, kind):
    a, b, c = (round(rng.uniform(6.5, 13.0), 3) for _ in range(3))
    if kind == 'tric':
        return [a, b, c] + [round(rng.uniform(75, 105), 2) for _ in range(3)]
    if kind == 'mono':
        return [a, b, c, 90.0, round(rng.uniform(91, 118), 2), 90.0]
    if kind == 'ortho':
        return [a, b, c, 90.0, 90.0, 90.0]
    if kind == 'tetr':
        return [a, a, c, 90.0, 90.0, 90.0]
    if kind == 'hex':
        return [a, a, c, 90.0, 90.0, 120.0]
    return [a, a, a, 90.0, 90.0, 90.0]


def rand_dir(rng):
    while True:
        v = [rng.uniform(-1, 1) for _ in range(3)]
        n = math.sqrt(sum(t * t for t in v))
        if 0.1 < n <= 1:
            return [t / n for t in v]


def special_position(rng, ops):
    """a point fixed by some non-identity operator + lattice translation (exact), or a random point"""
    if len(ops) < 2 or rng.random() < 0.1:
        return tuple(Fr(rng.randint(0, 999), 1000) for _ in range(3)), 'general'
    for _ in range(20):
        R, t = rng.choice(ops[1:])
        T = tuple(rng.choice([0, 0, 0, 1, -1]) for _ in range(3))
        g = (R, tuple(a + b for a, b in zip(t, T)))
        k, M = 1, R
        while M != IDENT:
            M = matmul(M, R)
            k += 1
        p = tuple(Fr(rng.randint(0, 40), 40) for _ in range(3))
        orbit = [p]
        for _ in range(k - 1):
            orbit.append(apply(g, orbit[-1]))
        x0 = tuple(sum(o[c] for o in orbit) / k for c in range(3))
        if apply(g, x0) == x0:
            det = (R[0][0] * (R[1][1] * R[2][2] - R[1][2] * R[2][1]) - R[0][1] * (R[1][0] * R[2][2] - R[1][2] * R[2][0])
                   + R[0][2] * (R[1][0] * R[2][1] - R[1][1] * R[2][0]))
            tr = R[0][0] + R[1][1] + R[2][2]
            kind = {(-1, -3): 'inversion', (1, -1): 'twofold', (-1, 1): 'mirror'}.get((det, tr), f'axis{k}')
            return x0, kind
    return tuple(Fr(rng.randint(0, 999), 1000) for _ in range(3)), 'general'


def build_fragment(rng, nheavy, with_h):
    """cartesian coordinates of a small chain: list of (element, xyz)"""
    els = [rng.choice(['C', 'C', 'C', 'N', 'O', 'S']) for _ in range(nheavy)]
    pts = [[0.0, 0.0, 0.0]]
    for k in range(1, nheavy):
        for _ in range(200):
            L = (RADII[els[k - 1]] + RADII[els[k]]) * rng.uniform(0.93, 1.08)
            d = rand_dir(rng)
            q = [pts[k - 1][c] + L * d[c] for c in range(3)]
            if all(math.dist(q, p) > 2.3 for p in pts[:k - 1]):
                pts.append(q)
                break
        else:
            pts.append([pts[k - 1][0] + 1.5, pts[k - 1][1] + 0.3 * k, pts[k - 1][2]])
    out = [(e, p) for e, p in zip(els, pts)]
    if with_h:
        k = rng.randrange(nheavy)
        for _ in range(200):
            d = rand_dir(rng)
            q = [pts[k][c] + 0.96 * d[c] for c in range(3)]
            if all(math.dist(q, p) > 1.7 for i, p in enumerate(pts) if i != k):
                out.append(('H', q, k))
                break
    return out


def make_case(rng, profile=None):
    settings = [s for s in SETTINGS if abs(s[1]) in LATTICE_TYPES]
    profile = profile or rng.choices(['normal', 'many', 'negpart', 'onsite'], [10, 2, 2, 3])[0]
    if profile == 'many':
        # 7-9 fragments need room: few operators, a cell 1.8 times as long (otherwise nearly every draw clashes)
        settings = [s for s in settings if len(full_group(s[1], s[2])) <= 8]
    sg, latt, symm, kind = rng.choice(settings)
    cell = rand_cell(rng, kind)
    if profile == 'many':
        cell = [round(1.8 * v, 3) for v in cell[:3]] + cell[3:]
    ops = full_group(latt, symm)
    Oinv = inv3(ortho(cell))
    nfrag = rng.choice([1, 1, 2, 2, 3]) if profile != 'many' else rng.randint(7, 9)
    atoms = []
    used = set()
    usof = 0
    for f in range(nfrag):
        nheavy = rng.randint(1, 4) if profile != 'many' else rng.randint(1, 2)
        fr = build_fragment(rng, nheavy, with_h=rng.random() < 0.4)
        x0, where = special_position(rng, ops)
        anchor = rng.randrange(nheavy)
        r = rng.random()
        if profile == 'onsite' and f == 0 or r < 0.15:
            off = 0.0
        elif r < 0.65:
            off = rng.uniform(0.45, 0.95)        # half a bond away: the image is bonded
        elif r < 0.85:
            off = rng.uniform(0.95, 1.7)
        else:
            off = rng.uniform(2.5, 4.0)
        d = rand_dir(rng)
        # random rotation: three random orthonormal axes
        e1 = rand_dir(rng)
        t = rand_dir(rng)
        e2 = [t[1] * e1[2] - t[2] * e1[1], t[2] * e1[0] - t[0] * e1[2], t[0] * e1[1] - t[1] * e1[0]]
        n2 = math.sqrt(sum(v * v for v in e2)) or 1.0
        e2 = [v / n2 for v in e2]
        e3 = [e1[1] * e2[2] - e1[2] * e2[1], e1[2] * e2[0] - e1[0] * e2[2], e1[0] * e2[1] - e1[1] * e2[0]]
        a0 = fr[anchor][1]
        mode = 'plain'
        if profile == 'negpart' and f == 0:
            mode = 'neg'
        elif rng.random() < 0.25 and nheavy >= 2:
            mode = 'disorder'
        for item in fr:
            el, p = item[0], item[1]
            rel = [p[c] - a0[c] for c in range(3)]
            rot = [rel[0] * e1[c] + rel[1] * e2[c] + rel[2] * e3[c] + off * d[c] for c in range(3)]
            fracd = [sum(Oinv[i][k] * rot[k] for k in range(3)) for i in range(3)]
            xyz = [round(float(x0[i]) + fracd[i], 6) for i in range(3)]
            if off == 0.0 and item is fr[anchor] and all((x0[i] * 10 ** 6).denominator == 1 for i in range(3)):
                xyz = [float(x0[i]) for i in range(3)]
            usof += 1
            iso = rng.random() < 0.5
            u = [round(0.02 + 0.001 * usof, 5)] if iso else [round(0.02 + 0.001 * usof + 0.0001 * k, 5) * (1 if k < 3 else 0.1) for k in range(6)]
            u = [round(v, 5) for v in u]
            part, sof = 0, 11.0
            if mode == 'neg':
                part, sof = -1, 10.5
            elif mode == 'disorder' and item is not fr[0]:
                part, sof = 1, 21.0
            if el == 'H' and mode == 'disorder':
                hp = item[2]
                part, sof = (0, 11.0) if fr[hp] is fr[0] else (1, 21.0)
            atoms.append(dict(name=gen.atom_name(rng, el, used), sfac=SFAC.index(el) + 1, xyz=xyz, sof=sof, u=u, part=part))
            if part == 1:
                # the second component of the disorder: same atom moved by ~0.7 A, PART 2
                dd = rand_dir(rng)
                sh = [0.7 * dd[c] for c in range(3)]
                fs = [sum(Oinv[i][k] * sh[k] for k in range(3)) for i in range(3)]
                atoms.append(dict(name=gen.atom_name(rng, el, used), sfac=SFAC.index(el) + 1, xyz=[round(xyz[i] + fs[i], 6) for i in range(3)],
                                  sof=-21.0, u=[round(v + 0.0003, 5) for v in u], part=2))
    # atoms of PART 1 / 2 / -1 must be contiguous per PART block: order within a fragment is kept, PART lines are emitted on change
    qpeaks = []
    if rng.random() < 0.5:
        for k in range(rng.randint(1, 3)):
            r = rng.random()
            if r < 0.5 and atoms:
                # next to a symmetry image of an atom: a Q-peak that would "bond" if it were an atom
                a = rng.choice(atoms)
                p = apply(rng.choice(ops), tuple(fx(v) for v in a['xyz']))
                dd = rand_dir(rng)
                sh = [rng.uniform(0.9, 1.5) * dd[c] for c in range(3)]
                fs = [sum(Oinv[i][kk] * sh[kk] for kk in range(3)) for i in range(3)]
                xyz = [round(float(p[i]) % 1.0 + fs[i], 4) for i in range(3)]
            else:
                xyz = [round(rng.uniform(0, 1), 4) for _ in range(3)]
            qpeaks.append(dict(xyz=xyz, height=round(rng.uniform(0.3, 2.5), 2)))
    # history of calls on one object: one call, or 2-3 calls with every order of the flag
    ncalls = rng.choice([1, 1, 2, 2, 3])
    calls = [rng.random() < (0.3 if ncalls == 1 else 0.5) for _ in range(ncalls)]
    case = dict(sg=sg, latt=latt, symm=symm, cell=cell, sfac=SFAC, atoms=atoms, qpeaks=qpeaks,
                with_q=calls[0], calls=calls, profile=profile)
    if rng.random() < 0.4 and profile != 'many':
        # history with edits through the API between the calls: grow, 1-2 edits, grow (, edit, grow)
        steps = [dict(grow=rng.random() < 0.4)]
        state = initial_state(case)
        for _ in range(rng.choice([1, 1, 2])):
            for _ in range(rng.choice([1, 1, 2])):
                e = rand_edit(rng, state, used)
                state = edit_sim(state, e)
                steps.append(e)
            steps.append(dict(grow=rng.random() < 0.4))
        case['steps'] = steps
        case['with_q'] = steps[0]['grow']
        case['calls'] = [st['grow'] for st in steps if 'grow' in st]
    return case


def good_case(rng, profile=None):
    """generated case whose decisive distances stay clear of every threshold"""
    for _ in range(60 if profile != 'many' else 12):
        case = make_case(rng, profile)
        if any(abs(v) > 3.5 for a in case['atoms'] for v in a['xyz']):
            continue
        an = analyse(case)
        if an['borderline']:
            continue
        # every state of an edit history in which grow() is called must be clear of the thresholds too
        ok = True
        state = initial_state(case)
        edited = False
        for st in steps_of(case):
            if 'edit' in st:
                state = edit_sim(state, st)
                edited = True
            elif edited:
                if any(abs(v) > 3.5 for a in state['asu'] for v in a['xyz']) or analyse(state)['borderline']:
                    ok = False
                    break
                edited = False
        if ok:
            return case, an
    return None, None


# ---------------------------------------------------------------------------------------------------------
# implementation

def observe_impl(case):
    from shelxfile import Shelxfile
    from shelxfile.shelx.sdm import SDM
    from shelxfile.misc.elements import get_radius_from_element
    shx = Shelxfile()
    sink = io.StringIO()
    with contextlib.redirect_stdout(sink):
        shx.read_string(render(case))
    want = [a['name'] for a in atoms_of(case)]
    names = [a.name for a in shx.atoms.all_atoms]
    if names != want:
        return dict(error=f'parse: atoms {names}, generated {want}')
    for el, r in RADII.items():
        if el in case['sfac'] and abs(get_radius_from_element(el) - r) > 1e-12:
            return dict(error=f'radius of {el} is {get_radius_from_element(el)} in the library, {r} in the oracle')

    def obs(a):
        return dict(name=a.name, sfac=a.sfac_num, xyz=[float(a.x), float(a.y), float(a.z)], part=a.part.n, sof=float(a.sof),
                    u=[float(v) for v in a.uvals], symmgen=bool(a.symmgen), q=bool(a.qpeak))
    # the history: every step on the SAME object.  Before each grow() the current structure is read off the object (that is what
    # the oracle is asked about); after each grow() the model's own atom list must be what it was before the call.
    def snapshot():
        asu = []
        for a in shx.atoms.all_atoms:
            o = obs(a)
            asu.append(dict(name=o['name'], sfac=o['sfac'], xyz=o['xyz'], part=o['part'], sof=o['sof'], u=(o['u'] + [0.0] * 6)[:6], q=o['q'],
                            symmgen=o['symmgen'], height=float(a.peak_height) if o['q'] else None))
        c = shx.cell
        return dict(case, asu=asu, cell=[float(c.a), float(c.b), float(c.c), float(c.alpha), float(c.beta), float(c.gamma)])

    res = dict(results=[], asu_changed=None)
    prev = None          # atoms of the previous grow() if nothing was edited since
    k = -1
    for st in steps_of(case):
        if 'edit' in st:
            try:
                with contextlib.redirect_stdout(sink):
                    edit_impl(shx, st)
            except Exception as e:
                res['edit_error'] = f'{st["edit"]}: {type(e).__name__}: {e}'
                break
            prev = None
            continue
        k += 1
        flag = st['grow']
        state = snapshot()
        before = [obs(a) for a in shx.atoms.all_atoms]
        ident = [id(a) for a in shx.atoms.all_atoms]
        entry = dict(flag=flag, state=state)
        try:
            with contextlib.redirect_stdout(sink):
                grown = shx.grow(with_qpeaks=True) if flag else shx.grow()
            entry['grown'] = [obs(a) for a in grown]
            if len(grown):
                grown.pop()          # the returned list belongs to the caller: changing it must not reach the model
        except Exception as e:
            if k == 0:
                return dict(raised=type(e).__name__)
            entry['raised'] = type(e).__name__
        if 'grown' in entry:
            atoms_only = [(tuple(round(v, 9) for v in a['xyz']), a['sfac'], a['part'], round(a['sof'], 9), tuple(round(v, 9) for v in a['u']),
                           a['symmgen']) for a in entry['grown'] if not a['q']]
            if prev is not None and atoms_only != prev:
                entry['differs_from_previous'] = (len(prev), len(atoms_only))
            prev = atoms_only
        res['results'].append(entry)
        now = shx.atoms.all_atoms
        if [id(a) for a in now] != ident or [obs(a) for a in now] != before:
            res['asu_changed'] = dict(call=k, before=[a['name'] for a in before], after=[a.name for a in now])
            break       # the object is no longer the structure it was: later calls (and their cost) mean nothing
    res['grown'] = res['results'][0].get('grown')
    res['final'] = snapshot()
    if res['asu_changed'] or 'edit_error' in res:
        return res
    # inputs of the model: the implementation's own operator list, SDM items and list of needed operations
    try:
        with contextlib.redirect_stdout(sink):
            sdm = SDM(shx)
            need = sdm.calc_sdm()
            packed = sdm.packer(sdm, need, with_qpeaks=res['results'][-1]['flag'])
        res['need'] = [[int(v) for v in bs] for bs in need]
        res['packed'] = [obs(a) for a in packed]
        from shelxfile.misc.dsrmath import Array
        unit = [Array(e) * s.matrix for s in shx.symmcards for e in ([1, 0, 0], [0, 1, 0], [0, 0, 1])]   # images of the basis vectors
        res['ops'] = [dict(R=[[int(round(unit[3 * n + k][i])) for k in range(3)] for i in range(3)], t=[float(v) for v in s.trans])
                      for n, s in enumerate(shx.symmcards)]
        res['mol'] = [int(a.molindex) for a in shx.atoms.all_atoms]
        allat = shx.atoms.all_atoms

        def pos(at):   # by identity (Atom.__eq__ compares text)
            return next(i for i, a in enumerate(allat) if a is at)
        res['sdm'] = [[pos(it.atom1), pos(it.atom2), float(it.dist), bool(it.covalent)] for it in sdm.sdm_list]
    except Exception as e:
        res['internals'] = f'{type(e).__name__}: {e}'
    return res


# ---------------------------------------------------------------------------------------------------------
# the property, checked on the implementation's result

def same_attrs(g, o):
    return (g['sfac'] == o['sfac'] and g['part'] == o['part'] and core.close(g['sof'], o['sof'], 1e-9) and
            len(g['u']) == 6 and all(core.close(x, y, 1e-9) for x, y in zip(g['u'], list(o['u']) + [0.0] * (6 - len(o['u'])))))


def match_image(an, g, tol=1e-6):
    """all (op index, T, i) with op(atom i) + T = g (within tol) and equal element/PART/sof/U"""
    out = []
    for i in an['real']:
        o = an['asu'][i]
        if not same_attrs(g, o):
            continue
        for n, op in enumerate(an['ops']):
            p = apply(op, o['pos'])
            T = []
            for c in range(3):
                d = g['xyz'][c] - float(p[c])
                r = round(d)
                if abs(d - r) > tol:
                    break
                T.append(r)
            else:
                out.append((n, tuple(T), i))
    return out


def check_property(ctx, case, an, obs):
    """returns list of (signature, what, expected, actual)"""
    fails = []
    asu, G = an['asu'], an['G']
    shown = [a for a in asu if case['with_q'] or not a['q']]
    grown = obs['grown']
    tagp = f'sg={case["sg"]}'
    # (i) prefix
    ok = len(grown) >= len(shown)
    if ok:
        for g, o in zip(grown, shown):
            if not (g['name'] == o['name'] and g['q'] == o['q'] and g['symmgen'] == o.get('symmgen', False) and all(core.close(g['xyz'][c], float(o['pos'][c]), 1e-9) for c in range(3))
                    and (o['q'] or same_attrs(g, o))):
                ok = False
    if not ok:
        fails.append(('C14|prefix', f'the grown list does not start with the {len(shown)} original atoms unchanged '
                                    f'(with_qpeaks={case["with_q"]})', [o['name'] for o in shown], [g['name'] for g in grown[:len(shown) + 2]]))
        return fails
    added = grown[len(shown):]
    # (ii) images
    present = {}
    for k, g in enumerate(added):
        m = match_image(an, g)
        if g['q'] or not g['symmgen'] or not m:
            why = 'is a Q-peak' if g['q'] else 'is not flagged symmgen' if not g['symmgen'] else \
                'is not R x + t + integer vector of an original atom with equal element/PART/sof/U'
            fails.append(('C14|image|not-an-image', f'added atom {g["name"]} at {g["xyz"]} {why}', None, g))
            continue
        for (n, T, i) in m:
            present[(n, T, i)] = k
        if not any((n, T, an['fragof'][i]) in an['images'] for (n, T, i) in m):
            # to which atoms of the asymmetric unit is its fragment image bonded at all?
            n, T, i = m[0]
            rt, img = an['groups'](False)
            rtq, imgq = an['groups'](True)
            def inwindow(a, b, c):
                # a contact of this image that is no bond but lies inside the code's window d_min + 0.2 of a bonded pair
                return any(gg == a and TT == b and rt(ii) == rt(c) and not asu[j]['q'] and compatible(asu[ii], asu[j]) and
                           an['dmin'].get((ii, j), 1e9) < limit(asu[ii], asu[j]) <= d <= an['dmin'].get((ii, j), 1e9) + 0.2 + 1e-3
                           for (gg, TT, ii, j, d) in an['con'] if not asu[ii]['q'])
            cls = '|merged-fragments' if any((a, b, rt(c)) in img for (a, b, c) in m) else \
                '|window-wider-than-bond' if any(inwindow(a, b, c) for (a, b, c) in m) else \
                '|via-qpeak' if any((a, b, rtq(c)) in imgq for (a, b, c) in m) else ''
            sig = 'C14|image|unbonded-fragment-image' + cls
            fails.append((sig, f'added atom {g["name"]} = op{n}{T}({asu[i]["name"]}) belongs to a fragment image that is not bonded to the asymmetric unit',
                          sorted(f'op{a}{b} frag{c}' for (a, b, c) in an['images']), g))
    # (iii) coincidence
    for x in range(len(grown)):
        for y in range(x + 1, len(grown)):
            if grown[x]['part'] == grown[y]['part'] and not grown[x]['q'] and not grown[y]['q']:
                d = length(G, [grown[x]['xyz'][c] - grown[y]['xyz'][c] for c in range(3)])
                if d < DUP - 1e-7:
                    cls = 'part>=0'
                    if grown[x]['part'] < 0:
                        # the open finding is narrow: both are the original / images of one atom that sits on a special position
                        def origins(k):
                            if k < len(shown):
                                return {i for i in an['real'] if asu[i]['name'] == grown[k]['name']}
                            return {i for (nn, TT, i) in match_image(an, grown[k])}
                        onsite = {i for (gg, TT, i, j, dd) in an['con'] if i == j and dd < 1e-4}
                        special = y >= len(shown) and bool(origins(x) & origins(y) & onsite)
                        cls = 'part<0|atom-on-special-position' if special else 'part<0'
                    fails.append((f'C14|coincide|{cls}', f'{grown[x]["name"]} and {grown[y]["name"]} (PART {grown[x]["part"]}) are {d:.4f} A apart',
                                  '>= 0.2', d))
    # (iv) completeness
    for (n, T, f), how in sorted(an['images'].items()):
        missing = []
        for i in an['frags'][f]:
            if (n, T, i) in present:
                continue
            p = apply(an['ops'][n], asu[i]['pos'])
            pos = [float(p[c] + T[c]) for c in range(3)]
            if asu[i]['part'] >= 0 and any(g['part'] == asu[i]['part'] and not g['q'] and
                                           length(G, [g['xyz'][c] - pos[c] for c in range(3)]) < DUP for g in grown):
                continue
            missing.append(asu[i]['name'])
        if missing:
            # which narrowing of the code explains it (classification of the finding only)
            order = sorted(an['frags'], key=lambda fr: min((i for i in fr if asu[i]['el'] != 'H'), default=10 ** 6))
            molno = order.index(an['frags'][f]) + 1
            inwin = any(d <= an['dmin'].get((i, j), 1e9) + 0.2 for (i, j, d) in how)
            honly = all(asu[i]['el'] == 'H' for i in an['frags'][f])
            wrapped = any(all(T[c] == -math.floor(apply(an['ops'][n], asu[i]['pos'])[c] - asu[j]['pos'][c] + Fr(1, 2)) for c in range(3))
                          for (i, j, d) in how)
            cls = 'not-nearest-translate' if not wrapped else 'outside-window' if not inwin else 'molindex>6' if molno > 6 else \
                'h-only-fragment' if honly else 'missing'
            i, j, d = min(how, key=lambda t: t[2])
            fails.append((f'C14|complete|{cls}', f'image op{n}{T} of fragment {[asu[i]["name"] for i in an["frags"][f]]} is bonded to the asymmetric unit '
                                                 f'({asu[i]["name"]}\'...{asu[j]["name"]} {d:.3f} A) but atoms {missing} are absent',
                          [asu[i]['name'] for i in an['frags'][f]], missing))
    return fails


# ---------------------------------------------------------------------------------------------------------

def model_request(case, obs):
    a, b, c, al, be, ga = case['cell']
    asu = atoms_of(case)
    kern = dict(asq=a ** 2, bsq=b ** 2, csq=c ** 2, aga=a * b * math.cos(math.radians(ga)), bbe=a * c * math.cos(math.radians(be)),
                cal=b * c * math.cos(math.radians(al)))
    from shelxfile.misc.elements import get_atomic_number
    atoms = [dict(src=i, pos=[float(v) for v in o['pos']], sfac=o['sfac'], part=o['part'], sof=o['sof'] if not o['q'] else 11.0,
                  u=(list(o['u']) + [0.0] * 6)[:6] if not o['q'] else [0.05, o['height'], 0.0, 0.0, 0.0, 0.0], q=o['q'], mol=obs['mol'][i], an=get_atomic_number(o['el']), h=o['el'] == 'H', symmgen=bool(o.get('symmgen', False)))
             for i, o in enumerate(asu)]
    return dict(p='C14', op='grow', kern=kern, ops=obs['ops'], atoms=atoms, need=obs['need'], sdm=obs['sdm'], with_q=obs['results'][-1]['flag'])


def canon(atoms):
    return sorted((round(a['xyz'][0], 7), round(a['xyz'][1], 7), round(a['xyz'][2], 7), a['sfac'], a['part']) for a in atoms)


def evaluate(ctx, cases, stream=None):
    ctx.stream('grow-vs-spec')
    ctx.stream('packer-model')
    ctx.stream('collect-model')
    work = []
    for case in cases:
        an = analyse(case)
        obs = observe_impl(case)
        work.append((case, an, obs))
    reqs = [model_request(o['final'], o) for (c, a, o) in work if 'need' in o]
    ans = iter(ctx.driver.batch(reqs)) if reqs else iter([])
    for case, an, obs in work:
        asu = an['asu']
        nimg = len(an['images'])
        tags = [f'sg={case["sg"]}', f'profile={case.get("profile")}', f'images={min(nimg, 4)}', f'frags={min(len(an["frags"]), 7)}',
                'qpeaks' if case['qpeaks'] else 'no-qpeaks',
                'history=' + ''.join(('Q' if st['grow'] else 'g') if 'grow' in st else 'e' for st in steps_of(case))]
        tags += sorted({'edit=' + st['edit'] for st in steps_of(case) if 'edit' in st})
        if any(a['part'] < 0 for a in case['atoms']):
            tags.append('part<0')
        if any(a['part'] > 0 for a in case['atoms']):
            tags.append('part>0')
        onsite = any(d < 1e-4 for (g, T, i, j, d) in an['con'] if i == j)
        if onsite:
            tags.append('atom-on-special-position')
        key = [case['sg'], case['cell'], [(a['sfac'], a['xyz'], a['part']) for a in case['atoms']], case['qpeaks'], steps_of(case)]
        ctx.count(key, nontrivial=nimg > 0 or onsite, tags=tags,
                  sample=dict(sg=case['sg'], atoms=len(case['atoms']), qpeaks=len(case['qpeaks']), bonded_images=nimg,
                              grown=len(obs.get('grown', []))) if nimg else None)
        if 'error' in obs:
            ctx.fail('C14|harness|parse', obs['error'], dict(case=case, stream='grow-vs-spec', actual=obs), kind='correspondence')
            continue
        if 'raised' in obs:
            cls = 'part-out-of-name-range' if any(a['part'] > 51 or a['part'] < -52 for a in case['atoms']) else 'other'
            ctx.fail(f'C14|raise|{obs["raised"]}|{cls}', f'grow() raised {obs["raised"]} on a valid structure in {case["sg"]}',
                     dict(case=case, stream='grow-vs-spec', expected='a list of atoms', actual=obs['raised']))
            continue
        calls = [r['flag'] for r in obs['results']]
        steps = steps_of(case)
        shist = [('grow(with_qpeaks=True)' if st['grow'] else 'grow()') if 'grow' in st else
                 st['edit'] + ' ' + str(st.get('name', '')) for st in steps]
        # every call of the history is held against the oracle for the structure as it stands at that call
        for k, resk in enumerate(obs['results']):
            hist = f' [call {k + 1} of the history {shist} on one object]' if len(steps) > 1 else ''
            if 'raised' in resk:
                ctx.fail(f'C14|history|raise|{resk["raised"]}', f'{case["sg"]}: grow() raised {resk["raised"]}{hist}',
                         dict(case=case, stream='grow-vs-spec', expected='a list of atoms', actual=resk['raised']))
                continue
            state = dict(resk['state'], with_q=resk['flag'])
            ank = an if k == 0 else analyse(state)
            for sig, what, exp, act in check_property(ctx, state, ank, dict(grown=resk['grown'])):
                ctx.fail(sig, f'{case["sg"]}: {what}{hist}', dict(case=case, stream='grow-vs-spec', expected=exp, actual=act,
                                                                 model=obs.get('need')))
            if 'differs_from_previous' in resk:
                a0, a1 = resk['differs_from_previous']
                ctx.fail('C14|history|result-depends-on-earlier-calls',
                         f'{case["sg"]}: the atoms returned differ from those of the previous call although nothing was edited ({a1} vs {a0}){hist}',
                         dict(case=case, stream='grow-vs-spec', expected=a0, actual=a1))
        if obs.get('asu_changed'):
            ch = obs['asu_changed']
            ctx.fail('C14|history|asymmetric-unit-changed',
                     f'{case["sg"]}: after call {ch["call"] + 1} of {shist} (and after the caller shortened the returned list) shx.atoms is no longer '
                     f'what it was before the call: {len(ch["before"])} -> {len(ch["after"])} atoms',
                     dict(case=case, stream='grow-vs-spec', expected=ch['before'], actual=ch['after']))
        if 'edit_error' in obs:
            ctx.fail('C14|harness|edit-raised|' + obs['edit_error'].split(':')[0], f'{case["sg"]}: the edit of the history raised: {obs["edit_error"]}',
                     dict(case=case, stream='grow-vs-spec', actual=obs['edit_error']), kind='correspondence')
            continue
        if obs.get('asu_changed'):
            continue
        if 'need' not in obs:
            ctx.fail('C14|harness|internals', f'SDM internals not reachable: {obs.get("internals")}', dict(case=case, stream='packer-model', actual=obs),
                     kind='correspondence')
            continue
        r = next(ans)
        # entry point = calc_sdm + packer
        last = obs['results'][-1].get('grown')
        if last is None or canon(obs['packed']) != canon(last) or len(obs['packed']) != len(last):
            ctx.fail('C14|grow-is-not-calc_sdm+packer', 'Shelxfile.grow() differs from SDM.calc_sdm() + SDM.packer()',
                     dict(case=case, stream='packer-model', expected=len(obs['packed']), actual=None if last is None else len(last)),
                     kind='correspondence')
        model = [dict(xyz=m['pos'], sfac=m['sfac'], part=m['part'], sof=m['sof'], u=m['u'], symmgen=m['symmgen'], src=m['src']) for m in r['packer']] \
            if r['packer'] is not None else None
        nshown = len([a for a in atoms_of(obs['final']) if calls[-1] or not a['q']])
        if model is None or len(model) != len(obs['packed']) or canon(model[:nshown]) != canon(obs['packed'][:nshown]) \
                or canon(model) != canon(obs['packed']) or \
                sorted((m['sfac'], m['part'], round(m['sof'], 6), tuple(round(v, 6) for v in m['u']), m['symmgen']) for m in model) != \
                sorted((m['sfac'], m['part'], round(m['sof'], 6), tuple(round(v, 6) for v in m['u']), m['symmgen']) for m in obs['packed']):
            ctx.fail('C14|model|packer', f'{case["sg"]}: packer model and implementation differ on the grown atom list '
                                         f'({None if model is None else len(model)} vs {len(obs["packed"])} atoms)',
                     dict(case=case, stream='packer-model', expected=None if model is None else canon(model), actual=canon(obs['packed']), model=obs['need']),
                     kind='correspondence')
        if sorted(map(tuple, r['need'])) != sorted(map(tuple, obs['need'])):
            ctx.fail('C14|model|collect', f'{case["sg"]}: collect_needed_symmetry model and implementation differ',
                     dict(case=case, stream='collect-model', expected=sorted(r['need']), actual=sorted(obs['need'])), kind='correspondence')
        for k, v in (r.get('spec') or {}).items():
            if v is not True:
                ctx.fail(f'C14|model-vs-spec|{k}', f'{case["sg"]}: the model output does not satisfy spec predicate {k}',
                         dict(case=case, stream='packer-model', expected=True, actual=v), kind='correspondence')


# ---------------------------------------------------------------------------------------------------------
# fixed cases: the witnesses of the Lean file and the classic situations

def fixed_cases():
    out = []
    base = dict(sfac=SFAC, qpeaks=[], with_q=False, profile='fixed')
    # centrosymmetric molecule, half of it in the asymmetric unit (P-1, inversion centre at 1/2 1/2 1/2)
    out.append(dict(base, sg='P-1', latt=1, symm=[], cell=[8.0, 9.0, 10.0, 90.0, 90.0, 90.0], atoms=[
        dict(name='C1', sfac=1, xyz=[0.56, 0.54, 0.5], sof=11.0, u=[0.021], part=0),
        dict(name='C2', sfac=1, xyz=[0.68, 0.66, 0.55], sof=11.0, u=[0.022], part=0),
        dict(name='H2', sfac=2, xyz=[0.76, 0.62, 0.62], sof=11.0, u=[0.033], part=0)]))
    # atom exactly on an inversion centre with one neighbour
    out.append(dict(base, sg='P-1', latt=1, symm=[], cell=[8.0, 9.0, 10.0, 90.0, 90.0, 90.0], atoms=[
        dict(name='S1', sfac=5, xyz=[0.5, 0.5, 0.5], sof=10.5, u=[0.021], part=0),
        dict(name='O1', sfac=4, xyz=[0.62, 0.6, 0.55], sof=11.0, u=[0.022], part=0)]))
    # water on a two-fold axis (P2: axis along b through 0,y,0), Q-peak next to the image
    out.append(dict(base, sg='P2', latt=-1, symm=['-X, Y, -Z'], cell=[7.0, 8.0, 9.0, 90.0, 100.0, 90.0], atoms=[
        dict(name='O1', sfac=4, xyz=[0.0, 0.3, 0.0], sof=10.5, u=[0.021], part=0),
        dict(name='H1', sfac=2, xyz=[0.09, 0.37, 0.05], sof=11.0, u=[0.032], part=0)],
        qpeaks=[dict(xyz=[0.3, 0.8, 0.4], height=1.1)], with_q=True))
    # parallelogram ring on an inversion centre with sides 1.30 / 1.55 A (window witness of the Lean file)
    out.append(dict(base, sg='P-1', latt=1, symm=[], cell=[10.0, 10.0, 10.0, 90.0, 90.0, 90.0], atoms=[
        dict(name='C1', sfac=1, xyz=[0.1, 0.015, 0.0], sof=11.0, u=[0.021], part=0),
        dict(name='C2', sfac=1, xyz=[0.0, 0.1, 0.0], sof=11.0, u=[0.022], part=0)]))
    # seven one-atom fragments, the seventh half a bond away from an inversion centre (molindex witness)
    at = [dict(name=f'C{k + 1}', sfac=1, xyz=[0.1 + 0.1 * k, 0.25, 0.2], sof=11.0, u=[0.02 + 0.001 * k], part=0) for k in range(6)]
    at.append(dict(name='C7', sfac=1, xyz=[0.5, 0.5, 0.535], sof=11.0, u=[0.03], part=0))
    out.append(dict(base, sg='P-1', latt=1, symm=[], cell=[25.0, 12.0, 20.0, 90.0, 90.0, 90.0], atoms=at))
    # PART -1 molecule across an inversion centre, one atom exactly on the centre
    out.append(dict(base, sg='P-1', latt=1, symm=[], cell=[8.0, 9.0, 10.0, 90.0, 90.0, 90.0], atoms=[
        dict(name='C1', sfac=1, xyz=[0.5, 0.5, 0.5], sof=10.5, u=[0.021], part=-1),
        dict(name='C2', sfac=1, xyz=[0.62, 0.6, 0.55], sof=10.5, u=[0.022], part=-1)]))
    # metal chain along a short axis: the bonded image is a pure lattice translation (wrap witness)
    out.append(dict(base, sg='P1', latt=-1, symm=[], cell=[2.1, 9.0, 10.0, 90.0, 90.0, 90.0], atoms=[
        dict(name='S1', sfac=5, xyz=[0.25, 0.5, 0.5], sof=11.0, u=[0.021], part=0)]))
    # helical S chain around a 2_1 axis (P21): bonded to two different images; histories of calls on one object
    chain = dict(base, sg='P21', latt=-1, symm=['-X, 1/2+Y, -Z'], cell=[8.0, 4.2, 9.0, 90.0, 100.0, 90.0], atoms=[
        dict(name='S1', sfac=5, xyz=[0.06, 0.25, 0.03], sof=11.0, u=[0.021], part=0)],
        qpeaks=[dict(xyz=[0.4, 0.6, 0.5], height=0.9), dict(xyz=[0.7, 0.1, 0.2], height=0.7)])
    for calls in ([True, False], [True, True], [False, True, False]):
        out.append(dict(chain, with_q=calls[0], calls=calls))
    return [c for c in out if abs(c['latt']) in LATTICE_TYPES]


def run(ctx):
    ctx.rule = ('generated structures: 1-3 (or 7-9) fragments of 1-4 non-H atoms (+H), placed on / half a bond from / near / far from a special '
                'position (inversion centre, 2-, 3-, 4-, 6-fold axis, mirror) of one of the tabulated settings with |LATT| in '
                f'{list(LATTICE_TYPES)}, PART 0, 1/2 disorder, PART -1, optional Q-peaks; histories of 1-3 calls grow() / grow(with_qpeaks=True) in every order on '
                'ONE object, in 40 % of the cases with API edits in between (element, PART, cell, move, delete, add_atom), every result held '
                'against the oracle for the structure the object holds at that call, shx.atoms compared before/after, the returned '
                'list shortened by the caller between calls; distinct by (setting, cell, atoms, Q-peaks, history); non-trivial = at least one fragment image is bonded to the asymmetric unit '
                '(something has to be grown) or an atom sits on a special position')
    ctx.assumptions = ['distances are taken with a float metric tensor; generated cases keep every decisive distance 0.002 A away from '
                       'the thresholds (bond limit, d_min + 0.2, 0.2 A)',
                       'bonding rule = the library\'s: d < 1.2 (r1 + r2), PARTs equal or one of them 0, never H...H; Q-peaks never bond',
                       'the SDM items and molecule numbers handed to the model are the implementation\'s own (their correctness is C13)',
                       f'lattice types generated: {list(LATTICE_TYPES)}']
    ctx.extra['lattice_types'] = list(LATTICE_TYPES)
    cases = fixed_cases()
    n = ctx.budget(260, 2500)
    profiles = [None] * 8 + ['many', 'negpart', 'onsite']
    k = 0
    while len(cases) < n + 7 and k < 3 * n:
        k += 1
        case, an = good_case(ctx.rng, profiles[k % len(profiles)])
        if case is not None:
            cases.append(case)
    for i in range(0, len(cases), 100):
        evaluate(ctx, cases[i:i + 100])

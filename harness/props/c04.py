"""
C04 — API edits change exactly what they say: nothing else is lost, moved or altered.

A case is a by-construction SHELXL file (list of logical lines with the tokens each is expected to print) plus a
history of public-API edits. After EVERY edit the real code writes the file (`write_shelx_file`, temp dir), the
text is lexed by the independent lexer below (continuation lines joined, tokens split, numbers compared as
numbers) and compared with

  spec   the abstract list of logical lines to which the driver applied the same abstract edit
         (`absRun`, the right-hand side of theorem `history_refines`)                          -> kind `property`
  model  `written (run (load src) ops)`: the index-based model of `_reslist` / `delete_on_write`  -> `correspondence`

Streams: `init` (the unedited file as written), `edit` (after each edit). The driver also runs the scheme with
absolute `delete_on_write` indices (`loadAbs`); a history on which that scheme would write something else than
the specification is what counts as non-trivial. Only the written text is observed; `_reslist` and
`delete_on_write` are never read.
"""
import atexit
import contextlib
import io
import itertools
import shutil
import tempfile
from collections import Counter
from pathlib import Path

from .. import gen

KEYWORDS = {'TITL', 'CELL', 'ZERR', 'LATT', 'SYMM', 'SFAC', 'UNIT', 'TEMP', 'L.S.', 'CGLS', 'PLAN', 'ACTA', 'LIST', 'BOND',
            'CONF', 'FMAP', 'DFIX', 'SADI', 'SIMU', 'REM', 'EQIV', 'WGHT', 'FVAR', 'RESI', 'PART', 'AFIX', 'HKLF', 'END',
            'ANIS', 'FRAG', 'FEND', 'DELU', 'RIGU', 'HTAB', 'OMIT', 'SIZE', 'MORE', 'THE'}


# ------------------------------------------------------------------------------------------------
# independent lexer + comparison

def lex(text):
    """written file -> logical lines as token lists (continuation `=` joined, blank lines dropped)"""
    out = []
    cur = None
    for phys in text.split('\n'):
        s = phys.rstrip()
        cont = s.endswith('=')
        if cont:
            s = s[:-1]
        if cur is None:
            cur = s
        else:
            cur = cur + ' ' + s
        if not cont:
            toks = cur.split()
            if toks:
                out.append(toks)
            cur = None
    if cur is not None and cur.split():
        out.append(cur.split())
    return out


def canon_tok(t):
    try:
        f = float(t)
    except ValueError:
        return t
    if f != f or f in (float('inf'), float('-inf')):
        return t
    return f'{f:.9g}'


WGHT_DEFAULTS = ['0.1', '0', '0', '0', '0', '0.33333']      # WGHT a[0.1] b[0] c[0] d[0] e[0] f[.33333]


def pad_wght(toks):
    """'WGHT a b' means 'WGHT a b 0 0 0 0.33333': omitted trailing parameters take their defaults"""
    n = len(toks) - 1
    return list(toks) + WGHT_DEFAULTS[n:] if n < 6 else list(toks)


def canon(lines):
    out = []
    for toks in lines:
        if not toks:
            continue
        if toks[0].upper() == 'WGHT':
            toks = pad_wght(toks)
        out.append(tuple(canon_tok(t) for t in toks))
    return out


def kw(line):
    if not line:
        return 'EMPTY'
    w = line[0].upper().split('_')[0][:4]
    if w in KEYWORDS:
        return w
    try:
        float(line[0])
        return 'BARE-NUMBER'
    except ValueError:
        pass
    if len(line) >= 5:
        return 'ATOM'
    return 'OTHER'


def classify(got, want):
    """None if equal, else a short description of how `got` (written) differs from `want` (expected)"""
    g, w = canon(got), canon(want)
    if g == w:
        return None
    lost = Counter(w) - Counter(g)
    extra = Counter(g) - Counter(w)
    if not lost and not extra:
        return 'reordered'
    if len(g) == len(w):
        diff = [(a, b) for a, b in zip(g, w) if a != b]
        if all(kw(a) == kw(b) for a, b in diff) and sum(lost.values()) == len(diff):
            return 'changed=' + ','.join(sorted({kw(b) for a, b in diff}))
    parts = []
    if lost:
        parts.append('lost=' + ','.join(sorted({kw(x) for x in lost})))
    if extra:
        dup = sorted({kw(x) for x in extra if x in w})
        new = sorted({kw(x) for x in extra if x not in w})
        if dup:
            parts.append('duplicated=' + ','.join(dup))
        if new:
            parts.append('extra=' + ','.join(new))
    return '|'.join(parts)


# ------------------------------------------------------------------------------------------------
# by-construction files

def L(kind, phys, toks, role):
    return dict(k=kind, phys=phys if isinstance(phys, list) else [phys], t=[str(x) for x in toks], role=role)


def plain(text, role='x', kind='other'):
    return L(kind, text, text.split(), role)


def atom_line(a: gen.AtomSpec, role):
    vals = [gen.fmt(a.xyz[0]), gen.fmt(a.xyz[1]), gen.fmt(a.xyz[2]), gen.fmt(a.sof, 5)] + [gen.fmt(u, 5) for u in a.u]
    toks = [a.name, str(a.sfac)] + vals
    if len(a.u) == 6:
        phys = [f'{a.name:<5}{a.sfac:>2}  ' + '  '.join(vals[:6]) + ' =', '     ' + '  '.join(vals[6:])]
    else:
        phys = [f'{a.name:<5}{a.sfac:>2}  ' + '  '.join(vals)]
    return L('other', phys, toks, role)


def make_file(rng, nsfac=None, nfvar=None, rich=True):
    nsfac = nsfac or rng.choice([1, 2, 2, 3])
    nfvar = nfvar or rng.choice([1, 2, 2, 3])
    nel = rng.randint(max(2, nsfac), 5)
    els = ['C'] + rng.sample([e for e in gen.ELEMENTS if e != 'C'], nel - 1)
    absent = [e for e in gen.ELEMENTS if e not in els]
    lines = [plain('TITL verif c04 in P2(1)/c', 'titl'),
             plain('CELL 0.71073 10.0 11.0 12.0 90.0 95.0 90.0', 'cell'),
             plain('ZERR 4 0.001 0.001 0.001 0.0 0.01 0.0', 'zerr'),
             plain(f'LATT {rng.choice([1, -1, 2])}', 'latt')]
    for s in rng.sample(['-X, Y+1/2, -Z+1/2', '-X, -Y, Z', 'X+1/2, -Y, -Z'], rng.randint(0, 2)):
        lines.append(plain('SYMM ' + s, 'symm'))
    # SFAC lines: split the element list into nsfac lines
    cuts = sorted(rng.sample(range(1, nel), nsfac - 1)) if nsfac > 1 else []
    parts = [els[a:b] for a, b in zip([0] + cuts, cuts + [nel])]
    for i, p in enumerate(parts):
        lines.append(L('sfac', 'SFAC ' + ' '.join(p), ['SFAC'] + p, 'sfac' if i == 0 else 'sfac+'))
        if i < len(parts) - 1 and rng.random() < 0.2:
            lines.append(plain('REM between the SFAC lines'))
    unit = [rng.choice([1, 2, 4, 8, 12, 16, 24, 36, 48, 0.5, 2.5]) for _ in els]
    lines.append(L('other', 'UNIT ' + ' '.join(f'{v:g}' for v in unit), ['UNIT'] + [f'{v:g}' for v in unit], 'unit'))
    head = []
    if rich:
        head.append(plain(f'TEMP {rng.choice([-100, -173, 20])}'))
        head.append(plain(rng.choice(forms_ls()), 'ls'))
        head.append(plain(rng.choice(forms_plan()), 'plan'))
        if rng.random() < 0.85:
            head.append(plain(rng.choice(forms_acta()), 'acta'))
        head.append(plain('REM first remark of the file', 'rem0'))
        for x in rng.sample(['LIST 4', 'BOND $H', 'CONF', 'FMAP 2', 'EQIV $1 -x, y, -z', 'REM another remark', 'OMIT 0 1 2'], rng.randint(0, 4)):
            head.append(plain(x))
        head.append(plain(rng.choice(forms_wght()) if rng.random() < 0.5 else f'WGHT 0.{rng.randint(10, 99)} 0.{rng.randint(10, 99)}{rng.randint(1, 9)}', 'wght'))
        rng.shuffle(head)
    else:
        head = [plain('L.S. 10', 'ls'), plain('PLAN 20', 'plan'), plain('ACTA 50', 'acta'), plain('REM first remark', 'rem0'),
                plain('WGHT 0.05 0.25', 'wght')]
    lines += head
    # atoms first (restraints name them)
    natoms = rng.randint(3, 7) if rich else 5
    used = set()
    atoms = []
    for i in range(natoms):
        sf = rng.randrange(nel) + 1
        name = gen.atom_name(rng, els[sf - 1], used)
        aniso = (i % 2 == 1) if not rich else rng.random() < 0.5
        u = tuple(round(0.02 + 0.001 * (7 * i + j), 5) for j in range(3)) + tuple(round(0.001 * (i + j + 1), 5) * (-1) ** j for j in range(3)) \
            if aniso else (round(0.03 + 0.001 * i, 5),)
        xyz = (round(0.05 + 0.0731 * i, 6), round(0.9 - 0.0517 * i, 6), round(0.25 + 0.0313 * i, 6))
        atoms.append(gen.AtomSpec(name, sf, xyz, rng.choice([11.0, 11.0, 10.5, 21.0, -21.0]), u))
    if rich and natoms >= 2:
        n1, n2 = atoms[0].name, atoms[1].name
        for x in rng.sample([f'DFIX 1.5 0.02 {n1} {n2}', f'SADI {n1} {n2} {n2} {atoms[-1].name}', f'SIMU {n1} > {atoms[-1].name}',
                             f'DELU 0.01 0.01 {n1} {n2}'], rng.randint(0, 3)):
            lines.insert(rng.randint(len(lines) - len(head), len(lines)), plain(x))
    if rich and rng.random() < 0.4:          # instruction lines with identical text
        lines.insert(rng.randint(len(lines) - len(head), len(lines)), plain('REM first remark of the file'))
    elif not rich:
        lines.append(plain('REM first remark'))
    # FVAR lines
    nfv = rng.randint(nfvar, 7)
    fv = [round(rng.uniform(0.05, 0.95), 5) for _ in range(nfv)]
    cuts = sorted(rng.sample(range(1, nfv), nfvar - 1)) if nfvar > 1 else []
    parts = [fv[a:b] for a, b in zip([0] + cuts, cuts + [nfv])]
    for i, p in enumerate(parts):
        lines.append(L('fvar', 'FVAR ' + ' '.join(gen.fmt(v, 5) for v in p), ['FVAR'] + [gen.fmt(v, 5) for v in p], 'fvar' if i == 0 else 'fvar+'))
        if i < len(parts) - 1 and rng.random() < 0.2:
            lines.append(plain('REM between the FVAR lines'))
    # atom section: blocks of plain atoms, disorder PARTs, residues and AFIX groups. A block may repeat the
    # lines of its first half word by word (the same atom in the other PART / a duplicated residue): atoms whose
    # text is identical are legitimate input, the later copy is marked `twin`.
    def twin_of(l):
        t = dict(l, phys=list(l['phys']), t=list(l['t']))
        t['twin'] = True
        return t

    def hydrogen(k):
        h = gen.AtomSpec(f'H{k + 1}', 1, (round(0.4 + 0.031 * k, 6), round(0.6 - 0.017 * k, 6), round(0.1 + 0.023 * k, 6)), 11.0, (-1.2,))
        return atom_line(h, 'atom')

    al = [atom_line(x, 'atom') for x in atoms]
    if rich:
        i = 0
        while i < len(al):
            kind = rng.choice(['plain', 'plain', 'part', 'resi', 'afix'])
            n = min(rng.randint(1, 2), len(al) - i)
            grp = al[i:i + n]
            i += n
            if kind == 'plain':
                lines += grp
            elif kind == 'part':
                second = [twin_of(x) for x in grp] if rng.random() < 0.5 else None
                lines += [plain('PART 1')] + grp
                if second or rng.random() < 0.5:
                    lines += [plain('PART 2')] + (second or [])
                lines.append(plain(rng.choice(['PART 0', 'PART 0', 'PART -1'])) if not second else plain('PART 0'))
                if lines[-1]['t'][1] == '-1':
                    lines.append(plain('PART 0'))
            elif kind == 'resi':
                r = rng.randint(1, 8)
                lines += [plain(f'RESI {r} CCF')] + grp
                if rng.random() < 0.5:
                    lines += [plain(f'RESI {r + 1} CCF')] + [twin_of(x) for x in grp]
                lines.append(plain('RESI 0'))
            else:
                lines += grp + [plain(rng.choice(['AFIX 43', 'AFIX 137'])), hydrogen(i), plain('AFIX 0')]
    else:
        lines += [al[0], al[1], plain('PART 1'), al[2], plain('PART 2'), twin_of(al[2]), plain('PART 0'),
                  plain('RESI 1 CCF'), al[3], plain('RESI 2 CCF'), twin_of(al[3]), plain('RESI 0'),
                  al[4], plain('AFIX 43'), hydrogen(0), plain('AFIX 0')]
    lines.append(plain('HKLF 4', 'hklf'))
    lines.append(plain('END', 'end'))
    if not rich or rng.random() < 0.8:
        lines.append(plain(rng.choice(forms_wght()) if rich and rng.random() < 0.3 else f'WGHT 0.0{rng.randint(100, 999)} 0.{rng.randint(1000, 9999)}', 'wght2'))
        for q in range(rng.randint(0, 2) if rich else 1):
            toks = [f'Q{q + 1}', '1', f'{0.1 + 0.1 * q:.4f}', f'{0.2 + 0.05 * q:.4f}', f'{0.3 + 0.02 * q:.4f}', '11.00000', '0.04', f'{1.5 - 0.2 * q:.2f}']
            lines.append(L('other', '  '.join(toks), toks, 'qpeak'))
    return dict(lines=lines, els=els, absent=absent[:3])


def forms_ls():
    """L.S./CGLS nls nrf nextra: every prefix form, zero and negative values in each slot"""
    out = []
    for k in ('L.S.', 'CGLS'):
        for n in (10, 0):
            out.append(f'{k} {n}')
            for nrf in (0, -1, 2):
                out.append(f'{k} {n} {nrf}')
                for nx in (0, 12):
                    out.append(f'{k} {n} {nrf} {nx}')
    return out


def forms_plan():
    out = []
    for n in (20, -30, 0):
        out.append(f'PLAN {n}')
        for d1 in (0, -1, 1.5):
            out.append(f'PLAN {n} {d1}')
            for d2 in (0, 2.5):
                out.append(f'PLAN {n} {d1} {d2}')
    return out


def forms_wght():
    """WGHT a..f: every prefix length; in every slot a zero, a negative and a default-equal value"""
    ordinary = ['0.0512', '0.2375', '0.0125', '0.0031', '0.0444', '0.25']
    out = []
    for n in range(1, 7):
        out.append('WGHT ' + ' '.join(ordinary[:n]))
        for slot in range(n):
            for v in ('0', '-0.07', WGHT_DEFAULTS[slot]):
                t = list(ordinary[:n])
                t[slot] = v
                out.append('WGHT ' + ' '.join(t))
        out.append('WGHT ' + ' '.join(WGHT_DEFAULTS[:n]))
        out.append('WGHT ' + ' '.join(['0'] * n))
    return sorted(set(out))


def forms_acta():
    return ['ACTA', 'ACTA 50', 'ACTA 52.5', 'ACTA NOHKL', 'ACTA 50 NOHKL']


SETTERS = {
    'ls': [dict(op='cycles', n=n, via=v) for n in (0, 4, 10) for v in ('number', 'set_refine_cycles')],
    'plan': [dict(op='plan_set', text=t) for t in ('PLAN 5', 'PLAN 0', 'PLAN -5 0', 'PLAN 5 0 0', 'PLAN 7 1.5 0', 'PLAN 7 -1 2.5', 'PLAN 20')],
    'wght': [dict(op='wght', attr=a, val=v) for a in 'abcdef' for v in (0.0, -0.5, float(WGHT_DEFAULTS['abcdef'.index(a)]), 0.0733)] +
            [dict(op='wght_set', text=t) for t in ('WGHT 0.1', 'WGHT 0 0', 'WGHT 0.03 0.5 0 0 0 0.33333', 'WGHT 0.03 0.5 0 0 0.2 0', 'WGHT -0.02 0 0.1')] +
            [dict(op='update_weight')],
    'acta': [dict(op='acta_remove'), dict(op='acta_restore')],
}


def mini_file(instr, role, wght2=None, els=('C', 'O')):
    """the smallest valid file around one instruction (setter x parameter-form grid)"""
    lines = [plain('TITL c04 setter grid', 'titl'), plain('CELL 0.71073 10.0 11.0 12.0 90.0 95.0 90.0', 'cell'),
             plain('ZERR 4 0.001 0.001 0.001 0.0 0.01 0.0', 'zerr'), plain('LATT -1', 'latt'),
             L('sfac', 'SFAC ' + ' '.join(els), ['SFAC'] + list(els), 'sfac'), plain('UNIT 8 0', 'unit')]
    base = dict(ls='L.S. 10', plan='PLAN 20', wght='WGHT 0.05 0.25')
    for r in ('ls', 'plan', 'acta', 'wght'):
        if r == role:
            lines.append(plain(instr, r))
        elif r in base:
            lines.append(plain(base[r], r))
    lines.append(L('fvar', 'FVAR 0.5', ['FVAR', '0.50000'], 'fvar'))
    lines.append(atom_line(gen.AtomSpec('C1', 1, (0.1, 0.2, 0.3), 11.0, (0.03,)), 'atom'))
    lines += [plain('HKLF 4', 'hklf'), plain('END', 'end')]
    if wght2:
        lines.append(plain(wght2, 'wght2'))
    return dict(lines=lines, els=list(els), absent=['Br', 'Fe', 'N'])


def setter_grid(rng, thorough):
    """every setter of the alphabet on every parameter form of its instruction (depth 1), and pairs of setters on
    the same instruction (second call on the same object) on a sample of forms"""
    cases = []
    sugg = ['WGHT 0.0412 0.3377', 'WGHT 0.0412 0', 'WGHT 0 0.3377 0 0 0 0.33333', 'WGHT 0.0412 0.3377 0 0.001 0 0', 'WGHT 0.02']
    for role, forms in (('ls', forms_ls()), ('plan', forms_plan()), ('wght', forms_wght()), ('acta', forms_acta())):
        if role == 'wght' and not thorough:
            forms = rng.sample(forms, 30)
        for n, form in enumerate(forms):
            f = mini_file(form, role, wght2=sugg[n % len(sugg)] if role == 'wght' else None)
            for o in SETTERS[role]:
                cases.append(dict(f, hist=[dict(o)]))
            if role == 'acta':
                cases.append(dict(f, hist=[dict(op='acta_remove'), dict(op='acta_restore')]))
                cases.append(dict(f, hist=[dict(op='acta_remove'), dict(op='add_line_unit'), dict(op='acta_restore'), dict(op='acta_remove'), dict(op='acta_restore')]))
            elif thorough or n % 4 == 0:
                pairs = list(itertools.product(SETTERS[role], repeat=2))
                for a, b in (pairs if thorough or len(pairs) <= 49 else rng.sample(pairs, 40)):
                    cases.append(dict(f, hist=[dict(a), dict(b)]))
    return cases


def file_text(case):
    return '\n'.join(p for l in case['lines'] for p in l['phys']) + '\n'


# ------------------------------------------------------------------------------------------------
# the alphabet of edits

def alphabet(case, small=False):
    """op instances (kind x target) for bounded-exhaustive enumeration"""
    present = case['els'][-1]
    absent = case['absent'][0]
    full = [
        dict(op='add_line0'), dict(op='add_line_sfac'), dict(op='add_line_unit'), dict(op='add_line_fvar'), dict(op='add_line_hklf'),
        dict(op='insert_anis', atoms='', residue=''), dict(op='insert_anis', atoms='C1 C2', residue=''),
        dict(op='insert_anis', atoms='C1', residue='CCF'), dict(op='frag_fend'),
        dict(op='del_atom', pos='first', via='delitem'), dict(op='del_atom', pos='middle', via='delete'),
        dict(op='del_atom', pos='last', via='delitem'), dict(op='del_qpeak'),
        dict(op='del_atom', pos='twin', via='delete'), dict(op='del_atom', pos='twin', via='delitem'),
        dict(op='rename', pos='twin', name='Xe5'), dict(op='element', pos='twin', el=absent), dict(op='to_iso', pos='twin'),
        dict(op='add_line_atom', pos='first'), dict(op='add_line_atom', pos='last'), dict(op='add_line_atom', pos='twin'),
        dict(op='add_line_copy', pos='twin'), dict(op='add_line_copy', pos='middle'), dict(op='replace_line', which=1),
        dict(op='element', pos='first', el=present), dict(op='element', pos='middle', el=absent),
        dict(op='rename', pos='first', name='Zr7'), dict(op='rename', pos='last', name='N88'),
        dict(op='to_iso', pos='first'), dict(op='to_iso', pos='middle'),
        dict(op='plan_set', text='PLAN 33 1.25'), dict(op='plan_set', text='PLAN -17'),
        dict(op='cycles', n=7, via='number'), dict(op='cycles', n=3, via='set_refine_cycles'),
        dict(op='wght', attr='a', val=0.0733), dict(op='wght', attr='b', val=1.625),
        dict(op='update_weight'), dict(op='acta_remove'), dict(op='acta_restore'), dict(op='replace_line', which=0),
    ]
    if not small:
        return full
    keep = {('add_line0',), ('add_line_unit',), ('insert_anis', ''), ('del_atom', 'first'), ('del_atom', 'last'), ('element', 'middle'),
            ('del_atom', 'twin'), ('add_line_copy', 'twin'),
            ('to_iso', 'middle'), ('update_weight',), ('acta_remove',), ('acta_restore',)}
    if small != 'tiny':
        keep |= {('rename', 'first'), ('plan_set',), ('cycles', 'number'), ('add_line_fvar',)}
    out = []
    for o in full:
        key = [(o['op'],), (o['op'], o.get('pos', o.get('atoms', o.get('via'))))]
        if any(k in keep for k in key):
            out.append(o)
    return out


def rand_op(rng, case):
    o = dict(rng.choice(alphabet(case)))
    if 'pos' in o:
        o['pos'] = rng.choice(['first', 'middle', 'last', 'twin', 'twin'])
    if o['op'] == 'element':
        o['el'] = rng.choice(case['els'] + case['absent'])
    if o['op'] == 'rename':
        o['name'] = rng.choice(['Zr', 'N', 'Xe', 'Q']) + str(rng.randint(1, 99))
    if o['op'] == 'plan_set':
        o['text'] = rng.choice([f'PLAN {rng.randint(2, 99)}', f'PLAN {rng.randint(2, 99)} 1.{rng.randint(1, 9)}',
                                f'PLAN -{rng.randint(2, 99)} 1.5 2.{rng.randint(1, 9)}'] + [x['text'] for x in SETTERS['plan']])
    if o['op'] == 'cycles':
        o['n'] = rng.choice([0, 0, rng.randint(1, 60), rng.randint(1, 60)])
    if o['op'] == 'wght':
        if rng.random() < 0.5:
            o = dict(rng.choice(SETTERS['wght']))
        else:
            o['attr'] = rng.choice('abcdef')
            o['val'] = round(rng.uniform(-0.5, 3), 4)
    return o


class Book:
    """what the edits mean, by construction: current tokens of every object, who is alive, and for each API
    call the model operations (list-index level) and the abstract edits (logical-line level) it stands for"""

    def __init__(self, case):
        self.toks = {}
        self.role = {}
        self.atoms = []      # keys of atoms before END, in file order, alive
        self.twins = []      # keys of atoms whose line repeats, word by word, the line of an earlier atom
        self.rems = []       # keys of the REM instructions (shx.rem), in file order
        self.replaced = set()
        self.twin_target = False
        self.qpeaks = []
        sfac0 = fvar0 = None
        for k, l in enumerate(case['lines']):
            r = l['role']
            if l['k'] == 'sfac':
                if sfac0 is None:
                    sfac0 = k
                    self.toks[k] = list(l['t'])
                    self.role['sfac'] = k
                else:
                    self.toks[sfac0] += l['t'][1:]
                continue
            if l['k'] == 'fvar':
                if fvar0 is None:
                    fvar0 = k
                    self.toks[k] = list(l['t'])
                    self.role['fvar'] = k
                else:
                    self.toks[fvar0] += l['t'][1:]
                continue
            self.toks[k] = list(l['t'])
            if r == 'atom':
                self.atoms.append(k)
                if l.get('twin'):
                    self.twins.append(k)
            elif r == 'qpeak':
                self.qpeaks.append(k)
            elif r not in ('x', 'rem0') and r not in self.role:
                self.role[r] = k
            if l['t'][0].upper() == 'REM':
                self.rems.append(k)            # shx.rem: the REM lines of the file, in order
        self.next_key = len(case['lines'])
        self.acta_saved = None
        self.n = 0
        # physical layout of the unedited file: first list index of every logical line that is written
        self.starts = []
        at = 0
        for k, l in enumerate(case['lines']):
            if k in self.toks:
                self.starts.append(at)
            at += len(l['phys'])
        self.nphys = at

    def pick(self, pos):
        if not self.atoms:
            return None
        if pos == 'twin':            # the first later copy that is still in the file
            for k in self.twins:
                if k in self.atoms:
                    self.twin_target = True
                    return self.atoms.index(k)
            return None
        return {'first': 0, 'middle': len(self.atoms) // 2, 'last': len(self.atoms) - 1}[pos]

    def set(self, key, toks):
        self.toks[key] = list(toks)
        m = dict(k='setObj', o=key, t=list(toks))
        return [m], [dict(m)]

    def after(self, key, toks):
        m = dict(k='insertAfter', o=key, t=list(toks))
        return [m], [dict(m)]

    def micro(self, o):
        """-> (model ops, abstract ops, callable(shx, ref) performing the API call) or None if the edit has no target"""
        self.n += 1
        kind = o['op']
        R = self.role
        text = f'REM c04 inserted {self.n}'
        if kind == 'add_line0':
            return [dict(k='addLine', i=0, t=text.split())], [dict(k='insertAt', p=1, t=text.split())], lambda s, r: s.add_line(0, text)
        if kind == 'add_line_at':
            # a bare list index is only meaningful to the harness while the list is still the unedited file
            if self.n != 1:
                return None
            p = sum(1 for st in self.starts if st <= o['i'])
            return [dict(k='addLine', i=o['i'], t=text.split())], [dict(k='insertAt', p=p, t=text.split())], lambda s, r: s.add_line(o['i'], text)
        if kind in ('add_line_atom', 'add_line_copy'):
            idx = self.pick(o['pos'])
            if idx is None:
                return None
            key = self.atoms[idx]
            if kind == 'add_line_atom':      # add_line(atom.index, text): the new line follows this very atom
                return (*self.after(key, text.split()), lambda s, r, idx=idx: s.add_line(s.atoms.all_atoms[idx].index, text))
            # a plain text line that reads exactly like the atom, in front of it (after list entry 0)
            t = list(self.toks[key])
            self.twin_target = True
            return [dict(k='addLine', i=0, t=t)], [dict(k='insertAt', p=1, t=t)], lambda s, r, idx=idx: s.add_line(0, str(s.atoms.all_atoms[idx]))
        if kind == 'add_line_sfac':
            return (*self.after(R['sfac'], text.split()), lambda s, r: s.add_line(s.index_of(s.sfac_table), text))
        if kind == 'add_line_unit':
            return (*self.after(R['unit'], text.split()), lambda s, r: s.add_line(s.unit.position, text))
        if kind == 'add_line_fvar':
            return (*self.after(R['fvar'], text.split()), lambda s, r: s.add_line(s.fvars.position, text))
        if kind == 'add_line_hklf':
            return (*self.after(R['hklf'], text.split()), lambda s, r: s.add_line(s.hklf.position, text))
        if kind == 'insert_anis':
            toks = [f'ANIS{"_" if o["residue"] else ""}{o["residue"]}'] + o['atoms'].split() if o['atoms'] else ['ANIS']
            return (*self.after(R['unit'], toks), lambda s, r: s.insert_anis(o['atoms'], o['residue']) if o['atoms'] else s.insert_anis())
        if kind == 'frag_fend':
            db = [['C1', '1', '0.1', '0.2', '0.3'], ['O2', '3', '-0.25', '0.5', '0.75']]
            cell = ['1', '1', '1', '90', '90', '90']
            new = [['The', 'following', 'is', 'from', 'DSR:'], ['FRAG', '17'] + cell] + db + [['FEND']]
            ms = [dict(k='insertAfter', o=R['fvar'], t=t) for t in reversed(new)]
            return ms, [dict(m) for m in ms], lambda s, r: s.insert_frag_fend_entry(db, cell)
        if kind in ('del_atom', 'del_qpeak'):
            if kind == 'del_qpeak':
                if not self.qpeaks:
                    return None
                key = self.qpeaks.pop(0)
                idx = len(self.atoms)          # q-peaks follow the atoms in shx.atoms
            else:
                idx = self.pick(o['pos'])
                if idx is None:
                    return None
                key = self.atoms.pop(idx)
            m = dict(k='delete', o=key)

            def call(s, r, idx=idx, via=o.get('via', 'delitem')):
                at = s.atoms.all_atoms[idx]
                if via == 'delete':
                    at.delete()
                else:
                    del s.atoms[at.atomid]
            return [m], [dict(m)], call
        if kind in ('element', 'rename', 'to_iso'):
            idx = self.pick(o['pos'])
            if idx is None:
                return None
            key = self.atoms[idx]
            t = list(self.toks[key])
            ms, as_ = [], []
            if kind == 'rename':
                t[0] = o['name']

                def call(s, r, idx=idx):
                    s.atoms.all_atoms[idx].name = o['name']
            elif kind == 'to_iso':
                t = t[:6] + ['0.04']

                def call(s, r, idx=idx):
                    s.atoms.all_atoms[idx].to_isotropic()
            else:
                el = o['el'].capitalize()
                sf = self.toks[R['sfac']]
                if el not in sf[1:]:
                    a, b = self.set(R['sfac'], sf + [el])
                    ms += a
                    as_ += b
                    a, b = self.set(R['unit'], self.toks[R['unit']] + ['1'])
                    ms += a
                    as_ += b
                t[1] = str(self.toks[R['sfac']][1:].index(el) + 1)

                def call(s, r, idx=idx):
                    s.atoms.all_atoms[idx].element = o['el']
            a, b = self.set(key, t)
            return ms + a, as_ + b, call
        if kind == 'plan_set':
            return (*self.set(R['plan'], o['text'].split()), lambda s, r: s.plan.set(o['text']))
        if kind == 'cycles':
            t = self.toks[R['ls']]
            call = (lambda s, r: setattr(s.cycles, 'number', o['n'])) if o['via'] == 'number' else (lambda s, r: s.cycles.set_refine_cycles(o['n']))
            return (*self.set(R['ls'], [t[0], str(o['n'])] + t[2:]), call)
        if kind == 'wght':
            t = pad_wght(self.toks[R['wght']])
            t['abcdef'.index(o['attr']) + 1] = repr(o['val'])
            return (*self.set(R['wght'], t), lambda s, r: setattr(s.wght, o['attr'], o['val']))
        if kind == 'wght_set':
            return (*self.set(R['wght'], o['text'].split()), lambda s, r: s.wght.set(o['text']))
        if kind == 'update_weight':
            if 'wght2' not in R:
                return [], [], lambda s, r: s.update_weight()
            return (*self.set(R['wght'], pad_wght(self.toks[R['wght2']])), lambda s, r: s.update_weight())
        if kind == 'acta_remove':
            if 'acta' not in R:
                return None
            key = R.pop('acta')
            self.acta_saved = self.toks[key]
            m = dict(k='delete', o=key)
            return [m], [dict(m)], lambda s, r: r.remove_acta_card(s.acta)
        if kind == 'acta_restore':
            if 'acta' in R or self.acta_saved is None:
                return None
            key = self.next_key
            self.next_key += 1
            R['acta'] = key
            self.toks[key] = self.acta_saved
            m = dict(k='insertObjAfter', u=R['unit'], o=key, t=self.acta_saved)
            return [m], [dict(m)], lambda s, r: r.restore_acta_card()
        if kind == 'replace_line':
            w = o.get('which', 0)
            if w >= len(self.rems) or w in self.replaced:
                return None
            self.replaced.add(w)
            key = self.rems[w]
            if any(self.toks[key] == self.toks[k2] for k2 in self.rems[:w]):
                self.twin_target = True
            new = f'REM c04 replaced {self.n}'
            m = dict(k='replace', o=key, t=new.split())
            return [m], [dict(m)], lambda s, r: s.replace_line(s.rem[w], new)
        raise ValueError(f'unknown edit {kind}')


# ------------------------------------------------------------------------------------------------
# running a case

_TMP = []


def tmpdir():
    if not _TMP:
        _TMP.append(Path(tempfile.mkdtemp(prefix='c04_', dir='/dev/shm' if Path('/dev/shm').is_dir() else None)))
        atexit.register(shutil.rmtree, str(_TMP[0]), ignore_errors=True)
    return _TMP[0]


def run_impl(case, calls):
    calls = [c for c in calls if not isinstance(c, bool)]
    return _run_impl(case, calls)


def _run_impl(case, calls):
    """the real code: parse, write, then edit + write after every edit. -> dict(init=lines, steps=[lines...], error=...)"""
    from shelxfile import Shelxfile
    from shelxfile.refine.refine import ShelxlRefine
    out = dict(init=None, steps=[], error=None)
    f = tmpdir() / 'c04.res'
    try:
        shx = Shelxfile()
        with contextlib.redirect_stdout(io.StringIO()):
            shx.read_string(file_text(case))
            ref = ShelxlRefine(shx, f)
        shx.write_shelx_file(str(f))
        out['init'] = lex(f.read_text())
    except Exception as e:
        out['error'] = (-1, type(e).__name__, str(e)[:200])
        return out
    for k, call in enumerate(calls):
        try:
            with contextlib.redirect_stdout(io.StringIO()):
                if call is not None:
                    call(shx, ref)
                shx.write_shelx_file(str(f))
            out['steps'].append(lex(f.read_text()))
        except Exception as e:
            out['error'] = (k, type(e).__name__, str(e)[:200])
            break
    return out


def plan(case):
    b = Book(case)
    steps, calls = [], []
    for o in case['hist']:
        m = b.micro(o)
        if m is None:          # the edit has no target left in this history: skipped on both sides
            steps.append(dict(ops=[], aops=[]))
            calls.append(None)
        else:
            steps.append(dict(ops=m[0], aops=m[1]))
            calls.append(m[2])
    req = dict(p='C04', op='hist', src=[dict(k=l['k'], n=len(l['phys']), t=l['t']) for l in case['lines']], steps=steps)
    calls.append(b.twin_target)       # last element: did the history address a line that has a textual twin?
    return req, calls


def toks_of(lines):
    return None if lines is None else [t for _, t in lines]


def judge(case, impl, ans):
    """-> (first failure or None, info). failure = dict(step, what, kind, expected, actual, model)"""
    info = dict(nontrivial=False)
    if impl['error'] and impl['error'][0] == -1:
        return dict(step=-1, what=f'raise={impl["error"][1]}', kind='property', stream='init', expected=toks_of(ans['init']), actual=impl['error'], model=None), info
    w = classify(impl['init'], toks_of(ans['init']))
    if w:
        return dict(step=-1, what='initial-write|' + w, kind='correspondence', stream='init', expected=toks_of(ans['init']), actual=impl['init'],
                    model=toks_of(ans['init'])), info
    for k, st in enumerate(ans['steps']):
        if not st['absof']:
            raise RuntimeError(f'harness and model disagree about the abstract edit of step {k}: {case["hist"][k]}')
        spec, model, old = toks_of(st['spec']), toks_of(st['model']), toks_of(st['old'])
        if spec is None or model is None:
            raise RuntimeError(f'generated history addresses a line that is not in the file at step {k}: {case["hist"][k]}')
        if old is None or canon(old) != canon(spec):
            info['nontrivial'] = True
        if impl['error'] and impl['error'][0] == k:
            return dict(step=k, what=f'raise={impl["error"][1]}', kind='property', stream='edit', expected=spec, actual=impl['error'], model=model), info
        got = impl['steps'][k]
        w = classify(got, spec)
        if w:
            if old is not None and canon(got) == canon(old):
                w += '|as-absolute-index-scheme'
            return dict(step=k, what=w, kind='property', stream='edit', expected=spec, actual=got, model=model), info
        w = classify(got, model)
        if w:
            return dict(step=k, what='model|' + w, kind='correspondence', stream='edit', expected=spec, actual=got, model=model), info
    return None, info


def check_one(ctx, case):
    req, calls = plan(case)
    return judge(case, run_impl(case, calls), ctx.driver.one(req))[0]


def shrink(ctx, case, fail):
    """drop edits (then lines of the file that no edit needs) while the same kind of failure remains"""
    hist = case['hist'][:fail['step'] + 1]
    cur = dict(case, hist=hist)
    target = fail['what'].split('|')[0]
    budget = 60
    changed = True
    while changed and budget > 0:
        changed = False
        for i in range(len(cur['hist']) - 1, -1, -1):
            if len(cur['hist']) == 1:
                break
            cand = dict(cur, hist=cur['hist'][:i] + cur['hist'][i + 1:])
            budget -= 1
            try:
                f = check_one(ctx, cand)
            except RuntimeError:
                continue
            if f and f['what'].split('|')[0] == target:
                cur = dict(cand, hist=cand['hist'][:f['step'] + 1])
                fail = f
                changed = True
                break
    return cur, fail


def signature(case, fail):
    if fail['step'] < 0:
        return f'C04|init|{fail["what"]}'
    kinds = '+'.join(o['op'] + ('@twin' if o.get('pos') == 'twin' else '') for o in case['hist'][:fail['step'] + 1])
    return f'C04|{kinds}|{fail["what"]}'


def evaluate(ctx, cases, stream=None):
    ctx.stream('init')
    ctx.stream('edit')
    plans = [plan(c) for c in cases]
    answers = ctx.driver.batch([p[0] for p in plans])
    failing = []
    for case, (req, calls), ans in zip(cases, plans, answers):
        impl = run_impl(case, calls)
        fail, info = judge(case, impl, ans)
        twin = bool(calls and calls[-1] is True)
        idx_sens = info['nontrivial']
        info['nontrivial'] = idx_sens or twin
        nsf = sum(1 for l in case['lines'] if l['k'] == 'sfac')
        nfv = sum(1 for l in case['lines'] if l['k'] == 'fvar')
        tags = [f'sfac-lines={nsf}', f'fvar-lines={nfv}', f'depth={min(len(case["hist"]), 5)}{"+" if len(case["hist"]) > 5 else ""}'] + \
               sorted({'op=' + o['op'] for o in case['hist']}) + (['index-sensitive'] if idx_sens else []) + (['twin-target'] if twin else [])
        ctx.count([file_text(case), case['hist']], nontrivial=info['nontrivial'], tags=tags,
                  sample=dict(sfac_lines=nsf, fvar_lines=nfv, history=[o['op'] for o in case['hist']][:8],
                              written_after_last_edit=(impl['steps'][-1][:8] if impl['steps'] else impl['init'][:8] if impl['init'] else None)) if info['nontrivial'] else None)
        if fail:
            failing.append((case, fail))
    if not failing:
        return
    # shrink a bounded number of failures, the shortest history of every kind of damage first
    failing.sort(key=lambda cf: (cf[1]['step'], len(cf[0]['lines'])))
    groups = {}
    for case, fail in failing:
        key = (fail['what'], case['hist'][fail['step']]['op'] if fail['step'] >= 0 else 'init')
        groups.setdefault(key, (case, fail))
    done = set()
    for n, (case, fail) in enumerate(groups.values()):
        if n >= 25:
            ctx.note(f'{len(groups) - 25} further kinds of failure were not shrunk/reported in this run')
            break
        if fail['step'] >= 0:
            case, fail = shrink(ctx, case, fail)
        sig = signature(case, fail)
        if sig in done:
            continue
        done.add(sig)
        hist = [o['op'] for o in case['hist']]
        what = (f'after {hist}: written file differs from the original file with these edits applied ({fail["what"]})' if fail['step'] >= 0
                else f'unedited file: {fail["what"]}')
        ctx.fail(sig, what, dict(case=case, stream=fail['stream'], step=fail['step'], expected=fail['expected'], actual=fail['actual'],
                                 model=fail['model'], file=file_text(case)), kind=fail['kind'])
    ctx.extra['failing_histories'] = ctx.extra.get('failing_histories', 0) + len(failing)


def run(ctx):
    ctx.rule = ('by-construction files with 1-3 SFAC lines, 1-3 FVAR lines (<= 7 free variables), 0-2 SYMM, ACTA/PLAN/L.S./WGHT, restraints, '
                '3-7 iso/aniso atoms in PART/RESI/AFIX blocks incl. word-by-word identical atom lines (same atom in the other PART / duplicated residue) and identical REM lines, WGHT + Q-peaks after END; histories over 40 edit instances (17 kinds) + add_line at every list index of the unedited file: '
                'bounded-exhaustive to depth 2, 3 on a 13-instance alphabet (quick) / 3 on all, 4 on a 10-instance alphabet (thorough) and random walks to depth 50, every setter on every parameter form of its instruction (L.S./CGLS n nrf nextra, PLAN n d1 d2, WGHT a..f, ACTA; zero, negative and default-equal values per slot), file written '
                'and lexed after every edit; distinct by (file text, history); non-trivial = the scheme with absolute delete_on_write '
                'indices would write something else than the specification somewhere in the history (insertion/deletion in front '
                'of an absorbed SFAC/FVAR line), or the history addresses a line of which a textually identical copy stands earlier in the file')
    ctx.assumptions = ['at most 7 free variables (one written FVAR line)', 'no edit addresses a line an earlier edit removed',
                       'SFAC lines list element symbols only, no element twice']
    rng = ctx.rng
    thorough = ctx.tier == 'thorough' or ctx.escalated
    cases = []
    # 1. bounded-exhaustive histories on small fixed-shape files
    shapes = [(2, 2), (3, 3), (1, 1)] if not thorough else [(2, 2), (3, 3), (1, 1), (1, 3), (3, 1)]
    for i, (ns, nf) in enumerate(shapes):
        f = make_file(rng, ns, nf, rich=False)
        full, small = alphabet(f), alphabet(f, small=True)
        enum = [(full, 1), (full if (i == 0 or thorough) else small, 2)]
        if thorough and i < 3:
            enum.append((small, 3))
        elif i == 0:
            seen, mid = set(), []
            for o in alphabet(f, small='tiny') + [x for x in small if x['op'] in ('add_line_copy', 'add_line_fvar') or x.get('pos') == 'twin']:
                if (o['op'], o.get('pos')) not in seen:
                    seen.add((o['op'], o.get('pos')))
                    mid.append(o)
            enum.append((mid, 3))
        if thorough and i == 0:
            enum.append((full, 3))
            enum.append((alphabet(f, small='tiny'), 4))
        for al, d in enum:
            for h in itertools.product(al, repeat=d):
                cases.append(dict(f, hist=[dict(o) for o in h]))
        # add_line at EVERY list index of the unedited file (also inside/behind the SFAC and FVAR regions,
        # on continuation lines and past the end), alone and followed by every edit of the small alphabet
        nphys = sum(len(l['phys']) for l in f['lines'])
        for k in range(nphys + 2):
            cases.append(dict(f, hist=[dict(op='add_line_at', i=k)]))
            for o in alphabet(f, small=True) if (i == 0 or thorough) else []:
                cases.append(dict(f, hist=[dict(op='add_line_at', i=k), dict(o)]))
    cases += setter_grid(rng, thorough)
    ctx.extra['exhaustive_histories'] = len(cases)
    # 2. random walks on random rich files
    for _ in range(ctx.budget(120, 1500)):
        f = make_file(rng)
        depth = rng.choice([1, 2, 3, 5, 8, 13, 20, 35, 50])
        hist = [rand_op(rng, f) for _ in range(depth)]
        if rng.random() < 0.3:
            hist[0] = dict(op='add_line_at', i=rng.randrange(sum(len(l['phys']) for l in f['lines']) + 2))
        cases.append(dict(f, hist=hist))
    for i in range(0, len(cases), 2000):
        evaluate(ctx, cases[i:i + 2000])

"""
C05 — parsing depends on instruction content only, not on layout, comments or case.

Metamorphic pairs: a generated valid file in canonical layout (`a`) and the same instructions after ONE kind of
layout transformation (`b`): continuation wraps at token boundaries (1..k, tight, blanks behind the marker, continuation
lines that carry only the marker), blanks, '!' comments (with and without '=' inside) on any physical line of an
instruction that runs over one, two or more lines, blank lines, indented comment lines, letter case of keywords (all,
some, those from HKLF on, the words of a DSR command) / elements / atom names / residue classes, and combinations
(continued + other case + comment). The files contain every keyword of the dispatch chain, DSR commands (REM lines that
are instructions), FRAG..FEND, RESI/PART/AFIX groups closed explicitly or left open up to HKLF, and what SHELXL writes
behind HKLF (residual REM lines, END, suggested WGHT, Q-peaks).

Order of exploration: (1) the witnesses of the Lean file, (2) a small systematic part - every instruction of the first
files, one by one: keyword in another case x continued over up to three lines x a comment containing '=' on the first /
a middle / the last physical line, (3) every kind at random on every file. A changed digest of a mirrored source file
(ctx.escalated) roughly doubles (2) and (3) and adds every single-wrap position of a few files; quick stays in its time.

Streams (DESIGN 3.2):
  pair    read_string(a) vs read_string(b), field by field (names and classes case-insensitively)   [property]
  lines   the implementation's logical lines (start index, tokens of Command/Restraint objects) of a and b
          vs model `modelLogicalLines` (correspondence) and vs spec `norm` (theorem glue_tokens; property)
  class   Residue.residue_number for a class suffix vs model `classNumbers keyNew` / spec `specClassNumbers`
The spec itself is also checked on every pair: norm a = norm b (theorem layout_preserves_norm), for the kinds that change
the letter case of more than the keyword: equal up to letter case (theorem case_invariance); a generated pair for which
that fails means the generator left the domain -> harness error, never a violation.
"""
import json
import shutil
import tempfile
from pathlib import Path

from .. import core, gen

FREE = ('TITL', 'REM')
WITNESSES = [
    # (kind, lines a, lines b): the decide-witnesses of lean/ShelxProps/C05.lean, replayed on the implementation
    ('comment=', ['TEMP -100', 'L.S. 10'], ['TEMP -100 ! T = low', 'L.S. 10']),
    ('case-rem=', ['REM a =', 'L.S. 10'], ['rem a =', 'L.S. 10']),
    ('comment=-on-wrap', ['DFIX 1.5 C1 C2 =', '  C3 C4'], ['DFIX 1.5 C1 C2 = ! a = b', '  C3 C4']),
]


# ------------------------------------------------------------------------------------------------
# by-construction files: a list of instructions, each a list of (token, role)

def ins(kw, *toks, kind='other'):
    out = [(kw, 'kw')]
    for t in toks:
        out.append(t if isinstance(t, tuple) else (str(t), None))
    return dict(kind=kind, toks=out)


def an(n):
    return (n, 'an')


def num(rng, lo, hi, nd):
    return f'{rng.uniform(lo, hi):.{nd}f}'


RESTRAINTS = ('DFIX', 'DANG', 'SADI', 'SAME', 'FLAT', 'CHIV', 'DELU', 'SIMU', 'RIGU', 'ISOR', 'NCSY', 'EADP', 'EXYZ')


def dsr_command(rng, names, classes):
    """REM DSR PUT|REPLACE fragment WITH atoms ON atoms/Q-peaks [PART n] [OCC sof] [RESI [class|number]] [DFIX] [SPLIT]
    (a REM line that is an instruction: DSR commands are continued with '=' like any other instruction)"""
    src = [rng.choice(['C', 'O', 'F']) + str(k + 1) for k in range(rng.randint(3, 5))]
    tgt = rng.sample(names, min(len(names), len(src) - rng.choice([0, 1]))) + rng.sample(['Q1', 'Q4', 'Q7', 'Q12'], rng.choice([0, 1, 2]))
    t = [('REM', 'kw'), ('DSR', 'kw2'), (rng.choice(['PUT', 'PUT', 'REPLACE']), 'kw2'), (rng.choice(['OC(CF3)3', 'TOLUENE', 'CF3', 'THF', 'PFANION']), None),
         ('WITH', None)] + [(x, None) for x in src] + [('ON', None)] + [(x, None) for x in tgt]
    if rng.random() < 0.7:
        t += [('PART', None), (str(rng.choice([1, 2, -1])), None)]
    if rng.random() < 0.7:
        t += [('OCC', None), (rng.choice(['-21', '21', '-31', '0.5']), None)]
    if rng.random() < 0.6:
        t += [('RESI', None)] + ([(rng.choice(classes + ['7']), None)] if rng.random() < 0.6 else [])
    t += [(x, None) for x in rng.sample(['DFIX', 'SPLIT'], rng.choice([0, 1, 1, 2]))]
    return dict(kind='dsr', toks=t)


def make_file(rng):
    """a valid file: header, instructions, FVAR, atoms in PART/AFIX/RESI groups (closed explicitly or left open up to HKLF, which
    SHELXL accepts), HKLF, and behind it what SHELXL writes into a .res file: REM lines with the residuals, END, the suggested
    WGHT, Q-peaks"""
    nel = rng.randint(2, 5)
    els = ['C'] + rng.sample([e for e in gen.ELEMENTS if e not in ('C', 'H')], nel - 1)
    if rng.random() < 0.6:
        els.insert(rng.randint(1, len(els)), 'H')
    cell = gen.rand_cell(rng)
    f = [dict(kind='titl', toks=[('TITL', 'kw')] + [(w, None) for w in rng.sample(
        ['verif', 'in', 'P2(1)/c', 'sample', 'x17', 'New:', 'a-b', 'run_3', 'Cu(II)'], rng.randint(1, 5))])]
    f.append(ins('CELL', *[f'{v:g}' for v in cell]))
    f.append(ins('ZERR', rng.choice([1, 2, 4, 8]), 0.001, 0.002, 0.003, 0.01, 0.02, 0.03))
    f.append(ins('LATT', rng.choice([-1, 1, -2, 2, -7])))
    for s in rng.sample([['-X,', 'Y+1/2,', '-Z'], ['-X,', '-Y,', 'Z'], ['X+1/2,', '-Y,', 'Z+1/2']], rng.randint(0, 2)):
        f.append(ins('SYMM', *s))
    # every SFAC form: one short line, several short lines, short + explicit (E a1 b1 ... wt), all explicit
    form = rng.choice(['short', 'short', 'short2', 'mixed', 'mixed', 'mixed', 'explicit'])

    def explicit(e):
        return dict(kind='sfac', form='explicit', toks=[('SFAC', 'kw'), (e, 'el')] + [(num(rng, -1, 60, 4), None) for _ in range(9)] +
                    [(num(rng, -1, 3, 4), None), (num(rng, 0, 9, 4), None), (num(rng, 1, 900, 2), None), (num(rng, 0.3, 2.5, 2), None),
                     (num(rng, 1, 240, 3), None)])

    def short(es):
        return dict(kind='sfac', form='short', toks=[('SFAC', 'kw')] + [(e, 'el') for e in es])

    if form == 'short':
        f.append(short(els))
    elif form == 'short2' and len(els) > 2:
        k = rng.randint(1, len(els) - 1)
        f += [short(els[:k]), short(els[k:])]
    elif form == 'explicit':
        f += [explicit(e) for e in els]
    else:
        k = rng.randint(1, len(els) - 1)
        if rng.random() < 0.5:
            f += [short(els[:k])] + [explicit(e) for e in els[k:]]
        else:                      # explicit entries first, or between two short lines
            f += [explicit(e) for e in els[:k]] + [short(els[k:])]
    for e in rng.sample(els, rng.randint(0, min(2, len(els)))):
        # DISP E f' f" [mu]   (has to follow SFAC directly)
        f.append(dict(kind='disp', toks=[('DISP', 'kw'), (rng.choice(['', '$']) + e, 'el'), (num(rng, -1, 1, 4), None), (num(rng, 0, 5, 4), None)] +
                      ([(num(rng, 10, 9000, 1), None)] if rng.random() < 0.5 else [])))
    f.append(ins('UNIT', *[rng.choice([2, 4, 8, 16, 24, 36]) for _ in els]))
    f[0]['elements'] = list(els)
    # atoms first (names), text later
    used = set()
    classes = rng.sample(['CCF', 'TOL', 'THF', 'BENZ', 'PF6'], rng.randint(1, 2))
    resis = []          # (class, number, [names])
    free_names = []
    nfv = rng.randint(1, 4)

    def mk_atoms(k):
        out = []
        for _ in range(k):
            s = rng.randrange(len(els)) + 1
            out.append((gen.atom_name(rng, els[s - 1], used), s))
        return out

    res0 = mk_atoms(rng.randint(4, 9))
    nres = rng.randint(1, 3)
    used_r = set()
    for r in range(nres):
        used_r = set()
        names = []
        for _ in range(rng.randint(2, 5)):
            s = rng.randrange(len(els)) + 1
            names.append((gen.atom_name(rng, els[s - 1], used_r), s))
        resis.append((rng.choice(classes), r + 1 + rng.choice([0, 10]) * 0, names))
    free_names = [n for n, _ in res0]

    opt = [ins('TEMP', rng.choice([-100, -173.15, 20, 23.5])), ins('L.S.', rng.randint(1, 40)), ins('PLAN', rng.randint(1, 60)),
           ins('LIST', rng.choice([4, 6])), ins('ACTA'), ins('BOND', '$H'), ins('CONF'), ins('FMAP', 2),
           ins('WGHT', num(rng, 0.01, 0.2, 4), num(rng, 0, 3, 4)), ins('SIZE', 0.1, 0.2, 0.3), ins('OMIT', -3, 55),
           ins('OMIT', 1, 0, 2), ins('EQIV', '$1', '-X,', 'Y,', '-Z+1'), ins('MORE', -1), ins('EXTI', num(rng, 0, 0.1, 5)),
           ins('SHEL', 999, 0.8), ins('DEFS', 0.03, 0.2, 0.02, 0.05), ins('HTAB'), ins('DAMP', 0.5, 10),
           ins('BIND', an(free_names[0]), an(free_names[1])), ins('FREE', an(free_names[0]), an(free_names[2])),
           ins('RTAB', 'Dist', an(free_names[1]), an(free_names[2])), ins('MPLA', 3, *[an(n) for n in free_names[:3]]),
           dict(kind='rem', toks=[('REM', 'kw')] + [(w, None) for w in rng.sample(['free', 'text', 'R1', '0.0345', 'for', 'x-1'], 3)]),
           dict(kind='rem', toks=[('REM', 'kw'), ('a', None), ('=', None), ('b', None)])]
    f += rng.sample(opt, rng.randint(4, 10))
    # every other keyword of the dispatch chain in one of its parameter forms (gen.instruction_forms: values distinct
    # and non-default); bare SADI is left out (its observable is a line number), NEUT has a fixed place in the header
    forms = [(kw, text) for kw, form, text in gen.instruction_forms(rng, free_names)
             if kw not in ('NEUT', 'REM', 'HKLF') and text != 'SADI' and not (kw in ('ANIS', 'BIND') and form.startswith('num') and '+' not in form)]
    for kw, text in rng.sample(forms, rng.randint(3, 7)):
        tk = text.split()
        f.append(dict(kind='restr' if kw in RESTRAINTS else 'other',
                      toks=[(tk[0], 'kw')] + [(t, 'an' if t.split('_')[0] in free_names else None) for t in tk[1:]]))
    # DSR commands: the one kind of REM line that is an instruction (may be continued)
    for _ in range(rng.choice([0, 1, 1, 2])):
        f.append(dsr_command(rng, free_names, classes))
    if rng.random() < 0.2:
        # FRAG ... FEND: the coordinate lines in between are not atoms of the structure
        f.append(ins('FRAG', 17, *([num(rng, 5, 9, 3), num(rng, 5, 9, 3), num(rng, 5, 9, 3), 90, 90, 90] if rng.random() < 0.5 else [])))
        for k in range(rng.randint(1, 4)):
            f.append(dict(kind='fragatom', toks=[(f'{rng.choice(els).upper()}{k + 1}', None), (str(rng.randint(1, len(els))), None)] +
                          [(num(rng, -3.5, 3.5, 5), None) for _ in range(3)]))
        f.append(ins('FEND'))

    def pick(pool, k):
        return [an(x) for x in rng.sample(pool, min(k, len(pool)))]

    def restraint(pool, suffix):
        kw = rng.choice(['DFIX', 'DANG', 'SADI', 'SIMU', 'DELU', 'RIGU', 'FLAT', 'EADP', 'ISOR', 'SAME', 'CHIV', 'EXYZ'])
        k = 2 * rng.randint(1, max(1, min(len(pool), 8) // 2))
        if kw in ('DFIX', 'DANG'):
            body = [num(rng, 0.9, 2.6, 3)] + ([num(rng, 0.01, 0.05, 3)] if rng.random() < 0.6 else []) + pick(pool, k)
        elif kw == 'SADI':
            body = ([num(rng, 0.01, 0.05, 3)] if rng.random() < 0.6 else []) + pick(pool, k)
        elif kw in ('FLAT', 'CHIV'):
            body = ([num(rng, 0.05, 0.2, 2)] if rng.random() < 0.5 else []) + pick(pool, max(k, 4))
        elif kw in ('EADP', 'EXYZ'):
            body = pick(pool, 2)
        else:
            body = [num(rng, 0.005, 0.05, 3) for _ in range(rng.randint(0, 2))] + pick(pool, max(k, 2))
        tok = (kw + suffix, 'kw')
        return dict(kind='restr', toks=[tok] + [b if isinstance(b, tuple) else (b, None) for b in body])

    for _ in range(rng.randint(2, 6)):
        f.append(restraint(free_names, ''))
    for cls, n, names in resis:
        pool = [x for x, _ in names]
        if len(pool) >= 2:
            f.append(restraint(pool, '_' + (cls if rng.random() < 0.6 else str(n))))
            if rng.random() < 0.4:      # explicit residue numbers on the atoms
                r = restraint(pool, '')
                r['toks'] = [r['toks'][0]] + [(t + f'_{n}', role) if role == 'an' else (t, role) for t, role in r['toks'][1:]]
                f.append(r)
    fv = [num(rng, 0.1, 0.9, 5) for _ in range(nfv)]
    k = rng.randint(1, nfv - 1) if nfv >= 2 and rng.random() < 0.4 else nfv      # the free variables may come in several FVAR instructions
    f.append(ins('FVAR', *fv[:k]))
    if fv[k:]:
        f.append(ins('FVAR', *fv[k:]))

    def atom(name, s, sof='11.00000'):
        # every form of the atom instruction: name sfac x y z [sof[11] [U[0.05] | U11 .. U12]] - trailing parameters may be left out
        form = rng.choice(['aniso', 'aniso', 'aniso', 'iso', 'iso', 'iso'] + (['xyz', 'xyz', 'sof'] if sof == '11.00000' else ['sof']))
        us = dict(aniso=[num(rng, 0.01, 0.09, 5) for _ in range(3)] + [num(rng, -0.02, 0.02, 5) for _ in range(3)],
                  iso=[num(rng, 0.01, 0.09, 5)]).get(form, [])
        return dict(kind='atom', form=form, toks=[(name, 'an'), (str(s), None)] + [(num(rng, -0.5, 1.5, 6), None) for _ in range(3)] +
                    ([(sof, None)] if form != 'xyz' else []) + [(u, None) for u in us])

    i = 0
    while i < len(res0):
        r = rng.random()
        if r < 0.2 and i + 2 <= len(res0) and nfv >= 2:
            f.append(ins('PART', 1, *([f'{10 * rng.randint(2, nfv) + 1:.5f}'] if rng.random() < 0.5 else [])))
            f.append(atom(*res0[i], sof='21.00000'))
            f.append(ins('PART', 2))
            f.append(atom(*res0[i + 1], sof='-21.00000'))
            f.append(ins('PART', 0))
            i += 2
        elif r < 0.35:
            f.append(ins('AFIX', rng.choice([66, 56, 116])))
            f.append(atom(*res0[i]))
            f.append(ins('AFIX', 0))
            i += 1
        else:
            f.append(atom(*res0[i]))
            i += 1
    for cls, n, names in resis:
        order = rng.random() < 0.5
        f.append(dict(kind='resi', toks=[('RESI', 'kw')] + ([(cls, 'cls'), (str(n), None)] if order else [(str(n), None), (cls, 'cls')]) +
                      ([(str(100 + n), None)] if rng.random() < 0.3 else [])))
        for name, s in names:
            f.append(atom(name, s))
    # the end of the atom list: any of RESI / PART / AFIX may still be open when HKLF is reached
    still_open = rng.sample(['resi', 'part', 'afix'], rng.choice([0, 0, 1, 1, 2, 3]))
    tail_used = used_r if 'resi' in still_open else used      # names are unique within a residue
    if 'resi' not in still_open:
        f.append(ins('RESI', 0))

    def tail_atoms(k, sof, hydrogens=False):
        for _ in range(k):
            s = (els.index('H') + 1) if hydrogens and 'H' in els else rng.randrange(len(els)) + 1
            f.append(atom(gen.atom_name(rng, els[s - 1], tail_used), s, sof=sof))

    sof = '11.00000'
    if 'part' in still_open:
        pn = rng.choice([1, 2, 3, -1, -2])
        code = 10 * rng.randint(2, nfv) + 1 if nfv >= 2 else 11
        sof = f'{rng.choice([1, -1]) * code:.5f}' if nfv >= 2 else '10.50000'
        f.append(ins('PART', pn, *([sof] if rng.random() < 0.5 else [])))
        tail_atoms(rng.randint(1, 3), sof)
    if 'afix' in still_open:
        f.append(ins('AFIX', rng.choice([137, 43, 23, 66, 33]), *([num(rng, 0.9, 1.1, 2)] if rng.random() < 0.2 else [])))
        tail_atoms(rng.randint(1, 3), sof, hydrogens=True)
    f[0]['open'] = sorted(still_open)
    m = '0 1 0 -1 0 0 0 0 1'.split()
    f.append(ins('HKLF', *rng.choice([[4], [4], [5], [4, 1], [5, 0.5], [4, 0.7] + m, [4, 1] + m + [1.5, 3]])))
    # behind HKLF: what SHELXL writes into the .res file
    name = rng.choice(['verif', 'sample', 'x17', 'run_3'])
    r1, r1all, wr2, goof, rgoof = (num(rng, 0.02, 0.09, 4), num(rng, 0.03, 0.12, 4), num(rng, 0.05, 0.3, 4), num(rng, 0.8, 1.3, 3), num(rng, 0.8, 1.3, 3))
    npar, nres_, nobs, ndata = rng.randint(50, 900), rng.randint(0, 400), rng.randint(1000, 5000), rng.randint(5001, 9000)
    stats = [f'REM {name} in P2(1)/c', f'REM wR2 = {wr2}, GooF = S = {goof}, Restrained GooF = {rgoof} for all data',
             f'REM R1 = {r1} for {nobs} Fo > 4sig(Fo) and {r1all} for all {ndata} data',
             f'REM {npar} parameters refined using {nres_} restraints']
    for t in stats:
        if rng.random() < 0.6:
            f.append(dict(kind='rem', toks=[('REM', 'kw')] + [(w, None) for w in t.split()[1:]]))
    has_end = rng.random() < 0.8
    if has_end:
        f.append(ins('END'))
    if rng.random() < 0.7:
        f.append(ins('WGHT', num(rng, 0.01, 0.2, 4), num(rng, 0, 3, 4)))
    if rng.random() < 0.5:
        f.append(dict(kind='rem', toks=[('REM', 'kw')] + [(w, None) for w in
                      f'Highest difference peak {num(rng, 0.1, 2, 3)}, deepest hole -{num(rng, 0.1, 2, 3)}, 1-sigma level {num(rng, 0.01, 0.2, 3)}'.split()]))
    for k in range(rng.choice([0, 1, 2, 3, 5])):
        f.append(dict(kind='qpeak', toks=[(f'Q{k + 1}', 'an'), ('1', None)] + [(num(rng, -0.2, 1.2, 4), None) for _ in range(3)] +
                      [('11.00000', None), ('0.05', None), (num(rng, 0.1, 2.5, 2), None)]))
    return f


# ------------------------------------------------------------------------------------------------
# layouts

def canon(f):
    return [dict(toks=[t for t, _ in i['toks']]) for i in f]


def render(layout, extras=None):
    return render_spans(layout, extras)[0]


def render_spans(layout, extras=None):
    """layout: per instruction dict(toks, wraps={boundary: (tight, indent)}, sep={boundary: n}, comment={physline: txt},
    trail=n); boundary j is the gap after token j. extras: {instruction index: [lines inserted before it]}.
    Returns (lines, xstart, istart): xstart[k] = index of the first extra line in front of instruction k, istart[k] = index of
    its own first physical line (k = len(layout): the extras at the end / the number of lines)"""
    out = []
    xstart, istart = [], []
    for k, ly in enumerate(layout):
        xstart.append(len(out))
        for e in (extras or {}).get(k, []):
            out.append(e)
        istart.append(len(out))
        toks = ly['toks']
        if len(ly) == 1:                       # canonical layout: one blank between tokens
            out.append(' '.join(toks))
            continue
        wraps = ly.get('wraps', {})
        sep = ly.get('sep', {})
        phys = ['']
        for j, t in enumerate(toks):
            phys[-1] += t
            if j == len(toks) - 1:
                break
            w = wraps.get(j) or wraps.get(str(j))
            if w:
                # w = (tight, indent of the continuation line[, blanks behind '='[, continuation lines that carry only '=']])
                phys[-1] += ('' if w[0] else ' ' * int(sep.get(j, sep.get(str(j), 1)))) + '=' + ' ' * (int(w[2]) if len(w) > 2 else 0)
                for _ in range(int(w[3]) if len(w) > 3 else 0):
                    phys.append(' ' * max(1, int(w[1])) + '=')
                phys.append(' ' * max(1, int(w[1])))
            else:
                phys[-1] += ' ' * int(sep.get(j, sep.get(str(j), 1)))
        phys[-1] += ' ' * int(ly.get('trail', 0))
        for p, txt in (ly.get('comment') or {}).items():
            phys[int(p)] += txt
        out += phys
    xstart.append(len(out))
    for e in (extras or {}).get(len(layout), []):
        out.append(e)
    istart.append(len(out))
    return out, xstart, istart


def swapcase_some(rng, s, mode):
    if mode == 'lower':
        return s.lower()
    if mode == 'upper':
        return s.upper()
    if mode == 'title':
        return s.capitalize()
    return ''.join(c.lower() if rng.random() < 0.5 else c.upper() for c in s)


COMMENTS = [' ! note', '  !comment text', ' ! C-H 0.95', '!x']
COMMENTS_EQ = [' ! U = big', ' ! a=b', ' !=', ' ! trailing =', ' ! d=1.33, s=0.02 ! (CSD)', '  != !']


# every way a comment can meet the instruction in front of it: '!' as a token of its own, glued to its text, glued to the last
# token of the instruction, with '=' inside / as its last character, a second '!'
SPELLINGS = [' ! note', ' !note 2', '!x', ' ! U = big', ' !=', ' ! d=1.33, s=0.02 ! (CSD)']

MODES = ['lower', 'title', 'mixed']


def recase_kw(rng, f, ly, i, mode):
    """keyword of instruction i (a residue suffix keeps its spelling) and, for a DSR command, the words DSR and PUT/REPLACE"""
    hit = 0
    for j, (t, r) in enumerate(f[i]['toks']):
        if r == 'kw':
            a, _, b = t.partition('_')
            ly[i]['toks'][j] = swapcase_some(rng, a, mode) + (('_' + b) if b else '')
        elif r == 'kw2':
            ly[i]['toks'][j] = swapcase_some(rng, t, mode)
        else:
            continue
        hit += ly[i]['toks'][j] != t
    return hit


def transform(rng, f, kind, where=None):
    """returns (layout, extras, detail) for the transformed file, or None if the kind does not apply"""
    ly = canon(f)
    extras = {}
    n = len(f)
    wrappable = [i for i in range(n) if f[i]['kind'] not in ('titl', 'rem') and len(f[i]['toks']) > (3 if f[i]['kind'] == 'dsr' else 1)]
    anyline = list(range(n))
    detail = {}

    def bounds(i):
        # a DSR command is a REM line up to and including PUT/REPLACE: 'REM DSR =' is free text that ends in '='
        return list(range(2 if f[i]['kind'] == 'dsr' else 0, len(f[i]['toks']) - 1))

    if kind in ('wrap1', 'wrap-tight'):
        i, j = where if where else (lambda i: (i, rng.choice(bounds(i))))(rng.choice(wrappable))
        ly[i]['wraps'] = {j: (kind == 'wrap-tight', rng.randint(1, 8))}
        detail = dict(instr=f[i]['toks'][0][0], boundary=j)
    elif kind == 'wrapk':
        for i in rng.sample(wrappable, rng.randint(1, min(6, len(wrappable)))):
            b = bounds(i)
            ly[i]['wraps'] = {j: (False, rng.randint(1, 8), rng.choice([0, 0, 1, 3])) for j in rng.sample(b, rng.randint(1, min(4, len(b))))}
    elif kind == 'wrap-empty':
        # continuation lines that carry nothing but the marker
        for i in rng.sample(wrappable, rng.randint(1, min(3, len(wrappable)))):
            b = bounds(i)
            ly[i]['wraps'] = {j: (False, rng.randint(1, 8), rng.choice([0, 0, 2]), rng.choice([1, 1, 2])) for j in rng.sample(b, rng.randint(1, min(2, len(b))))}
        detail = dict(n=sum(len(x.get('wraps', {})) for x in ly))
    elif kind == 'blanks':
        for i in rng.sample(wrappable, rng.randint(1, len(wrappable))):
            ly[i]['sep'] = {j: rng.randint(1, 5) for j in bounds(i)}
            ly[i]['trail'] = rng.choice([0, 0, 1, 3])
    elif kind == 'blanks-titl':
        i = [k for k in range(n) if f[k]['kind'] == 'titl'][0]
        ly[i]['sep'] = {0: rng.randint(2, 6)}
    elif kind in ('comment', 'comment='):
        pool = COMMENTS if kind == 'comment' else COMMENTS_EQ
        for i in ([where] if where is not None else rng.sample(anyline, rng.randint(1, 4))):
            ly[i]['comment'] = {0: rng.choice(pool)}
            detail = dict(instr=f[i]['toks'][0][0])
    elif kind in ('comment-on-wrap', 'comment=-on-wrap'):
        pool = COMMENTS if kind == 'comment-on-wrap' else COMMENTS_EQ
        i = rng.choice(wrappable)
        j = rng.choice(bounds(i))
        ly[i]['wraps'] = {j: (False, rng.randint(1, 6))}
        ly[i]['comment'] = {rng.choice([0, 0, 1]): rng.choice(pool)}
        detail = dict(instr=f[i]['toks'][0][0], boundary=j)
    elif kind in ('comment-multi', 'comment=-multi'):
        # an instruction over three or more physical lines, comments on any of them - always on a line that is
        # continuation line and continued line at once
        pool = COMMENTS if kind == 'comment-multi' else COMMENTS_EQ
        cand = [i for i in wrappable if len(bounds(i)) >= 2]
        if not cand:
            return None
        i = rng.choice(cand)
        b = bounds(i)
        k = rng.randint(2, min(4, len(b)))
        ly[i]['wraps'] = {j: (rng.random() < 0.15, rng.randint(1, 6)) for j in rng.sample(b, k)}
        lines = set(rng.sample(range(k + 1), rng.randint(0, k))) | {rng.randint(1, k - 1)}
        ly[i]['comment'] = {p: rng.choice(pool) for p in sorted(lines)}
        detail = dict(instr=f[i]['toks'][0][0], wraps=k, commented=sorted(lines))
    elif kind == 'wrap+case':
        # continued instructions whose keyword is not in capitals
        for i in rng.sample(wrappable, rng.randint(1, min(6, len(wrappable)))):
            b = bounds(i)
            ly[i]['wraps'] = {j: (rng.random() < 0.15, rng.randint(1, 8)) for j in rng.sample(b, rng.randint(1, min(3, len(b))))}
            recase_kw(rng, f, ly, i, rng.choice(MODES))
        detail = dict(n=sum(len(x.get('wraps', {})) for x in ly))
    elif kind == 'case-kw-some':
        # some keywords only, each in a spelling of its own
        hit = 0
        for i in rng.sample(anyline, rng.randint(1, max(1, n // 3))):
            hit += recase_kw(rng, f, ly, i, rng.choice(MODES))
        if not hit:
            return None
    elif kind == 'case-tail':
        # the keywords from HKLF on (HKLF, REM, END, WGHT): where SHELXL stops reading and its own output begins
        k0 = next(k for k in range(n) if f[k]['toks'][0][0] == 'HKLF')
        mode = rng.choice(MODES)
        for i in range(k0, n):
            recase_kw(rng, f, ly, i, mode if rng.random() < 0.8 else rng.choice(MODES))
        detail = dict(mode=mode, open=f[0].get('open'))
    elif kind == 'dsr-forms':
        # everything at once on the DSR commands: case of REM / DSR / PUT|REPLACE, wraps, blanks, comments
        hit = 0
        for i in range(n):
            if f[i]['kind'] != 'dsr':
                continue
            hit += 1
            b = bounds(i)
            if rng.random() < 0.85:
                recase_kw(rng, f, ly, i, rng.choice(MODES))
            k = rng.choice([0, 1, 1, 2, 3])
            ly[i]['wraps'] = {j: (rng.random() < 0.15, rng.randint(1, 6)) for j in rng.sample(b, min(k, len(b)))}
            if rng.random() < 0.4:
                ly[i]['sep'] = {j: rng.randint(1, 3) for j in range(len(f[i]['toks']) - 1)}
            if rng.random() < 0.4:
                ly[i]['comment'] = {rng.randint(0, len(ly[i]['wraps'])): rng.choice(COMMENTS + COMMENTS_EQ)}
        if not hit:
            return None
    elif kind == 'one-instr':
        # systematic part: instruction i with its keyword in another case, continued over up to three lines, with a
        # comment that contains '=' on the first, a middle or the last of them
        i, v = where
        mode = MODES[v % 3]
        recase_kw(rng, f, ly, i, mode)
        k = 0
        if i in wrappable:
            b = bounds(i)
            k = min(len(b), 2)
            ly[i]['wraps'] = {j: (rng.random() < 0.15, rng.randint(1, 6)) for j in rng.sample(b, k)}
        p = [0, k // 2 + k % 2, k][(v // 3) % 3] if k else 0          # k = 2: line 0, 1, 2; k = 1: 0, 1, 1
        ly[i]['comment'] = {p: rng.choice(COMMENTS_EQ if f[i]['kind'] != 'titl' else COMMENTS)}
        detail = dict(instr=f[i]['toks'][0][0], mode=mode, wraps=k, commented=p)
    elif kind == 'comment-spell':
        # systematic part: every spelling of a comment behind instruction i (on one line)
        i, v = where
        sp = [x for x in SPELLINGS if '=' not in x] if f[i]['kind'] == 'titl' else SPELLINGS
        ly[i]['comment'] = {0: sp[v % len(sp)]}
        detail = dict(instr=f[i]['toks'][0][0], ntoks=len(f[i]['toks']), spelling=sp[v % len(sp)])
    elif kind == 'blankline':
        for k in (where if where is not None else rng.sample(range(n + 1), rng.randint(1, 5))):
            extras[k] = [rng.choice(['', ' ', '      '])] * rng.randint(1, 2)
    elif kind in ('commentline', 'commentline='):
        for k in (where if where is not None else rng.sample(range(1, n + 1), rng.randint(1, 4))):
            pool = (['  some text', ' ! remark', '    C99 1 0.1 0.2 0.3 11.0 0.05', ' DFIX 1.5 C1 C2'] if kind == 'commentline'
                    else ['  x = y', ' ! a = b', '   ends with ='])
            if kind == 'commentline':
                # an instruction that is switched off: an indented copy of an instruction of this file
                off = [' '.join(t for t, _ in x['toks']) for x in f if x['kind'] not in ('titl', 'rem', 'dsr')]
                pool = pool + [' ' * rng.randint(1, 4) + rng.choice(off) for _ in range(4)]
            extras[k] = [rng.choice(pool) for _ in range(rng.choice([1, 1, 2]))]
    elif kind.startswith('case-'):
        role = dict(kw='kw', elem='el', atom='an', ratom='an', resi='cls', suffix='kw', dsr='kw2', **{'rem=': 'kw'})[kind[5:]]
        mode = rng.choice(['lower', 'title', 'mixed', 'upper'])
        hit = 0
        for i in range(n):
            k = f[i]['kind']
            if kind == 'case-atom' and k not in ('atom', 'qpeak'):
                continue
            if kind == 'case-ratom' and k in ('atom', 'qpeak'):
                continue
            if kind == 'case-rem=' and k != 'rem':
                continue
            for j, (t, r) in enumerate(f[i]['toks']):
                if r != role:
                    continue
                if kind == 'case-suffix':
                    if '_' not in t:
                        continue
                    a, b = t.split('_', 1)
                    ly[i]['toks'][j] = a + '_' + swapcase_some(rng, b, mode)
                elif kind == 'case-kw':
                    a, _, b = t.partition('_')
                    ly[i]['toks'][j] = swapcase_some(rng, a, mode) + (('_' + b) if b else '')
                else:
                    ly[i]['toks'][j] = swapcase_some(rng, t, mode)
                hit += ly[i]['toks'][j] != t
        if kind == 'case-rem=':
            # a REM line whose text ends in '=' (free text, never a continuation), keyword in another case
            k = rng.choice([x for x in range(1, n) if f[x]['kind'] not in ('atom',)])
            extras[k] = ['rem note ends with =']
            hit += 1
        if not hit:
            return None
        detail = dict(mode=mode)
    elif kind == 'sfac-forms':
        # everything at once on the lines that define element identity: SFAC in each of its forms (the explicit one
        # wrapped the way SHELXL writes it) and DISP: element case, keyword case, wraps, blanks, comments
        mode = rng.choice(['lower', 'mixed', 'upper', 'upper'])
        hit = 0
        for i in range(n):
            if f[i]['kind'] not in ('sfac', 'disp'):
                continue
            b = bounds(i)
            for j, (t, r) in enumerate(f[i]['toks']):
                if r == 'el':
                    ly[i]['toks'][j] = swapcase_some(rng, t, mode)
                    hit += ly[i]['toks'][j] != t
            if rng.random() < 0.5:
                ly[i]['toks'][0] = swapcase_some(rng, ly[i]['toks'][0], 'mixed')
            if b and (len(b) > 6 or rng.random() < 0.3):
                ly[i]['wraps'] = {j: (False, rng.randint(1, 6)) for j in rng.sample(b, rng.randint(1, min(2, len(b))))}
                hit += 1
            if rng.random() < 0.4:
                ly[i]['sep'] = {j: rng.randint(1, 3) for j in b}
            if rng.random() < 0.3:
                ly[i]['comment'] = {0: rng.choice(COMMENTS)}
        if not hit:
            return None
        detail = dict(mode=mode)
    elif kind == 'mixed':
        for i in rng.sample(wrappable, rng.randint(1, len(wrappable))):
            b = bounds(i)
            if rng.random() < 0.4:
                ly[i]['wraps'] = {j: (False, rng.randint(1, 8)) for j in rng.sample(b, rng.randint(1, min(3, len(b))))}
            ly[i]['sep'] = {j: rng.randint(1, 4) for j in b}
            ly[i]['trail'] = rng.choice([0, 0, 2])
            if rng.random() < 0.3:
                ly[i]['comment'] = {rng.randint(0, len(ly[i].get('wraps', {}))): rng.choice(COMMENTS + COMMENTS_EQ)}
            if rng.random() < 0.5:
                recase_kw(rng, f, ly, i, 'mixed')
            for j, (t, r) in enumerate(f[i]['toks']):
                if r in ('an', 'el') and rng.random() < 0.3:
                    ly[i]['toks'][j] = swapcase_some(rng, t, 'mixed')
        for k in rng.sample(range(1, n + 1), rng.randint(0, 3)):
            extras[k] = [rng.choice(['', '   ', '  remark', ' ! remark'])]
    else:
        raise ValueError(kind)
    return ly, extras, detail


def base_lines(f):
    """the canonical text `a`; for the case-rem= kind the extra REM line is part of the content (upper case)"""
    return render(canon(f))


# ------------------------------------------------------------------------------------------------
# observation of the implementation

SCALARS = ['temp', 'Z', 'wavelength', 'list', 'exti', 'end', 'global_sadi']


def fl(x):
    try:
        return float(x)
    except Exception:
        return repr(x)


def casings(e):
    return sorted({e.upper(), e.lower(), e.capitalize()})


def observe(lines, elements=None, inc=None):
    """inc = dict(name, span=[s, e]): the lines s .. e-1 are written to the include file `name`, the rest with a '+name' line in
    their place to a .res file next to it, and that one is read with read_file()"""
    from shelxfile import Shelxfile
    shx = Shelxfile()
    tmp = None
    try:
        if inc:
            s, e = inc['span']
            tmp = Path(tempfile.mkdtemp(prefix='c05inc'))
            (tmp / inc['name']).write_text('\n'.join(lines[s:e]) + '\n')
            (tmp / 'main.res').write_text('\n'.join(lines[:s] + ['+' + inc['name']] + lines[e:]) + '\n')
            shx.read_file(tmp / 'main.res')
            lines = None
        else:
            shx.read_string('\n'.join(lines) + '\n')
    except Exception as e:
        return dict(error=type(e).__name__)
    finally:
        if tmp:
            shutil.rmtree(tmp, ignore_errors=True)
    return _observe(shx, lines, elements)


def _observe(shx, lines, elements):
    from shelxfile.atoms.atom import Atom
    o = {}
    atoms = []
    for a in shx.atoms:
        try:
            atoms.append(dict(name=a.name.upper(), sfac=a.sfac_num, el=str(a.element).upper(), xyz=[a.x, a.y, a.z], sof=a.sof,
                              u=list(a.uvals), part=a.part.n, afix=(a.afix.mn if a.afix else 0), resi=a.resinum,
                              cls=str(a.resiclass).upper(), q=bool(a.qpeak)))
        except Exception as e:
            atoms.append(dict(error=type(e).__name__))
    o['atoms'] = atoms
    rs = []
    for r in shx.restraints:
        try:
            rn = sorted(r.residue_number)
        except Exception as e:
            rn = type(e).__name__
        rs.append(dict(cls=type(r).__name__, name=r.name, par={k: v for k, v in sorted(vars(r).items())
                                                               if isinstance(v, (int, float)) and not isinstance(v, bool) and not k.startswith('_')},
                       atoms=[str(x).upper() for x in r.atoms], rclass=str(r.residue_class).upper(), rnum=rn))
    o['restraints'] = rs
    o['restraint_errors_empty'] = not getattr(shx, 'restraint_errors', ['unset'])
    objs = []
    starts = []
    for i, (raw, item) in enumerate(zip(lines, shx._reslist) if lines is not None else [(None, x) for x in shx._reslist]):
        if raw is None:
            # include files: the positions in the line list are the business of the splice, not of this property (blank lines
            # of the include file may or may not be spliced in) - the instruction objects in their order
            if isinstance(item, str):
                continue
        elif raw.startswith(' ') or raw == '':
            continue
        if isinstance(item, str) and item == '' and raw[:4].upper() not in ('SFAC', 'FVAR', 'SYMM'):
            continue                       # consumed by the continuation loop
        # (second and later SFAC/FVAR/SYMM lines are merged into the object of the first and blanked as well; whether
        #  one of THOSE was swallowed shows in the sfac / fvars / symm fields)
        starts.append(i)
        if isinstance(item, (str, Atom)):
            objs.append(None)
        else:
            txt = getattr(item, 'textline', None)
            if txt is None:
                txt = getattr(item, '_textline', None)
            objs.append([type(item).__name__, txt.split() if isinstance(txt, str) else None])
    o['starts'] = starts
    o['objs'] = objs
    o['n_rem'] = len(shx.rem)
    o['titl'] = str(shx.titl).strip()
    o['titl_raw'] = str(shx.titl)
    sc = {}
    for k in SCALARS:
        sc[k] = fl(getattr(shx, k, None)) if getattr(shx, k, None) is not None else None
    for k, attr in [('cycles', 'number'), ('plan', 'npeaks'), ('hklf', 'n'), ('latt', 'N'), ('acta', '_textline'), ('wght', 'a'), ('wght_b', None),
                    ('defs', 'sd'), ('shel', 'lowres'), ('damp', 'damp'), ('fmap', 'code'), ('more', 'm'), ('size', 'dx')]:
        obj = getattr(shx, 'wght' if k == 'wght_b' else k, None)
        at = 'b' if k == 'wght_b' else attr
        v = getattr(obj, at, None) if obj is not None else None
        sc[k] = (fl(v) if not isinstance(v, str) else v.upper()) if v is not None else None
    o['scalars'] = sc
    try:
        o['cell'] = [fl(x) for x in list(shx.cell)] if shx.cell else None
    except Exception as e:
        o['cell'] = type(e).__name__
    o['sfac'] = [str(e).upper() for e in shx.sfac_table.elements_list]
    # everything that depends on element identity, asked in every letter case (the question's case is the caller's
    # business, the answer must not depend on how the FILE spelled the element)
    els = list(elements) if elements else sorted(set(o['sfac']))
    look = []
    for e in els:
        for q in casings(e):
            try:
                look.append([q, shx.elem2sfac(q), bool(shx.sfac_table.has_element(q))])
            except Exception as ex:
                look.append([q, type(ex).__name__])
    o['elem_lookup'] = look
    try:
        o['sfac_iter'] = [str(x).upper() for x in shx.sfac_table]
        o['sfac_byindex'] = [str(shx.sfac2elem(k + 1)).upper() for k in range(len(o['sfac']))]
        o['sfac_coeff'] = [[k.upper() if isinstance(k, str) else k, fl(v)] for d in shx.sfac_table.sfac_table
                           for k, v in sorted(d.items()) if k not in ('element', 'line_number')]
    except Exception as ex:
        o['sfac_iter'] = type(ex).__name__
    try:
        o['sum_exact'] = sorted([str(k).upper(), fl(v)] for k, v in shx.sum_formula_exact_as_dict().items())
    except Exception as ex:
        o['sum_exact'] = type(ex).__name__
    try:
        o['sum_formula'] = str(shx.sum_formula).upper()
        o['sum_formula_exact'] = str(shx.sum_formula_exact).upper()
    except Exception as ex:
        o['sum_formula'] = type(ex).__name__
    o['disp'] = [[[str(t).upper() if isinstance(t, str) else fl(t) for t in lst] for lst in (d.element, d.parameter)] for d in shx.disp]
    o['atom_an'] = []
    for a in shx.atoms:
        try:
            o['atom_an'].append(a.an)
        except Exception as ex:
            o['atom_an'].append(type(ex).__name__)
    # case-insensitive atom lookup: every atom is found under its full name in capitals and in lower case, and is itself
    pos = {id(a): k for k, a in enumerate(shx.atoms)}
    look = []
    for a in shx.atoms:
        row = []
        for q in (a.fullname.upper(), a.fullname.lower()):
            try:
                row += [pos.get(id(shx.atoms.get_atom_by_name(q)), -1), bool(shx.atoms.has_atom(q))]
            except Exception as ex:
                row.append(type(ex).__name__)
        look.append(row)
    o['atom_lookup'] = look
    o['unit'] = [fl(x) for x in shx.unit.values] if getattr(shx, 'unit', None) else None
    o['fvars'] = [fl(x) for x in shx.fvars.as_stringlist] if hasattr(shx.fvars, 'as_stringlist') else [fl(v.fvar_value) for v in shx.fvars.fvars]
    o['symm'] = len(shx.symmcards._symmcards) if hasattr(shx.symmcards, '_symmcards') else None
    # what the REM lines carry: DSR commands and the residuals SHELXL writes behind HKLF
    o['dsr'] = [str(x).upper().split() for x in shx.dsrlines]
    o['residuals'] = {k: (fl(getattr(shx, k, None)) if not isinstance(getattr(shx, k, None), str) else getattr(shx, k).upper())
                      for k in ('R1', 'wr2', 'goof', 'rgoof', 'data', 'parameters', 'dat_to_param', 'num_restraints', 'highest_peak',
                                'deepest_hole', 'space_group') if getattr(shx, k, None) is not None}
    ws = getattr(shx, 'wght_suggested', None)
    o['tail'] = dict(wght_suggested=[fl(ws.a), fl(ws.b)] if ws else None,
                     hklf=[fl(getattr(shx.hklf, k, None)) for k in ('n', 's', 'sm', 'm')] + [fl(x) for x in (getattr(shx.hklf, 'matrix', None) or [])]
                     if shx.hklf else None, frag=bool(getattr(shx, 'frag', None)),
                     peaks=[fl(getattr(a, 'peak_height', None)) for a in shx.atoms if a.qpeak])
    o['counts'] = dict(hfix=len(shx.hfixes), bind=len(shx.bind), free=len(shx.free), rtab=len(shx.rtab), omit=[[str(t).upper() for t in x] for x in shx.omit],
                       eqiv=[[str(t).upper() for t in x] for x in shx.eqiv], residues=sorted(shx.residues.residue_numbers.keys()))
    return o


def same(a, b):
    if isinstance(a, float) or isinstance(b, float):
        try:
            return core.close(a, b, 1e-9, 1e-9)
        except (TypeError, ValueError):
            return a == b
    if isinstance(a, dict) and isinstance(b, dict):
        return a.keys() == b.keys() and all(same(a[k], b[k]) for k in a)
    if isinstance(a, (list, tuple)) and isinstance(b, (list, tuple)):
        return len(a) == len(b) and all(same(x, y) for x, y in zip(a, b))
    return a == b


FIELDS = ['atoms', 'restraints', 'restraint_errors_empty', 'n_rem', 'titl_raw', 'scalars', 'cell', 'sfac', 'elem_lookup', 'sfac_iter', 'sfac_byindex', 'sfac_coeff', 'sum_exact',
          'sum_formula', 'sum_formula_exact', 'disp', 'atom_an', 'atom_lookup', 'unit', 'fvars', 'symm', 'counts', 'dsr', 'residuals', 'tail']


def upper_objs(o):
    return [None if x is None else [x[0], None if x[1] is None else [t.upper() for t in x[1]]] for x in o['objs']]


def first_diff(oa, ob):
    if 'error' in oa or 'error' in ob:
        return 'raise'
    if len(oa['starts']) != len(ob['starts']):
        return 'logical-lines'
    for k in FIELDS:
        if oa[k] != ob[k] and not same(oa[k], ob[k]):
            return k
    if upper_objs(oa) != upper_objs(ob):
        return 'instruction-tokens'
    return None


# ------------------------------------------------------------------------------------------------

def evaluate(ctx, cases, stream=None):
    ctx.stream('pair')
    ctx.stream('lines')
    ctx.stream('class')
    ctx.stream('include')
    # the canonical text `a` is shared by all pairs of one file: it is sent to the driver and observed once per run of pairs
    reqs, slot = [], {}
    for c in cases:
        for side in ('a', 'b'):
            k = tuple(c[side])
            if k not in slot:
                slot[k] = len(reqs)
                reqs.append(dict(p='C05', op='lines', lines=c[side]))
        if c.get('inc'):
            # hypotheses of theorem include_layout_invariance: the text in front of the include file and the include file itself
            for side in ('a', 'b'):
                s_, e_ = c['inc'][side]
                for k in (tuple(c[side][:s_]), tuple(c[side][s_:e_])):
                    if k not in slot:
                        slot[k] = len(reqs)
                        reqs.append(dict(p='C05', op='lines', lines=list(k)))
    ans = ctx.driver.batch(reqs)
    seen = {}

    def obs(lines, elements):
        k = (tuple(lines), tuple(elements or ()))
        if k not in seen:
            if len(seen) > 8:
                seen.clear()
            seen[k] = observe(lines, elements)
        return seen[k]

    for ci, c in enumerate(cases):
        kind = c['kind']
        ra, rb = ans[slot[tuple(c['a'])]], ans[slot[tuple(c['b'])]]
        oa, ob = obs(c['a'], c.get('elements')), observe(c['b'], c.get('elements'))
        key = [kind, c['a'], c['b']] + ([c['inc']] if c.get('inc') else [])
        tags = ['kind=' + kind] + (['include'] if c.get('inc') else []) + (['instr=' + c['detail']['instr'][:4].upper()] if c.get('detail', {}).get('instr') else [])
        ctx.count(key, nontrivial=c['a'] != c['b'], tags=tags,
                  sample=dict(kind=kind, detail=c.get('detail'), b=[x for x, y in zip(c['b'], c['a'] + [''] * len(c['b'])) if x != y][:3]))
        # the generator must stay inside the domain of the theorems: both layouts valid, same normal form
        ci = kind.startswith('case-') and kind not in ('case-kw', 'case-rem=') or kind in ('mixed', 'sfac-forms', 'wrap+case', 'dsr-forms', 'one-instr')
        up = (lambda n: [[t.upper() for t in l] for l in n]) if ci else (lambda n: n)
        if ra['spec'] is None or rb['spec'] is None or up(ra['spec']) != up(rb['spec']):
            if c.get('expect_spec_equal', True):
                raise RuntimeError(f'C05 generator left the domain (kind {kind}): norm a = {ra["spec"]!r:.300}, norm b = {rb["spec"]!r:.300}')
        # --- pair: the property itself, on the implementation
        d = first_diff(oa, ob)
        if d is not None:
            instr = c.get('detail', {}).get('instr')
            sig = f'C05|{kind}|{d}'
            va, vb = oa.get(d), ob.get(d)
            if d == 'logical-lines':
                va, vb = f'{len(oa["starts"])} instructions', f'{len(ob["starts"])} instructions (a line was swallowed or split)'
            what = (f'layout change "{kind}"{" on " + instr if instr else ""} changes the model: {d} differ '
                    f'({json.dumps(va, default=str)[:160]} vs {json.dumps(vb, default=str)[:160]})')
            ctx.fail(sig, what, dict(case=c, stream='pair', expected=oa.get(d), actual=ob.get(d),
                                     model=dict(norm_a=ra['spec'], norm_b=rb['spec'])), kind='property')
        # --- include: the same pair, a block of instructions read from a '+filename' include file through read_file()
        if c.get('inc'):
            (sa, ea), (sb, eb) = c['inc']['a'], c['inc']['b']
            pre_a, pre_b = ans[slot[tuple(c['a'][:sa])]]['spec'], ans[slot[tuple(c['b'][:sb])]]['spec']
            blk_a, blk_b = ans[slot[tuple(c['a'][sa:ea])]]['spec'], ans[slot[tuple(c['b'][sb:eb])]]['spec']
            if pre_a is None or pre_b is None or blk_a is None or blk_b is None or up(blk_a) != up(blk_b):
                raise RuntimeError(f'C05 generator left the domain of include_layout_invariance (kind {kind}): norm of the include file '
                                   f'{blk_a!r:.200} / {blk_b!r:.200}, of the text in front {pre_a is not None} / {pre_b is not None}')
            ia, ib = [observe(c[s_], c.get('elements'), dict(name=c['inc']['name'], span=c['inc'][s_])) for s_ in ('a', 'b')]
            d = first_diff(ia, ib)
            if d is not None:
                va, vb = ia.get(d), ib.get(d)
                if d == 'logical-lines':
                    va, vb = f'{len(ia["starts"])} instructions', f'{len(ib["starts"])} instructions'
                inc_what = c.get('detail', {}).get('include')
                ctx.fail(f'C05|{kind}|include|{d}', f'layout change "{kind}" inside / around a "+filename" include file ({inc_what}; read_file) changes '
                         f'the model: {d} differ ({json.dumps(va, default=str)[:160]} vs {json.dumps(vb, default=str)[:160]})',
                         dict(case=c, stream='include', expected=ia.get(d), actual=ib.get(d),
                              include_a=c['a'][c['inc']['a'][0]:c['inc']['a'][1]], include_b=c['b'][c['inc']['b'][0]:c['inc']['b'][1]]), kind='property')
        # --- element identity against the construction (spec side: the generator knows which elements the file defines)
        if c.get('elements'):
            els = [e.upper() for e in c['elements']]
            for side, o in (('a', oa), ('b', ob)):
                if 'error' in o:
                    continue
                want = [[q, els.index(e.upper()) + 1, True] for e in c['elements'] for q in casings(e)]
                bad = None
                if o['sfac'] != els:
                    bad = ('sfac', els, o['sfac'])
                elif o['elem_lookup'] != want:
                    k = next(i for i, (x, y) in enumerate(zip(o['elem_lookup'], want)) if x != y)
                    bad = ('elem_lookup', want[k], o['elem_lookup'][k])
                elif isinstance(o['sum_exact'], list) and sorted(k for k, _ in o['sum_exact']) != sorted(els):
                    bad = ('sum_exact', sorted(els), o['sum_exact'])
                elif o.get('sfac_byindex') != els:
                    bad = ('sfac_byindex', els, o.get('sfac_byindex'))
                if bad:
                    ctx.fail(f'C05|{kind}|element-identity|{bad[0]}', f'text {side} defines the elements {els} (kind {kind}): {bad[0]} gives {bad[2]!r:.200}, '
                             f'expected {bad[1]!r:.200}', dict(case=c, stream='pair', side=side, expected=bad[1], actual=bad[2]), kind='property')
                    break
        # --- lines: implementation's logical lines vs model and spec, on both texts
        for side, o, r in (('a', oa, ra), ('b', ob, rb)):
            if 'error' in o:
                continue
            m = r['model']
            if 'raise' in m:
                continue
            mstarts = [x['start'] for x in m['lines']]
            payload = dict(case=c, stream='lines', side=side, expected=r['spec'], actual=dict(starts=o['starts'], objs=o['objs']), model=m)
            if o['starts'] != mstarts:
                ctx.fail(f'C05|{kind}|lines|starts', f'logical lines of text {side} start at {o["starts"][:40]} in the implementation, '
                         f'model says {mstarts[:40]}', payload, kind='correspondence')
                continue
            for k, (ob_, ml) in enumerate(zip(o['objs'], m['lines'])):
                if ob_ is None or ob_[1] is None or ob_[0] in ('SFACTable', 'FVARs', 'SYMM', 'UNIT'):
                    continue
                if ob_[1] != ml['spline']:
                    ctx.fail(f'C05|{kind}|lines|tokens', f'{ob_[0]} at line {o["starts"][k]} of text {side}: tokens {ob_[1]} but model spline {ml["spline"]}',
                             payload, kind='correspondence')
                    break
                if r['spec'] is not None and k < len(r['spec']) and [t for t in ob_[1]][1:] != r['spec'][k][1:]:
                    ctx.fail(f'C05|{kind}|lines|spec', f'{ob_[0]} at line {o["starts"][k]} of text {side}: tokens {ob_[1]} but the logical line is {r["spec"][k]}',
                             payload, kind='property')
                    break
    # --- class lookups (small, attached to the cases that carry residues)
    creqs, cwhat = [], []
    for c in cases:
        for q in c.get('class_queries', []):
            creqs.append(dict(p='C05', op='class', resis=q['resis'], suffix=q['suffix']))
            cwhat.append((c, q))
    if creqs:
        cans = ctx.driver.batch(creqs)
        for (c, q), r in zip(cwhat, cans):
            got = class_lookup_impl(q)
            ctx.count(['class', q], nontrivial=True, tags=['class-lookup'])
            payload = dict(case=dict(kind='class', a=[], b=[], class_queries=[q]), stream='class', expected=r['spec'], actual=got, model=r['model'])
            if got != sorted(r['spec']):
                ctx.fail('C05|class-lookup|spec', f'restraint suffix _{q["suffix"]} with RESI classes {q["resis"]}: residue numbers {got}, expected {r["spec"]}',
                         payload, kind='property')
            elif got != sorted(r['model']):
                ctx.fail('C05|class-lookup|model', f'restraint suffix _{q["suffix"]}: {got} vs model {r["model"]}', payload, kind='correspondence')


def class_lookup_impl(q):
    from shelxfile import Shelxfile
    lines = ['TITL t', 'CELL 0.71073 10 11 12 90 95 90', 'ZERR 4 0.001 0.001 0.001 0 0.01 0', 'LATT -1', 'SFAC C', 'UNIT 8',
             f'SADI_{q["suffix"]} C1 C2', 'FVAR 0.5']
    for cls, n in q['resis']:
        lines += [f'RESI {cls} {n}', 'C1 1 0.1 0.2 0.3 11.0 0.04', 'C2 1 0.2 0.2 0.3 11.0 0.04']
    lines += ['RESI 0', 'HKLF 4', 'END']
    shx = Shelxfile()
    shx.read_string('\n'.join(lines) + '\n')
    return sorted(shx.restraints[0].residue_number)


KINDS = ['sfac-forms', 'wrap1', 'wrap-tight', 'wrapk', 'wrap-empty', 'blanks', 'blanks-titl', 'comment', 'comment=', 'comment-on-wrap', 'comment=-on-wrap',
         'comment-multi', 'comment=-multi', 'blankline', 'commentline', 'commentline=', 'case-kw', 'case-kw-some', 'case-tail', 'case-dsr',
         'case-rem=', 'case-elem', 'case-atom', 'case-ratom', 'case-resi', 'case-suffix', 'wrap+case', 'dsr-forms', 'mixed']


def make_case(rng, f, kind, where=None, inc=None):
    """inc = (i0, i1): the instructions i0 .. i1-1 (with the blank / comment lines in front of them and behind them) are
    ALSO read from a '+filename' include file through read_file(), in both layouts"""
    t = transform(rng, f, kind, where)
    if t is None:
        return None
    ly, extras, detail = t
    a_extras = {}
    if kind == 'case-rem=':
        a_extras = {k: [x.replace('rem', 'REM', 1) for x in v] for k, v in extras.items()}
    if a_extras:
        a, ax, ai = render_spans(canon(f), a_extras)
    else:
        a, ax, ai = f[0].get('_a') or f[0].setdefault('_a', render_spans(canon(f)))
    b, bx, bi = render_spans(ly, extras)
    c = dict(kind=kind, detail=detail, a=a, b=b, elements=f[0].get('elements'))
    if inc:
        i0, i1 = inc
        c['inc'] = dict(name=rng.choice(['restr.inc', 'part2.ins', 'Frag_1.txt']), a=[ax[i0], ai[i1]], b=[bx[i0], bi[i1]])
        c['detail'] = dict(detail, include=[f[i0]['toks'][0][0], i1 - i0])
    return c


def class_queries(rng):
    cls = rng.choice(['CCF', 'Tol', 'thf', 'B1', 'Me2'])
    var = lambda s: rng.choice([s.upper(), s.lower(), s.capitalize(), s])
    resis = [[var(cls), k + 1] for k in range(rng.randint(1, 3))]
    if rng.random() < 0.5:
        resis.append(['OTH', 9])
    return [dict(resis=resis, suffix=var(cls))]


def run(ctx):
    ctx.rule = ('pairs (canonical text, transformed text) of generated valid files (header with every SFAC form, 7-17 instructions out of '
                'every keyword of the dispatch chain in its parameter forms, DSR commands, FRAG..FEND, 2-9 restraints of 12 kinds incl. '
                'class/number suffixes, FVAR, atoms in every form (name sfac x y z [sof [U | U11..U12]]) in PART/AFIX/RESI groups that are closed or still open at HKLF, HKLF forms, '
                'residual REM lines, END, suggested WGHT, Q-peaks); one transformation kind per pair (29 kinds, see KINDS) or all valid ones '
                'mixed; first a systematic part: every instruction of the first files with its keyword in another case, continued over up '
                'to three lines, a comment containing "=" on the first/middle/last of them; distinct by (kind, both texts); non-trivial = '
                'the two texts differ')
    ctx.assumptions = ['continuation lines are indented by at least one blank (SHELXL rule; `norm` returns none otherwise)',
                       'blanks are the only white space; TITL/REM text is free text: not wrapped, inner blanks not changed; a DSR command '
                       '(REM DSR PUT|REPLACE ...) is an instruction and may be continued behind PUT|REPLACE',
                       'ASCII text (str.upper modelled by Char.toUpper)']
    rng = ctx.rng
    cases = []
    for kind, a, b in WITNESSES:
        cases.append(dict(kind=kind, detail=dict(witness=True), a=a, b=b, expect_spec_equal=True))
    # budgets. A changed digest of a mirrored source file (ctx.escalated; the digests are per FILE, so nearly every edit of the
    # repository sets it) gets about twice the quick exploration, not the thorough one: quick has to stay within its time
    thorough = ctx.tier == 'thorough'
    esc = ctx.escalated and not thorough
    nfiles = 150 if thorough else 70 if esc else 40
    per_kind = 4 if thorough else 2
    nsys = 40 if thorough else 10 if esc else 5           # files whose instructions are enumerated one by one
    nexh = 40 if thorough else 3 if esc else 0            # files with every single-wrap position
    files = [make_file(rng) for _ in range(nfiles)]
    # 1. systematic, small: instruction by instruction
    for fi, f in enumerate(files[:nsys]):
        for i in range(len(f)):
            c = make_case(rng, f, 'one-instr', (i, i + fi))
            if c:
                cases.append(c)
    # 1b. systematic: every spelling of a comment behind every form (keyword, number of tokens; atoms: every number of
    #     parameters from 'name sfac x y z' on) that occurs in the first files
    forms_seen = set()
    for f in files[:nsys]:
        for i, instr in enumerate(f):
            k = (instr['kind'], '' if instr['kind'] in ('atom', 'qpeak', 'fragatom') else instr['toks'][0][0].split('_')[0], len(instr['toks']))
            if k in forms_seen:
                continue
            forms_seen.add(k)
            for v in range(len(SPELLINGS)):
                cases.append(make_case(rng, f, 'comment-spell', (i, v)))
    # 1c. systematic: a block of instructions is read from a '+filename' include file (read_file): blank / comment lines as its first
    #     and last lines, comments and continuation on its first and last instruction; then a random kind on a random block
    ninc = 40 if thorough else 8 if esc else 4
    for fi, f in enumerate(files):
        hk = next(k for k in range(len(f)) if f[k]['toks'][0][0] == 'HKLF')
        for r in range(2 if fi < ninc else 0):
            i0 = rng.randint(1, hk - 1)
            i1 = min(hk, i0 + rng.randint(1, 8))
            for kind, where in [('commentline', [i0]), ('commentline', [i1]), ('commentline', [i0, i1]), ('commentline=', [i0]), ('commentline=', [i1]),
                                ('blankline', [i0]), ('blankline', [i1]), ('comment', i0), ('comment=', i1 - 1), ('one-instr', (i0, fi + r)),
                                ('one-instr', (i1 - 1, fi + r + 3)), ('comment-spell', (i1 - 1, fi + r))]:
                c = make_case(rng, f, kind, where, inc=(i0, i1))
                if c:
                    cases.append(c)
        i0 = rng.randint(1, hk - 1)
        c = make_case(rng, f, rng.choice(KINDS), inc=(i0, min(hk, i0 + rng.randint(1, 12))))
        if c:
            cases.append(c)
    ctx.extra['include_part'] = (f'2 blocks of each of the first {ninc} files x 12 layout changes at the first / last line of the include file; '
                                f'one random kind on a random block of every file')
    # 2. random: every kind on every file
    for fi, f in enumerate(files):
        for kind in KINDS:
            for _ in range(per_kind if kind not in ('blanks-titl',) else 1):
                c = make_case(rng, f, kind)
                if c:
                    cases.append(c)
        cases[-1]['class_queries'] = class_queries(rng)
        if fi < nexh:
            # every single-wrap position of every instruction of the file
            for i, instr in enumerate(f):
                if instr['kind'] in ('titl', 'rem'):
                    continue
                for j in range(2 if instr['kind'] == 'dsr' else 0, len(instr['toks']) - 1):
                    cases.append(make_case(rng, f, 'wrap1', (i, j)))
            for i in range(len(f)):
                cases.append(make_case(rng, f, 'comment=', i))
    if nexh:
        ctx.extra['exhaustive_part'] = f'every single-wrap position and a "=" comment on every instruction of the first {nexh} files'
    ctx.extra['systematic_part'] = f'every instruction of the first {nsys} files: keyword case x up to 2 wraps x "=" comment per physical line'
    for i in range(0, len(cases), 200):
        evaluate(ctx, cases[i:i + 200])

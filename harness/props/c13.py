"""
C13 — the shortest-distance matrix reports true symmetry-shortest distances.

Streams (DESIGN 3.2):
  sdm       SDM(shx).calc_sdm(): every SDMItem (a1, a2, dist, symmetry_number, covalent)
              vs  oracle   brute force over the operators of the setting x lattice translations in [-3,3]^3,
                           computed here from the SAME LATT/SYMM text by an own operator parser      (property)
              vs  model    `calcSdm` (Float instance, thresholds/bond condition/radii regenerated)    (correspondence)
  molindex  Atom.molindex as a partition of the atoms
              vs  oracle   union-find over the bond graph of the statement's rule                    (property)
              vs  model    `calcMolindex`                                                            (correspondence)
The driver's executable specification (`specPair`, `ruleBonded`, `specLabels`) is compared with the Python
oracle as well; a difference between those two is a harness error (exit 2), never a verdict about the code.

Only what the property states is observed. Pairs outside the stated domain are not compared (and counted):
true shortest distance >= half the smallest perpendicular spacing; an image closer than 0.05 A that is not the
atom itself; distances within 2e-3 of the 5.3 cut or 1e-3 of the bond limit; the identity operator's contact
within 3e-4 above the best other operator's (the library prefers the identity there by design).
"""
import contextlib
import io
import math
import re
from fractions import Fraction

from .. import core, gen

# ------------------------------------------------------------------------------------------------------------
# SWITCH: lattice types (|LATT N|) the generator uses: 1 = P, 2 = I, 3 = R (obverse, hexagonal axes), 4 = F, 5 = A,
# 6 = B, 7 = C. Centred settings are on since the C11 repair (complete operator list) has landed; the quick tier
# visits every primitive setting and QUICK_CENTRED randomly chosen centred ones per run, the thorough tier all.
LATTICE_TYPES = (1, 2, 3, 4, 5, 6, 7)
QUICK_CENTRED = 5
QUICK_CENTRIC = 3
HISTORY_SHARE = 0.35   # share of the generated cases that carry a calc -> edit -> calc history on one object
# ------------------------------------------------------------------------------------------------------------

BOX = 3
FACTOR = 1.2          # the property's own number: bonded = closer than 1.2 x (r1 + r2)
KNOWN_CUT = 5.3       # the recorded finding C13|no-item|distance-beyond-cut is about exactly this cut-off
TINY = 1e-6           # an image closer than this is the atom itself
NEAR_ZERO = 0.05      # (TINY, NEAR_ZERO): domain excluded (the code's 0.01 coincidence limit lies inside)
TOL = 1e-9

P212121 = ['1/2-X, -Y, 1/2+Z', '-X, 1/2+Y, 1/2-Z', '1/2+X, 1/2-Y, -Z']
# (name, crystal system, LATT, SYMM lines)
SETTINGS = [
    ('P1', 'tric', -1, []),
    ('P-1', 'tric', 1, []),
    ('P2', 'mono', -1, ['-X, Y, -Z']),
    ('P21', 'mono', -1, ['-X, 1/2+Y, -Z']),
    ('Pc', 'mono', -1, ['X, -Y, 1/2+Z']),
    ('P2/m', 'mono', 1, ['-X, Y, -Z']),
    ('P21/c', 'mono', 1, ['-X, 1/2+Y, 1/2-Z']),
    ('P21/n', 'mono', 1, ['1/2-X, 1/2+Y, 1/2-Z']),
    ('P212121', 'ortho', -1, P212121),
    ('Pna21', 'ortho', -1, ['-X, -Y, 1/2+Z', '1/2+X, 1/2-Y, Z', '1/2-X, 1/2+Y, 1/2+Z']),
    ('Pnma', 'ortho', 1, ['1/2-X, -Y, 1/2+Z', '-X, 1/2+Y, -Z', '1/2+X, 1/2-Y, 1/2-Z']),
    ('Pbca', 'ortho', 1, P212121),
    ('P41', 'tetr', -1, ['-X, -Y, 1/2+Z', '-Y, X, 1/4+Z', 'Y, -X, 3/4+Z']),
    ('P-4', 'tetr', -1, ['-X, -Y, Z', 'Y, -X, -Z', '-Y, X, -Z']),
    ('P4/n', 'tetr', 1, ['1/2-X, 1/2-Y, Z', '1/2-Y, X, Z', 'Y, 1/2-X, Z']),
    ('P31', 'hex', -1, ['-Y, X-Y, 1/3+Z', '-X+Y, -X, 2/3+Z']),
    ('P-3', 'hex', 1, ['-Y, X-Y, Z', '-X+Y, -X, Z']),
    ('P61', 'hex', -1, ['-Y, X-Y, 1/3+Z', '-X+Y, -X, 2/3+Z', '-X, -Y, 1/2+Z', 'Y, -X+Y, 5/6+Z', 'X-Y, X, 1/6+Z']),
    ('P213', 'cubic', -1, P212121 + ['Z, X, Y', '1/2+Z, 1/2-X, -Y', '1/2-Z, -X, 1/2+Y', '-Z, 1/2+X, 1/2-Y',
                                      'Y, Z, X', '-Y, 1/2+Z, 1/2-X', '1/2+Y, 1/2-Z, -X', '1/2-Y, -Z, 1/2+X']),
    # centred settings (generated only when their lattice type is in LATTICE_TYPES)
    ('C2/c', 'mono', 7, ['-X, Y, 1/2-Z']),
    ('Cc', 'mono', -7, ['X, -Y, 1/2+Z']),
    ('I2/a', 'mono', 2, ['1/2-X, Y, -Z']),
    ('A2', 'mono', -5, ['-X, Y, -Z']),
    ('B2', 'mono112', -6, ['-X, -Y, Z']),
    ('Fdd2', 'ortho', -4, ['-X, -Y, Z', '1/4+X, 1/4-Y, 1/4+Z', '1/4-X, 1/4+Y, 1/4+Z']),
    ('Ibca', 'ortho', 2, ['1/2-X, -Y, 1/2+Z', '-X, 1/2+Y, 1/2-Z', '1/2+X, 1/2-Y, -Z']),
    ('I41', 'tetr', -2, ['1/2-X, 1/2-Y, 1/2+Z', '-Y, 1/2+X, 1/4+Z', '1/2+Y, -X, 3/4+Z']),
    ('R-3', 'hex', 3, ['-Y, X-Y, Z', '-X+Y, -X, Z']),
    ('C2/m', 'mono', 7, ['-X, Y, -Z']),
    ('I41/a', 'tetr', 2, ['1/2-X, -Y, 1/2+Z', '3/4-Y, 1/4+X, 1/4+Z', '3/4+Y, 3/4-X, 3/4+Z']),
    ('Fddd', 'ortho', 4, ['3/4-X, 3/4-Y, Z', '3/4-X, Y, 3/4-Z', 'X, 3/4-Y, 3/4-Z']),
    ('R3', 'hex', -3, ['-Y, X-Y, Z', '-X+Y, -X, Z']),
]
CENTRING = {1: [], 2: [(Fraction(1, 2),) * 3], 3: [(Fraction(2, 3), Fraction(1, 3), Fraction(1, 3)), (Fraction(1, 3), Fraction(2, 3), Fraction(2, 3))],
            4: [(0, Fraction(1, 2), Fraction(1, 2)), (Fraction(1, 2), 0, Fraction(1, 2)), (Fraction(1, 2), Fraction(1, 2), 0)],
            5: [(0, Fraction(1, 2), Fraction(1, 2))], 6: [(Fraction(1, 2), 0, Fraction(1, 2))], 7: [(Fraction(1, 2), Fraction(1, 2), 0)]}
HYDROGENS = ('H', 'D')
ELEMENT_POOL = ['C', 'C', 'C', 'N', 'O', 'H', 'H', 'H', 'S', 'Cl', 'F', 'P', 'Si', 'Br', 'Fe', 'D', 'B', 'Zn']


# ------------------------------------------------------------------------------------------------------------
# the oracle's own reading of LATT/SYMM

_TERM = re.compile(r'([+-]?)(?:(\d+(?:\.\d+)?)(?:/(\d+))?)?([XYZ]?)')


def parse_symm(s: str):
    """'-X+Y, 1/2+Y, 1/3-Z' -> (R rows of ints, tau Fractions); x -> R x + tau"""
    rows, tau = [], []
    comps = s.upper().replace(' ', '').split(',')
    if len(comps) != 3:
        raise ValueError(s)
    for comp in comps:
        row = [0, 0, 0]
        t = Fraction(0)
        pos = 0
        while pos < len(comp):
            m = _TERM.match(comp, pos)
            if not m or m.end() == pos:
                raise ValueError(s)
            sign = -1 if m.group(1) == '-' else 1
            num = Fraction(m.group(2)) / (int(m.group(3)) if m.group(3) else 1) if m.group(2) else None
            if m.group(4):
                row['XYZ'.index(m.group(4))] += sign * (num if num is not None else 1)
            elif num is not None:
                t += sign * num
            else:
                raise ValueError(s)
            pos = m.end()
        rows.append(tuple(int(v) for v in row))
        tau.append(t)
    return tuple(rows), tuple(tau)


def expand_group(latt: int, symm):
    """all operators of the setting modulo integer translations: (identity + SYMM) x (inversion if LATT > 0) x centring"""
    base = [(((1, 0, 0), (0, 1, 0), (0, 0, 1)), (Fraction(0),) * 3)] + [parse_symm(s) for s in symm]
    ops = []
    for R, t in base:
        ops.append((R, t))
        if latt > 0:
            ops.append((tuple(tuple(-v for v in r) for r in R), tuple(-v for v in t)))
    full = []
    for c in [(0, 0, 0)] + list(CENTRING[abs(latt)]):
        for R, t in ops:
            full.append((R, tuple((a + b) % 1 for a, b in zip(t, c))))
    return full


def check_settings_table():
    """every tabulated setting must expand to a group (closed under composition modulo lattice translations, no
    operator twice): guards the table against typing errors"""
    for name, _, latt, symm in SETTINGS:
        g = expand_group(latt, symm)
        keys = {(R, tuple(t % 1 for t in tau)) for R, tau in g}
        if len(keys) != len(g):
            raise RuntimeError(f'C13 harness: setting {name} lists an operator twice')
        for R1, t1 in g:
            for R2, t2 in g:
                R = tuple(tuple(sum(R1[i][k] * R2[k][j] for k in range(3)) for j in range(3)) for i in range(3))
                t = tuple((sum(R1[i][k] * t2[k] for k in range(3)) + t1[i]) % 1 for i in range(3))
                if (R, t) not in keys:
                    raise RuntimeError(f'C13 harness: setting {name} is not closed under composition')


# ------------------------------------------------------------------------------------------------------------
# cell geometry of the oracle (orthogonalisation matrix, a along x, b in the xy plane)

def ortho_matrix(cell):
    a, b, c, al, be, ga = cell
    ca, cb, cg = (math.cos(math.radians(v)) for v in (al, be, ga))
    sg = math.sin(math.radians(ga))
    v = math.sqrt(max(1 - ca * ca - cb * cb - cg * cg + 2 * ca * cb * cg, 0.0))
    return ((a, b * cg, c * cb), (0.0, b * sg, c * (ca - cb * cg) / sg), (0.0, 0.0, c * v / sg))


def spacings(cell):
    a, b, c, al, be, ga = cell
    ca, cb, cg = (math.cos(math.radians(v)) for v in (al, be, ga))
    sa, sb, sg = (math.sin(math.radians(v)) for v in (al, be, ga))
    v = math.sqrt(max(1 - ca * ca - cb * cb - cg * cg + 2 * ca * cb * cg, 0.0))
    return (a * v / sa, b * v / sb, c * v / sg)


def to_cart(M, v):
    return (M[0][0] * v[0] + M[0][1] * v[1] + M[0][2] * v[2], M[1][1] * v[1] + M[1][2] * v[2], M[2][2] * v[2])


def to_frac(M, r):
    z = r[2] / M[2][2]
    y = (r[1] - M[1][2] * z) / M[1][1]
    x = (r[0] - M[0][1] * y - M[0][2] * z) / M[0][0]
    return (x, y, z)


def image_dists(M, T, R, tau, x1, x2):
    """squared distances between x2 and R x1 + tau + t for every t of the box"""
    v = [R[k][0] * x1[0] + R[k][1] * x1[1] + R[k][2] * x1[2] + tau[k] - x2[k] for k in range(3)]
    if max(abs(c) for c in v) > BOX - 0.5:
        # every image outside the box then has a fractional component >= 1.5, i.e. is farther than 1.5 spacings, so a
        # minimum below half a spacing found inside the box is the global one; beyond that the pair is out of the domain
        raise RuntimeError('C13 harness: coordinates too far from the origin cell for the translation box')
    cx, cy, cz = to_cart(M, v)
    return [(cx + tx) ** 2 + (cy + ty) ** 2 + (cz + tz) ** 2 for tx, ty, tz in T]


def box_cart(M):
    r = range(-BOX, BOX + 1)
    return [to_cart(M, (h, k, l)) for h in r for k in r for l in r]


def min_excluding_self(d2s):
    """(smallest squared distance that is not the atom itself, is there an image in the excluded (TINY, NEAR_ZERO) range)"""
    m = min(d2s)
    flag = False
    if m <= NEAR_ZERO ** 2:
        rest = [d for d in d2s if d > TINY ** 2]
        flag = any(d <= NEAR_ZERO ** 2 for d in rest)
        m = min(rest) if rest else None
    return m, flag


def oracle(case, radius):
    """everything the property says about the structure, from the case alone"""
    cell = case['cell']
    M = ortho_matrix(cell)
    T = box_cart(M)
    group = expand_group(case['latt'], case['symm'])
    fgroup = [(R, tuple(float(t) for t in tau)) for R, tau in group]
    half = min(spacings(cell)) / 2
    atoms = case['atoms']
    n = len(atoms)
    pairs = {}
    for i in range(n):
        for j in range(n):
            x1, x2 = atoms[i]['xyz'], atoms[j]['xyz']
            best = None
            per_op = []
            excluded = False
            for k, (R, tau) in enumerate(fgroup):
                m, fl = min_excluding_self(image_dists(M, T, R, tau, x1, x2))
                excluded = excluded or fl
                per_op.append(m)
                if m is not None and (best is None or m < best[0]):
                    best = (m, k)
            d = math.sqrt(best[0]) if best else None
            a1, a2 = atoms[i], atoms[j]
            h1, h2 = a1['el'] in HYDROGENS, a2['el'] in HYDROGENS
            p1, p2 = a1['part'], a2['part']
            allowed = not (p1 != 0 and p2 != 0 and p1 != p2) and (p1 == p2 if (h1 or h2) else True)
            limit = FACTOR * (radius[a1['el']] + radius[a2['el']])
            flags = []
            if excluded:
                flags.append('image-in-(0,0.05)')
            if d is None or d >= half - 1e-6:
                flags.append('beyond-half-spacing')
            else:
                if abs(d - KNOWN_CUT) < 2e-3:
                    flags.append('near-cut')
                if allowed and abs(d - limit) < 1e-3:
                    flags.append('near-bond-limit')
                others = [math.sqrt(m) for m in per_op[1:] if m is not None]
                if per_op[0] is not None and others and min(others) < math.sqrt(per_op[0]) <= min(others) + 3e-4:
                    flags.append('identity-near-tie')
            pairs[(i, j)] = dict(dist=d, op=best[1] if best else None, allowed=allowed, limit=limit,
                                 bonded=bool(d is not None and d < half and d <= KNOWN_CUT and allowed and d < limit),
                                 rule_bonded=bool(d is not None and allowed and d < limit), flags=flags)
    # connected components of the rule's bond graph (union-find)
    parent = list(range(n))

    def find(a):
        while parent[a] != a:
            parent[a] = parent[parent[a]]
            a = parent[a]
        return a

    for (i, j), p in pairs.items():
        if i != j and p['rule_bonded']:
            parent[find(i)] = find(j)
    comp = [find(i) for i in range(n)]
    return dict(pairs=pairs, comp=canon(comp), half=half, group=group, M=M, T=T)


def canon(labels):
    """a partition as the list 'smallest member of my class'"""
    first = {}
    for i, l in enumerate(labels):
        first.setdefault(l, i)
    return [first[l] for l in labels]


# ------------------------------------------------------------------------------------------------------------
# rendering and the implementation's observation

def render(case):
    sfac = []
    for a in case['atoms']:
        if a['el'] not in sfac:
            sfac.append(a['el'])
    fs = gen.FileSpec(titl='verif C13 ' + case.get('setting', ''), cell=(0.71073,) + tuple(case['cell']), latt=case['latt'],
                      symm=list(case['symm']), sfac=sfac, unit=[4] * len(sfac), fvars=[0.5])
    fs.zerr = (2, 0.001, 0.001, 0.001, 0.0, 0.0, 0.0)
    body = []
    part = 0
    for a in case['atoms']:
        if a['part'] != part:
            body.append(f'PART {a["part"]}')
            part = a['part']
        body.append(gen.AtomSpec(a['name'], sfac.index(a['el']) + 1, tuple(a['xyz']), 11.0, (0.03,)))
    if part != 0:
        body.append('PART 0')
    fs.body = body
    return fs.text()


def apply_edit_to_case(atoms, e):
    """the expected model after one edit (by construction, never read back from the code under test)"""
    atoms = [dict(a) for a in atoms]
    if e['op'] == 'delete':
        del atoms[e['i']]
    elif e['op'] == 'move':
        atoms[e['i']]['xyz'] = list(e['xyz'])
    elif e['op'] == 'element':
        atoms[e['i']]['el'] = e['el']
    elif e['op'] == 'part':
        atoms[e['i']]['part'] = e['part']
    elif e['op'] == 'add':
        atoms.append(dict(name=e['name'], el=e['el'], xyz=list(e['xyz']), part=e['part']))
    else:
        raise ValueError(e)
    return atoms


def stages(case):
    """a case with a `history` (calc -> edits -> calc -> ... on ONE Shelxfile object) as the list of plain structures
    whose shortest-distance matrix is observed: stage 0 is the file as read, stage k the model after step k"""
    base = {k: v for k, v in case.items() if k != 'history'}
    out = [base]
    atoms = case['atoms']
    for step in case.get('history', []):
        for e in step['edits']:
            atoms = apply_edit_to_case(atoms, e)
        out.append(dict(base, atoms=atoms))
    return out


def apply_edit_to_shx(shx, e):
    from shelxfile.shelx.cards import PART
    atoms = shx.atoms.all_atoms
    if e['op'] == 'delete':
        atoms[e['i']].delete()
    elif e['op'] == 'move':
        atoms[e['i']].frac_coords = list(e['xyz'])
    elif e['op'] == 'element':
        atoms[e['i']].element = e['el']
    elif e['op'] == 'part':
        atoms[e['i']].part = PART(shx, ['PART', str(e['part'])])
    elif e['op'] == 'add':
        shx.add_atom(name=e['name'], coordinates=list(e['xyz']), element=e['el'], uvals=[0.04, 0.0, 0.0, 0.0, 0.0, 0.0], part=e['part'])


def observe_impl(case):
    """one Shelxfile object through the whole history; one observation per stage"""
    from shelxfile import Shelxfile
    from shelxfile.shelx.sdm import SDM
    shx = Shelxfile()
    with contextlib.redirect_stdout(io.StringIO()):
        shx.read_string(render(case))
    out = []
    sdm = None
    history = case.get('history', [])
    for k, st in enumerate(stages(case)):
        if k > 0:
            step = history[k - 1]
            try:
                with contextlib.redirect_stdout(io.StringIO()):
                    if step.get('grow'):
                        shx.grow()
                    for e in step['edits']:
                        apply_edit_to_shx(shx, e)
            except Exception as e:
                out.append(dict(error=f'edit: step {k} raised {type(e).__name__}: {e}'))
                break
        atoms = shx.atoms.all_atoms
        want = [(a['name'].upper(), a['part'], a['el'].upper()) for a in st['atoms']]
        got = [(a.name.upper(), a.part.n, a.element.upper()) for a in atoms]
        if got != want:
            out.append(dict(error=f'{"parse" if k == 0 else "edit"}: atoms {got} expected {want}'))
            break
        bad = [a.name for a, c in zip(atoms, st['atoms']) if [float(v) for v in a.frac_coords] != [float(v) for v in c['xyz']]]
        if bad:
            out.append(dict(error=f'{"parse" if k == 0 else "edit"}: coordinates of {bad} differ from the expected model'))
            break
        ops = []
        for s in shx.symmcards:
            # rows of the stored matrix exactly as `Array.__mul__` reads them (`other[0]`, `other[1]`, `other[2]`)
            ops.append([float(v) for i in range(3) for v in s.matrix[i]] + [float(v) for v in s.trans])
        try:
            if not (k > 0 and history[k - 1].get('reuse') and sdm is not None):
                sdm = SDM(shx)       # else: the SDM object of the previous stage is asked again
            with contextlib.redirect_stdout(io.StringIO()):
                sdm.calc_sdm()
        except Exception as e:  # the property's observable raised
            out.append(dict(ops=ops, raised=type(e).__name__))
            break
        index = {id(a): i for i, a in enumerate(atoms)}
        items = []
        for it in sdm.sdm_list:
            items.append(dict(a1=index.get(id(it.atom1)), a2=index.get(id(it.atom2)), i1=it.a1, i2=it.a2, dist=float(it.dist),
                              n=int(it.symmetry_number), cov=bool(it.covalent)))
        out.append(dict(ops=ops, items=items, mol=[int(a.molindex) for a in atoms]))
    return out


def lib_constants():
    from shelxfile.misc import elements
    return dict(elements.element2cov)


# ------------------------------------------------------------------------------------------------------------
# evaluation

def request(case, ops, group):
    a, b, c, al, be, ga = case['cell']
    return dict(p='C13', op='sdm', cell=[a, b, c], cos=[math.cos(math.radians(v)) for v in (al, be, ga)], ops=ops,
                sops=[[float(v) for r in R for v in r] + [float(t) for t in tau] for R, tau in group],
                atoms=[dict(xyz=list(x['xyz']), el=x['el'], part=x['part']) for x in case['atoms']], box=BOX, tiny=TINY)


def part_class(p1, p2):
    if p1 == p2:
        return 'same' if p1 == 0 else 'same-nonzero'
    if p1 == 0 or p2 == 0:
        return 'zero-nonzero'
    return 'different-nonzero'


def op_in_group(op, group):
    """does the library's operator (matrix rows as stored, trans) equal an operator of the setting modulo Z^3?"""
    R = tuple(tuple(int(round(op[3 * i + k])) for i in range(3)) for k in range(3))   # stored matrix is R transposed
    for R2, tau in group:
        if R2 == R and all(abs((op[9 + k] - float(tau[k]) + 0.5) % 1 - 0.5) < 1e-9 for k in range(3)):
            return True
    return False


def lib_op_min(orc, op, x1, x2):
    R = tuple(tuple(op[3 * i + k] for i in range(3)) for k in range(3))
    # the translation part modulo 1 (a lattice translation does not change the minimum over all t)
    m, _ = min_excluding_self(image_dists(orc['M'], orc['T'], R, [t % 1 for t in op[9:12]], x1, x2))
    return None if m is None else math.sqrt(m)


DRIVER_TIMEOUT = 180   # seconds per batch of <= 50 structures (a batch takes well under a second)


def driver_batch(ctx, reqs):
    """ctx.driver.batch with a wall-clock guard: a driver that does not answer is killed (subprocess.run kills the
    child on timeout) and reported as an infrastructure error, never left running"""
    import json
    import subprocess
    data = '\n'.join(json.dumps(r, separators=(',', ':')) for r in reqs) + '\n'
    try:
        p = subprocess.run([ctx.driver.exe], input=data, stdout=subprocess.PIPE, stderr=subprocess.PIPE, text=True, timeout=DRIVER_TIMEOUT)
    except subprocess.TimeoutExpired:
        raise core.LeanError(f'C13: driver did not answer {len(reqs)} requests within {DRIVER_TIMEOUT} s (killed)')
    if p.returncode != 0:
        raise core.LeanError(f'driver exit {p.returncode}: {p.stderr[-2000:]}')
    lines = p.stdout.splitlines()
    if len(lines) != len(reqs):
        raise core.LeanError(f'driver answered {len(lines)} lines for {len(reqs)} requests; stderr: {p.stderr[-2000:]}')
    out = []
    for ln, rq in zip(lines, reqs):
        j = json.loads(ln)
        if isinstance(j, dict) and 'driver_error' in j:
            raise core.LeanError(f'driver error {j["driver_error"]} on request {json.dumps(rq)[:500]}')
        out.append(core.dec(j))
    ctx.driver.lines += len(reqs)
    return out


_consts_cache = {}


def constants(ctx):
    if 'c' not in _consts_cache:
        _consts_cache['c'] = driver_batch(ctx, [dict(p='C13', op='consts')])[0]
    return _consts_cache['c']


def evaluate(ctx, cases, stream=None):
    ctx.extra['extracted_constants'] = {k: v for k, v in constants(ctx).items()}
    radius = lib_constants()
    ctx.stream('sdm')
    ctx.stream('molindex')
    work, reqs = [], []
    for case in cases:
        observations = observe_impl(case)
        for k, (st, obs) in enumerate(zip(stages(case), observations)):     # stages after a failed one are not reached
            orc = oracle(st, radius)
            work.append((case, k, st, obs, orc))
            reqs.append(request(st, obs.get('ops', []), orc['group']))
    answers = driver_batch(ctx, reqs)
    for (case, k, st, obs, orc), ans in zip(work, answers):
        judge(ctx, case, k, st, obs, orc, ans)


def judge(ctx, full_case, stage, case, obs, orc, ans):
    """`case` is the plain structure of this stage, `full_case` (with its history) is what a replay needs"""
    atoms = case['atoms']
    n = len(atoms)
    setting = case.get('setting', '?')
    if stage:
        step = full_case['history'][stage - 1]
        setting += f' [after step {stage}: ' + ('grow(), ' if step.get('grow') else '') + \
                   ', '.join(e['op'] for e in step['edits']) + ('; same SDM object' if step.get('reuse') else '') + ']'
    base = dict(case=full_case, stage=stage)
    if 'error' in obs and obs['error'].startswith('edit'):
        ctx.fail('C13|history-edit', f'{setting}: the edit did not produce the expected model: {obs["error"]}', dict(base, stream='sdm', actual=obs), kind='correspondence')
        return
    if 'error' in obs:
        ctx.fail('C13|parse', f'generated valid file not parsed as expected: {obs["error"]}', dict(base, stream='sdm', actual=obs), kind='correspondence')
        return
    if 'raised' in obs:
        ctx.fail(f'C13|raise|{obs["raised"]}', f'calc_sdm raised {obs["raised"]} in {setting} with {n} atoms', dict(base, stream='sdm', actual=obs))
        return
    pairs = orc['pairs']
    # the driver's executable specification must agree with the oracle (else the harness itself is wrong)
    for i, j, d, k, b in ans['spec_pairs']:
        p = pairs[(i, j)]
        if (d is None) != (p['dist'] is None) or (d is not None and not core.close(d, p['dist'], 1e-9, 1e-9)) or \
                (b != p['rule_bonded'] and 'near-bond-limit' not in p['flags']):
            raise RuntimeError(f'C13 harness: Lean specification and Python oracle differ on pair {(i, j)}: {d, b} vs {p}')
    if canon(ans['spec_labels']) != orc['comp'] and not any('near-bond-limit' in p['flags'] for p in pairs.values()):
        raise RuntimeError(f'C13 harness: Lean components {ans["spec_labels"]} vs oracle {orc["comp"]}')

    got = {}
    for it in obs['items']:
        if (it['a1'], it['a2']) != (it['i1'], it['i2']) or it['a1'] is None:
            ctx.fail('C13|item-indices', f'SDMItem a1/a2 {it["i1"], it["i2"]} do not name its atoms {it["a1"], it["a2"]}', dict(base, stream='sdm', actual=it))
            return
        if (it['a1'], it['a2']) in got:
            ctx.fail('C13|item-duplicate', f'two SDMItems for the pair {it["a1"], it["a2"]}', dict(base, stream='sdm', actual=it))
            return
        got[(it['a1'], it['a2'])] = it
    model = {(a1, a2): dict(dist=d, n=k, cov=c) for a1, a2, d, k, c in ans['items']}

    nsym = nbond = ncompared = 0
    skipped = set()
    for (i, j), p in sorted(pairs.items()):
        it = got.get((i, j))
        md = model.get((i, j))
        a1, a2 = atoms[i], atoms[j]
        pc = part_class(a1['part'], a2['part'])
        hc = 'H' if (a1['el'] in HYDROGENS or a2['el'] in HYDROGENS) else 'noH'
        where = f'{setting}: {a1["name"]}(PART {a1["part"]}) .. {a2["name"]}(PART {a2["part"]})'
        pl = dict(base, stream='sdm', pair=[i, j], expected=dict(p, flags=list(p['flags'])), actual=it, model=md)
        # correspondence: implementation vs model, on every pair (the model mirrors the code, thresholds included)
        if 'near-cut' not in p['flags'] and 'image-in-(0,0.05)' not in p['flags']:
            if (it is None) != (md is None):
                ctx.fail('C13|model|presence', f'{where}: item {"missing" if it is None else "present"} but model says the opposite', pl, kind='correspondence')
            elif it is not None:
                if not core.close(it['dist'], md['dist'], TOL, TOL):
                    ctx.fail('C13|model|dist', f'{where}: dist {it["dist"]} vs model {md["dist"]}', pl, kind='correspondence')
                elif it['n'] != md['n'] and 'identity-near-tie' not in p['flags'] and \
                        not core.close(lib_op_min(orc, obs['ops'][md['n']], a1['xyz'], a2['xyz']), it['dist'], TOL, TOL):
                    ctx.fail('C13|model|operator', f'{where}: symmetry_number {it["n"]} vs model {md["n"]}', pl, kind='correspondence')
                elif it['cov'] != md['cov'] and 'near-bond-limit' not in p['flags']:
                    ctx.fail('C13|model|covalent', f'{where}: covalent {it["cov"]} vs model {md["cov"]}', pl, kind='correspondence')
        # property: implementation vs oracle, inside the stated domain
        if 'beyond-half-spacing' in p['flags'] or 'image-in-(0,0.05)' in p['flags'] or 'near-cut' in p['flags']:
            skipped.update(p['flags'])
            continue
        ncompared += 1
        d = p['dist']
        if d > KNOWN_CUT:
            # inside the domain of the statement (below half the smallest spacing) but beyond the 5.3 A cut
            if it is None:
                ctx.fail('C13|no-item|distance-beyond-cut', f'{where}: true shortest distance {d:.4f} (< half spacing {orc["half"]:.3f}) has no SDMItem', pl)
            elif not core.close(it['dist'], d, TOL, TOL):
                ctx.fail('C13|dist|beyond-cut', f'{where}: dist {it["dist"]} reported, true shortest distance {d}', pl)
            continue
        if it is None:
            ctx.fail(f'C13|no-item|{"self" if i == j else "pair"}', f'{where}: no SDMItem, true shortest distance is {d:.6f}', pl)
            continue
        if 'identity-near-tie' in p['flags']:
            skipped.add('identity-near-tie')
        elif not core.close(it['dist'], d, TOL, TOL):
            ctx.fail(f'C13|dist|sym{"=0" if it["n"] == 0 else ">0"}|{"too-long" if it["dist"] > d else "too-short"}',
                     f'{where}: dist {it["dist"]!r} (symmetry_number {it["n"]}), true shortest distance over operators x translations is {d!r}', pl)
            continue
        if not (0 <= it['n'] < len(obs['ops'])):
            ctx.fail('C13|operator|out-of-range', f'{where}: symmetry_number {it["n"]} of {len(obs["ops"])}', pl)
            continue
        if it['n'] > 0:
            nsym += 1
        real = lib_op_min(orc, obs['ops'][it['n']], a1['xyz'], a2['xyz'])
        if not core.close(real, it['dist'], TOL, TOL):
            ctx.fail('C13|operator|does-not-realise', f'{where}: operator {it["n"]} gives {real}, reported dist {it["dist"]}', pl)
        elif not op_in_group(obs['ops'][it['n']], orc['group']):
            ctx.fail('C13|operator|not-in-group', f'{where}: operator {it["n"]} {obs["ops"][it["n"]]} is not an operator of {setting}', pl)
        if 'near-bond-limit' in p['flags']:
            skipped.add('near-bond-limit')
        elif it['cov'] != p['bonded']:
            ctx.fail(f'C13|covalent|{hc}|parts={pc}|expected={p["bonded"]}',
                     f'{where}: covalent={it["cov"]} at {it["dist"]:.4f}, rule (limit {p["limit"]:.4f}, allowed={p["allowed"]}) says {p["bonded"]}', pl)
        if p['bonded']:
            nbond += 1

    # molecule numbers as a partition
    mol_ok = not any('near-bond-limit' in p['flags'] or ('image-in-(0,0.05)' in p['flags'] and i != j) for (i, j), p in pairs.items())
    mm = ans['molindex']
    pl = dict(base, stream='molindex', expected=orc['comp'], actual=obs['mol'], model=None if mm is None else mm['mol'])
    if mm is None:
        ctx.fail('C13|model|molindex-fuel', f'{setting}: the model ran out of fuel / empty atom list', pl, kind='correspondence')
    elif mol_ok and obs['mol'] != mm['mol']:
        ctx.fail('C13|model|molindex', f'{setting}: molindex {obs["mol"]} vs model {mm["mol"]}', pl, kind='correspondence')
    if mol_ok:
        part = canon(obs['mol'])
        if part != orc['comp']:
            # is the difference only that hydrogen-only components were left unnumbered (-1)?
            relabel = [(-1, orc['comp'][i]) if m == -1 else m for i, m in enumerate(obs['mol'])]
            if canon(relabel) == orc['comp'] and all(atoms[i]['el'] in HYDROGENS for i, m in enumerate(obs['mol']) if m == -1):
                ctx.fail('C13|molindex|hydrogen-only-components-unnumbered',
                         f'{setting}: molindex {obs["mol"]}: the hydrogen-only components of {orc["comp"]} all carry -1', pl)
            else:
                ctx.fail('C13|molindex|partition', f'{setting}: molindex {obs["mol"]} is not the partition into bonded components {orc["comp"]}', pl)
    else:
        skipped.add('molindex:near-limit')
    ncomp = len(set(orc['comp']))
    parts = sorted({a['part'] for a in atoms})
    hist_tags = []
    if stage:
        step = full_case['history'][stage - 1]
        hist_tags = ['history:stage>0'] + [f'edit:{e["op"]}' for e in step['edits']] + \
                    (['history:grow-before'] if step.get('grow') else []) + (['history:same-SDM-object'] if step.get('reuse') else [])
    tags = hist_tags + [f'setting={case.get("setting", "?")}', f'n={n}', f'components={min(ncomp, 5)}{"+" if ncomp > 5 else ""}', 'parts=' + ','.join(map(str, parts)),
            'has-H' if any(a['el'] in HYDROGENS for a in atoms) else 'no-H', 'sym>0' if nsym else 'identity-only',
            'bonds' if nbond else 'no-bonds'] + [f'skipped:{s}' for s in sorted(skipped)]
    ctx.count(['sdm', case['cell'], case['latt'], case['symm'], [(a['el'], a['part'], a['xyz']) for a in atoms], stage, full_case.get('history', [])[:stage]],
              nontrivial=nsym > 0 and nbond > 0, tags=tags,
              sample=dict(stream='sdm', setting=setting, cell=case['cell'], atoms=[(a['name'], a['part'], a['xyz']) for a in atoms][:4],
                          items=[(it['a1'], it['a2'], round(it['dist'], 5), it['n'], it['cov']) for it in obs['items']][:6],
                          molindex=obs['mol'], components=orc['comp']))
    ctx.extra['pairs_compared'] = ctx.extra.get('pairs_compared', 0) + ncompared


# ------------------------------------------------------------------------------------------------------------
# generation

def rand_cell(rng, system):
    for _ in range(200):
        a, b, c = (round(rng.uniform(7.5, 17.0), 3) for _ in range(3))
        al = be = ga = 90.0
        if system == 'tric':
            al, be, ga = (round(rng.uniform(72, 112), 2) for _ in range(3))
        elif system == 'mono':
            be = round(rng.uniform(91, 122), 2)
        elif system == 'mono112':
            ga = round(rng.uniform(91, 122), 2)
        elif system == 'tetr':
            b = a
        elif system == 'hex':
            a = b = round(rng.uniform(8.5, 17.0), 3)
            ga = 120.0
        elif system == 'cubic':
            b = c = a
        cell = (a, b, c, al, be, ga)
        ca, cb, cg = (math.cos(math.radians(v)) for v in (al, be, ga))
        if 1 - ca * ca - cb * cb - cg * cg + 2 * ca * cb * cg < 0.3:
            continue
        if min(spacings(cell)) >= 7.0:
            return list(cell)
    raise RuntimeError('no cell')


def rand_dir(rng):
    while True:
        v = [rng.uniform(-1, 1) for _ in range(3)]
        l = math.sqrt(sum(x * x for x in v))
        if 0.1 < l <= 1:
            return [x / l for x in v]


def make_case(rng, radius, settings=None):
    name, system, latt, symm = rng.choice(settings or [s for s in SETTINGS if abs(s[2]) in LATTICE_TYPES])
    cell = rand_cell(rng, system)
    M = ortho_matrix(cell)
    group = [(R, tuple(float(t) for t in tau)) for R, tau in expand_group(latt, symm)]
    n = rng.choice([2, 3, 3, 4, 4, 5, 6, 7, 8, 10, 12]) if len(group) <= 8 else rng.choice([2, 3, 4, 5, 6, 8])
    scheme = rng.choice(['zero', 'zero', 'mixed', 'mixed', 'disorder'])
    atoms = []
    used = set()
    # the operators used for 'image' / 'special' placements rotate through the whole group (random start), so that
    # within a few atoms every operator class - displaced inversion centres, centring copies, screw axes - realises a contact
    opturn = [rng.randrange(1, len(group)) if len(group) > 1 else 0]

    def next_op():
        opturn[0] = opturn[0] % (len(group) - 1) + 1
        return opturn[0]

    def image(x, k, t):
        R, tau = group[k]
        return [R[r][0] * x[0] + R[r][1] * x[1] + R[r][2] * x[2] + tau[r] + t[r] for r in range(3)]

    def step_from(x, length):
        r = to_cart(M, x)
        d = rand_dir(rng)
        return list(to_frac(M, [r[k] + length * d[k] for k in range(3)]))

    for k in range(n):
        el = rng.choice(ELEMENT_POOL)
        if scheme == 'zero':
            part = 0
        elif scheme == 'mixed':
            part = rng.choice([0, 0, 0, 1, 1, 2, 2, -1])
        else:
            part = rng.choice([0, 1, 2])
        if not atoms:
            mode = rng.choice(['random', 'special'])
        else:
            mode = rng.choices(['bond', 'nonbond', 'image-bond', 'image-nonbond', 'disorder', 'far', 'random', 'special'],
                               [30, 10, 22, 8, 10, 8, 6, 6])[0]
        base = rng.choice(atoms) if atoms else None
        rsum = radius[el] + (radius[base['el']] if base else 0.77)
        if mode == 'random':
            x = [rng.uniform(-0.15, 1.15) for _ in range(3)]
        elif mode == 'special':
            # near (or on) a fixed point of a non-identity operator: midpoint of a point and its image, plus an offset
            p = base['xyz'] if base else [rng.uniform(0, 1) for _ in range(3)]
            if len(group) > 1:
                q = image(p, next_op(), [rng.randint(-1, 1) for _ in range(3)])
                mid = [(p[r] + q[r]) / 2 for r in range(3)]
            else:
                mid = list(p)
            x = mid if rng.random() < 0.3 else step_from(mid, rng.uniform(0.3, 1.1))
        elif mode in ('bond', 'image-bond'):
            x = step_from(base['xyz'], rsum * rng.uniform(0.72, 1.12))
        elif mode in ('nonbond', 'image-nonbond'):
            x = step_from(base['xyz'], rsum * rng.uniform(1.3, 2.4))
        elif mode == 'disorder':
            x = step_from(base['xyz'], rng.uniform(0.25, 0.9))
            if scheme != 'zero':
                part = {1: 2, 2: 1}.get(base['part'], rng.choice([1, 2]))
        else:
            x = step_from(base['xyz'], rng.uniform(4.4, 6.6))
        if mode.startswith('image') and len(group) > 1:
            # move the new atom next to a symmetry image of the base atom, so that the shortest contact needs an operator
            kk = next_op()
            x = image(x, kk, [rng.randint(-1, 1) for _ in range(3)])
        # keep every coordinate in [-0.15, 1.15]: then |R x1 + tau - x2| < 2.5 per component and the box of +-3 suffices
        x = [v if -0.15 <= v <= 1.15 else v % 1 for v in x]
        x = [float(f'{v:.6f}') for v in x]
        atoms.append(dict(name=gen.atom_name(rng, el, used), el=el, xyz=x, part=part))
    return dict(setting=name, cell=cell, latt=latt, symm=list(symm), atoms=atoms)


def make_history(rng, case, radius):
    """1..2 steps of edits through the public API that change the bond graph (delete / move / change element / change
    PART / add an atom), optionally with a grow() before the edits and optionally asking the SAME SDM object again"""
    cell = case['cell']
    M = ortho_matrix(cell)
    atoms = [dict(a) for a in case['atoms']]
    used = {a['name'] for a in atoms}
    history = []

    def near(x, length):
        r = to_cart(M, x)
        d = rand_dir(rng)
        y = to_frac(M, [r[k] + length * d[k] for k in range(3)])
        y = [v if -0.15 <= v <= 1.15 else v % 1 for v in y]
        return [float(f'{v:.6f}') for v in y]

    for _ in range(rng.choice([1, 1, 2])):
        edits = []
        for _ in range(rng.choice([0, 1, 1, 2, 3])):
            kinds = ['move-far', 'move-near', 'element', 'part', 'add']
            if len(atoms) > 2:
                kinds += ['delete', 'delete']
            kind = rng.choice(kinds)
            i = rng.randrange(len(atoms))
            if kind == 'delete' and atoms[i].get('added'):
                # deleting an atom that add_atom() created raises 'object is not in the file' (add_atom does not enter it
                # into the file list): a defect of the editing API (C04/C08), outside this property - not generated here
                kind = 'move-far'
            if kind == 'delete':
                e = dict(op='delete', i=i)
            elif kind == 'move-far':
                e = dict(op='move', i=i, xyz=[float(f'{rng.uniform(-0.15, 1.15):.6f}') for _ in range(3)])
            elif kind == 'move-near':
                j = rng.randrange(len(atoms))
                rs = radius[atoms[i]['el']] + radius[atoms[j]['el']]
                e = dict(op='move', i=i, xyz=near(atoms[j]['xyz'], rs * rng.choice([rng.uniform(0.72, 1.12), rng.uniform(1.3, 2.2)])))
            elif kind == 'element':
                e = dict(op='element', i=i, el=rng.choice([x for x in ELEMENT_POOL if x != atoms[i]['el']]))
            elif kind == 'part':
                e = dict(op='part', i=i, part=rng.choice([p for p in (0, 1, 2, -1) if p != atoms[i]['part']]))
            else:
                # add_atom() takes the element from the SFAC list as it is (it does not extend it: not C13's business)
                el = rng.choice(sorted({a['el'] for a in case['atoms']}))
                e = dict(op='add', name=gen.atom_name(rng, el, used), el=el, part=rng.choice([0, 0, 1, 2]),
                         xyz=near(atoms[i]['xyz'], (radius[el] + radius[atoms[i]['el']]) * rng.uniform(0.72, 1.12)))
            edits.append(e)
            atoms = apply_edit_to_case(atoms, e)
            if e['op'] == 'add':
                atoms[-1]['added'] = True
        history.append(dict(grow=rng.random() < 0.3, reuse=rng.random() < 0.25, edits=edits))
    return history


# the witnesses of the two open findings run first in every run, so that a finding that disappears is noticed
WITNESSES = [
    # C13|molindex|hydrogen-only-components-unnumbered: C, H, H far from each other
    dict(setting='Pc', cell=[9.0, 10.0, 11.0, 90.0, 100.0, 90.0], latt=-1, symm=['X, -Y, 1/2+Z'],
         atoms=[dict(name='C1', el='C', xyz=[0.1, 0.1, 0.1], part=0), dict(name='H1', el='H', xyz=[0.4, 0.3, 0.2], part=0),
                dict(name='H2', el='H', xyz=[0.7, 0.35, 0.6], part=0)]),
    # C13|no-item|distance-beyond-cut: 5.6 A apart in a cell whose smallest spacing is 14 A
    dict(setting='P1', cell=[14.0, 15.0, 16.0, 90.0, 90.0, 90.0], latt=-1, symm=[],
         atoms=[dict(name='C1', el='C', xyz=[0.1, 0.1, 0.1], part=0), dict(name='O1', el='O', xyz=[0.5, 0.1, 0.1], part=0)]),
]


def run(ctx):
    ctx.rule = ('generated structures: 2..12 atoms (C N O H D S Cl F P Si Br Fe B Zn; PART 0/1/2/-1), settings '
                + ', '.join(s[0] for s in SETTINGS if abs(s[2]) in LATTICE_TYPES) +
                ' with random cells of perpendicular spacing >= 7 A; atoms placed as bonded / non-bonded neighbours of earlier atoms or of '
                'their symmetry images, on and near special positions, as disorder partners, around the 5.3 A cut; distinct by '
                '(cell, setting, atoms, history prefix); a third of the cases continue with 1..2 steps calc -> edits (delete / move / element / PART / add '
                'through the public API, optionally grow() before, optionally the same SDM object asked again) -> calc on ONE Shelxfile object, every '
                'stage compared in full; non-trivial = at least one contact realised by a non-identity operator and at least one bond')
    ctx.assumptions = ['distances compared at 1e-9 (float rounding of the implementation is not covered by the exact-arithmetic theorems)',
                       'pairs outside the domain are not compared: true distance >= half the smallest spacing, images in (1e-6, 0.05) A, '
                       'within 2e-3 of the 5.3 cut, within 1e-3 of the bond limit, identity contact within 3e-4 above another operator\'s',
                       f'lattice types generated: {LATTICE_TYPES}; quick tier: all primitive settings + {QUICK_CENTRED} random centred ones']
    radius = lib_constants()
    n = ctx.budget(300, 5000)
    cases = [dict(w) for w in WITNESSES]
    check_settings_table()
    settings = [s for s in SETTINGS if abs(s[2]) == 1 and 1 in LATTICE_TYPES]
    centred = [s for s in SETTINGS if abs(s[2]) != 1 and abs(s[2]) in LATTICE_TYPES]
    if ctx.tier == 'thorough' or ctx.escalated:
        settings += centred
    else:
        # always at least QUICK_CENTRIC centrosymmetric centred groups (inversion centres displaced by centring vectors)
        centric = [s for s in centred if s[2] > 0]
        chosen = ctx.rng.sample(centric, min(QUICK_CENTRIC, len(centric)))
        rest = [s for s in centred if s not in chosen]
        settings += chosen + ctx.rng.sample(rest, min(QUICK_CENTRED - len(chosen), len(rest)))
    for k in range(n):
        # every setting in turn, so that even the quick tier visits all of them
        st = [settings[k % len(settings)]]
        best = None
        for _ in range(4):
            c = make_case(ctx.rng, radius, st)
            if ctx.rng.random() < HISTORY_SHARE:
                c['history'] = make_history(ctx.rng, c, radius)
            bad = 0
            for stc in stages(c):
                orc = oracle(stc, radius)
                bad += sum(1 for p in orc['pairs'].values() if set(p['flags']) & {'near-cut', 'near-bond-limit', 'identity-near-tie', 'image-in-(0,0.05)'})
            if best is None or bad < best[0]:
                best = (bad, c)
            if bad == 0:
                break
        cases.append(best[1])
    for i in range(0, len(cases), 50):
        evaluate(ctx, cases[i:i + 50])

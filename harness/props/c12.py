"""
C12 — all cell-derived geometry and tensor transforms are mutually consistent.

One case = one cell (CELL line of a generated file) with a few atoms (fractional coordinates in [-2, 2], isotropic or
anisotropic U) and point pairs.  Real objects: `Shelxfile.read_string` (one case in ten: `read_file`), `CELL.volume`, `CELL.o` (OrthogonalMatrix, `.m.det`,
`.inversed`), `Atom.cart_coords`, `Shelxfile.frac_to_cart`, `misc.frac_to_cart`, `misc.cart_to_frac`,
`dsrmath.atomic_distance`, `Atom.ueq`, `Atom.is_npd()`.

Streams (DESIGN 3.2):
  cell   CELL.volume, det(o.m)                          vs spec sqrt(det G)                 (ortho_det, volume_metric)
  cart   cart_coords / shx.frac_to_cart / misc.frac_to_cart  vs spec Cholesky(G)·x, |x|_G   (ortho_unique, ortho_is_cholesky,
         back conversions (inversed, misc.cart_to_frac)  vs the fractional input              ortho_metric, ortho_inverse, …)
  dist   atomic_distance, |cart1 - cart2|                vs spec sqrt(dᵀ G d)                (distance_agrees)
  ueq    Atom.ueq                                        vs spec ⅓ Σ Uij a*i a*j (ai·aj)     (ueq_is_third_trace)
  npd    Atom.is_npd()                                   vs exact Sylvester test in Rat       (is_npd_iff, npd_iff)
  edit   history on the parsed objects: read -> edits of an atom's displacement parameters / coordinates through every
         public way (atom.uvals = …, atom.uvals[k] = …, set_uvals, to_isotropic, atom.frac_coords = …, Shelxfile.add_atom)
         -> second query of cart_coords / ueq / is_npd() / distances of ALL atoms, compared with the spec evaluated on the
         NEW values (edited atoms) resp. the unchanged values (all other atoms)                       (history_coherent)
         The cell may change in place (shx.cell.set) anywhere in the history, the observables may be asked before the edits,
         after every single edit ('observe_each') or only at the end; every time they are asked, the inverse of the
         orthogonalisation (cell.o.inversed, shx.orthogonal_matrix.inversed, misc.cart_to_frac) has to map the atoms'
         CURRENT Cartesian coordinates back to their current fractional ones      (file_history_coherent, inverse_memo_coherent)
  flat   (a class of tensors inside the streams above) U33, U23, U13, U12 tiny but not all zero — sums of absolute values at and
         next to every decade 1e-3 … 1e-9, where code that decides "isotropic / q-peak / regular atom" by magnitude has its
         limits — in files, through every editing route and through add_atom: still a symmetric tensor, Ueq = tr(U_cart)/3
  body   (a class of files inside the streams above; `ctx`) instructions BETWEEN the atoms - MOVE with 0/2/3/4 numbers and
         either sign, PART, RESI, AFIX, SAME, ANIS, SPEC, MOLE, DFIX, REM - every kind in front of the first / a middle / the
         last atom, MOVE forms also with edits afterwards.  The reference is then evaluated at the position the atom itself
         reports (frac_coords): cart_coords, the conversions, the inverses and the lengths belong to that position whatever
         the parser carried over from the lines before                                (parse_body_coherent, parse_body_cart)
The oracle is the driver's spec (metric tensor only); `impl vs spec` is a property failure, `impl vs model` (the Float
instance of the mirrored code) a correspondence failure.  Nothing but the observables of the statement is compared.
"""
import math

from .. import core

TOL = 1e-9
REL = 1e-9

CLASSES = ['triclinic', 'monoclinic', 'orthorhombic', 'tetragonal', 'hexagonal', 'rhombohedral', 'cubic', 'mono-gamma',
           'mono-alpha', 'near-special']
SPECIAL_ANGLES = [90.0, 90.0, 90.0, 60.0, 120.0, 109.4712, 70.5288, 45.0, 135.0]


# ------------------------------------------------------------------------------------------------
# generators

def radicand(al, be, ga):
    ca, cb, cg = (math.cos(math.radians(x)) for x in (al, be, ga))
    return 1 + 2 * ca * cb * cg - ca * ca - cb * cb - cg * cg


def rlen(rng):
    r = rng.random()
    if r < 0.15:
        return round(rng.uniform(2, 4), 3)
    if r < 0.3:
        return round(rng.uniform(40, 100), 3)
    return round(rng.uniform(4, 40), rng.choice([2, 3, 4]))


def rang(rng, lo=55.0, hi=125.0):
    r = rng.random()
    if r < 0.1:
        return float(rng.choice([60, 75, 100, 105, 110, 120]))
    a = round(rng.uniform(lo, hi), rng.choice([1, 2, 3]))
    if abs(a - 90.0) < 0.5:
        a += 2.5
    return a


def make_cell(rng, cls):
    for _ in range(1000):
        a, b, c = rlen(rng), rlen(rng), rlen(rng)
        if cls == 'triclinic':
            al, be, ga = rang(rng), rang(rng), rang(rng)
        elif cls == 'monoclinic':
            al, be, ga = 90.0, rang(rng, 91, 135), 90.0
        elif cls == 'mono-gamma':
            al, be, ga = 90.0, 90.0, rang(rng, 50, 135)
        elif cls == 'mono-alpha':
            al, be, ga = rang(rng, 50, 135), 90.0, 90.0
        elif cls == 'orthorhombic':
            al, be, ga = 90.0, 90.0, 90.0
        elif cls == 'tetragonal':
            b = a
            al, be, ga = 90.0, 90.0, 90.0
        elif cls == 'hexagonal':
            b = a
            al, be, ga = 90.0, 90.0, 120.0
        elif cls == 'near-special':
            # every angle a hair (1e-6 .. 1e-2 degrees) beside a special value: anything that treats "almost 90 / 120 / 60" as
            # the special value itself, in one routine only, shows as a disagreement between the routines
            def near(rng=rng):
                base = rng.choice(SPECIAL_ANGLES)
                if rng.random() < 0.25:
                    return base
                return round(base + rng.choice([1, -1]) * 10 ** rng.uniform(-6, -2), 8)
            al, be, ga = near(), near(), near()
        elif cls == 'rhombohedral':
            b = c = a
            al = be = ga = rang(rng, 50, 115)
        else:
            b = c = a
            al, be, ga = 90.0, 90.0, 90.0
        if radicand(al, be, ga) > 0.02:
            return [a, b, c, al, be, ga]
    raise RuntimeError('no cell')


CELL_VARIANTS = ['angles', 'lengths', 'one', 'swap']


def vary_cell(rng, cell, how=None):
    """a cell that shares part of its six numbers with `cell` (what a memo keyed on part of the parameters can not tell apart):
    only the angles differ / only the lengths / one single parameter / two lengths exchanged"""
    how = how or rng.choice(CELL_VARIANTS)
    for _ in range(200):
        new = list(cell)
        if how == 'angles':
            new[3:] = make_cell(rng, rng.choice(['triclinic', 'monoclinic', 'mono-gamma', 'rhombohedral', 'hexagonal']))[3:]
        elif how == 'lengths':
            new[:3] = [rlen(rng), rlen(rng), rlen(rng)]
        elif how == 'one':
            k = rng.randrange(6)
            new[k] = rlen(rng) if k < 3 else rang(rng)
        else:
            i, j = rng.sample(range(3), 2)
            new[i], new[j] = new[j], new[i]
            if new == list(cell):
                new[i] = rlen(rng)
        if new != list(cell) and radicand(*new[3:]) > 0.02:
            return new
    return make_cell(rng, 'triclinic')


def rcoord(rng):
    r = rng.random()
    if r < 0.1:
        return rng.choice([0.0, 0.5, -0.5, 1.0, -1.0, 0.25, 1.5, 2.0, -2.0, 0.333333, 0.666667])
    return round(rng.uniform(-2, 2), rng.choice([3, 4, 5, 6]))


def sym_from_eigs(rng, eigs):
    """R diag(eigs) Rᵀ with a random rotation R; returns U11 U22 U33 U23 U13 U12"""
    # random rotation from three Euler angles
    a, b, c = (rng.uniform(0, 2 * math.pi) for _ in range(3))
    ca, sa, cb, sb, cc, sc = math.cos(a), math.sin(a), math.cos(b), math.sin(b), math.cos(c), math.sin(c)
    r = [[ca * cb, ca * sb * sc - sa * cc, ca * sb * cc + sa * sc],
         [sa * cb, sa * sb * sc + ca * cc, sa * sb * cc - ca * sc],
         [-sb, cb * sc, cb * cc]]
    m = [[sum(r[i][k] * eigs[k] * r[j][k] for k in range(3)) for j in range(3)] for i in range(3)]
    return [m[0][0], m[1][1], m[2][2], m[1][2], m[0][2], m[0][1]]


def cart_to_cif(cell, uc):
    """U_cif = A⁻¹ U_cart A⁻ᵀ with A = M·N (the generator's own arithmetic; only used to aim at a class of tensors)"""
    a, b, c, al, be, ga = cell
    ca, cb, cg = (math.cos(math.radians(x)) for x in (al, be, ga))
    sa, sb, sg = (math.sin(math.radians(x)) for x in (al, be, ga))
    v = a * b * c * math.sqrt(1 + 2 * ca * cb * cg - ca * ca - cb * cb - cg * cg)
    m = [[a, b * cg, c * cb], [0.0, b * sg, c * (ca - cb * cg) / sg], [0.0, 0.0, v / (a * b * sg)]]
    n = [b * c * sa / v, a * c * sb / v, a * b * sg / v]
    A = [[m[i][j] * n[j] for j in range(3)] for i in range(3)]          # upper triangular
    # inverse of an upper triangular matrix
    inv = [[0.0] * 3 for _ in range(3)]
    for i in range(3):
        inv[i][i] = 1 / A[i][i]
    inv[0][1] = -A[0][1] * inv[1][1] / A[0][0]
    inv[1][2] = -A[1][2] * inv[2][2] / A[1][1]
    inv[0][2] = -(A[0][1] * inv[1][2] + A[0][2] * inv[2][2]) / A[0][0]
    U = [[uc[0], uc[5], uc[4]], [uc[5], uc[1], uc[3]], [uc[4], uc[3], uc[2]]]
    t = [[sum(inv[i][k] * U[k][j] for k in range(3)) for j in range(3)] for i in range(3)]
    r = [[sum(t[i][k] * inv[j][k] for k in range(3)) for j in range(3)] for i in range(3)]
    return [r[0][0], r[1][1], r[2][2], r[1][2], r[0][2], r[0][1]]


def make_u(rng, kind, cell=None):
    s = rng.uniform(0.01, 0.12)
    if kind == 'eqmod':
        # indefinite with two Cartesian eigenvalues of (nearly) equal magnitude and opposite sign: an unshifted
        # eigenvalue iteration does not separate them
        eps = rng.choice([0.0, 1e-4, 1e-3]) if rng.random() < 0.2 else rng.uniform(0.003, 0.04)
        e = [s, -s * (1 - eps), s * rng.uniform(0.1, 0.9)]       # the positive one slightly larger
        rng.shuffle(e)
        return [round(v, 8) for v in cart_to_cif(cell, sym_from_eigs(rng, e))]
    if kind == 'flat':
        return flat_u(rng, flat_total(rng), rng.choice([1, 1, 2, 3, 4]))
    if kind == 'small':         # an ordinary tensor (definite or not) at 1e-1 … 1e-6 of the usual size: nothing in the statement
        # depends on the absolute size, an absolute tolerance anywhere in the code does
        k = 10 ** rng.uniform(-6, -1)
        return [round(v * k, 13) for v in make_u(rng, rng.choice(['pd', 'pd', 'indef', 'negdef']), cell)]
    if kind == 'pd':
        e = [s * rng.uniform(0.2, 1.0), s * rng.uniform(0.2, 1.0), s]
        nd = rng.choice([5, 5, 5, 4, 6])
    elif kind == 'indef':       # the usual NPD atom: one (or two) clearly smaller negative eigenvalue(s)
        e = [s, s * rng.uniform(0.2, 1.0), -s * rng.uniform(0.02, 0.6)]
        if rng.random() < 0.25:
            e[1] = -s * rng.uniform(0.02, 0.6)
        nd = 5
    elif kind == 'negdef':
        e = [-s, -s * rng.uniform(0.2, 1.0), -s * rng.uniform(0.2, 1.0)]
        nd = 5
    elif kind == 'near':        # nearly singular, either side of the boundary
        e = [s, s * rng.uniform(0.2, 1.0), s * rng.choice([1, -1]) * 10 ** rng.uniform(-8.5, -3)]
        nd = 8
    elif kind == 'singular':    # on the boundary: rank deficient by construction (excluded from the npd comparison)
        p, q = rng.randint(1, 9), rng.randint(1, 9)
        k = rng.choice([0.001, 0.002, 0.0005])
        return [round(p * p * k, 8), round(q * q * k, 8), round(rng.uniform(0.01, 0.1), 5), 0.0, 0.0, round(p * q * k, 8)]
    elif kind == 'blocksing':   # a 2x2 principal block exactly singular (its minor is 0 in exact arithmetic, rounding noise in
        # floats), the tensor itself clearly not positive definite: the decision must not hang on the sign of that minor
        p, q = rng.randint(1, 9), rng.randint(1, 9)
        k = rng.choice([0.001, 0.002, 0.0005, 0.00025])
        g = round(rng.choice([-1, -1, 1]) * rng.uniform(0.002, 0.06), 5)
        e, f = (0.0, 0.0) if rng.random() < 0.5 else (round(rng.uniform(-0.02, 0.02), 5), round(rng.uniform(-0.02, 0.02), 5))
        a, d, b = round(p * p * k, 8), round(q * q * k, 8), round(p * q * k * rng.choice([1, -1]), 8)
        which = rng.randrange(3)        # which pair of axes carries the singular block
        if which == 0:
            return [a, d, g, f, e, b]            # block (1,2)
        if which == 1:
            return [a, g, d, f, b, e]            # block (1,3)
        return [g, a, d, b, f, e]                # block (2,3)
    elif kind == 'cancel':      # six values whose last four sum to exactly 0.0 in floats
        for _ in range(100):
            k = rng.choice([0.005, 0.01, 0.02, 0.004, 0.008, 0.0125])
            u = [round(rng.uniform(0.03, 0.09), 5), round(rng.uniform(0.03, 0.09), 5), 2 * k, -k, -k, 0.0]
            if rng.random() < 0.5:
                u = [u[0], u[1], 2 * k, -k, 0.0, -k]
            u = [round(v, 5) for v in u]
            if sum(u[2:]) == 0:
                return u
        return u
    else:                       # 'diag'
        return [round(s, 5), round(s * rng.uniform(0.3, 1), 5), round(s * rng.uniform(0.3, 1), 5), 0.0, 0.0, 0.0]
    rng.shuffle(e)
    return [round(v, nd) for v in sym_from_eigs(rng, e)]


U_KINDS = ['pd', 'pd', 'pd', 'indef', 'indef', 'near', 'negdef', 'diag', 'singular', 'cancel', 'eqmod', 'blocksing', 'flat', 'small']

# magnitudes at which code that sorts atoms into "isotropic / q-peak / regular" by the size of U33 … U12 may have a limit
DECADES = [1e-3, 1e-4, 1e-5, 1e-6, 1e-7, 1e-8, 1e-9]
NEXT_TO = [1.0, 0.98, 1.02]


def flat_u(rng, total, spread, u22=None):
    """ordinary U11 (and mostly U22); U33, U23, U13, U12 tiny, `spread` of them non-zero, |U33|+|U23|+|U13|+|U12| = total
    (exactly, as decimals with 13 places; spread = 1 puts `total` itself into one component)"""
    total = round(total, 13)
    u11 = round(rng.uniform(0.01, 0.12), 5)
    if u22 is None:
        u22 = rng.choice([round(u11 * rng.uniform(0.3, 1), 5)] * 4 + [0.0, round(total * rng.uniform(0.2, 1), 13)])
    units = max(int(round(total * 1e13)), spread)
    ks = sorted(rng.sample(range(4), spread))
    cuts = sorted(rng.sample(range(1, units), spread - 1)) if spread > 1 else []
    parts = [b - a for a, b in zip([0] + cuts, cuts + [units])]
    tail = [0.0] * 4
    for k, n in zip(ks, parts):
        sign = 1 if (k == 0 and rng.random() < 0.8) else rng.choice([1, -1])
        tail[k] = sign * (float(total) if spread == 1 else round(n / 1e13, 13))
    return [u11, u22] + tail


def flat_total(rng):
    r = rng.random()
    if r < 0.4:
        return rng.choice(DECADES) * rng.choice(NEXT_TO)
    return 10 ** rng.uniform(-10, -3)


def make_case(rng, cls=None, ukinds=None, us=None):
    """`us`: the tensors themselves (list of (kind, six values)), one atom each"""
    cls = cls or rng.choice(CLASSES)
    cell = make_cell(rng, cls)
    atoms = []
    for kind, u in us or []:
        atoms.append(dict(xyz=[rcoord(rng), rcoord(rng), rcoord(rng)], u=list(u), kind=kind))
    for i in range(0 if us else rng.randint(3, 6)):
        xyz = [rcoord(rng), rcoord(rng), rcoord(rng)]
        r = rng.random()
        if r < 0.2 and not ukinds:
            atoms.append(dict(xyz=xyz, u=[round(rng.uniform(0.01, 0.2), 5)], kind='iso'))
        else:
            kind = rng.choice(ukinds or U_KINDS)
            atoms.append(dict(xyz=xyz, u=make_u(rng, kind, cell), kind=kind))
    n = len(atoms)
    pairs = [[i, (i + 1) % n] for i in range(n)]
    return dict(cls=cls, cell=cell, atoms=atoms, pairs=pairs)


# instructions that may stand between the atoms of a valid file and set state of the parser (the position of an atom in the
# file, its residue / part / AFIX group, a MOVE that SHELXL applies to the atoms that follow, restraints, comments).  None of
# them is part of the statement: whatever the atom reports as frac_coords, its cart_coords is the orthogonalisation of it.
CTX_KINDS = ['MOVE4', 'MOVE4-', 'MOVE3', 'MOVE2', 'MOVE0', 'move', 'PART', 'PART-', 'RESI', 'AFIX', 'SAME', 'ANIS', 'SPEC', 'MOLE',
             'DFIX', 'REM', 'MOVE+PART+RESI']


def rshift(rng):
    """three distinct non-zero shifts, none of them 0 or 1"""
    return rng.sample([0.5, 0.25, -0.125, -0.5, 0.75, 1.5, -1.0, 0.3333, 0.1, -0.37, 2.0, 0.6667], 3)


def ctx_lines(rng, kind, n=3):
    dx, dy, dz = rshift(rng)
    if kind == 'MOVE4':
        return [f'MOVE {dx} {dy} {dz} 1']
    if kind == 'MOVE4-':
        return [f'MOVE {dx} {dy} {dz} -1']
    if kind == 'MOVE3':
        return [f'MOVE {dx} {dy} {dz}']
    if kind == 'MOVE2':
        return [f'MOVE {dx} {dy}']
    if kind == 'MOVE0':
        return ['MOVE']
    if kind == 'move':
        return [f'move  {dx:.4f}   {dy:.4f} {dz:.4f}  {rng.choice(["-1", "1", "-1.0"])}']
    if kind == 'PART':
        return [f'PART {rng.randint(1, 3)}']
    if kind == 'PART-':
        return [f'PART -{rng.randint(1, 2)}']
    if kind == 'RESI':
        return [f'RESI {rng.randint(1, 20)} {rng.choice(["ABC", "THF", "CCF3"])}']
    if kind == 'AFIX':
        return [f'AFIX {rng.choice([1, 3, 66, 56])}']
    if kind == 'SAME':
        return [f'SAME C1 > C{n}']
    if kind == 'ANIS':
        return ['ANIS']
    if kind == 'SPEC':
        return ['SPEC 0.1']
    if kind == 'MOLE':
        return [f'MOLE {rng.randint(1, 5)}']
    if kind == 'DFIX':
        return [f'DFIX 1.5 0.02 C1 C{n}']
    if kind == 'REM':
        return [f'REM MOVE {dx} {dy} {dz} -1']
    return [f'MOVE {dx} {dy} {dz} {rng.choice([-1, 1])}', f'PART {rng.randint(1, 3)}', f'RESI {rng.randint(1, 20)} ABC']


def add_ctx(rng, case, kinds=None, at=None):
    """puts instructions in front of some atoms (`ctx`: one list of lines per atom); with `kinds` one line of every kind given,
    in front of atom `at` (default: a random one, sometimes the first)"""
    n = len(case['atoms'])
    ctx = [[] for _ in range(n)]
    if kinds:
        for k in kinds:
            ctx[rng.randrange(n) if at is None else at] += ctx_lines(rng, k, n)
    else:
        for _ in range(rng.randint(1, 3)):
            ctx[rng.randrange(n)] += ctx_lines(rng, rng.choice(CTX_KINDS), n)
    case['ctx'] = ctx
    return case


def ctx_cases(rng):
    """every kind of instruction between the atoms x (in front of the first / a middle / the last atom) in an oblique cell, every
    MOVE form also with a history of edits afterwards"""
    cases = []
    for n, kind in enumerate(CTX_KINDS):
        for pos in (0, 1, -1):
            c = make_case(rng, ['triclinic', 'monoclinic', 'hexagonal', 'rhombohedral', 'mono-gamma'][(n + pos) % 5])
            add_ctx(rng, c, [kind], at=pos % len(c['atoms']))
            cases.append(c)
        if 'MOVE' in kind.upper():
            c = make_case(rng, 'triclinic')
            add_ctx(rng, c, [kind], at=n % 2)
            c['edits'] = make_edits(rng, c)
            if n % 3 == 0:
                c['observe_each'] = True
            cases.append(c)
    return cases


EDIT_OPS = ['uvals', 'uvals', 'set_uvals', 'uvals_item', 'to_isotropic', 'frac_coords', 'frac_coords', 'add_atom', 'uvals_iso',
            'set_cell', 'set_cell']


def make_edits(rng, case):
    """1-4 edits of the parsed atoms (several may hit the same atom: the last one counts)"""
    n = len(case['atoms'])
    edits = []
    for _ in range(rng.randint(1, 4)):
        op = rng.choice(EDIT_OPS)
        i = rng.randrange(n)
        if op in ('uvals', 'set_uvals'):
            edits.append(dict(op=op, i=i, u=make_u(rng, rng.choice(['pd', 'indef', 'negdef', 'near', 'diag', 'eqmod', 'blocksing', 'flat', 'small']), case['cell'])))
        elif op == 'uvals_iso':
            edits.append(dict(op='uvals', i=i, u=[round(rng.uniform(0.01, 0.2), 5), 0.0, 0.0, 0.0, 0.0, 0.0]))
        elif op == 'uvals_item':
            if rng.random() < 0.25:     # one tiny component (on an isotropic atom: no longer isotropic)
                edits.append(dict(op=op, i=i, k=rng.randrange(2, 6), v=rng.choice([1, 1, -1]) * round(flat_total(rng), 13)))
            else:
                edits.append(dict(op=op, i=i, k=rng.randrange(6), v=round(rng.uniform(-0.08, 0.12), 5)))
        elif op == 'to_isotropic':
            edits.append(dict(op=op, i=i))
        elif op == 'frac_coords':
            edits.append(dict(op=op, i=i, xyz=[rcoord(rng), rcoord(rng), rcoord(rng)]))
        elif op == 'set_cell':      # the cell changed in place on the same object: shx.cell.set('CELL ...')
            if rng.random() < 0.5:  # … to an unrelated cell, or to one that keeps part of the current numbers
                edits.append(dict(op=op, cell=make_cell(rng, rng.choice(CLASSES))))
            else:
                cur = ([case['cell']] + [e['cell'] for e in edits if e['op'] == 'set_cell'])[-1]
                edits.append(dict(op=op, cell=vary_cell(rng, cur)))
        else:
            edits.append(dict(op='add_atom', xyz=[rcoord(rng), rcoord(rng), rcoord(rng)],
                              u=make_u(rng, rng.choice(['pd', 'indef', 'diag', 'flat']), case['cell'])))
    return edits


def final_state(case):
    """what the edits mean (the API's own description): list of dict(xyz, u (six values), last_xyz / last_u = the
    last op that set the coordinates / the displacement parameters)"""
    st = [dict(xyz=list(a['xyz']), u=u_full(a['u']), last_xyz='parse', last_u='parse', orig=i) for i, a in enumerate(case['atoms'])]
    for k, e in enumerate(case.get('edits') or []):
        if e['op'] == 'set_cell':
            continue
        if e['op'] == 'add_atom':
            st.append(dict(xyz=list(e['xyz']), u=list(e['u']), last_xyz='add_atom', last_u='add_atom', orig=None, edit=k))
            continue
        a = st[e['i']]
        a['last_xyz' if e['op'] == 'frac_coords' else 'last_u'] = e['op']
        if e['op'] in ('uvals', 'set_uvals'):
            a['u'] = list(e['u'])
        elif e['op'] == 'uvals_item':
            a['u'][e['k']] = e['v']
        elif e['op'] == 'to_isotropic':
            a['u'] = [0.04, 0.0, 0.0, 0.0, 0.0, 0.0]
        elif e['op'] == 'frac_coords':
            a['xyz'] = list(e['xyz'])
    return st


def final_cell(case):
    cell = case['cell']
    for e in case.get('edits') or []:
        if e['op'] == 'set_cell':
            cell = e['cell']
    return cell


def cell_line(cell):
    return 'CELL 0.71073 ' + ' '.join(repr(float(v)) for v in cell)


# ------------------------------------------------------------------------------------------------
# the real code

def fmt_u(v):
    """fixed-point text that reads back as the same double (8 places as a rule, more for tiny components)"""
    for nd in (8, 13, 17):
        t = f'{v:.{nd}f}'
        if float(t) == float(v):
            return t
    return repr(float(v))


def render(case):
    lines = ['TITL c12', cell_line(case['cell']),
             'ZERR 2 0.001 0.001 0.001 0.01 0.01 0.01', 'LATT -1', 'SFAC C H O', 'UNIT 8 16 4', 'FVAR 0.5']
    ctx = case.get('ctx')
    for i, a in enumerate(case['atoms']):
        if ctx:
            lines += ctx[i]
        us = ' '.join(fmt_u(v) for v in a['u'])
        x, y, z = a['xyz']
        lines.append(f'C{i + 1:<3d} 1 {x:.6f} {y:.6f} {z:.6f} 11.00000 {us}')
    if ctx:     # whatever was opened between the atoms is closed
        lines += ['AFIX 0', 'PART 0', 'RESI 0']
    lines += ['HKLF 4', 'END']
    return '\n'.join(lines) + '\n'


def guard(f):
    try:
        return f()
    except Exception as e:  # the observable raised: mapped to the class name
        return 'raise ' + type(e).__name__


def as3(v):
    if isinstance(v, str):
        return v
    v = list(v)
    return [float(t) for t in v]


def observe_impl(case):
    from shelxfile import Shelxfile
    from shelxfile.misc import misc
    from shelxfile.misc.dsrmath import Array, atomic_distance
    shx = Shelxfile()
    if case.get('preread'):
        # the same Shelxfile object has read (and answered for) a file with another cell before
        shx.read_string(render(dict(case, cell=case['preread'])))
        guard(lambda: [(a.ueq, a.cart_coords) for a in shx.atoms] + [shx.cell.volume, shx.cell.N, shx.cell.o.inversed,
                                                                      shx.orthogonal_matrix.inversed])
    if case.get('via') == 'file':       # the other entry point: the same text in a file, read with read_file
        import tempfile
        from pathlib import Path
        with tempfile.TemporaryDirectory(prefix='c12_') as tmp:
            f = Path(tmp) / 'c12.res'
            f.write_text(render(case))
            shx.read_file(str(f))
    else:
        shx.read_string(render(case))
    atoms = list(shx.atoms)
    if len(atoms) != len(case['atoms']) or shx.cell is None:
        return dict(error=f'parse: {len(atoms)} atoms of {len(case["atoms"])}')
    cell = shx.cell
    cl = guard(lambda: [float(v) for v in list(cell)])
    if cl != [float(v) for v in case['cell']]:
        return dict(error=f'parse: cell {cl}')
    if case.get('prequery') is False:
        # nothing is asked before the edits (a value that is built lazily on first use is then built after them)
        return dict(skipped0=True, edit=guard(lambda: observe_after_edits(shx, atoms, cl, case)))
    out = dict(V=guard(lambda: float(cell.volume)), det=guard(lambda: float(cell.o.m.det)), atoms=[], pairs=[])
    for a, spec in zip(atoms, case['atoms']):
        frac = guard(lambda: as3(a.frac_coords))
        # in a file with instructions between the atoms the statement is about the position the atom itself reports
        xyz = frac if (case.get('ctx') and isinstance(frac, list) and len(frac) == 3) else spec['xyz']
        cart = guard(lambda: as3(a.cart_coords))
        o = dict(cart=cart, frac=frac,
                 cart_shx=guard(lambda: as3(shx.frac_to_cart(list(xyz)))),
                 cart_misc=guard(lambda: as3(misc.frac_to_cart(list(xyz), list(cl)))))
        if isinstance(cart, list):
            o['back_inv'] = guard(lambda: as3(cell.o.inversed * Array(list(cart))))
            o['back_shx'] = guard(lambda: as3(shx.orthogonal_matrix.inversed * Array(list(cart))))
            o['back_misc'] = guard(lambda: as3(misc.cart_to_frac(list(cart), list(cl))))
        else:
            o['back_inv'] = o['back_shx'] = o['back_misc'] = cart
        o['ueq'] = guard(lambda: float(a.ueq))
        if len(spec['u']) == 6:
            o['npd'] = guard(lambda: bool(a.is_npd()))
        out['atoms'].append(o)
    for i, j in case['pairs']:
        p1, p2 = ((out['atoms'][i]['frac'], out['atoms'][j]['frac']) if case.get('ctx') else
                  (case['atoms'][i]['xyz'], case['atoms'][j]['xyz']))
        c1, c2 = out['atoms'][i]['cart'], out['atoms'][j]['cart']
        out['pairs'].append(dict(
            dist=guard(lambda: float(atomic_distance(list(p1), list(p2), list(cl)))),
            cdist=(math.sqrt(sum((s - t) ** 2 for s, t in zip(c1, c2))) if isinstance(c1, list) and isinstance(c2, list) else 'raise')))
    if case.get('edits'):
        out['edit'] = guard(lambda: observe_after_edits(shx, atoms, cl, case))
    return out


def observe_after_edits(shx, atoms, cl, case):
    """apply the edits to the parsed objects, then ask every atom again; with `observe_each` everything is also asked
    after every single edit (`steps`: one observation per proper prefix of the history)"""
    atoms = list(atoms)
    steps = []
    last = len(case['edits']) - 1
    for k, e in enumerate(case['edits']):
        op = e['op']
        if op == 'set_cell':
            shx.cell.set(cell_line(e['cell']))
        elif op == 'add_atom':
            before = len(list(shx.atoms))
            r = guard(lambda: shx.add_atom(name=f'X{k}', coordinates=list(e['xyz']), element='C', uvals=list(e['u'])))
            now = list(shx.atoms)
            if isinstance(r, str) or len(now) != before + 1:
                return dict(error=f'add_atom: {r}, {len(now)} atoms after {before}')
            new = [a for a in now if not any(a is b for b in atoms)]
            atoms.append(new[0])
        else:
            a = atoms[e['i']]
            if op == 'uvals':
                a.uvals = list(e['u'])
            elif op == 'set_uvals':
                a.set_uvals(list(e['u']))
            elif op == 'uvals_item':
                a.uvals[e['k']] = e['v']
            elif op == 'to_isotropic':
                a.to_isotropic()
            elif op == 'frac_coords':
                a.frac_coords = list(e['xyz'])
        if case.get('observe_each') and k < last:
            steps.append(guard(lambda: observe_now(shx, atoms)))
    out = observe_now(shx, atoms)
    out['steps'] = steps
    return out


def observe_now(shx, atoms):
    from shelxfile.misc.dsrmath import Array, atomic_distance
    from shelxfile.misc import misc
    cl = guard(lambda: [float(v) for v in list(shx.cell)])
    out = dict(atoms=[], pairs=[], cell=cl, V=guard(lambda: float(shx.cell.volume)), det=guard(lambda: float(shx.cell.o.m.det)))
    for a in atoms:
        o = dict(cart=guard(lambda: as3(a.cart_coords)), frac=guard(lambda: as3(a.frac_coords)),
                 cart_shx=guard(lambda: as3(shx.frac_to_cart(list(a.frac_coords)))),
                 cart_misc=guard(lambda: as3(misc.frac_to_cart(list(a.frac_coords), list(shx.cell)))),
                 ueq=guard(lambda: float(a.ueq)), npd=guard(lambda: bool(a.is_npd())))
        cart = o['cart']
        if isinstance(cart, list):      # the inverse maps the atom's current Cartesian coordinates back
            o['back_inv'] = guard(lambda: as3(shx.cell.o.inversed * Array(list(cart))))
            o['back_shx'] = guard(lambda: as3(shx.orthogonal_matrix.inversed * Array(list(cart))))
            o['back_misc'] = guard(lambda: as3(misc.cart_to_frac(list(cart), list(shx.cell))))
        else:
            o['back_inv'] = o['back_shx'] = o['back_misc'] = cart
        out['atoms'].append(o)
    n = len(atoms)
    for i in range(n):
        j = (i + 1) % n
        c1, c2 = out['atoms'][i]['cart'], out['atoms'][j]['cart']
        out['pairs'].append(dict(
            dist=guard(lambda: float(atomic_distance(list(atoms[i].frac_coords), list(atoms[j].frac_coords), list(cl)))),
            cdist=(math.sqrt(sum((s - t) ** 2 for s, t in zip(c1, c2))) if isinstance(c1, list) and isinstance(c2, list) else 'raise')))
    return out


# ------------------------------------------------------------------------------------------------
# comparison

RESID = {}


def resid(stream, a, b):
    """largest relative difference implementation vs metric-tensor reference seen per stream (evidence only)"""
    try:
        d = abs(float(a) - float(b)) / max(abs(float(a)), abs(float(b)), 1e-300)
    except (TypeError, ValueError):
        return
    if d > RESID.get(stream, 0.0):
        RESID[stream] = d


def close(a, b, tol=TOL, rel=REL):
    if isinstance(a, str) or isinstance(b, str) or a is None or b is None:
        return False
    return core.close(a, b, tol, rel)


def close3(a, b, tol=TOL, rel=REL):
    if isinstance(a, str) or isinstance(b, str) or a is None or b is None:
        return False
    scale = max(max(abs(float(t)) for t in a), max(abs(float(t)) for t in b))
    return all(abs(float(s) - float(t)) <= tol + rel * scale for s, t in zip(a, b))


def cell_tag(case):
    al, be, ga = case['cell'][3:]
    return 'orthogonal' if (al, be, ga) == (90.0, 90.0, 90.0) else 'oblique'


def u_full(u):
    return list(u) + [0.0] * (6 - len(u))


def reported_positions(case, obs):
    """a file with instructions between its atoms (`ctx`): the reference is evaluated at the fractional coordinates the atoms
    themselves report (Atom.frac_coords) - the statement is that cart_coords, the conversion routines, the inverse and the
    lengths all belong to THAT position, whatever an instruction in front of the atom did to it.  Files without: as written."""
    if not case.get('ctx') or not isinstance(obs, dict) or 'atoms' not in obs:
        return case
    fr = [o.get('frac') for o in obs['atoms']]
    if len(fr) != len(case['atoms']) or not all(isinstance(f, list) and len(f) == 3 and all(math.isfinite(t) for t in f) for f in fr):
        return case
    return dict(case, atoms=[dict(a, xyz=f, xyz_written=a['xyz']) for a, f in zip(case['atoms'], fr)])


def as_written(case):
    """the case as it was generated (replays render the file from it)"""
    atoms = []
    for a in case['atoms']:
        a = dict(a)
        if 'xyz_written' in a:
            a['xyz'] = a.pop('xyz_written')
        atoms.append(a)
    return dict(case, atoms=atoms)


def ctx_tags(case):
    return sorted({'between-atoms=' + ln.split()[0].upper() + str(len(ln.split()) - 1 if ln.split()[0].upper() == 'MOVE' else '')
                   for lines in case.get('ctx') or [] for ln in lines})


def body_request(case):
    lines = []
    for a, before in zip(case['atoms'], case['ctx']):
        for ln in before:
            t = ln.split()
            lines.append(dict(k='move', params=[float(v) for v in t[1:]]) if t[0].upper() == 'MOVE' else dict(k='other'))
        lines.append(dict(k='atom', xyz=a['xyz'], u=u_full(a['u'])))
    return dict(p='C12', op='body', cell=case['cell'], lines=lines)


def check_body(ctx, case, obs, r):
    """implementation vs the model of the parser (parseBody) and the model vs what the body says (specBody; theorem
    parse_body_coherent): the atoms of the file in order, each at the position of its own line"""
    if [m['frac'] for m in r['atoms']] != [m['frac'] for m in r['spec']] or not all(close3(m['cart'], t['cart']) for m, t in zip(r['atoms'], r['spec'])):
        raise RuntimeError(f'Lean model and spec of the file body disagree: {r}')
    if not isinstance(obs, dict) or 'atoms' not in obs or len(obs['atoms']) != len(r['atoms']):
        return      # not read / nothing asked before the edits: reported elsewhere
    for i, (o, m) in enumerate(zip(obs['atoms'], r['atoms'])):
        pl = dict(case=dict(case, pairs=[], **({'edits': []} if 'edits' in case else {})), stream='cart', actual=o['frac'], model=m['frac'])
        if not close3(o['frac'], m['frac'], 1e-12, 1e-12):
            ctx.fail('C12|body|frac_coords|model', f'atom {i} behind {sum(case["ctx"][:i + 1], [])}: frac_coords {o["frac"]}, the model of '
                     f'the parser gives the position written on its line {m["frac"]}', pl, kind='correspondence')
        elif isinstance(o['cart'], list) and close3(o['cart'], r['spec'][i]['cart']) and not close3(o['cart'], m['cart']):
            ctx.fail('C12|body|cart_coords|model', f'atom {i}: cart_coords {o["cart"]}, model of the parser {m["cart"]}',
                     dict(pl, actual=o['cart'], model=m['cart']), kind='correspondence')


def evaluate(ctx, cases, stream=None):
    reqs = []
    impls = []
    cases = list(cases)
    for ci, case in enumerate(cases):
        impls.append(guard(lambda: observe_impl(case)))
        case = cases[ci] = reported_positions(case, impls[-1])
        reqs.append(dict(p='C12', op='cell', cell=case['cell'], pts=[a['xyz'] for a in case['atoms']],
                         pairs=[[case['atoms'][i]['xyz'], case['atoms'][j]['xyz']] for i, j in case['pairs']],
                         us=[u_full(a['u']) for a in case['atoms']]))
    nreq = len(reqs)
    finals = {}
    for ci, case in enumerate(cases):
        if case.get('edits'):
            ne = len(case['edits'])
            finals[ci] = []
            for k in (range(1, ne + 1) if case.get('observe_each') else [ne]):     # every prefix after which everything is asked
                pc = case if k == ne else dict(case, edits=case['edits'][:k])
                st = final_state(pc)
                n = len(st)
                finals[ci].append((k, pc, st, len(reqs)))
                reqs.append(dict(p='C12', op='cell', cell=final_cell(pc), pts=[a['xyz'] for a in st],
                                 pairs=[[st[i]['xyz'], st[(i + 1) % n]['xyz']] for i in range(n)], us=[a['u'] for a in st]))
                for i, a in enumerate(st):      # the model of the object under the same history, atom by atom
                    reqs.append(hist_request(pc, a, i))
    bodies = {}
    for ci, case in enumerate(cases):
        if case.get('ctx'):             # the model of the parser walking through the body of this file
            bodies[ci] = len(reqs)
            reqs.append(body_request(as_written(case)))
    ans = ctx.driver.batch(reqs)
    for s in ('cell', 'cart', 'dist', 'ueq', 'npd', 'edit'):
        ctx.stream(s)
    for ci, q in bodies.items():
        check_body(ctx, as_written(cases[ci]), impls[ci], ans[q])
    for ci, (case, obs, r) in enumerate(zip(cases, impls, ans[:nreq])):
        if ci in finals and not (isinstance(obs, str) or 'error' in obs):
            eo = obs.get('edit')
            whole = not isinstance(eo, dict) or 'error' in eo       # the history itself failed: reported for the whole case
            for k, pc, st, q in (finals[ci][-1:] if whole else finals[ci]):
                o = eo if (whole or k == len(case['edits'])) else eo['steps'][k - 1]
                check_edits(ctx, pc, st, o, ans[q], ans[q + 1:q + 1 + len(st)])
        if isinstance(obs, dict) and obs.get('skipped0'):
            continue
        cls = case.get('cls', '?')
        obl = cell_tag(case)
        base = dict(cls=cls, cell=case['cell'], **({'via': case['via']} if 'via' in case else {}))
        if isinstance(obs, str) or 'error' in obs:
            ctx.fail(f'C12|parse|{cls}', f'generated valid file not read as expected: {obs}', dict(case=as_written(case), stream='cell', actual=obs),
                     kind='correspondence')
            continue

        def sub(idx, pairs=()):
            """the minimal case that reproduces an observation: the cell and the atoms involved"""
            if case.get('ctx'):     # instructions between the atoms act on everything behind them: the file stays whole
                w = as_written(case)
                return dict(base, atoms=w['atoms'], ctx=w['ctx'], pairs=[[idx[0], idx[1]]] if pairs else [])
            return dict(base, atoms=[case['atoms'][i] for i in idx], pairs=[list(p) for p in pairs])

        # ---- cell -------------------------------------------------------------------------------------
        ctx.count(['cell', case['cell']], nontrivial=obl == 'oblique', tags=['cell', 'class=' + cls, obl, 'read-via=' + case.get('via', 'string')],
                  sample=dict(stream='cell', cell=case['cell'], impl_V=obs['V'], spec_V=r['spec_V']))
        for name, got in (('volume', obs['V']), ('det', obs['det'])):
            pl = dict(case=sub([]), stream='cell', expected=r['spec_V'], actual=got, model=r['V'] if name == 'volume' else r['det'])
            resid('cell', got, r['spec_V'])
            if not close(got, r['spec_V']):
                ctx.fail(f'C12|cell|{name}|{obl}', f'{"CELL.volume" if name == "volume" else "det of the orthogonalisation matrix"} '
                         f'{got} is not the volume sqrt(det G) = {r["spec_V"]} of cell {case["cell"]}', pl)
            elif not close(got, pl['model']):
                ctx.fail(f'C12|cell|{name}|model', f'{name}: implementation {got}, model {pl["model"]}', pl, kind='correspondence')
        # ---- coordinates ------------------------------------------------------------------------------
        for i, (a, o, rp) in enumerate(zip(case['atoms'], obs['atoms'], r['pts'])):
            xyz = a['xyz']
            nz = sum(1 for t in xyz if t != 0)
            ctx.count(['cart', case['cell'], xyz, case.get('ctx')], nontrivial=obl == 'oblique' and nz >= 2, tags=['cart', obl] + ctx_tags(case),
                      sample=dict(stream='cart', cell=case['cell'], xyz=xyz, impl=o['cart'], spec=rp['spec_cart']) if obl == 'oblique' else None)
            for name, label in (('cart', 'Atom.cart_coords'), ('cart_shx', 'Shelxfile.frac_to_cart'), ('cart_misc', 'misc.frac_to_cart')):
                got = o[name]
                pl = dict(case=sub([i]), stream='cart', expected=rp['spec_cart'], actual=got,
                          model=rp['cart_misc'] if name == 'cart_misc' else rp['cart'])
                if not close3(got, rp['spec_cart']):
                    ctx.fail(f'C12|cart|{name}|{obl}', f'{label}({xyz}) = {got} in cell {case["cell"]}; conventional setting '
                             f'(a along x, b in xy) built from the metric tensor gives {rp["spec_cart"]}', pl)
                elif not close3(got, pl['model']):
                    ctx.fail(f'C12|cart|{name}|model', f'{label}: implementation {got}, model {pl["model"]}', pl, kind='correspondence')
            got = o['cart']
            if isinstance(got, list):
                ln = math.sqrt(sum(t * t for t in got))
                resid('cart-length', ln, rp['spec_len'])
                if not close(ln, rp['spec_len']):
                    ctx.fail(f'C12|cart|length|{obl}', f'|cart_coords({xyz})| = {ln}, metric tensor gives {rp["spec_len"]} in cell {case["cell"]}',
                             dict(case=sub([i]), stream='cart', expected=rp['spec_len'], actual=ln))
            for name, label, model in (('back_inv', 'OrthogonalMatrix.inversed * cart', rp['back_inv']),
                                       ('back_shx', 'shx.orthogonal_matrix.inversed * cart', rp['back_inv']),
                                       ('back_misc', 'misc.cart_to_frac(cart)', rp['back_misc'])):
                got = o[name]
                pl = dict(case=sub([i]), stream='cart', expected=xyz, actual=got, model=model)
                if not close3(got, xyz, tol=1e-9, rel=1e-9):
                    ctx.fail(f'C12|cart|{name}|{obl}', f'{label} = {got} does not map the Cartesian coordinates of {xyz} back '
                             f'(cell {case["cell"]})', pl)
        # ---- distances --------------------------------------------------------------------------------
        for (i, j), o, rp in zip(case['pairs'], obs['pairs'], r['pairs']):
            p1, p2 = case['atoms'][i]['xyz'], case['atoms'][j]['xyz']
            ctx.count(['dist', case['cell'], p1, p2], nontrivial=obl == 'oblique' and p1 != p2, tags=['dist', obl],
                      sample=dict(stream='dist', cell=case['cell'], p1=p1, p2=p2, impl=o['dist'], spec=rp['spec']) if obl == 'oblique' else None)
            pl = dict(case=sub([i, j], [[0, 1]]), stream='dist', expected=rp['spec'], actual=o['dist'], model=rp['dist'])
            resid('dist', o['dist'], rp['spec'])
            if not close(o['dist'], rp['spec']):
                ctx.fail(f'C12|dist|atomic_distance|{obl}', f'atomic_distance({p1}, {p2}) = {o["dist"]}, metric tensor gives {rp["spec"]} '
                         f'(cell {case["cell"]})', pl)
            elif not close(o['dist'], rp['dist']):
                ctx.fail('C12|dist|atomic_distance|model', f'atomic_distance: implementation {o["dist"]}, model {rp["dist"]}', pl, kind='correspondence')
            if not close(o['cdist'], rp['spec']):
                ctx.fail(f'C12|dist|cartesian|{obl}', f'distance of the Cartesian coordinates of {p1}, {p2} = {o["cdist"]}, metric tensor gives '
                         f'{rp["spec"]} (cell {case["cell"]})', dict(pl, actual=o['cdist']))
        # ---- displacement tensors ---------------------------------------------------------------------
        for i, (a, o, ru) in enumerate(zip(case['atoms'], obs['atoms'], r['us'])):
            u = a['u']
            kind = a.get('kind', '?')
            if len(u) == 1:
                ctx.count(['ueq', case['cell'], u], nontrivial=False, tags=['ueq', 'U=iso'])
                if not close(o['ueq'], u[0], 1e-12, 1e-12):
                    ctx.fail('C12|ueq|iso', f'isotropic atom with U = {u[0]}: ueq = {o["ueq"]}',
                             dict(case=sub([i]), stream='ueq', expected=u[0], actual=o['ueq']))
                continue
            offd = any(v != 0 for v in u[3:])
            cancel = (sum(u[2:]) == 0)
            tags = ['ueq', 'U=' + kind, obl] + (['U33+U23+U13+U12=0'] if cancel else [])
            ctx.count(['ueq', case['cell'], u], nontrivial=obl == 'oblique' and offd, tags=tags,
                      sample=dict(stream='ueq', cell=case['cell'], u=u, impl=o['ueq'], spec=ru['spec_ueq']) if obl == 'oblique' and offd else None)
            pl = dict(case=sub([i]), stream='ueq', expected=ru['spec_ueq'], actual=o['ueq'], model=ru['ueq_aniso'],
                      model_before_repair=ru['ueq_old'])
            resid('ueq', o['ueq'], ru['spec_ueq'])
            if not close(o['ueq'], ru['spec_ueq'], 1e-12, REL):
                sig = f'C12|ueq|aniso|{"sum-of-last-four-zero" if cancel else obl}'
                ctx.fail(sig, f'Ueq of U = {u} in cell {case["cell"]}: Atom.ueq = {o["ueq"]}, one third of the trace of the Cartesian '
                         f'tensor (1/3 Σ Uij a*i a*j ai·aj) is {ru["spec_ueq"]}', pl)
            elif not close(o['ueq'], ru['ueq_aniso'], 1e-12, REL):
                ctx.fail('C12|ueq|aniso|model', f'ueq: implementation {o["ueq"]}, model {ru["ueq_aniso"]}', pl, kind='correspondence')
            # positive definiteness: exact Sylvester test on the file values; the boundary band is not compared
            robust = ru['spec_pd_lo'] == ru['spec_pd_hi']
            want = not ru['spec_pd']
            ctx.count(['npd', case['cell'], u], nontrivial=robust, tags=['npd', 'U=' + kind,
                                                                        ('npd' if want else 'pd') if robust else 'boundary'],
                      sample=dict(stream='npd', cell=case['cell'], u=u, impl=o['npd'], spec_npd=want, minors=[float(m) for m in ru['minors']])
                      if robust and kind in ('indef', 'near', 'eqmod') else None)
            if not robust:
                continue
            pl = dict(case=sub([i]), stream='npd', expected=want, actual=o['npd'], model=ru['npd'],
                      minors=[str(m) for m in ru['minors']], model_before_repair=ru['npd_old'], qr_eigenvalues_before_repair=ru['eig_old'])
            if o['npd'] != want:
                ctx.fail(f'C12|npd|U={kind}|{"false-negative" if want else "false-positive"}|{obl}',
                         f'U = {u} (leading minors {[float(m) for m in ru["minors"]]}) is {"not " if want else ""}positive definite, '
                         f'Atom.is_npd() = {o["npd"]} (cell {case["cell"]})', pl)
            elif o['npd'] != ru['npd']:
                ctx.fail('C12|npd|model', f'is_npd: implementation {o["npd"]}, model {ru["npd"]} for U = {u}', pl, kind='correspondence')


def hist_request(case, a, i):
    """the model of the object under the same history: the edits that touch atom i, the cell changes, and an `ask` wherever
    the harness evaluates cell.o.inversed (first query before the edits unless prequery is False; after every edit with
    observe_each)"""
    ask = [dict(op='ask')]
    first = ask if case.get('prequery') is not False else []
    each = ask if case.get('observe_each') else []
    if a['orig'] is None:
        e0 = case['edits'][a['edit']]
        cell = case['cell']
        for e in case['edits'][:a['edit']]:
            if e['op'] == 'set_cell':
                cell = e['cell']
        later = []
        for e in case['edits'][a['edit'] + 1:]:
            if e['op'] == 'set_cell':
                later.append(dict(op='cell', cell=e['cell']))
            later += each
        return dict(p='C12', op='hist', cell=cell, xyz=e0['xyz'], u=e0['u'], new=True, edits=each + later)
    es = list(first)
    for e in case['edits']:
        if e['op'] == 'set_cell':
            es.append(dict(op='cell', cell=e['cell']))
        elif e['op'] == 'add_atom' or e['i'] != i:
            pass
        elif e['op'] in ('uvals', 'set_uvals'):
            es.append(dict(op=e['op'], u=e['u']))
        elif e['op'] == 'uvals_item':
            es.append(dict(op='item', k=e['k'], v=e['v']))
        elif e['op'] == 'to_isotropic':
            es.append(dict(op='uvals', u=[0.04, 0.0, 0.0, 0.0, 0.0, 0.0]))
        else:
            es.append(dict(op='frac', xyz=e['xyz']))
        es += each
    o = case['atoms'][a['orig']]
    return dict(p='C12', op='hist', cell=case['cell'], xyz=o['xyz'], u=u_full(o['u']), new=False, edits=es)


def check_edits(ctx, case, st, obs, r, hist):
    """second query after the edits: every atom against the spec on its CURRENT values"""
    cls = case.get('cls', '?')
    obl = cell_tag(case)
    edits = case['edits']

    def sub(idx):
        """minimal history: the atoms involved and the edits that touch them"""
        if case.get('ctx'):     # instructions between the atoms act on everything behind them: the file stays whole
            return dict(as_written(case), pairs=[])
        idx = list(dict.fromkeys(idx))
        keep = [i for i in idx if st[i]['orig'] is not None] or [0]
        remap = {i: k for k, i in enumerate(keep)}
        es = []
        for k, e in enumerate(edits):
            if e['op'] == 'set_cell':
                es.append(e)
            elif e['op'] == 'add_atom':
                if any(st[i].get('edit') == k for i in idx):
                    es.append(e)
            elif e['i'] in remap:
                es.append(dict(e, i=remap[e['i']]))
        sc = dict(cls=cls, cell=case['cell'], atoms=[case['atoms'][st[i]['orig']] for i in keep], pairs=[], edits=es)
        for key in ('prequery', 'preread', 'observe_each', 'via'):
            if key in case:
                sc[key] = case[key]
        return sc

    if isinstance(obs, str) or obs is None or 'error' in obs:
        ctx.fail(f'C12|edit|history|{obs if isinstance(obs, str) else "error"}'[:80],
                 f'history {edits} on the parsed atoms failed: {obs}', dict(case=dict(as_written(case), pairs=[]), stream='edit', actual=obs))
        return
    ops = sorted({e['op'] for e in edits})
    fcell = final_cell(case)
    cellby = '|cell-by=set' if 'set_cell' in ops else ''
    if 'set_cell' in ops:
        ctx.count(['edit-cell', case['cell'], edits, case.get('prequery', True)], nontrivial=True,
                  tags=['edit-cell', 'queried-before' if case.get('prequery', True) else 'not-queried-before'])
        if not close3(obs['cell'], fcell, 1e-12, 1e-12):
            ctx.fail('C12|edit|cell-by=set|cell', f'after {edits}: list(shx.cell) = {obs["cell"]}, the history says {fcell}',
                     dict(case=sub([]), stream='edit', expected=fcell, actual=obs['cell']))
            return
        for name, got in (('volume', obs['V']), ('det', obs['det'])):
            if not close(got, r['spec_V']):
                ctx.fail(f'C12|edit|cell-by=set|{name}', f'after {edits}: {"CELL.volume" if name == "volume" else "det of cell.o"} = {got}, '
                         f'the current cell {fcell} has volume {r["spec_V"]}', dict(case=sub([]), stream='edit', expected=r['spec_V'], actual=got))
    ctx.count(['edit', case['cell'], [a['xyz'] for a in case['atoms']], edits], nontrivial=True,
              tags=['edit'] + ['op=' + o for o in ops] + (['asked-after-every-edit'] if case.get('observe_each') else []),
              sample=dict(stream='edit', cell=case['cell'], edits=edits[:2], after=[dict(ueq=o['ueq'], npd=o['npd']) for o in obs['atoms'][:2]]))
    for i, (a, o, rp, ru, hm) in enumerate(zip(st, obs['atoms'], r['pts'], r['us'], hist)):
        tag = f'xyz-by={a["last_xyz"]}{cellby}'
        if [float(t) for t in hm['spec_frac']] != [float(t) for t in a['xyz']] or [float(t) for t in hm['spec_uvals']] != [float(t) for t in a['u']]:
            raise RuntimeError(f'harness and Lean spec disagree on what the history {edits} means for atom {i}: {hm} / {a}')
        if isinstance(o['cart'], list) and close3(o['cart'], rp['spec_cart']) and not close3(o['cart'], hm['cart']):
            ctx.fail('C12|edit|cart_coords|model', f'after {edits}: atom {i} cart_coords {o["cart"]}, model of the object {hm["cart"]}',
                     dict(case=sub([i]), stream='edit', expected=rp['spec_cart'], actual=o['cart'], model=hm['cart']), kind='correspondence')
        # coordinates
        if not close3(o['frac'], a['xyz'], 1e-12, 1e-12):
            ctx.fail(f'C12|edit|{tag}|frac_coords', f'after {edits}: atom {i} has frac_coords {o["frac"]}, the history says {a["xyz"]}',
                     dict(case=sub([i]), stream='edit', expected=a['xyz'], actual=o['frac']))
        elif not close3(o['cart'], rp['spec_cart']):
            ctx.fail(f'C12|edit|{tag}|cart_coords', f'after {edits}: atom {i} at {a["xyz"]} has cart_coords {o["cart"]}, the metric '
                     f'tensor reference for its current position is {rp["spec_cart"]} (cell {fcell})',
                     dict(case=sub([i]), stream='edit', expected=rp['spec_cart'], actual=o['cart'], model=hm['cart'],
                          model_before_repair=hm['cart_old']))
        for name, label in (('cart_shx', 'Shelxfile.frac_to_cart(frac_coords)'), ('cart_misc', 'misc.frac_to_cart(frac_coords, list(shx.cell))')):
            if close3(o['frac'], a['xyz'], 1e-12, 1e-12) and not close3(o[name], rp['spec_cart']):
                ctx.fail(f'C12|edit|{tag}|{name}', f'after {edits}: {label} of atom {i} at {a["xyz"]} = {o[name]}, the metric tensor '
                         f'reference for the current cell {fcell} is {rp["spec_cart"]}',
                         dict(case=sub([i]), stream='edit', expected=rp['spec_cart'], actual=o[name], model=hm['cart_shx'],
                              model_before_repair=hm['cart_shx_old']))
        # the inverse of the orthogonalisation maps the current Cartesian coordinates back to the current fractional ones
        if close3(o['frac'], a['xyz'], 1e-12, 1e-12) and close3(o['cart'], rp['spec_cart']):
            for name, label in (('back_inv', 'shx.cell.o.inversed * cart_coords'), ('back_shx', 'shx.orthogonal_matrix.inversed * cart_coords'),
                                ('back_misc', 'misc.cart_to_frac(cart_coords, list(shx.cell))')):
                if not close3(o[name], a['xyz'], 1e-9, 1e-9):
                    ctx.fail(f'C12|edit|{tag}|{name}', f'after {edits}: {label} of atom {i} = {o[name]} does not map its Cartesian '
                             f'coordinates {o["cart"]} back to its fractional coordinates {a["xyz"]} (current cell {fcell})',
                             dict(case=sub([i]), stream='edit', expected=a['xyz'], actual=o[name], model=hm['back_inv']))
                elif name != 'back_misc' and not close3(o[name], hm['back_inv'], 1e-9, 1e-9):
                    ctx.fail(f'C12|edit|{name}|model', f'after {edits}: {label} of atom {i} = {o[name]}, model of the object {hm["back_inv"]}',
                             dict(case=sub([i]), stream='edit', expected=a['xyz'], actual=o[name], model=hm['back_inv']), kind='correspondence')
        # Ueq
        u = a['u']
        iso = not any(u[2:]) and u[0] > 0
        want = u[0] if iso else ru['spec_ueq']
        tag = f'U-by={a["last_u"]}{cellby}'
        if not any(u[1:]) and not iso:
            pass        # all-zero / negative isotropic value: outside the statement
        elif not close(o['ueq'], want, 1e-12, REL):
            ctx.fail(f'C12|edit|{tag}|ueq', f'after {edits}: atom {i} has U = {u}, Atom.ueq = {o["ueq"]}, one third of the trace of the '
                     f'Cartesian tensor of its current U is {want} (cell {fcell})',
                     dict(case=sub([i]), stream='edit', expected=want, actual=o['ueq'], model=ru['ueq_aniso']))
        # positive definiteness (six values written, away from the boundary)
        if any(u[2:]) and ru['spec_pd_lo'] == ru['spec_pd_hi']:
            wnpd = not ru['spec_pd']
            if o['npd'] != wnpd:
                ctx.fail(f'C12|edit|{tag}|npd|{"false-negative" if wnpd else "false-positive"}',
                         f'after {edits}: atom {i} has U = {u} which is {"not " if wnpd else ""}positive definite, Atom.is_npd() = {o["npd"]} '
                         f'(cell {fcell})', dict(case=sub([i]), stream='edit', expected=wnpd, actual=o['npd'], model=ru['npd']))
    n = len(st)
    for i, (o, rp) in enumerate(zip(obs['pairs'], r['pairs'])):
        j = (i + 1) % n
        lasts = sorted({st[i]['last_xyz'], st[j]['last_xyz']})
        lasts[-1] += cellby
        for name in ('dist', 'cdist'):
            if not close(o[name], rp['spec']):
                ctx.fail(f'C12|edit|xyz-by={"+".join(lasts)}|{name}', f'after {edits}: distance of atoms {i}, {j} '
                         f'({"atomic_distance of their frac_coords" if name == "dist" else "from their cart_coords"}) = {o[name]}, '
                         f'metric tensor gives {rp["spec"]} for their current positions (cell {fcell})',
                         dict(case=sub([i, j]), stream='edit', expected=rp['spec'], actual=o[name]))


# ------------------------------------------------------------------------------------------------
# functions the hand-written model mirrors, with the digest (extract.digest: normalised AST, docstrings stripped) they had
# when the model was written (= the tree with fixes/C12_1..5 applied). A different digest is not a violation: it only
# raises the number of generated cases of a quick run (DESIGN 3.1), so that edited code gets the most scrutiny.

MIRRORED = {
    'shelxfile/misc/dsrmath.py::OrthogonalMatrix.__init__': '3c31918c769b9a21',
    'shelxfile/misc/dsrmath.py::OrthogonalMatrix.__mul__': '16dd3aa1c9d4bfc7',
    'shelxfile/misc/dsrmath.py::OrthogonalMatrix.inversed': '24e5b8d9ebfd69dd',
    'shelxfile/misc/dsrmath.py::Matrix.__mul__': '181c8671b32b8e5b',
    'shelxfile/misc/dsrmath.py::Matrix.dot': 'fa90cb2a008d892c',
    'shelxfile/misc/dsrmath.py::Matrix.transposed': '8b8dea909310ee27',
    'shelxfile/misc/dsrmath.py::Matrix.inversed': '8126644553a4d080',
    'shelxfile/misc/dsrmath.py::Matrix.det': '9719f7b4d4721ea3',
    'shelxfile/misc/dsrmath.py::Matrix.trace': '718bc41772e950b2',
    'shelxfile/misc/dsrmath.py::vol_unitcell': '721b2f3941e15b4d',
    'shelxfile/misc/dsrmath.py::atomic_distance': '3f49d34ea92faad4',
    'shelxfile/misc/misc.py::frac_to_cart': '8f45ec6431309cf4',
    'shelxfile/misc/misc.py::cart_to_frac': '739a9d694e37001f',
    'shelxfile/misc/misc.py::determinante': '4f92b5591c938547',
    'shelxfile/shelx/cards.py::CELL.__init__': 'c3ace7d5b0be17cc',
    'shelxfile/shelx/cards.py::CELL.volume': '0272221be2bf80e7',
    'shelxfile/atoms/atom.py::Atom.ustar': '7e22a78d8571f922',
    'shelxfile/atoms/atom.py::Atom.u_cart': '017ab2676bca573f',
    'shelxfile/atoms/atom.py::Atom.set_ueq': 'f63c1b694665e086',
    'shelxfile/atoms/atom.py::Atom.set_ucif': '3a3ebd1f1cb46f8f',
    'shelxfile/atoms/atom.py::Atom.is_npd': '82923b79b21f071d',
    'shelxfile/shelx/shelx.py::Shelxfile.frac_to_cart': '624ca994a0bda9b9',
    'shelxfile/atoms/atom.py::Atom.ucif': '3ff4db41714bd6c8',
    'shelxfile/atoms/atom.py::Atom.ueq': '318fec78ade17c79',
    'shelxfile/atoms/atom.py::Atom.frac_coords': 'b99776f14c0a82f4',
    'shelxfile/atoms/atom.py::Atom.cart_coords': '9bfa7000966b6d15',
    'shelxfile/atoms/atom.py::Atom.to_isotropic': '1eecb9251fe637d1',
    'shelxfile/atoms/atom.py::Atom.set_uvals': 'a5b2c8db88557538',
    'shelxfile/atoms/atom.py::Atom.set_atom_parameters': '2fa34292756ea040',
    'shelxfile/shelx/shelx.py::Shelxfile.add_atom': 'e9a7ca4d05f25b33',
    'shelxfile/shelx/cards.py::CELL.set': 'c19791ac89045ee8',
    'shelxfile/shelx/cards.py::Command.set': 'd428573338c56f3f',
}


def mirrored_changed():
    try:
        import sys
        if str(core.VERIF / 'extract') not in sys.path:
            sys.path.insert(0, str(core.VERIF / 'extract'))
        import extract  # type: ignore
        _, changed = extract.compute_digests(core.REPO, {q: dict(digest=d, props=['C12']) for q, d in MIRRORED.items()})
        return sorted(changed)
    except Exception as e:  # the digests are an optimisation of the budget, never a verdict
        return [f'(digests not computed: {e!r})']


def flat_cases(rng):
    """every decade 1e-3 … 1e-9 x (at, just below, just above) x (one component / all four) for |U33|+|U23|+|U13|+|U12|, in
    files of two different cell classes; then the same magnitudes through every editing route"""
    cases = []
    for n, d in enumerate(DECADES):
        us = [('flat', flat_u(rng, d * f, spread)) for f in NEXT_TO for spread in (1, 4)]
        for cls in ('orthorhombic', CLASSES[n % len(CLASSES)] if CLASSES[n % len(CLASSES)] not in ('orthorhombic', 'cubic', 'tetragonal') else 'triclinic'):
            cases.append(make_case(rng, cls, us=us))
    routes = ['uvals', 'set_uvals', 'uvals_item', 'add_atom']
    for n, d in enumerate(DECADES):
        for r, op in enumerate(routes):
            f = NEXT_TO[(n + r) % 3]
            c = make_case(rng, 'triclinic' if (n + r) % 2 else 'monoclinic', ukinds=['pd', 'diag'])
            iso = [round(rng.uniform(0.01, 0.2), 5), 0.0, 0.0, 0.0, 0.0, 0.0]
            if op == 'uvals_item':      # an isotropic atom gets one tiny component
                c['edits'] = [dict(op='uvals', i=0, u=iso), dict(op='uvals_item', i=0, k=2 + (n + r) % 4, v=round(d * f, 13))]
            elif op == 'add_atom':
                c['edits'] = [dict(op='add_atom', xyz=[rcoord(rng), rcoord(rng), rcoord(rng)], u=flat_u(rng, d * f, 1 + (n + r) % 4))]
            else:
                c['edits'] = [dict(op=op, i=0, u=flat_u(rng, d * f, 1 + (n + r) % 4))]
            if (n + r) % 3 == 0:
                c['prequery'] = False
            cases.append(c)
    return cases


def cell_history_cases(rng):
    """the cell changed in place twice with a move of an atom in between, for every class of the first cell x asked before /
    not asked before x asked after every edit / only at the end; the first change is to an unrelated cell or to one that keeps
    part of the six numbers (only angles / only lengths / one parameter differ, two lengths exchanged), the second likewise"""
    cases = []
    hows = [None] + CELL_VARIANTS
    for n, cls in enumerate(CLASSES):
        for pre in (True, False):
            for each in (True, False):
                c = make_case(rng, cls)
                k = n + 2 * pre + each
                h1, h2 = hows[k % 5], hows[(k // 5 + k + 2) % 5]
                c1 = vary_cell(rng, c['cell'], h1) if h1 else make_cell(rng, CLASSES[(n + 3) % len(CLASSES)])
                c2 = vary_cell(rng, c1, h2) if h2 else make_cell(rng, 'triclinic')
                c['edits'] = [dict(op='set_cell', cell=c1),
                              dict(op='frac_coords', i=0, xyz=[rcoord(rng), rcoord(rng), rcoord(rng)]),
                              dict(op='set_cell', cell=c2)]
                if not pre:
                    c['prequery'] = False
                if each:
                    c['observe_each'] = True
                cases.append(c)
    return cases


def run(ctx):
    ctx.rule = ('generated files: one CELL (triclinic, monoclinic in each setting, orthorhombic, tetragonal, hexagonal with gamma = 120, '
                'rhombohedral, cubic; a, b, c in [2, 100]; volume radicand > 0.02), 3-6 atoms with coordinates in [-2, 2] and U tensors '
                '(positive definite, indefinite incl. Cartesian eigenvalues of equal magnitude and opposite sign, negative definite, nearly '
                'singular on either side, singular, an exactly singular 2x2 principal block in an indefinite tensor, diagonal, isotropic, six '
                'values whose last four sum to 0, U33 U23 U13 U12 tiny but not all zero with absolute sums at and next to 1e-3 … 1e-9); '
                'histories of edits incl. in-place cell changes, observed at the end or after every edit; '
                'distinct by (cell, coordinates or U); non-trivial = at least one angle differs from 90 '
                '(and, for tensors, a non-zero off-diagonal U; for is_npd, the tensor is outside the 1e-9 boundary band)')
    ctx.assumptions = ['math.cos/sin/sqrt satisfy their algebraic relations up to rounding (hypotheses ValidCell, IsSqrt of the theorems)',
                       'the QR iteration of misc.eigenvals is not proved convergent: its sign pattern is certified per case against the '
                       'exact Sylvester test (Rat)',
                       'tensors within a relative 1e-9 of singular are not compared for is_npd',
                       'exact arithmetic in the theorems; float residuals are bounded by the 1e-9 comparison of every case']
    changed = mirrored_changed()
    if changed:
        ctx.note('mirrored source differs from the tree the model was written against: ' + ', '.join(changed))
        ctx.extra['mirrored_functions_changed'] = changed
    thorough = ctx.tier == 'thorough'
    n = 40000 if thorough else (3000 if (changed or ctx.escalated) else 600)
    cases = []
    for cls in CLASSES:          # every class in every run
        for _ in range(3):
            cases.append(make_case(ctx.rng, cls))
    if thorough or changed or ctx.escalated:
        # grid of special angles (sign errors of a cosine term show at obtuse/acute pairs)
        grid = [60.0, 75.0, 90.0, 105.0, 120.0]
        for al in grid:
            for be in grid:
                for ga in grid:
                    if radicand(al, be, ga) > 0.02:
                        c = make_case(ctx.rng, 'triclinic')
                        c['cell'] = c['cell'][:3] + [al, be, ga]
                        c['cls'] = 'grid'
                        cases.append(c)
        ctx.extra['grid'] = 'all angle triples from {60, 75, 90, 105, 120} with positive volume'
    cases += flat_cases(ctx.rng)             # small systematic enumerations first (part of every run) …
    cases += cell_history_cases(ctx.rng)
    cases += ctx_cases(ctx.rng)
    for k in range(n):                       # … random cases after
        cases.append(make_case(ctx.rng))
        if k % 10 == 0:
            cases[-1]['via'] = 'file'
        if k % 5 == 1:                       # instructions between the atoms (MOVE, PART, RESI, AFIX, restraints, …)
            add_ctx(ctx.rng, cases[-1])
    for _ in range(8000 if thorough else (1000 if (changed or ctx.escalated) else 500)):     # the class on which an unshifted eigenvalue iteration is slow
        cases.append(make_case(ctx.rng, ukinds=['eqmod']))
    for _ in range(4000 if thorough else (1200 if (changed or ctx.escalated) else 600)):      # a minor that is zero up to rounding
        cases.append(make_case(ctx.rng, ukinds=['blocksing']))
    for _ in range(20000 if thorough else (1500 if (changed or ctx.escalated) else 400)):   # histories on the parsed objects
        c = make_case(ctx.rng)
        c['edits'] = make_edits(ctx.rng, c)
        if ctx.rng.random() < 0.3:
            c['prequery'] = False          # the edits come before anything is asked
        if len(c['edits']) > 1 and ctx.rng.random() < 0.4:
            c['observe_each'] = True       # … and everything is asked again after every single edit
        if ctx.rng.random() < 0.1:
            c['via'] = 'file'
        if ctx.rng.random() < 0.2:
            add_ctx(ctx.rng, c)
        if ctx.rng.random() < 0.15:
            # the object has read another cell before (unrelated, or sharing part of the six numbers)
            c['preread'] = make_cell(ctx.rng, ctx.rng.choice(CLASSES)) if ctx.rng.random() < 0.5 else vary_cell(ctx.rng, c['cell'])
        cases.append(c)
    for i in range(0, len(cases), 400):
        evaluate(ctx, cases[i:i + 400])
    ctx.extra['max_relative_difference_impl_vs_metric_reference'] = dict(RESID)
